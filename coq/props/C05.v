(* C05 - Supervisor: each reload request yields exactly one serialized in-order pass.
   Statements only. *)
From Coq Require Import List Bool Arith.
From GS Require Import LTS Supervisor SupAccept SupProps SupInv SupReload.
Import ListNotations.

(* In every execution the Reload() calls and returns are a prefix of (one full pass)^k, where a
   full pass is ReloadCall i; ReloadRet i for every Reloadable i in registration order: passes
   never overlap, each calls Reload exactly once on every Reloadable, in order, and never on a
   runnable that is not Reloadable. *)
Theorem C05_shape : forall c ls s,
  run (step c) (init c) ls = Some s -> c05_shape c (obs_trace obs ls) = true.
Proof. exact sup_c05_shape. Qed.

(* No request is lost while the supervisor runs: in a quiescent state with an idle reload manager
   there is no pending SIGHUP sender, no trigger listener waiting to forward, and no ReloadAll()
   caller still blocked. *)
Theorem C05_no_loss : forall c s,
  quiescent c s = true -> rm s = RmIdle ->
  hup s = 0 /\
  (forall i, i < nrun c -> get LsAbsent (rls s) i <> LsFwd) /\
  (forall k cs, In (k, OpReloadAll, cs) (callers s) -> find_caller k (callers s) <> Some (OpReloadAll, CPending)).
Proof. exact sup_c05_no_loss. Qed.

(* A reload never stops a runnable and never makes Run() return. *)
Theorem C05_frame : forall c s l s',
  is_reload_label l = true -> step c s l = Some s' ->
  sd s' = sd s /\ main s' = main s /\ rn s' = rn s /\ stop_called s' = stop_called s /\
  own_cancel s' = own_cancel s.
Proof. exact sup_c05_frame. Qed.

Print Assumptions C05_shape.
Print Assumptions C05_no_loss.
Print Assumptions C05_frame.

Definition c05_spec (r : bool) : rspec :=
  {| stateable := false; reloadable := r; rsender := false; ssender := false;
     stop_style := StopNonBlocking; run_exit := ExitOnSignal; held_sub := false |}.
Definition c05_cfg : config :=
  {| specs := [c05_spec true; c05_spec false; c05_spec true];
     startup_may_fire := false; shutdown_may_fire := false |}.
Definition c05_sched : list label :=
  [LCall 1 OpReloadAll; LRmAccept (SndCaller 1); LRet 1 OpReloadAll;
   LReloadCall 0; LReloadRet 0; LReloadCall 2; LReloadRet 2].
Example C05_ex_schedule :
  exists s, run (step c05_cfg) (init c05_cfg) c05_sched = Some s /\
            reload_evs (obs_trace obs c05_sched) = one_pass c05_cfg /\ passes s = 1.
Proof. eexists. split; [vm_compute; reflexivity|]. split; vm_compute; reflexivity. Qed.
Example C05_ex_rejects_non_reloadable :
  c05_shape c05_cfg [EReloadCall 0; EReloadRet 0; EReloadCall 1] = false.
Proof. vm_compute. reflexivity. Qed.
Example C05_ex_rejects_overlap :
  c05_shape c05_cfg [EReloadCall 0; EReloadCall 0] = false.
Proof. vm_compute. reflexivity. Qed.
