(* C05 - Supervisor: each reload request yields exactly one serialized in-order pass.
   Statements only. *)
From Coq Require Import List Bool Arith.
From GS Require Import LTS Supervisor SupAccept SupProps SupInv SupReload SupCount.
Import ListNotations.

(* In every execution the Reload() calls and returns are a prefix of (one full pass)^k, where a
   full pass is ReloadCall i; ReloadRet i for every Reloadable i in registration order: passes
   never overlap, each calls Reload exactly once on every Reloadable, in order, and never on a
   runnable that is not Reloadable. *)
Theorem C05_shape : forall c ls s,
  run (step c) (init c) ls = Some s -> c05_shape c (obs_trace obs ls) = true.
Proof. exact sup_c05_shape. Qed.

(* No request is lost while the supervisor runs: in a quiescent state with an idle reload manager
   there is no pending SIGHUP sender, no trigger listener waiting to forward, and no ReloadAll()
   caller still blocked. *)
Theorem C05_no_loss : forall c s,
  quiescent c s = true -> rm s = RmIdle ->
  hup s = 0 /\
  (forall i, i < nrun c -> get LsAbsent (rls s) i <> LsFwd) /\
  (forall k cs, In (k, OpReloadAll, cs) (callers s) -> find_caller k (callers s) <> Some (OpReloadAll, CPending)).
Proof. exact sup_c05_no_loss. Qed.

(* A reload never stops a runnable and never makes Run() return. *)
Theorem C05_frame : forall c s l s',
  is_reload_label l = true -> step c s l = Some s' ->
  sd s' = sd s /\ main s' = main s /\ rn s' = rn s /\ stop_called s' = stop_called s /\
  own_cancel s' = own_cancel s.
Proof. exact sup_c05_frame. Qed.

Print Assumptions C05_shape.
Print Assumptions C05_no_loss.
Print Assumptions C05_frame.

Definition c05_spec (r : bool) : rspec :=
  {| stateable := false; reloadable := r; rsender := false; ssender := false;
     stop_style := StopNonBlocking; run_exit := ExitOnSignal; held_sub := false |}.
Definition c05_cfg : config :=
  {| specs := [c05_spec true; c05_spec false; c05_spec true];
     startup_may_fire := false; shutdown_may_fire := false |}.
Definition c05_sched : list label :=
  [LRunEnter; LRunEntered; LCall 1 OpReloadAll; LRmAccept (SndCaller 1); LRet 1 OpReloadAll;
   LReloadCall 0; LReloadRet 0; LReloadCall 2; LReloadRet 2].
Example C05_ex_schedule :
  exists s, run (step c05_cfg) (init c05_cfg) c05_sched = Some s /\
            reload_evs (obs_trace obs c05_sched) = one_pass c05_cfg /\ passes s = 1.
Proof. eexists. split; [vm_compute; reflexivity|]. split; vm_compute; reflexivity. Qed.
Example C05_ex_rejects_non_reloadable :
  c05_shape c05_cfg [EReloadCall 0; EReloadRet 0; EReloadCall 1] = false.
Proof. vm_compute. reflexivity. Qed.
Example C05_ex_rejects_overlap :
  c05_shape c05_cfg [EReloadCall 0; EReloadCall 0] = false.
Proof. vm_compute. reflexivity. Qed.

(* ---- counting ---- *)

(* No request is duplicated: in every execution the number of passes begun (first Reload() call of
   a pass) never exceeds the number of requests made so far (ReloadAll() calls, SIGHUP SendSignal
   calls, ReloadSender triggers). *)
Theorem C05_no_dup : forall c ls s,
  run (step c) (init c) ls = Some s -> c05_no_dup c (obs_trace obs ls) = true.
Proof. exact sup_c05_no_dup. Qed.

(* Exact accounting in every reachable state: the rendezvous completed on the reload channel
   (passes s) are exactly the passes begun plus the one accepted pass whose first Reload() call is
   still due; and rendezvous plus the requests still on their way (callers inside ReloadAll() or
   SendSignal(SIGHUP), queued SIGHUPs, `go ReloadAll()` goroutines, unreceived trigger offers,
   listeners about to forward) never exceed the requests made. *)
Theorem C05_count : forall c s,
  reachable_sup c s ->
  passes s = passes_begun c (rev (hist s)) + due c s /\
  passes s + pending_requests s <= requests_upper (rev (hist s)).
Proof. exact sup_c05_count. Qed.

(* Each rendezvous is accepted by an idle manager only, consumes exactly one request on its way
   and starts exactly one pass (at the first Reloadable), without any visible event of its own. *)
Theorem C05_accept_one : forall c s w s',
  step c s (LRmAccept w) = Some s' ->
  rm s = RmIdle /\ rm s' = rm_after c 0 /\ passes s' = S (passes s) /\
  pending_requests s = S (pending_requests s') /\ hist s' = hist s.
Proof. exact sup_c05_accept_one. Qed.

Print Assumptions C05_no_dup.
Print Assumptions C05_count.
Print Assumptions C05_accept_one.

(* non-vacuity: three requests from the three sources, two accepted so far; one still on its way *)
Definition c05_cfg3 : config :=
  {| specs := [ {| stateable := false; reloadable := true; rsender := true; ssender := false;
                   stop_style := StopNonBlocking; run_exit := ExitOnSignal; held_sub := false |} ];
     startup_may_fire := false; shutdown_may_fire := false |}.
Definition c05_sched3 : list label :=
  [LRunEnter; LRunEntered; LLaunch 0; LCall 1 OpReloadAll; LCall 2 (OpSignal SigHup); LTrigR 0; LSigPut 2; LReapSig;
   LRmAccept SndHup; LReloadCall 0; LReloadRet 0; LTrigRecvR 0; LRmAccept (SndListener 0)].
Example C05_ex_count :
  exists s, run (step c05_cfg3) (init c05_cfg3) c05_sched3 = Some s /\
            passes s = 2 /\ passes_begun c05_cfg3 (rev (hist s)) = 1 /\ due c05_cfg3 s = 1 /\
            pending_requests s = 1 /\ requests_upper (rev (hist s)) = 3.
Proof.
  eexists. split; [vm_compute; reflexivity|]. split; [vm_compute; reflexivity|].
  split; [vm_compute; reflexivity|]. split; [vm_compute; reflexivity|]. split; vm_compute; reflexivity.
Qed.
Example C05_ex_rejects_unrequested_pass :
  c05_no_dup c05_cfg [ECall 1 OpReloadAll; EReloadCall 0; EReloadRet 0; EReloadCall 2; EReloadRet 2; EReloadCall 0] = false.
Proof. vm_compute. reflexivity. Qed.
