(* C08 — bundled runnables: state stream is valid, ordered and agrees with Run()'s result.
   This file contains only statements; every proof is `exact <lemma>`.

   Models: model/Fsm.v (finitestate.Machine = go-fsm v2 machine + broadcast manager + forwarder),
   model/FsmRunners.v (composite / httpserver / httpcluster reduced to their machine calls),
   gen/FsmTable.v (the transition table dumped from the linked go-fsm on every run).
   [creach]/[hreach]/[kreach] s: s is reached by SOME schedule (label list) of the runner model —
   the theorems quantify over all of them: every interleaving of Run with any number of Stop, Reload,
   cancel calls, injected child/server/boot failures and callback errors, any number of subscribers
   created at any time, any consumer speed (a subscriber with [dropped = false] is one on which no
   broadcast timed out). *)
From Coq Require Import List Arith NArith Bool.
From GS Require Import LTS Fsm FsmTable FsmRunners FsmBase FsmGraph FsmWalk FsmStream FsmResult FsmMain FsmExtra FsmCandidate.
Import ListNotations.

(* ---------------- the lifecycle graph (re-checked against the regenerated table) ------------- *)

Theorem C08_graph_documented : forall a b, allowedb fsm_cfg a b = documented a b.
Proof. exact table_is_documented. Qed.

(* The edges of the dumped table that are NOT edges of the documented lifecycle are exactly the eleven
   of [out_of_turn_edges]: entering Error from every state except Unknown (7), leaving Error towards
   Stopping / Stopped (2), Stopped -> New (restart) and Unknown -> Unknown.  So "only Error may be
   ENTERED out of turn" holds of the table only up to the four listed non-Error edges; the runners
   never use the last two (C08_walk_strict). *)
Theorem C08_graph_out_of_turn_edges : forall a b,
  allowedb fsm_cfg a b && negb (lifecycle_edge a b) = in_edges a b out_of_turn_edges.
Proof. exact out_of_turn_exact. Qed.

Theorem C08_graph_lifecycle_present : forall a b, lifecycle_edge a b = true -> allowedb fsm_cfg a b = true.
Proof. exact lifecycle_in_table. Qed.

Theorem C08_graph_error_from_everywhere : forall a, a <> Unknown -> allowedb fsm_cfg a Error = true.
Proof. exact error_from_everywhere. Qed.

Theorem C08_graph_stopped_reachable : forall a, a <> Unknown -> reachb 4 a Stopped = true.
Proof. exact stopped_reachable. Qed.

Theorem C08_graph_new_incoming : forall a, allowedb fsm_cfg a New = true -> a = Stopped.
Proof. exact new_incoming. Qed.

Theorem C08_graph_running_incoming : forall a, allowedb fsm_cfg a Running = true -> a = Booting \/ a = Reloading.
Proof. exact running_incoming. Qed.

Theorem C08_graph_stopped_incoming : forall a, allowedb fsm_cfg a Stopped = true -> a = Stopping \/ a = Error.
Proof. exact stopped_incoming. Qed.

Theorem C08_graph_error_is_state : has_state fsm_cfg Error = true.
Proof. exact error_is_state. Qed.

(* ---------------- C08_walk ---------------- *)
(* In every reachable state of each runner model the history of machine states (every value ever
   stored, in order, starting from New) is a walk in the table in which every step that is not in
   the table targets Error, and the current state is its last element. *)

Theorem C08_walk_composite : forall s, creach s ->
  walk fsm_cfg New (hist (rm s)) /\ cur (rm s) = last (hist (rm s)) New.
Proof. exact walk_composite_spec. Qed.

Theorem C08_walk_http : forall s, hreach s ->
  walk fsm_cfg New (hist (rm s)) /\ cur (rm s) = last (hist (rm s)) New.
Proof. exact walk_http_spec. Qed.

Theorem C08_walk_cluster : forall s, kreach s ->
  walk fsm_cfg New (hist (rm s)) /\ cur (rm s) = last (hist (rm s)) New.
Proof. exact walk_cluster_spec. Qed.

(* Sharper, and what the English says for the runners: every step of the history is an edge of the
   documented lifecycle, or enters Error, or leaves Error towards Stopping / Stopped (the shutdown of a
   failed runner - the one kind of step that is neither "in turn" nor "entering Error").  The table's
   Stopped -> New and Unknown -> Unknown are never taken. *)
Theorem C08_walk_strict :
  (forall s, creach s -> walkb runner_edge New (hist (rm s)) = true) /\
  (forall s, hreach s -> walkb runner_edge New (hist (rm s)) = true) /\
  (forall s, kreach s -> walkb runner_edge New (hist (rm s)) = true).
Proof. exact strict_walks. Qed.

(* the machine alone, for any program of calls whose SetState calls all target Error *)
Theorem C08_walk_machine : forall ls s,
  (forall o ok, In (LOp o ok) ls -> op_fine o = true) ->
  run (step fsm_cfg) init ls = Some s ->
  walk_okb fsm_cfg New (hist s) = true /\ cur s = last (hist s) New.
Proof. exact (machine_walk fsm_cfg). Qed.

(* ---------------- C08_isrunning ---------------- *)
(* IsRunning() can return b in a state iff b = (state = Running); it changes nothing.
   DEFINITIONAL: this is the guard of the label [LIsRun] in model/Fsm.v read back (all three runners
   implement IsRunning as GetState() == Running); it is tied to the code only by the dynamic poll check. *)
Theorem C08_isrunning : forall s b s',
  step fsm_cfg s (LIsRun b) = Some s' <-> (b = is_running (cur s) /\ s' = s).
Proof. exact isrunning_machine. Qed.

(* With content: the two observation channels agree.  For a registered subscriber that keeps up and
   whose pipeline is drained (nothing in the wrapped channel, the forwarder's hand, the manager channel
   or a pending broadcast), IsRunning() answers true exactly when the LAST value it received is Running. *)
Theorem C08_isrunning_stream : forall s i x b s',
  mreach s -> nth_error (subs s) i = Some x -> dropped x = false -> sg x = SLive -> unsub x = false ->
  wch x = [] -> hand x = None -> bch x = [] -> memn i (pend s) = false ->
  (step fsm_cfg s (LIsRun b) = Some s' <-> (b = is_running (last (got x) New) /\ s' = s)).
Proof. exact isrunning_stream. Qed.

(* ---------------- C08_stream ---------------- *)
(* What the code guarantees (all schedules): a subscriber on which no broadcast timed out has
   received a prefix of   s0 :: (all changes after its registration, in order)
   where the registration happened after [reg_at] changes and s0 is the state after [read_at] >= reg_at
   changes, both instants inside its GetStateChan call. *)
Theorem C08_stream : forall s i x,
  mreach s -> nth_error (subs s) i = Some x -> dropped x = false -> sg x = SLive ->
  reg_at x <= read_at x /\ read_at x <= length (hist s) /\
  exists rest, expected_stream (hist s) (reg_at x) (read_at x) (endp (length (hist s)) x) = got x ++ rest.
Proof. exact stream_machine. Qed.

(* ... for the machine inside each runner *)
Theorem C08_stream_runners :
  (forall s, creach s -> mreach (rm s)) /\ (forall s, hreach s -> mreach (rm s)) /\
  (forall s, kreach s -> mreach (rm s)).
Proof. exact machines_reachable. Qed.

(* The channel is closed only after the subscriber's context was cancelled; when the consumer sees
   the close it has received the complete stream up to its un-registration - provided nothing was
   dropped for it ([dropped x = false]).  [dropped] is set by a broadcast timeout (consumer slower than
   5 s) and, since the forwarder repair of C18 (send-or-ctx.Done), also when the forwarder discards a
   value AFTER the cancel because the wrapped channel is full (consumer not reading any more): a
   cancelled subscriber that stopped reading gets a shorter stream, one that keeps reading gets
   everything (the forwarder prefers the send and only gives a value up when it would block). *)
Theorem C08_stream_closed : forall s i x,
  mreach s -> nth_error (subs s) i = Some x -> gotclosed x = true ->
  cancelled x = true /\ unsub x = true /\
  (dropped x = false -> got x = expected_stream (hist s) (reg_at x) (read_at x) (unsub_at x)).
Proof. exact stream_closed_machine. Qed.

(* A subscriber that keeps up loses nothing: everything it is owed has been received or is in flight
   (wrapped channel, forwarder's hand, manager channel, broadcast in progress), in order. *)
Theorem C08_stream_in_flight : forall s i x,
  mreach s -> nth_error (subs s) i = Some x -> dropped x = false -> sg x = SLive ->
  got x ++ wch x ++ olist (hand x) ++ bch x ++ (if memn i (pend s) then [cur s] else []) =
  expected_stream (hist s) (reg_at x) (read_at x) (endp (length (hist s)) x).
Proof. exact stream_in_flight_machine. Qed.

Theorem C08_stream_closed_only_after_cancel : forall s i x,
  mreach s -> nth_error (subs s) i = Some x -> wclosed x = true -> cancelled x = true.
Proof. exact closed_after_cancel_machine. Qed.

(* After the cancel the subscriber's pipeline is never stuck before the consumer has seen the close
   (while the machine is not inside a broadcast, which the cleanup goroutine has to wait out). *)
Theorem C08_stream_close_progress : forall s i x,
  mreach s -> nth_error (subs s) i = Some x ->
  cancelled x = true -> sg x = SLive -> gotclosed x = false ->
  (unsub x = false -> pend s = []) ->
  exists l, In l (pipeline_labels i) /\ step fsm_cfg s l <> None.
Proof. exact close_progress_machine. Qed.

(* The property as stated, when at most one state change falls between the subscriber's registration
   and its read of the state (both inside its GetStateChan call).  Exactly:
   - no change in that window: the stream is  s0 :: later  (s0 the state read, later = every later change);
   - one change in that window: that change's value arrives TWICE - once as the state read, once as its
     broadcast -  s0 :: s0 :: later  (unless the subscriber was un-registered before that change: [s0]).
   The duplicate is NOT the finding stream:stale-replay (that needs two changes in the window, see
   C08_stream_refuted); it is the "subscribe, then read" window of the code with ONE change in it.  It is a
   repeated value, not a state change: a consumer that ignores a repeated first value sees exactly
   s0 :: later, which is a walk (C08_stream_later_walk).  The claim text says so. *)
Theorem C08_stream_partial : forall s i x,
  mreach s -> nth_error (subs s) i = Some x -> dropped x = false -> sg x = SLive ->
  read_at x <= S (reg_at x) ->
  let u := endp (length (hist s)) x in
  let s0 := state_at (hist s) (read_at x) in
  let later := segment (hist s) (read_at x) u in
  exists rest,
    (read_at x = reg_at x -> got x ++ rest = s0 :: later) /\
    (read_at x = S (reg_at x) -> reg_at x < u -> got x ++ rest = s0 :: s0 :: later) /\
    (read_at x = S (reg_at x) -> u <= reg_at x -> got x ++ rest = [s0]).
Proof. exact stream_one_window. Qed.

(* s0 :: later is a walk in the table (only Error out of turn), for every machine whose history is one
   (C08_walk_composite/_http/_cluster give [is_walk (rm s)] for the three runners) *)
Theorem C08_stream_later_walk : forall s i x,
  mreach s -> is_walk s -> nth_error (subs s) i = Some x -> dropped x = false -> sg x = SLive ->
  walk fsm_cfg (state_at (hist s) (read_at x))
       (segment (hist s) (read_at x) (endp (length (hist s)) x)).
Proof. exact stream_later_walk. Qed.

(* ... and is REFUTED in general (finding "stale replay"): with two changes in that window the
   subscriber receives the current state and then the older change again — here Running, Booting,
   Running while the machine only ever went New -> Booting -> Running. *)
Theorem C08_stream_refuted :
  exists s x, run (step fsm_cfg) init stream_witness = Some s /\ nth_error (subs s) 0 = Some x /\
              dropped x = false /\ hist s = [Booting; Running] /\
              got x = [Running; Booting; Running] /\
              walk_okb fsm_cfg Running [Booting; Running] = false.
Proof. exact stream_refuted. Qed.

(* ---------------- C08_result ---------------- *)
(* [HPDone b a]: Run returned (b = true: nil) and the machine's state at that instant was a. *)
Theorem C08_result_http : forall s b a,
  hreach s -> h_run (rc s) = HPDone b a -> (a = Stopped <-> b = true) /\ (b = false -> a = Error).
Proof. exact result_http. Qed.

Theorem C08_result_cluster : forall s b a,
  kreach s -> k_run (rc s) = KPDone b a -> (a = Stopped <-> b = true) /\ (b = false -> a = Error).
Proof. exact result_cluster. Qed.

(* composite: an error result always comes with Error; a nil result comes with Stopped unless a
   Reload's failure handler ran between Run's Stopped transition and Run's return ([c_late]) *)
Theorem C08_result_composite_partial : forall s b a,
  creach s -> c_run (rc s) = CPDone b a ->
  (b = false -> a = Error) /\ (c_late (rc s) = false -> (a = Stopped <-> b = true)).
Proof. exact result_composite_partial. Qed.

(* finding: composite Run() returns nil while the state at its return is Error *)
Theorem C08_result_composite_refuted : exists s, creach s /\ c_run (rc s) = CPDone true Error.
Proof. exact result_composite_refuted. Qed.

(* ---------------- candidate repairs (NOT in the repository; hooks/candidate-fix-c08-*.patch) ---- *)
(* These two theorems are about model VARIANTS prepared behind switches, i.e. about what the patches
   would establish once applied (the repository's own unedited tests pass with either); they say nothing
   about the code as it is. *)

(* (a) finitestate: "register + read current state" atomic w.r.t. state changes ([step_fixsub], a
   restriction of [step]): the stream is exactly s0 :: later changes - no duplicate, no stale replay. *)
Theorem C08_candidate_a_stream : forall ls s i x,
  run (step_fixsub fsm_cfg) init ls = Some s -> nth_error (subs s) i = Some x ->
  dropped x = false -> sg x = SLive ->
  read_at x = reg_at x /\
  exists rest, got x ++ rest =
               state_at (hist s) (read_at x) :: segment (hist s) (read_at x) (endp (length (hist s)) x).
Proof. exact candidate_a_stream. Qed.

(* (b) composite: Run keeps reloadMu from its teardown until it has returned ([composite_stepx true true]):
   the full C08_result statement. *)
Theorem C08_candidate_b_result : forall ls s b a,
  run composite_fixed_rstep (rinit cctl composite_init) ls = Some s -> c_run (rc s) = CPDone b a ->
  (a = Stopped <-> b = true) /\ (b = false -> a = Error).
Proof. exact candidate_b_result. Qed.

Print Assumptions C08_graph_documented.
Print Assumptions C08_graph_out_of_turn_edges.
Print Assumptions C08_graph_lifecycle_present.
Print Assumptions C08_graph_error_from_everywhere.
Print Assumptions C08_graph_stopped_reachable.
Print Assumptions C08_graph_new_incoming.
Print Assumptions C08_graph_running_incoming.
Print Assumptions C08_graph_stopped_incoming.
Print Assumptions C08_graph_error_is_state.
Print Assumptions C08_walk_composite.
Print Assumptions C08_walk_http.
Print Assumptions C08_walk_cluster.
Print Assumptions C08_walk_machine.
Print Assumptions C08_walk_strict.
Print Assumptions C08_isrunning.
Print Assumptions C08_isrunning_stream.
Print Assumptions C08_stream.
Print Assumptions C08_stream_runners.
Print Assumptions C08_stream_closed.
Print Assumptions C08_stream_in_flight.
Print Assumptions C08_stream_closed_only_after_cancel.
Print Assumptions C08_stream_close_progress.
Print Assumptions C08_stream_partial.
Print Assumptions C08_stream_later_walk.
Print Assumptions C08_stream_refuted.
Print Assumptions C08_result_http.
Print Assumptions C08_result_cluster.
Print Assumptions C08_result_composite_partial.
Print Assumptions C08_result_composite_refuted.
Print Assumptions C08_candidate_a_stream.
Print Assumptions C08_candidate_b_result.

(* non-vacuity: the hypotheses are met by concrete schedules, and the models compute *)

(* a slow consumer (outside the hypothesis) loses a change: the timeout drops Running *)
Example C08_slow_may_drop :
  exists s x, run (step fsm_cfg) init drop_witness = Some s /\
              nth_error (subs s) 0 = Some x /\ dropped x = true /\ pend s = [] /\
              bch x = [Booting] /\ cur s = Running.
Proof. exact slow_may_drop. Qed.

(* a complete clean cycle of the httpserver model: Run, a Reload with a changed config, Stop *)
Definition C08_http_cycle : list (rlabel hcl) :=
  map RC [HRunCall; HTBooting; HBootOk; HTRunning; HReloadCall; HRlBegin; HRlT; HCb true; HRlNew;
          HRlRestartOk; HRlTRunning; HRlDone; HReloadRet; HStopCall; HSelStop; HTStopping;
          HStopSrvOk; HTStopped; HRunRet true].
Example C08_ex_http_cycle :
  exists s, run http_rstep (rinit hctl http_init) C08_http_cycle = Some s /\
            h_run (rc s) = HPDone true Stopped /\
            hist (rm s) = [Booting; Running; Reloading; Running; Stopping; Stopped].
Proof. eexists. split; [vm_compute; reflexivity|]. split; reflexivity. Qed.

(* Stop racing a Reload in the httpserver model (code since /repo a31573a: shutdown takes r.mutex
   before Transition(Stopping)): Run waits for the Reload, then stops cleanly - nil, Stopped *)
Definition C08_http_stop_during_reload : list (rlabel hcl) :=
  map RC [HRunCall; HTBooting; HBootOk; HTRunning; HReloadCall; HRlBegin; HRlT; HStopCall; HSelStop;
          HCb true; HRlSame; HRlTRunning; HRlDone; HTStopping; HStopSrvOk; HTStopped; HRunRet true].
Example C08_ex_http_stop_during_reload :
  exists s, run http_rstep (rinit hctl http_init) C08_http_stop_during_reload = Some s /\
            h_run (rc s) = HPDone true Stopped /\
            hist (rm s) = [Booting; Running; Reloading; Running; Stopping; Stopped].
Proof. eexists. split; [vm_compute; reflexivity|]. split; reflexivity. Qed.

(* ... the Stopping transition is not enabled while the Reload holds the mutex, *)
Example C08_ex_http_stopping_waits_for_reload :
  run http_rstep (rinit hctl http_init)
      (map RC [HRunCall; HTBooting; HBootOk; HTRunning; HReloadCall; HRlBegin; HRlT; HStopCall; HSelStop;
               HTStopping]) = None.
Proof. vm_compute. reflexivity. Qed.

(* ... and a Reload cannot begin while Run holds it between Stopping and the end of stopServer. *)
Example C08_ex_http_reload_waits_for_shutdown :
  run http_rstep (rinit hctl http_init)
      (map RC [HRunCall; HTBooting; HBootOk; HTRunning; HStopCall; HSelStop; HTStopping; HReloadCall;
               HRlBegin]) = None.
Proof. vm_compute. reflexivity. Qed.

(* The legacy variant (before a31573a, [http_stepx false]) did Transition(Stopping) outside the mutex:
   the same race ended with an error result and state Error (consistent, but a needless failure). *)
Definition C08_http_legacy_rstep := rstep fsm_cfg hctl hcl (http_stepx false) http_tok.
Example C08_ex_http_stop_during_reload_legacy :
  exists s, run C08_http_legacy_rstep (rinit hctl http_init)
                (map RC [HRunCall; HTBooting; HBootOk; HTRunning; HReloadCall; HRlBegin; HRlT; HStopCall;
                         HSelStop; HTStopping; HCb true; HRlSame; HRlTRunning; HRlDone; HStopSrvOk;
                         HTStopped; HErrT; HRunRet false]) = Some s /\
            h_run (rc s) = HPDone false Error.
Proof. eexists. split; [vm_compute; reflexivity|reflexivity]. Qed.

(* the cluster model: a config update and a clean stop *)
Definition C08_cluster_cycle : list (rlabel kcl) :=
  map RC [KRunCall; KTBooting; KTRunning; KCfgSend; KRecv; KIsRunning; KTReloading; KApplied; KTBack;
          KStopCall; KSelStop; KTStopping; KStopAll; KTStopped; KRunRet true].
Example C08_ex_cluster_cycle :
  exists s, run cluster_rstep (rinit kctl cluster_init) C08_cluster_cycle = Some s /\
            k_run (rc s) = KPDone true Stopped.
Proof. eexists. split; [vm_compute; reflexivity|reflexivity]. Qed.

(* a subscriber that registers and reads with no change in between gets s0 :: changes and, after
   its context is cancelled, the close *)
Definition C08_sub_run : list label :=
  [LOp (OTrans Booting) true; LSub; LRead 0; LOp (OTrans Running) true; LDeliver 0; LRecv 0 Booting;
   LFwdTake 0; LFwdPut 0; LRecv 0 Running; LCancel 0; LUnsub 0; LFwdClose 0; LRecvClosed 0].
Example C08_ex_subscriber :
  exists s x, run (step fsm_cfg) init C08_sub_run = Some s /\ nth_error (subs s) 0 = Some x /\
              got x = [Booting; Running] /\ gotclosed x = true /\ dropped x = false.
Proof. eexists. eexists. split; [vm_compute; reflexivity|]. repeat split; reflexivity. Qed.

(* one change between registration and read: its value arrives twice (hypotheses of C08_stream_partial,
   second case, and of C08_isrunning_stream: kept up, registered, pipeline drained) *)
Example C08_ex_one_duplicate :
  exists s x, run (step fsm_cfg) init dup_witness = Some s /\ nth_error (subs s) 0 = Some x /\
              dropped x = false /\ sg x = SLive /\ reg_at x = 0 /\ read_at x = 1 /\
              hist s = [Booting; Running] /\ got x = [Booting; Booting; Running].
Proof. exact one_duplicate_exists. Qed.

Example C08_ex_isrunning_stream :
  exists s x, run (step fsm_cfg) init dup_witness = Some s /\ nth_error (subs s) 0 = Some x /\
              unsub x = false /\ wch x = [] /\ hand x = None /\ bch x = [] /\ memn 0 (pend s) = false /\
              last (got x) New = Running /\ step fsm_cfg s (LIsRun true) = Some s.
Proof.
  pose proof dup_witness_runs as E. unfold dup_witness_state in E.
  eexists. eexists. split; [exact E|]. repeat (split; [reflexivity|]). vm_compute. reflexivity.
Qed.

(* the out-of-turn edges are really in the table, and the strict walk is not vacuous *)
Example C08_ex_out_of_turn : forallb (fun p => allowedb fsm_cfg (fst p) (snd p)) out_of_turn_edges = true
                             /\ length out_of_turn_edges = 11.
Proof. split; vm_compute; reflexivity. Qed.

(* the candidate variants still run ordinary schedules, and no longer run the two findings' witnesses *)
Example C08_ex_candidate_a :
  (exists s x, run (step_fixsub fsm_cfg) init
                  [LOp (OTrans Booting) true; LSub; LRead 0; LOp (OTrans Running) true; LDeliver 0;
                   LRecv 0 Booting; LFwdTake 0; LFwdPut 0; LRecv 0 Running] = Some s /\
               nth_error (subs s) 0 = Some x /\ got x = [Booting; Running] /\ dropped x = false /\ sg x = SLive)
  /\ run (step_fixsub fsm_cfg) init stream_witness = None.
Proof. exact (conj candidate_a_nonvacuous candidate_a_blocks_witness). Qed.

Example C08_ex_candidate_b :
  (exists s, run composite_fixed_rstep (rinit cctl composite_init)
                (map RC [CRunCall; CTBooting; CCb true; CTRunning; CStopCall; CSelStop; CTStopping; CStopAllOk;
                         CTStopped; CRunRet true; CReloadCall; CRlBegin; CRlT; CRlSetErr]) = Some s /\
             c_run (rc s) = CPDone true Stopped /\ cur (rm s) = Error)
  /\ run composite_fixed_rstep (rinit cctl composite_init) composite_witness = None.
Proof. exact (conj candidate_b_nonvacuous candidate_b_blocks_witness). Qed.

(* OUTSIDE the hypothesis "the consumer keeps up" (what the driver's slow-after-cancel classification is
   about, model label [LFwdAbort]): a consumer that does not read for a whole grace period after its
   context was cancelled loses the value in the forwarder's hand.  The stream [New; Stopped] is not
   s0 :: changes for the history [Error; Stopped] ([classify_stream] = None); [classify_slow] explains it
   with one discarded value (k = 1: one grace period between cancel and close; rcv = 1: the consumer had
   received only s0 when the context was cancelled) and not with none.  The
   harness replays this shape on the real code on every run (mode slowsub). *)
Definition C08_slow_after_cancel_run : list label :=
  [LSub; LRead 0; LOp (OTrans Error) true; LDeliver 0; LFwdTake 0; LOp (OTrans Stopped) true; LDeliver 0;
   LCancel 0; LFwdAbort 0; LRecv 0 New; LFwdTake 0; LFwdPut 0; LRecv 0 Stopped; LUnsub 0; LFwdClose 0;
   LRecvClosed 0].
Example C08_ex_slow_after_cancel :
  exists s x, run (step fsm_cfg) init C08_slow_after_cancel_run = Some s /\ nth_error (subs s) 0 = Some x /\
              hist s = [Error; Stopped] /\ got x = [New; Stopped] /\ gotclosed x = true /\ dropped x = true /\
              classify_stream (hist s) (got x) true 0 0 2 2 = None /\
              classify_slow (hist s) (got x) 0 0 2 2 1 1 = true /\
              classify_slow (hist s) (got x) 0 0 2 2 0 1 = false /\
              (* had the consumer already received two values at the cancel, the same stream would be a loss
                 on a LIVE subscription: never explained *)
              classify_slow (hist s) (got x) 0 0 2 2 1 2 = false.
Proof. eexists. eexists. split; [vm_compute; reflexivity|]. repeat split; vm_compute; reflexivity. Qed.

(* C08_result_composite_partial covers, like every theorem here, ALL schedules of the composite model - in
   particular a child failure taken by Run() while a Reload() is in any of its phases ([CSelChild] is enabled
   in [CPSelect] whatever [c_rl] is), and a child that fails in reaction to Stop()/cancel ([CChildFail] after
   [CSelStop]/[CSelCancel]: nobody reads it).  Two such schedules: *)

(* a child fails while a Reload() is between its callback and its final Transition(Running): Run() forces
   Error from Reloading, the reload's Transition(Running) is refused and its handler forces Error again;
   Run() returns an error, the state at its return is Error *)
Example C08_ex_composite_failure_during_reload :
  exists s, run composite_rstep (rinit cctl composite_init)
                (map RC [CRunCall; CTBooting; CCb true; CTRunning; CReloadCall; CRlBegin; CRlT; CCb true;
                         CChildFail; CSelChild; CRlApplyOk; CRlTRunning; CRlSetErr; CRlDone; CReloadRet;
                         CRunRet false]) = Some s /\
            c_run (rc s) = CPDone false Error /\ c_late (rc s) = false /\
            hist (rm s) = [Booting; Running; Reloading; Error; Error].
Proof. eexists. split; [vm_compute; reflexivity|]. repeat split; reflexivity. Qed.

(* a child returns a real error in reaction to Stop(): Run() is past its select, the error is never read;
   Run() returns nil, the state at its return is Stopped *)
Example C08_ex_composite_error_on_stop :
  exists s, run composite_rstep (rinit cctl composite_init)
                (map RC [CRunCall; CTBooting; CCb true; CTRunning; CStopCall; CSelStop; CTStopping; CChildFail;
                         CStopAllOk; CTStopped; CRunRet true; CStopRet]) = Some s /\
            c_run (rc s) = CPDone true Stopped /\ c_child (rc s) = true /\ c_late (rc s) = false /\
            hist (rm s) = [Booting; Running; Stopping; Stopped].
Proof. eexists. split; [vm_compute; reflexivity|]. repeat split; reflexivity. Qed.
