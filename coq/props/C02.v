(* C02 - Supervisor: shutdown always completes (promptly or at timeout), never crashes.
   Statements only.  `can_progress c s` = some step is enabled that is neither a timer nor a free
   choice of the environment: an internal step, a step the implementation performs by itself, or
   the return of a Run/Stop/Reload/IsRunning call that a contract-abiding runnable owes. *)
From Coq Require Import List Bool Arith Lia.
From GS Require Import LTS Supervisor SupAccept SupProps SupInv SupOnce SupCensus SupProgress SupMeasure.
Import ListNotations.

(* Provided the runnables behave like the bundled ones (`good c`: no Run stays inside forever once it
   was told to stop or its context ended - a Run that returns by itself, with or without an error, is
   covered; Stop blocks at most until its Run has been invoked and has returned - both Stop styles are
   covered), then in EVERY reachable state in which the shutdown body has started and is not done,
   progress is possible without the shutdown timeout: no deadlock and no time-lock, whatever the
   trigger mix, the number of runnables, and whether shutdown began during start-up. *)
Theorem C02_no_deadlock_no_timelock : forall c s,
  reachable_sup c s -> good c ->
  match sd s with SdNot | SdDone => True | _ => can_progress c s end.
Proof. exact sup_c02_body_progress. Qed.

(* ... and once the body is done (without the timeout having fired), Run() can always take its next
   step until it has returned, and every Shutdown() caller returns. *)
Theorem C02_run_returns : forall c s,
  0 < nrun c -> reachable_sup c s -> sd s = SdDone -> sd_timed_out s = false ->
  (exists r, main s = MReturned r) \/ can_progress c s.
Proof. exact sup_c02_main_progress. Qed.

Theorem C02_shutdown_callers_return : forall c s k cs,
  sd s = SdDone -> find_caller k (callers s) = Some (OpShutdown, cs) -> can_progress c s.
Proof. exact sup_c02_caller_returns. Qed.

(* After such a clean completion every runnable goroutine has finished (the WaitGroup is zero). *)
Theorem C02_all_goroutines_finished : forall c s,
  reachable_sup c s -> sd s = SdDone -> sd_timed_out s = false -> wg_zero s = true.
Proof. intros c s H. exact (proj2 (InvWg_reachable c s H)). Qed.

(* If some runnable never returns, the wait is still bounded by the shutdown timeout. *)
Theorem C02_timeout_bound : forall c s,
  shutdown_may_fire c = true -> sd s = SdWait -> step c s LSdTimeout <> None.
Proof. exact sup_c02_timeout_enabled. Qed.

(* Nothing a runnable does afterwards can crash the process: a late error is always absorbed (the
   error channel is never closed, /repo commit d5d0029); the model has no panic transition, and the
   harness reports any process crash as a rejected trace. *)
Theorem C02_late_error_harmless : forall c s i e,
  rn_at s i = RnSending e -> i < nrun c -> step c s (LErrSend i) <> None.
Proof. exact sup_c02_late_error_harmless. Qed.

Print Assumptions C02_no_deadlock_no_timelock.
Print Assumptions C02_run_returns.
Print Assumptions C02_shutdown_callers_return.
Print Assumptions C02_all_goroutines_finished.
Print Assumptions C02_timeout_bound.
Print Assumptions C02_late_error_harmless.

(* non-vacuity: a state inside the stop loop with a lifecycle-style Stop waiting for its Run *)
Definition c02_cfg : config :=
  {| specs := [ {| stateable := false; reloadable := false; rsender := false; ssender := false;
                   stop_style := StopUntilRunDone; run_exit := ExitOnSignal; held_sub := false |} ];
     startup_may_fire := false; shutdown_may_fire := false |}.
Example C02_ex_good : good c02_cfg.
Proof. intros i Hi. destruct i; [discriminate|cbn in Hi; inversion Hi; inversion H0]. Qed.
Example C02_ex_in_stop :
  exists s, run (step c02_cfg) (init c02_cfg)
              [LLaunch 0; LRunCall 0; LCall 1 OpShutdown; LCallerGo 1; LStopCall 0] = Some s
            /\ sd s = SdIn 0 /\ step c02_cfg s (LStopRet 0) = None
            /\ step c02_cfg s (LRunRet 0 None) <> None.
Proof. eexists. split; [vm_compute; reflexivity|]. split; [reflexivity|]. split; vm_compute; [reflexivity|discriminate]. Qed.

(* ---- termination: a measure, not only the absence of stuck states ---- *)

(* `is_system l`: l is a step of the implementation or one a runnable owes - everything except the
   environment's free choices (API calls, state emissions, trigger offers, parent cancellation,
   subscriber actions, the start of / a negative answer to an IsRunning() poll, observations).
   `mu c s` (SupMeasure.v) is a natural number computed from the state.
   Once shutdown has started, EVERY such step strictly decreases mu - for every configuration,
   whatever the runnables do (no `good` hypothesis) ... *)
Theorem C02_measure_decreases : forall c s l s',
  sd s <> SdNot -> is_system l = true -> step c s l = Some s' -> mu c s' < mu c s.
Proof. exact mu_system_step. Qed.

(* ... and a step of the environment increases it by at most W c + 3 = 2 * nrun c + 6. *)
Theorem C02_measure_env : forall c s l s',
  is_system l = false -> step c s l = Some s' -> mu c s' <= mu c s + W c + 3.
Proof. exact mu_env_step. Qed.

(* Hence along ANY execution after shutdown start the number of implementation steps is bounded by
   the measure of the starting state plus a fixed amount per environment step: with finitely many
   environment steps there is no infinite execution (no livelock). *)
Theorem C02_bounded : forall c ls s s',
  sd s <> SdNot -> run (step c) s ls = Some s' ->
  count_sys ls + mu c s' <= mu c s + (W c + 3) * count_env ls.
Proof. exact sup_c02_bounded. Qed.

(* Every maximal execution of the implementation after shutdown start (from a reachable state, with
   runnables satisfying `good c`: run_exit <> ExitNever) has at most mu steps, and where it can go no further the
   shutdown body is done and Run() HAS RETURNED. *)
Theorem C02_maximal_execution_returns : forall c s ls s',
  good c -> 0 < nrun c -> reachable_sup c s -> sd s <> SdNot ->
  run (step c) s ls = Some s' -> forallb is_system ls = true ->
  length ls <= mu c s /\
  (system_stuck c s' -> sd s' = SdDone /\ exists r, main s' = MReturned r).
Proof. exact sup_c02_maximal. Qed.

(* ... and no Shutdown() caller is left inside the library. *)
Theorem C02_stuck_returned : forall c s,
  good c -> 0 < nrun c -> reachable_sup c s -> sd s <> SdNot -> system_stuck c s ->
  sd s = SdDone /\ (exists r, main s = MReturned r) /\
  (forall k cs, find_caller k (callers s) <> Some (OpShutdown, cs)).
Proof. exact sup_c02_stuck_returned. Qed.

Print Assumptions C02_measure_decreases.
Print Assumptions C02_measure_env.
Print Assumptions C02_bounded.
Print Assumptions C02_maximal_execution_returns.
Print Assumptions C02_stuck_returned.

(* The child contract `good c` is "no Run stays inside forever" (run_exit <> ExitNever): runnables whose
   Run returns BY ITSELF, with a real error, are covered - i.e. the triggers "a runnable returning an
   error" and "a start-up failure".  Two witnesses, each satisfying ALL hypotheses of
   C02_no_deadlock_no_timelock, C02_maximal_execution_returns and C02_stuck_returned at once. *)

(* (a) a lifecycle-style runnable whose Run fails by itself while the supervisor is in reap() *)
Definition c02_free_spec (st : bool) (ss : sstyle) : rspec :=
  {| stateable := st; reloadable := false; rsender := false; ssender := false;
     stop_style := ss; run_exit := ExitFree; held_sub := false |}.
Definition c02_free_cfg : config :=
  {| specs := [c02_free_spec false StopUntilRunDone]; startup_may_fire := false; shutdown_may_fire := false |}.
Definition c02_free_pre : list label :=
  [LLaunch 0; LRunCall 0; LRunRet 0 (Some (7, false)); LErrSend 0; LReapErr; LMainShutdown].
Definition c02_free_rest : list label :=
  [LStopCall 0; LStopRet 0; LSdCancel; LSdWgDone; LMainReturn (ResErr 7)].
Definition c02_free_mid : state :=
  match run (step c02_free_cfg) (init c02_free_cfg) c02_free_pre with Some s => s | None => init c02_free_cfg end.
Definition c02_free_final : state :=
  match run (step c02_free_cfg) c02_free_mid c02_free_rest with Some s => s | None => init c02_free_cfg end.
Example C02_ex_free_good : good c02_free_cfg /\ 0 < nrun c02_free_cfg.
Proof. split; [|cbn; auto]. intros i Hi. destruct i; [discriminate|cbn in Hi; inversion Hi; inversion H0]. Qed.
Example C02_ex_error_exit_all_hypotheses :
  good c02_free_cfg /\ 0 < nrun c02_free_cfg /\
  reachable_sup c02_free_cfg c02_free_mid /\ sd c02_free_mid <> SdNot /\
  run (step c02_free_cfg) c02_free_mid c02_free_rest = Some c02_free_final /\
  forallb is_system c02_free_rest = true /\
  reachable_sup c02_free_cfg c02_free_final /\ sd c02_free_final <> SdNot /\
  system_stuck c02_free_cfg c02_free_final /\
  main c02_free_final = MReturned (ResErr 7) /\ callers c02_free_final = [].
Proof.
  split; [exact (proj1 C02_ex_free_good)|]. split; [exact (proj2 C02_ex_free_good)|].
  split; [exists c02_free_pre; vm_compute; reflexivity|]. split; [vm_compute; discriminate|].
  split; [vm_compute; reflexivity|]. split; [reflexivity|].
  split; [exists (c02_free_pre ++ c02_free_rest); vm_compute; reflexivity|].
  split; [vm_compute; discriminate|].
  split; [apply mu_zero_stuck; [vm_compute; discriminate|vm_compute; reflexivity]|].
  split; vm_compute; reflexivity.
Qed.

(* (b) a start-up failure: Stateable runnable 0 fails while Run() waits at its readiness gate; runnable 1
   (lifecycle-style Stop) is never started, hence never stopped; Run() returns the error *)
Definition c02_sf_cfg : config :=
  {| specs := [c02_free_spec true StopUntilRunDone; c02_free_spec false StopUntilRunDone];
     startup_may_fire := false; shutdown_may_fire := false |}.
Definition c02_sf_pre : list label :=
  [LLaunch 0; LRunStore 0; LRunCall 0; LPoll 0 false; LRunRet 0 (Some (9, false)); LErrSend 0; LGateErr 0; LMainShutdown].
Definition c02_sf_rest : list label :=
  [LStopCall 0; LStopRet 0; LSdCancel; LStmExit; LSdWgDone; LMainReturn (ResErr 9)].
Definition c02_sf_mid : state :=
  match run (step c02_sf_cfg) (init c02_sf_cfg) c02_sf_pre with Some s => s | None => init c02_sf_cfg end.
Definition c02_sf_final : state :=
  match run (step c02_sf_cfg) c02_sf_mid c02_sf_rest with Some s => s | None => init c02_sf_cfg end.
Example C02_ex_startup_failure_all_hypotheses :
  good c02_sf_cfg /\ 0 < nrun c02_sf_cfg /\
  reachable_sup c02_sf_cfg c02_sf_mid /\ sd c02_sf_mid = SdNext 1 /\
  run (step c02_sf_cfg) c02_sf_mid c02_sf_rest = Some c02_sf_final /\
  forallb is_system c02_sf_rest = true /\
  reachable_sup c02_sf_cfg c02_sf_final /\ sd c02_sf_final <> SdNot /\
  system_stuck c02_sf_cfg c02_sf_final /\
  main c02_sf_final = MReturned (ResErr 9) /\ launched c02_sf_final = 1 /\
  stop_evs (rev (hist c02_sf_final)) = canon_stops 1.
Proof.
  split; [intros i Hi; destruct i as [|[|i]]; [discriminate|discriminate|cbn in Hi; lia]|].
  split; [cbn; auto|].
  split; [exists c02_sf_pre; vm_compute; reflexivity|]. split; [vm_compute; reflexivity|].
  split; [vm_compute; reflexivity|]. split; [reflexivity|].
  split; [exists (c02_sf_pre ++ c02_sf_rest); vm_compute; reflexivity|].
  split; [vm_compute; discriminate|].
  split; [apply mu_zero_stuck; [vm_compute; discriminate|vm_compute; reflexivity]|].
  split; [vm_compute; reflexivity|]. split; vm_compute; reflexivity.
Qed.

(* non-vacuity: a complete shutdown of c02_cfg; the measure goes from 13 to 0 in 9 implementation
   steps, and with measure 0 no implementation step is enabled *)
Definition c02_pre : list label := [LLaunch 0; LRunCall 0; LCall 1 OpShutdown; LCallerGo 1].
Definition c02_rest : list label :=
  [LStopCall 0; LRunRet 0 None; LStopRet 0; LSdCancel; LSdWgDone; LReapCtx; LMainShutdown;
   LMainReturn ResNil; LRet 1 OpShutdown].
Definition c02_mid : state :=
  match run (step c02_cfg) (init c02_cfg) c02_pre with Some s => s | None => init c02_cfg end.
Definition c02_final : state :=
  match run (step c02_cfg) c02_mid c02_rest with Some s => s | None => init c02_cfg end.
Example C02_ex_terminates :
  run (step c02_cfg) (init c02_cfg) c02_pre = Some c02_mid /\ sd c02_mid <> SdNot /\
  run (step c02_cfg) c02_mid c02_rest = Some c02_final /\ forallb is_system c02_rest = true /\
  mu c02_cfg c02_mid = 13 /\ mu c02_cfg c02_final = 0 /\ main c02_final = MReturned ResNil /\
  system_stuck c02_cfg c02_final.
Proof.
  split; [vm_compute; reflexivity|]. split; [vm_compute; discriminate|].
  split; [vm_compute; reflexivity|]. split; [reflexivity|]. split; [vm_compute; reflexivity|].
  split; [vm_compute; reflexivity|]. split; [vm_compute; reflexivity|].
  intros l Hl. destruct (step c02_cfg c02_final l) as [s2|] eqn:E; [|reflexivity]. exfalso.
  assert (Hsd : sd c02_final <> SdNot) by (vm_compute; discriminate).
  pose proof (C02_measure_decreases _ _ _ _ Hsd Hl E) as X.
  assert (M : mu c02_cfg c02_final = 0) by (vm_compute; reflexivity).
  rewrite M in X. inversion X.
Qed.
