(* C02 - Supervisor: shutdown always completes (promptly or at timeout), never crashes.
   Statements only.  `can_progress c s` = some step is enabled that is neither a timer nor a free
   choice of the environment: an internal step, a step the implementation performs by itself, or
   the return of a Run/Stop/Reload/IsRunning call that a contract-abiding runnable owes. *)
From Coq Require Import List Bool Arith.
From GS Require Import LTS Supervisor SupAccept SupProps SupInv SupOnce SupCensus SupProgress.
Import ListNotations.

(* Provided the runnables behave like the bundled ones (Run returns after Stop or cancellation;
   Stop blocks at most until its Run has been invoked and has returned - both Stop styles are
   covered), then in EVERY reachable state in which the shutdown body has started and is not done,
   progress is possible without the shutdown timeout: no deadlock and no time-lock, whatever the
   trigger mix, the number of runnables, and whether shutdown began during start-up. *)
Theorem C02_no_deadlock_no_timelock : forall c s,
  reachable_sup c s -> good c ->
  match sd s with SdNot | SdDone => True | _ => can_progress c s end.
Proof. exact sup_c02_body_progress. Qed.

(* ... and once the body is done (without the timeout having fired), Run() can always take its next
   step until it has returned, and every Shutdown() caller returns. *)
Theorem C02_run_returns : forall c s,
  0 < nrun c -> reachable_sup c s -> sd s = SdDone -> sd_timed_out s = false ->
  (exists r, main s = MReturned r) \/ can_progress c s.
Proof. exact sup_c02_main_progress. Qed.

Theorem C02_shutdown_callers_return : forall c s k cs,
  sd s = SdDone -> find_caller k (callers s) = Some (OpShutdown, cs) -> can_progress c s.
Proof. exact sup_c02_caller_returns. Qed.

(* After such a clean completion every runnable goroutine has finished (the WaitGroup is zero). *)
Theorem C02_all_goroutines_finished : forall c s,
  reachable_sup c s -> sd s = SdDone -> sd_timed_out s = false -> wg_zero s = true.
Proof. intros c s H. exact (proj2 (InvWg_reachable c s H)). Qed.

(* If some runnable never returns, the wait is still bounded by the shutdown timeout. *)
Theorem C02_timeout_bound : forall c s,
  shutdown_may_fire c = true -> sd s = SdWait -> step c s LSdTimeout <> None.
Proof. exact sup_c02_timeout_enabled. Qed.

(* Nothing a runnable does afterwards can crash the process: a late error is always absorbed (the
   error channel is never closed, /repo commit d5d0029); the model has no panic transition, and the
   harness reports any process crash as a rejected trace. *)
Theorem C02_late_error_harmless : forall c s i e,
  rn_at s i = RnSending e -> i < nrun c -> step c s (LErrSend i) <> None.
Proof. exact sup_c02_late_error_harmless. Qed.

Print Assumptions C02_no_deadlock_no_timelock.
Print Assumptions C02_run_returns.
Print Assumptions C02_shutdown_callers_return.
Print Assumptions C02_all_goroutines_finished.
Print Assumptions C02_timeout_bound.
Print Assumptions C02_late_error_harmless.

(* non-vacuity: a state inside the stop loop with a lifecycle-style Stop waiting for its Run *)
Definition c02_cfg : config :=
  {| specs := [ {| stateable := false; reloadable := false; rsender := false; ssender := false;
                   stop_style := StopUntilRunDone; run_exit := ExitOnSignal; held_sub := false |} ];
     startup_may_fire := false; shutdown_may_fire := false |}.
Example C02_ex_good : good c02_cfg.
Proof. intros i Hi. destruct i; [reflexivity|cbn in Hi; inversion Hi; inversion H0]. Qed.
Example C02_ex_in_stop :
  exists s, run (step c02_cfg) (init c02_cfg)
              [LLaunch 0; LRunCall 0; LCall 1 OpShutdown; LCallerGo 1; LStopCall 0] = Some s
            /\ sd s = SdIn 0 /\ step c02_cfg s (LStopRet 0) = None
            /\ step c02_cfg s (LRunRet 0 None) <> None.
Proof. eexists. split; [vm_compute; reflexivity|]. split; [reflexivity|]. split; vm_compute; [reflexivity|discriminate]. Qed.
