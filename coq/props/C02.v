(* C02 - Supervisor: shutdown always completes (promptly or at timeout), never crashes.
   Statements only.  Progress is stated PER THREAD (SupProgress.v):
   `body_can_progress c s`   = a step is enabled that is the shutdown body's own next step or a step of a
                               goroutine the body is waiting for in its present position (inside Stop(i) of a
                               lifecycle-style runnable: the goroutine of runnable i; inside wg.Wait(): a member
                               of the WaitGroup) - never a timer, never a step of an unrelated thread;
   `main_can_progress c s`   = a step of Run()'s own goroutine is enabled (the return of an IsRunning() call
                               only while Run() is inside one);
   `caller_can_progress c s k` = the Shutdown() caller k can enter / return.
   The initial state has no Run() goroutine: Run() is called by the environment (LRunEnter, LRunEntered),
   possibly AFTER Shutdown(). *)
From Coq Require Import List Bool Arith Lia.
From GS Require Import LTS Supervisor SupAccept SupProps SupInv SupOnce SupCensus SupProgress SupMeasure.
Import ListNotations.

(* Provided the runnables behave like the bundled ones (`good c`: no Run stays inside forever once it
   was told to stop or its context ended - a Run that returns by itself, with or without an error, is
   covered; Stop blocks at most until its Run has been invoked and has returned - both Stop styles are
   covered; a Reload() call in progress returns), and EXCLUDING one shape (`sdfirst_ok c s`: if Shutdown()
   closed the launch gate before Run() was entered then every Stop is non-blocking - see
   C02_shutdown_before_run_refuted), then in EVERY reachable state in which the shutdown body has started
   and is not done, the body or what it is waiting for can move without the shutdown timeout: no deadlock
   and no time-lock, whatever the trigger mix, the number of runnables, and whether shutdown began during
   start-up. *)
Theorem C02_no_deadlock_no_timelock : forall c s,
  reachable_sup c s -> good c -> sdfirst_ok c s ->
  match sd s with SdNot | SdDone => True | _ => body_can_progress c s end.
Proof. exact sup_c02_body_progress. Qed.

(* ... and once the body is done (whether or not the timeout has fired), Run() - if it was called at all -
   can always take its next step until it has returned, and every Shutdown() caller returns. *)
Theorem C02_run_returns : forall c s,
  0 < nrun c -> reachable_sup c s -> sd s = SdDone ->
  main s = MNew \/ (exists r, main s = MReturned r) \/ main_can_progress c s.
Proof. exact sup_c02_main_progress. Qed.

Theorem C02_shutdown_callers_return : forall c s k cs,
  sd s = SdDone -> find_caller k (callers s) = Some (OpShutdown, cs) -> caller_can_progress c s k.
Proof. exact sup_c02_caller_returns. Qed.

(* After such a clean completion every runnable goroutine has finished (the WaitGroup is zero). *)
Theorem C02_all_goroutines_finished : forall c s,
  reachable_sup c s -> sd s = SdDone -> sd_timed_out s = false -> wg_zero s = true.
Proof. intros c s H. exact (proj2 (InvWg_reachable c s H)). Qed.

(* If some runnable never returns, the wait is still bounded by the shutdown timeout. *)
Theorem C02_timeout_bound : forall c s,
  shutdown_may_fire c = true -> sd s = SdWait -> step c s LSdTimeout <> None.
Proof. exact sup_c02_timeout_enabled. Qed.

(* Nothing a runnable does afterwards can crash the process: a late error is always absorbed (the
   error channel is never closed, /repo commit d5d0029); the model has no panic transition, and the
   harness reports any process crash as a rejected trace. *)
Theorem C02_late_error_harmless : forall c s i e,
  rn_at s i = RnSending e -> i < nrun c -> step c s (LErrSend i) <> None.
Proof. exact sup_c02_late_error_harmless. Qed.

Print Assumptions C02_no_deadlock_no_timelock.
Print Assumptions C02_run_returns.
Print Assumptions C02_shutdown_callers_return.
Print Assumptions C02_all_goroutines_finished.
Print Assumptions C02_timeout_bound.
Print Assumptions C02_late_error_harmless.

(* non-vacuity: a state inside the stop loop with a lifecycle-style Stop waiting for its Run *)
Definition c02_cfg : config :=
  {| specs := [ {| stateable := false; reloadable := false; rsender := false; ssender := false;
                   stop_style := StopUntilRunDone; run_exit := ExitOnSignal; held_sub := false |} ];
     startup_may_fire := false; shutdown_may_fire := false |}.
Example C02_ex_good : good c02_cfg.
Proof. intros i Hi. destruct i; [discriminate|cbn in Hi; inversion Hi; inversion H0]. Qed.
Example C02_ex_in_stop :
  exists s, run (step c02_cfg) (init c02_cfg)
              [LRunEnter; LRunEntered; LLaunch 0; LRunCall 0; LCall 1 OpShutdown; LCallerGo 1; LStopCall 0] = Some s
            /\ sd s = SdIn 0 /\ sdfirst_ok c02_cfg s /\ step c02_cfg s (LStopRet 0) = None
            /\ step c02_cfg s (LRunRet 0 None) <> None /\ body_step s (LRunRet 0 None) = true.
Proof.
  eexists. split; [vm_compute; reflexivity|]. split; [reflexivity|]. split; [intros X; discriminate X|].
  split; [vm_compute; reflexivity|]. split; [vm_compute; discriminate|reflexivity].
Qed.

(* ---- Shutdown() BEFORE Run(): the excluded shape is a real behaviour (finding shutdown-before-run-blocks-forever) ---- *)

(* REFUTED without `sdfirst_ok`.  One lifecycle-style runnable (Stop blocks until its Run has been invoked and
   has returned, exactly like the bundled runnables; Run returns when signalled: `good`).  Shutdown() is called
   before Run(): it calls Stop() on the registered runnable, whose Run was not and will never be invoked; Stop()
   blocks forever; the context is never cancelled and the shutdown timer (armed only after the Stop loop) never
   exists.  Run() is then called: the launch gate is closed, it starts nothing and blocks in reap().
   The state reached satisfies every hypothesis of C02_stuck_returned except sdfirst_ok, no step of the
   implementation is enabled (not even a timer: shutdown_may_fire = true here), and its conclusion fails: the
   shutdown body is not done, Run() has not returned, the Shutdown() caller is still inside. *)
Definition c02_first_cfg : config :=
  {| specs := specs c02_cfg; startup_may_fire := true; shutdown_may_fire := true |}.
Definition c02_first_sched : list label :=
  [LCall 1 OpShutdown; LCallerGo 1; LStopCall 0; LRunEnter; LRunEntered; LLaunch 0].
Definition c02_first_hung : state :=
  match run (step c02_first_cfg) (init c02_first_cfg) c02_first_sched with Some s => s | None => init c02_first_cfg end.
Theorem C02_shutdown_before_run_refuted :
  good c02_first_cfg /\ 0 < nrun c02_first_cfg /\
  run (step c02_first_cfg) (init c02_first_cfg) c02_first_sched = Some c02_first_hung /\
  sd c02_first_hung <> SdNot /\ system_stuck c02_first_cfg c02_first_hung /\
  sd_all (aux c02_first_hung) = true /\ stop_style (spec c02_first_cfg 0) = StopUntilRunDone /\
  sd c02_first_hung = SdIn 0 /\ rn_at c02_first_hung 0 = RnNot /\ main c02_first_hung = MReap /\
  find_caller 1 (callers c02_first_hung) = Some (OpShutdown, CPending) /\
  own_cancel c02_first_hung = false.
Proof.
  split; [intros i Hi; destruct i; [discriminate|cbn in Hi; lia]|]. split; [cbn; lia|].
  split; [vm_compute; reflexivity|]. split; [vm_compute; discriminate|].
  split; [concrete_stuck|]. repeat split; vm_compute; reflexivity.
Qed.

(* What holds: when every Stop is non-blocking the shape is harmless (sdfirst_ok holds in every state), so
   all the theorems of this file apply to Shutdown()-before-Run() as well ... *)
Theorem C02_shutdown_before_run_nonblocking : forall c s,
  (forall i, i < nrun c -> stop_style (spec c i) = StopNonBlocking) -> sdfirst_ok c s.
Proof. intros c s H _. exact H. Qed.

(* ... and so they do whenever Run() was entered before the launch gate was closed *)
Theorem C02_run_first_ok : forall c s, sd_all (aux s) = false -> sdfirst_ok c s.
Proof. intros c s H X. congruence. Qed.

(* non-vacuity of all hypotheses at once on a Shutdown()-before-Run() execution (sd_all = true): two
   runnables with non-blocking Stop; both are stopped although never run; Shutdown() returns; a later Run()
   starts nothing and returns nil *)
Definition c02_nb_cfg : config :=
  {| specs := [dflt_spec; dflt_spec]; startup_may_fire := false; shutdown_may_fire := false |}.
Definition c02_nb_pre : list label := [LCall 1 OpShutdown; LCallerGo 1].
Definition c02_nb_rest : list label :=
  [LStopCall 1; LStopRet 1; LStopCall 0; LStopRet 0; LSdCancel; LSdWgDone; LRet 1 OpShutdown].
Definition c02_nb_later : list label := [LRunEnter; LRunEntered; LLaunch 0; LReapCtx; LMainShutdown; LMainReturn ResNil].
Definition c02_nb_mid : state :=
  match run (step c02_nb_cfg) (init c02_nb_cfg) c02_nb_pre with Some s => s | None => init c02_nb_cfg end.
Definition c02_nb_done : state :=
  match run (step c02_nb_cfg) c02_nb_mid c02_nb_rest with Some s => s | None => init c02_nb_cfg end.
Definition c02_nb_final : state :=
  match run (step c02_nb_cfg) c02_nb_done c02_nb_later with Some s => s | None => init c02_nb_cfg end.
Example C02_ex_shutdown_before_run_all_hypotheses :
  good c02_nb_cfg /\ 0 < nrun c02_nb_cfg /\
  reachable_sup c02_nb_cfg c02_nb_mid /\ sd c02_nb_mid <> SdNot /\ sd_all (aux c02_nb_mid) = true /\
  sdfirst_ok c02_nb_cfg c02_nb_mid /\
  run (step c02_nb_cfg) c02_nb_mid c02_nb_rest = Some c02_nb_done /\ forallb is_system c02_nb_rest = true /\
  reachable_sup c02_nb_cfg c02_nb_done /\ sdfirst_ok c02_nb_cfg c02_nb_done /\
  system_stuck c02_nb_cfg c02_nb_done /\ sd c02_nb_done = SdDone /\ main c02_nb_done = MNew /\
  callers c02_nb_done = [] /\
  run (step c02_nb_cfg) c02_nb_done c02_nb_later = Some c02_nb_final /\
  system_stuck c02_nb_cfg c02_nb_final /\ main c02_nb_final = MReturned ResNil /\ launched c02_nb_final = 0.
Proof.
  assert (NB : forall i, i < nrun c02_nb_cfg -> stop_style (spec c02_nb_cfg i) = StopNonBlocking)
    by (intros i Hi; destruct i as [|[|i]]; [reflexivity|reflexivity|cbn in Hi; lia]).
  split; [intros i Hi; destruct i as [|[|i]]; [discriminate|discriminate|cbn in Hi; lia]|].
  split; [cbn; lia|]. split; [exists c02_nb_pre; vm_compute; reflexivity|]. split; [vm_compute; discriminate|].
  split; [vm_compute; reflexivity|]. split; [now apply C02_shutdown_before_run_nonblocking|].
  split; [vm_compute; reflexivity|]. split; [reflexivity|].
  split; [exists (c02_nb_pre ++ c02_nb_rest); vm_compute; reflexivity|].
  split; [now apply C02_shutdown_before_run_nonblocking|].
  split; [concrete_stuck|]. split; [vm_compute; reflexivity|]. split; [vm_compute; reflexivity|].
  split; [vm_compute; reflexivity|]. split; [vm_compute; reflexivity|].
  split; [apply mu_zero_stuck; [vm_compute; discriminate|vm_compute; reflexivity]|].
  split; vm_compute; reflexivity.
Qed.

Print Assumptions C02_shutdown_before_run_refuted.
Print Assumptions C02_shutdown_before_run_nonblocking.
Print Assumptions C02_run_first_ok.

(* ---- termination: a measure, not only the absence of stuck states ---- *)

(* `is_system l`: l is a step of the implementation or one a runnable owes - everything except the
   environment's free choices (API calls, state emissions, trigger offers, parent cancellation,
   subscriber actions, the start of / a negative answer to an IsRunning() poll, observations).
   `mu c s` (SupMeasure.v) is a natural number computed from the state.
   Once shutdown has started, EVERY such step strictly decreases mu - for every configuration,
   whatever the runnables do (no `good` hypothesis) ... *)
Theorem C02_measure_decreases : forall c s l s',
  sd s <> SdNot -> is_system l = true -> step c s l = Some s' -> mu c s' < mu c s.
Proof. exact mu_system_step. Qed.

(* ... and a step of the environment increases it by at most W c + 3 = 2 * nrun c + 7. *)
Theorem C02_measure_env : forall c s l s',
  is_system l = false -> step c s l = Some s' -> mu c s' <= mu c s + W c + 3.
Proof. exact mu_env_step. Qed.

(* Hence along ANY execution after shutdown start the number of implementation steps is bounded by
   the measure of the starting state plus a fixed amount per environment step: with finitely many
   environment steps there is no infinite execution (no livelock). *)
Theorem C02_bounded : forall c ls s s',
  sd s <> SdNot -> run (step c) s ls = Some s' ->
  count_sys ls + mu c s' <= mu c s + (W c + 3) * count_env ls.
Proof. exact sup_c02_bounded. Qed.

(* Every maximal execution of the implementation after shutdown start (from a reachable state, with
   runnables satisfying `good c`: run_exit <> ExitNever) has at most mu steps, and where it can go no further the
   shutdown body is done and Run() HAS RETURNED (main = MNew: Run() was never called - it then has nothing to
   return from; once called, MEntering always has the enabled step LRunEntered). *)
Theorem C02_maximal_execution_returns : forall c s ls s',
  good c -> 0 < nrun c -> reachable_sup c s -> sd s <> SdNot -> sdfirst_ok c s ->
  run (step c) s ls = Some s' -> forallb is_system ls = true ->
  length ls <= mu c s /\
  (system_stuck c s' -> sd s' = SdDone /\ (main s' = MNew \/ exists r, main s' = MReturned r)).
Proof. exact sup_c02_maximal. Qed.

(* ... and no Shutdown() caller is left inside the library. *)
Theorem C02_stuck_returned : forall c s,
  good c -> 0 < nrun c -> reachable_sup c s -> sd s <> SdNot -> sdfirst_ok c s -> system_stuck c s ->
  sd s = SdDone /\ (main s = MNew \/ exists r, main s = MReturned r) /\
  (forall k cs, find_caller k (callers s) <> Some (OpShutdown, cs)).
Proof. exact sup_c02_stuck_returned. Qed.

Print Assumptions C02_measure_decreases.
Print Assumptions C02_measure_env.
Print Assumptions C02_bounded.
Print Assumptions C02_maximal_execution_returns.
Print Assumptions C02_stuck_returned.

(* The child contract `good c` is "no Run stays inside forever" (run_exit <> ExitNever): runnables whose
   Run returns BY ITSELF, with a real error, are covered - i.e. the triggers "a runnable returning an
   error" and "a start-up failure".  Two witnesses, each satisfying ALL hypotheses of
   C02_no_deadlock_no_timelock, C02_maximal_execution_returns and C02_stuck_returned at once. *)

(* (a) a lifecycle-style runnable whose Run fails by itself while the supervisor is in reap() *)
Definition c02_free_spec (st : bool) (ss : sstyle) : rspec :=
  {| stateable := st; reloadable := false; rsender := false; ssender := false;
     stop_style := ss; run_exit := ExitFree; held_sub := false |}.
Definition c02_free_cfg : config :=
  {| specs := [c02_free_spec false StopUntilRunDone]; startup_may_fire := false; shutdown_may_fire := false |}.
Definition c02_free_pre : list label :=
  [LRunEnter; LRunEntered; LLaunch 0; LRunCall 0; LRunRet 0 (Some (7, false)); LErrSend 0; LReapErr; LMainShutdown].
Definition c02_free_rest : list label :=
  [LStopCall 0; LStopRet 0; LSdCancel; LSdWgDone; LMainReturn (ResErr 7)].
Definition c02_free_mid : state :=
  match run (step c02_free_cfg) (init c02_free_cfg) c02_free_pre with Some s => s | None => init c02_free_cfg end.
Definition c02_free_final : state :=
  match run (step c02_free_cfg) c02_free_mid c02_free_rest with Some s => s | None => init c02_free_cfg end.
Example C02_ex_free_good : good c02_free_cfg /\ 0 < nrun c02_free_cfg.
Proof. split; [|cbn; auto]. intros i Hi. destruct i; [discriminate|cbn in Hi; inversion Hi; inversion H0]. Qed.
Example C02_ex_error_exit_all_hypotheses :
  good c02_free_cfg /\ 0 < nrun c02_free_cfg /\
  reachable_sup c02_free_cfg c02_free_mid /\ sd c02_free_mid <> SdNot /\ sdfirst_ok c02_free_cfg c02_free_mid /\
  run (step c02_free_cfg) c02_free_mid c02_free_rest = Some c02_free_final /\
  forallb is_system c02_free_rest = true /\
  reachable_sup c02_free_cfg c02_free_final /\ sd c02_free_final <> SdNot /\
  system_stuck c02_free_cfg c02_free_final /\
  main c02_free_final = MReturned (ResErr 7) /\ callers c02_free_final = [].
Proof.
  split; [exact (proj1 C02_ex_free_good)|]. split; [exact (proj2 C02_ex_free_good)|].
  split; [exists c02_free_pre; vm_compute; reflexivity|]. split; [vm_compute; discriminate|].
  split; [apply C02_run_first_ok; vm_compute; reflexivity|].
  split; [vm_compute; reflexivity|]. split; [reflexivity|].
  split; [exists (c02_free_pre ++ c02_free_rest); vm_compute; reflexivity|].
  split; [vm_compute; discriminate|].
  split; [apply mu_zero_stuck; [vm_compute; discriminate|vm_compute; reflexivity]|].
  split; vm_compute; reflexivity.
Qed.

(* (b) a start-up failure: Stateable runnable 0 fails while Run() waits at its readiness gate; runnable 1
   (lifecycle-style Stop) is never started, hence never stopped; Run() returns the error *)
Definition c02_sf_cfg : config :=
  {| specs := [c02_free_spec true StopUntilRunDone; c02_free_spec false StopUntilRunDone];
     startup_may_fire := false; shutdown_may_fire := false |}.
Definition c02_sf_pre : list label :=
  [LRunEnter; LRunEntered; LLaunch 0; LRunStore 0; LRunCall 0; LPoll 0 false; LRunRet 0 (Some (9, false)); LErrSend 0; LGateErr 0; LMainShutdown].
Definition c02_sf_rest : list label :=
  [LStopCall 0; LStopRet 0; LSdCancel; LStmExit; LSdWgDone; LMainReturn (ResErr 9)].
Definition c02_sf_mid : state :=
  match run (step c02_sf_cfg) (init c02_sf_cfg) c02_sf_pre with Some s => s | None => init c02_sf_cfg end.
Definition c02_sf_final : state :=
  match run (step c02_sf_cfg) c02_sf_mid c02_sf_rest with Some s => s | None => init c02_sf_cfg end.
Example C02_ex_startup_failure_all_hypotheses :
  good c02_sf_cfg /\ 0 < nrun c02_sf_cfg /\
  reachable_sup c02_sf_cfg c02_sf_mid /\ sd c02_sf_mid = SdNext 1 /\ sdfirst_ok c02_sf_cfg c02_sf_mid /\
  run (step c02_sf_cfg) c02_sf_mid c02_sf_rest = Some c02_sf_final /\
  forallb is_system c02_sf_rest = true /\
  reachable_sup c02_sf_cfg c02_sf_final /\ sd c02_sf_final <> SdNot /\
  system_stuck c02_sf_cfg c02_sf_final /\
  main c02_sf_final = MReturned (ResErr 9) /\ launched c02_sf_final = 1 /\
  stop_evs (rev (hist c02_sf_final)) = canon_stops 1.
Proof.
  split; [intros i Hi; destruct i as [|[|i]]; [discriminate|discriminate|cbn in Hi; lia]|].
  split; [cbn; auto|].
  split; [exists c02_sf_pre; vm_compute; reflexivity|]. split; [vm_compute; reflexivity|].
  split; [apply C02_run_first_ok; vm_compute; reflexivity|].
  split; [vm_compute; reflexivity|]. split; [reflexivity|].
  split; [exists (c02_sf_pre ++ c02_sf_rest); vm_compute; reflexivity|].
  split; [vm_compute; discriminate|].
  split; [apply mu_zero_stuck; [vm_compute; discriminate|vm_compute; reflexivity]|].
  split; [vm_compute; reflexivity|]. split; vm_compute; reflexivity.
Qed.

(* ---- the timeout sentence: "If some runnable never returns, Run() and Shutdown() still return once the
   configured shutdown timeout has elapsed" ---- *)

(* PROVED for non-blocking Stops: with a shutdown timeout that can fire (shutdown_may_fire c = true) and every
   Stop of style StopNonBlocking - whatever the runnables' Run does: returning late, returning errors, NEVER
   returning (no `good` hypothesis, no sdfirst_ok) - every reachable state after shutdown start in which no step
   of the implementation is enabled (the timer counts as a step of the implementation) has the shutdown body
   done, Run() returned (or never called) and no Shutdown() caller inside ... *)
Theorem C02_timeout_stuck_returned : forall c s,
  shutdown_may_fire c = true -> (forall i, i < nrun c -> stop_style (spec c i) = StopNonBlocking) ->
  0 < nrun c -> reachable_sup c s -> sd s <> SdNot -> system_stuck c s ->
  sd s = SdDone /\ (main s = MNew \/ exists r, main s = MReturned r) /\
  (forall k cs, find_caller k (callers s) <> Some (OpShutdown, cs)).
Proof. exact sup_c02_timeout_stuck_returned. Qed.

(* ... and every execution of implementation steps from there is finite (at most mu steps) and ends so. *)
Theorem C02_timeout_maximal_execution_returns : forall c s ls s',
  shutdown_may_fire c = true -> (forall i, i < nrun c -> stop_style (spec c i) = StopNonBlocking) ->
  0 < nrun c -> reachable_sup c s -> sd s <> SdNot ->
  run (step c) s ls = Some s' -> forallb is_system ls = true ->
  length ls <= mu c s /\
  (system_stuck c s' -> sd s' = SdDone /\ (main s' = MNew \/ exists r, main s' = MReturned r) /\
                        (forall k cs, find_caller k (callers s') <> Some (OpShutdown, cs))).
Proof. exact sup_c02_timeout_maximal. Qed.

(* non-vacuity, all hypotheses at once: a runnable whose Run NEVER returns, non-blocking Stop; the wait is ended
   by the timer; Run() and Shutdown() return; the runnable goroutine stays behind *)
Definition c02_never_spec (ss : sstyle) : rspec :=
  {| stateable := false; reloadable := false; rsender := false; ssender := false;
     stop_style := ss; run_exit := ExitNever; held_sub := false |}.
Definition c02_to_cfg : config :=
  {| specs := [c02_never_spec StopNonBlocking]; startup_may_fire := false; shutdown_may_fire := true |}.
Definition c02_to_pre : list label := [LRunEnter; LRunEntered; LLaunch 0; LRunCall 0; LCall 1 OpShutdown; LCallerGo 1].
Definition c02_to_rest : list label :=
  [LStopCall 0; LStopRet 0; LSdCancel; LSdTimeout; LReapCtx; LMainShutdown; LMainReturn ResNil; LRet 1 OpShutdown].
Definition c02_to_mid : state :=
  match run (step c02_to_cfg) (init c02_to_cfg) c02_to_pre with Some s => s | None => init c02_to_cfg end.
Definition c02_to_final : state :=
  match run (step c02_to_cfg) c02_to_mid c02_to_rest with Some s => s | None => init c02_to_cfg end.
Example C02_ex_timeout_all_hypotheses :
  shutdown_may_fire c02_to_cfg = true /\
  (forall i, i < nrun c02_to_cfg -> stop_style (spec c02_to_cfg i) = StopNonBlocking) /\
  ~ good c02_to_cfg /\ 0 < nrun c02_to_cfg /\
  reachable_sup c02_to_cfg c02_to_mid /\ sd c02_to_mid <> SdNot /\
  run (step c02_to_cfg) c02_to_mid c02_to_rest = Some c02_to_final /\ forallb is_system c02_to_rest = true /\
  reachable_sup c02_to_cfg c02_to_final /\ sd c02_to_final <> SdNot /\ system_stuck c02_to_cfg c02_to_final /\
  main c02_to_final = MReturned ResNil /\ callers c02_to_final = [] /\ sd_timed_out c02_to_final = true /\
  rn_at c02_to_final 0 = RnRunning.
Proof.
  split; [reflexivity|]. split; [intros i Hi; destruct i; [reflexivity|cbn in Hi; lia]|].
  split; [intros G; apply (G 0); [cbn; lia|reflexivity]|]. split; [cbn; lia|].
  split; [exists c02_to_pre; vm_compute; reflexivity|]. split; [vm_compute; discriminate|].
  split; [vm_compute; reflexivity|]. split; [reflexivity|].
  split; [exists (c02_to_pre ++ c02_to_rest); vm_compute; reflexivity|]. split; [vm_compute; discriminate|].
  split; [concrete_stuck|]. repeat split; vm_compute; reflexivity.
Qed.

(* REFUTED for a blocking Stop (finding never-returning-run-blocks-stop-forever): a runnable whose Run never
   returns and whose Stop is of the lifecycle style (it blocks until its Run has been invoked and HAS RETURNED,
   like every bundled runnable).  Shutdown blocks inside that Stop() forever; p.cancel() and the shutdown timer,
   which exists only after the Stop loop, are never reached: although the timeout can fire
   (shutdown_may_fire = true) no step of the implementation - no timer either - is enabled, the shutdown body is
   not done, Run() has not returned and the Shutdown() caller is still inside. *)
Definition c02_nr_cfg : config :=
  {| specs := [c02_never_spec StopUntilRunDone]; startup_may_fire := false; shutdown_may_fire := true |}.
Definition c02_nr_sched : list label :=
  [LRunEnter; LRunEntered; LLaunch 0; LRunCall 0; LCall 1 OpShutdown; LCallerGo 1; LStopCall 0].
Definition c02_nr_hung : state :=
  match run (step c02_nr_cfg) (init c02_nr_cfg) c02_nr_sched with Some s => s | None => init c02_nr_cfg end.
Theorem C02_timeout_refuted_blocking_stop :
  shutdown_may_fire c02_nr_cfg = true /\ 0 < nrun c02_nr_cfg /\
  run (step c02_nr_cfg) (init c02_nr_cfg) c02_nr_sched = Some c02_nr_hung /\
  sd c02_nr_hung <> SdNot /\ sd_all (aux c02_nr_hung) = false /\ system_stuck c02_nr_cfg c02_nr_hung /\
  stop_style (spec c02_nr_cfg 0) = StopUntilRunDone /\ run_exit (spec c02_nr_cfg 0) = ExitNever /\
  sd c02_nr_hung = SdIn 0 /\ rn_at c02_nr_hung 0 = RnRunning /\ main c02_nr_hung = MReap /\
  step c02_nr_cfg c02_nr_hung LSdTimeout = None /\
  find_caller 1 (callers c02_nr_hung) = Some (OpShutdown, CPending).
Proof.
  split; [reflexivity|]. split; [cbn; lia|]. split; [vm_compute; reflexivity|]. split; [vm_compute; discriminate|].
  split; [vm_compute; reflexivity|]. split; [concrete_stuck|]. repeat split; vm_compute; reflexivity.
Qed.

Print Assumptions C02_timeout_stuck_returned.
Print Assumptions C02_timeout_maximal_execution_returns.
Print Assumptions C02_timeout_refuted_blocking_stop.

(* non-vacuity: a complete shutdown of c02_cfg; the measure goes from 13 to 0 in 9 implementation
   steps, and with measure 0 no implementation step is enabled *)
Definition c02_pre : list label := [LRunEnter; LRunEntered; LLaunch 0; LRunCall 0; LCall 1 OpShutdown; LCallerGo 1].
Definition c02_rest : list label :=
  [LStopCall 0; LRunRet 0 None; LStopRet 0; LSdCancel; LSdWgDone; LReapCtx; LMainShutdown;
   LMainReturn ResNil; LRet 1 OpShutdown].
Definition c02_mid : state :=
  match run (step c02_cfg) (init c02_cfg) c02_pre with Some s => s | None => init c02_cfg end.
Definition c02_final : state :=
  match run (step c02_cfg) c02_mid c02_rest with Some s => s | None => init c02_cfg end.
Example C02_ex_terminates :
  run (step c02_cfg) (init c02_cfg) c02_pre = Some c02_mid /\ sd c02_mid <> SdNot /\
  run (step c02_cfg) c02_mid c02_rest = Some c02_final /\ forallb is_system c02_rest = true /\
  mu c02_cfg c02_mid = 13 /\ mu c02_cfg c02_final = 0 /\ main c02_final = MReturned ResNil /\
  system_stuck c02_cfg c02_final.
Proof.
  split; [vm_compute; reflexivity|]. split; [vm_compute; discriminate|].
  split; [vm_compute; reflexivity|]. split; [reflexivity|]. split; [vm_compute; reflexivity|].
  split; [vm_compute; reflexivity|]. split; [vm_compute; reflexivity|].
  intros l Hl. destruct (step c02_cfg c02_final l) as [s2|] eqn:E; [|reflexivity]. exfalso.
  assert (Hsd : sd c02_final <> SdNot) by (vm_compute; discriminate).
  pose proof (C02_measure_decreases _ _ _ _ Hsd Hl E) as X.
  assert (M : mu c02_cfg c02_final = 0) by (vm_compute; reflexivity).
  rewrite M in X. inversion X.
Qed.
