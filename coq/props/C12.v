(* C12 — HTTP server: Running means reachable and serving; returned means port released.   PARTIAL:
   net/http.Server, the kernel socket table and http.ServeMux are MODELLED (abstract network
   [net]: ListenAndServe binds iff the address is free, Shutdown unbinds, a dial succeeds iff the address
   is bound; mux oracle), not verified.  This file contains only statements. *)
From Coq Require Import List NArith ZArith Bool.
From GS Require Import LTS HttpCfg HttpServer HttpCfgProofs HttpInv HttpInvStep2 HttpProps.
Import ListNotations.

(* The model has two switches for repairs of the code: [stop_locked] (true = Run.shutdown takes r.mutex before
   Transition(Stopping); the code in /repo, HttpServer.stop_locked_now) and [validated] (C19).  The statements for
   the code as it is now have [stop_locked = true]; the statements that hold for both variants, and the refutation
   of the full statement for the old variant, are kept below as *_legacy. *)

(* Every schedule [ls] (any interleaving of Run, the serve goroutines, any number of Reload and Stop
   callers, cancellation, any callback results incl. changed addresses, any Shutdown results, Stop/cancel at any
   time: while Running, right after Running is reported, during a reload), no foreign binder:
   WHENEVER the state machine says Running,
   - r.server is a server created by the LAST boot from exactly the configuration the runner holds,
   - through a ServeMux that accepted its patterns, one entry per route bound to that route's own chain
     ([route_of_path] answers every path with its own route's name),
   - it is listening: a dial to the configured address reaches IT,
   - and no other server of this runner is bound anywhere. *)
Theorem C12_running : forall validated mux_ok c0 ls s,
  no_foreign ls ->
  run (step true validated mux_ok) (init c0) ls = Some s ->
  fsm_st s = FRunning ->
  exists sid sv, server s = Some sid /\ nth_error (servers s) sid = Some sv /\
                 s_cfg sv = cur s /\ s_shut sv = false /\ s_pc sv = SvListening /\
                 mux_ok (map rpath (routes (cur s))) = true /\
                 net_get (net s) (addr (cur s)) = Some (Own sid) /\
                 (forall a sid', net_get (net s) a = Some (Own sid') -> sid' = sid).
Proof. intros v m c0 ls s. exact (running_serves_repaired true v m c0 ls s eq_refl). Qed.

(* the observations the harness makes are the model's: at such a state a dial succeeds and a request for each
   configured path is answered by what [route_of_path] says for that path.  DEFINITIONAL given C12_running (the served
   configuration IS the held one, so the observed table is compared with itself); "by that path's OWN route" needs the
   configuration to be duplicate-free: C12_running_observable_own.
   Hypotheses: no foreign binder, s reachable (code's shutdown order), not crashed, state Running. *)
Theorem C12_running_observable : forall validated mux_ok c0 ls s,
  no_foreign ls ->
  run (step true validated mux_ok) (init c0) ls = Some s ->
  crashed s = false -> fsm_st s = FRunning ->
  step true validated mux_ok s (LObsDial (addr (cur s)) true) = Some s /\
  step true validated mux_ok s
    (LObsServe (addr (cur s)) (map (fun r => (rpath r, route_of_path (routes (cur s)) (rpath r))) (routes (cur s))))
  = Some s.
Proof. intros v m c0 ls s. exact (running_observable_repaired true v m c0 ls s eq_refl). Qed.

(* ... and the mux refusing repeated patterns (mux_sound, the only assumption on the oracle), the held configuration is
   duplicate-free (C13_served_config_nodup), so "its own route" is literal: the table the harness must see maps every
   configured path to the NAME of the route that carries it.
   Hypotheses: mux_sound, no foreign binder, s reachable (code's shutdown order), not crashed, state Running. *)
Theorem C12_running_observable_own : forall validated mux_ok c0 ls s,
  mux_sound mux_ok -> no_foreign ls ->
  run (step true validated mux_ok) (init c0) ls = Some s ->
  crashed s = false -> fsm_st s = FRunning ->
  step true validated mux_ok s
    (LObsServe (addr (cur s)) (map (fun r => (rpath r, Some (rname r))) (routes (cur s)))) = Some s.
Proof. intros v m c0 ls s Hm. exact (running_observable_own true v m c0 ls s Hm eq_refl). Qed.

(* Once Run() has returned (hence once Stop() has returned: LStopRet is enabled only then) no server
   created by this runner is bound to any address: every address it used can be bound again.  Both variants. *)
Theorem C12_released : forall sl validated mux_ok c0 ls s,
  no_foreign ls ->
  run (step sl validated mux_ok) (init c0) ls = Some s ->
  (exists r, rpc s = RRet r) \/ rpc s = RDone ->
  forall a sid, net_get (net s) a <> Some (Own sid).
Proof. exact released. Qed.

(* DEFINITIONAL: the guard of LStopRet (lc.Stop returns only after Run's deferred done()); hypothesis: the step is taken *)
Theorem C12_stop_returns_after_run : forall sl validated mux_ok s j s',
  step sl validated mux_ok s (LStopRet j) = Some s' -> (exists r, rpc s = RRet r) \/ rpc s = RDone.
Proof. exact stop_ret_after_run. Qed.

(* ---- the old variant (Transition(Stopping) before the mutex), kept for the record ---- *)

(* what held for the old code (and holds for both variants): Running implies serving EXCEPT while Run() is
   inside its own stopServer *)
Theorem C12_running_legacy : forall sl validated mux_ok c0 ls s,
  no_foreign ls ->
  run (step sl validated mux_ok) (init c0) ls = Some s ->
  fsm_st s = FRunning -> rpc s <> RInStop ->
  exists sid sv, server s = Some sid /\ nth_error (servers s) sid = Some sv /\
                 s_cfg sv = cur s /\ s_shut sv = false /\ s_pc sv = SvListening /\
                 mux_ok (map rpath (routes (cur s))) = true /\
                 net_get (net s) (addr (cur s)) = Some (Own sid) /\
                 (forall a sid', net_get (net s) a = Some (Own sid') -> sid' = sid).
Proof. exact running_serves. Qed.

(* the excluded window was real (finding running-while-stopping:stop-during-reload, confirmed on the old code):
   Stop()/cancel arriving while a Reload holds the mutex made Run() close the listener while the state machine
   still said Running ... *)
Theorem C12_running_refuted_legacy :
  exists s, run (step false false (fun _ => true)) (init wit_cfg) wit_sched = Some s /\
            fsm_st s = FRunning /\ bound_any (net s) (addr wit_cfg) = false /\ rpc s = RInStop.
Proof. exact running_while_stopping. Qed.

(* ... and the very same schedule against the repaired shutdown ends in the state Stopping *)
Theorem C12_witness_repaired :
  exists s, run (step true false (fun _ => true)) (init wit_cfg) wit_sched = Some s /\
            fsm_st s = FStopping /\ bound_any (net s) (addr wit_cfg) = false /\ rpc s = RInStop.
Proof. exact stopping_while_stopping_repaired. Qed.

(* the model the check runs is one of the variants *)
Theorem C12_model_in_use : stop_locked_now = true.
Proof. reflexivity. Qed.

Print Assumptions C12_running.
Print Assumptions C12_running_legacy.
Print Assumptions C12_running_refuted_legacy.
Print Assumptions C12_witness_repaired.
Print Assumptions C12_model_in_use.
Print Assumptions C12_running_observable.
Print Assumptions C12_running_observable_own.
Print Assumptions C12_released.
Print Assumptions C12_stop_returns_after_run.

(* ---- non-vacuity: a schedule that reaches Running on one address, reloads to another, stops ---- *)
Definition c12_a : config :=
  {| addr := [65%N]; drain := 5%Z; read_to := 1%Z; write_to := 2%Z; idle_to := 3%Z;
     routes := [{| rname := [97%N]; rpath := [47%N; 120%N] |}] |}.
Definition c12_b : config :=
  {| addr := [66%N]; drain := 5%Z; read_to := 1%Z; write_to := 2%Z; idle_to := 3%Z;
     routes := [{| rname := [97%N]; rpath := [47%N; 120%N] |}; {| rname := [98%N]; rpath := [47%N; 121%N] |}] |}.
Definition c12_sched : list label :=
  [LRunCall; LRunStart; LRunLock; LBootCreate 0 c12_a; LBindOk 0; LProbeOk; LRunFinishBoot;
   LReloadCall 0; LReloadBegin 0; LFetch (CbCfg c12_b); LStopCallS 0; LShutdownRet 0 SOk;
   LBootCreate 1 c12_b; LBindOk 1; LProbeOk; LFinish; LReloadRet 0;
   LObsState FRunning; LObsDial [66%N] true; LObsDial [65%N] false;
   LStopCall 0; LRunWake; LRunLockStop; LStopCallS 1; LShutdownRet 1 SOk; LRunFinishStop; LRunRet ROk; LStopRet 0;
   LObsDial [66%N] false].
Example C12_ex_full_cycle :
  exists s, run (step true false (fun _ => true)) (init c12_a) c12_sched = Some s /\
            fsm_st s = FStopped /\ rpc s = RDone /\ net s = [].
Proof. eexists. split; [vm_compute; reflexivity|]. repeat split. Qed.
(* all hypotheses of C12_running_observable_own at once: a sound oracle, a foreign-binder-free schedule, Running *)
Example C12_ex_own_hyps :
  mux_sound nodup_oracle /\
  exists s, run (step true true nodup_oracle) (init c12_b)
              [LRunCall; LRunStart; LRunLock; LBootCreate 0 c12_b; LBindOk 0; LProbeOk; LRunFinishBoot] = Some s /\
            crashed s = false /\ fsm_st s = FRunning.
Proof. split; [exact nodup_oracle_sound|]. eexists. split; [vm_compute; reflexivity|]. split; reflexivity. Qed.
Example C12_ex_no_foreign : no_foreign c12_sched.
Proof. repeat constructor. Qed.
