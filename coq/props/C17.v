(* C17 - the public API is free of data races under concurrent use.   PARTIAL:
   proof over an access table extracted from the Go source (coq/gen/AccessTable.v, regenerated
   by harness/cmd/srcfacts on every run), not over the Go code itself.
   This file contains only statements; every proof is `exact <lemma>` or a computation.
   It is the ONLY file that depends on coq/gen/AccessTable.v.

   Trusted (see model/Race.v): the equivalence of "two different threads simultaneously about to
   perform conflicting accesses" with Go-memory-model data races for sequentially consistent
   executions; srcfacts' report of every access and of the lexical lock state; pre-publication
   of constructor/fresh/local sites; each HBVia pair (model/RacePolicy.v). *)
From Coq Require Import String List Bool.
From GS Require Import Race RacePolicy RaceSound RaceEntries RaceInfer RaceExamples AccessTable.
Import ListNotations.
Open Scope string_scope.

(* Generic: an accepted table + truthful site annotations => no race, for ANY number of threads,
   ANY programs over the table's sites and ANY schedule; the only conflicting simultaneous
   accesses left are on excepted fields or between listed HBVia function pairs. *)
Theorem C17_discipline_sound : forall pol exc tbl init sched st,
  table_ok pol exc tbl = true ->
  initial init ->
  progs_in tbl init ->
  run init sched = Some st ->
  truthful (eff_locks tbl) st ->
  forall i j ti tj s1 s2,
    i <> j -> nth_error st i = Some ti -> nth_error st j = Some tj ->
    next_acc ti = Some s1 -> next_acc tj = Some s2 ->
    conflict s1 s2 = true ->
    excused pol exc tbl s1 s2 = true.
Proof. exact discipline_sound. Qed.

(* the same with a purely syntactic hypothesis on the programs (per-thread lock-set check) *)
Theorem C17_discipline_sound_static : forall pol exc tbl init sched st,
  table_ok pol exc tbl = true ->
  initial init ->
  progs_in tbl init ->
  (forall t, In t init -> check_prog (eff_locks tbl) [] (prog t) = true) ->
  run init sched = Some st ->
  forall i j ti tj s1 s2,
    i <> j -> nth_error st i = Some ti -> nth_error st j = Some tj ->
    next_acc ti = Some s1 -> next_acc tj = Some s2 ->
    conflict s1 s2 = true ->
    excused pol exc tbl s1 s2 = true.
Proof. exact discipline_sound_static. Qed.

(* lock semantics: an exclusively held lock is held by nobody else, in every reachable state *)
Theorem C17_mutual_exclusion : forall init sched st,
  initial init -> run init sched = Some st ->
  forall i j ti tj l, i <> j -> nth_error st i = Some ti -> nth_error st j = Some tj ->
    holds_ex (held ti) l = true -> holds_any (held tj) l = false.
Proof. exact reachable_lock_inv. Qed.

(* "excused" means exactly: an excepted field, or a listed HBVia pair of that field's policy *)
Theorem C17_excused_cases : forall pol exc tbl a b, excused pol exc tbl a b = true ->
  in_keys exc (site_key a) = true \/
  exists n ps, In (site_key a, HBVia n ps) pol /\ pair_listed tbl ps a b = true.
Proof. exact excused_cases. Qed.

(* the helper-propagation certificate carried by the table is sound for every call chain *)
Theorem C17_entries_sound : forall tbl f H,
  entry_failures tbl = [] -> enters tbl f H -> covers H (entry_of (t_funcs tbl) f) = true.
Proof. exact entries_sound. Qed.

Theorem C17_eff_locks_truthful : forall tbl s h Hentry,
  entry_failures tbl = [] ->
  enters tbl (s_func s) Hentry ->
  covers h (s_lex s) = true ->
  (s_same_recv s = true -> covers h Hentry = true) ->
  covers h (eff_locks tbl s) = true.
Proof. exact eff_locks_truthful. Qed.

(* ---------- inferred policies ----------
   The table is checked against [effective pol tbl]: the declared policy followed by one INFERRED entry for every table
   field the declared policy does not name (a renamed field, a new field) - the first of SyncTyped, CtorOnly, Immutable,
   GuardedBy l (l among the locks held at the field's first shared access) under which the field's category and ALL its
   sites pass the very checks a declared entry undergoes.  No candidate passes = the field stays unknown = the table
   fails.  Nothing about the inference is trusted: *)

(* a declared entry is the entry used, whatever could have been inferred *)
Theorem C17_declared_authoritative : forall pol tbl k p,
  lookup pol k = Some p -> lookup (effective pol tbl) k = Some p.
Proof. exact declared_authoritative. Qed.

(* an inferred entry passes the category check and the per-site check on every site of its field ... *)
Theorem C17_inferred_checked : forall tbl f p, infer_field tbl f = Some p ->
  cat_check p (fd_cat f) = None /\
  forall s, In s (t_sites tbl) -> site_key s = (fd_struct f, fd_field f) -> site_check tbl p s = None.
Proof. exact inferred_checked. Qed.

(* ... and is never an HBVia: it excuses no conflicting pair *)
Theorem C17_inferred_never_hbvia : forall tbl f p, infer_field tbl f = Some p -> forall n ps, p <> HBVia n ps.
Proof. exact inferred_never_hbvia. Qed.

(* in an accepted table EVERY non-excepted field of a tracked struct is declared-and-checked or inferred-and-checked *)
Theorem C17_every_field_classified : forall pol exc tbl f,
  table_ok (effective pol tbl) exc tbl = true -> In f (t_fields tbl) ->
  in_keys exc (fd_struct f, fd_field f) = false ->
  exists p,
    lookup (effective pol tbl) (fd_struct f, fd_field f) = Some p /\
    (lookup pol (fd_struct f, fd_field f) = Some p \/
     (lookup pol (fd_struct f, fd_field f) = None /\ exists f', In f' (t_fields tbl) /\
        (fd_struct f, fd_field f) = (fd_struct f', fd_field f') /\ infer_field tbl f' = Some p)) /\
    cat_check p (fd_cat f) = None /\
    forall s, In s (t_sites tbl) -> site_key s = (fd_struct f, fd_field f) -> site_check tbl p s = None.
Proof. exact every_field_classified. Qed.

(* the race-freedom conclusion for a table accepted under the effective policy; the only excuses left are those of the
   DECLARED policy (excepted fields, listed pairs of a declared HBVia) *)
Theorem C17_discipline_sound_inferred : forall pol exc tbl init sched st,
  table_ok (effective pol tbl) exc tbl = true ->
  initial init -> progs_in tbl init -> run init sched = Some st -> truthful (eff_locks tbl) st ->
  forall i j ti tj s1 s2,
    i <> j -> nth_error st i = Some ti -> nth_error st j = Some tj ->
    next_acc ti = Some s1 -> next_acc tj = Some s2 -> conflict s1 s2 = true ->
    excused pol exc tbl s1 s2 = true.
Proof. exact discipline_sound_inferred. Qed.

Theorem C17_discipline_sound_inferred_static : forall pol exc tbl init sched st,
  table_ok (effective pol tbl) exc tbl = true ->
  initial init -> progs_in tbl init ->
  (forall t, In t init -> check_prog (eff_locks tbl) [] (prog t) = true) ->
  run init sched = Some st ->
  forall i j ti tj s1 s2,
    i <> j -> nth_error st i = Some ti -> nth_error st j = Some tj ->
    next_acc ti = Some s1 -> next_acc tj = Some s2 -> conflict s1 s2 = true ->
    excused pol exc tbl s1 s2 = true.
Proof. exact discipline_sound_inferred_static. Qed.

(* THE obligation that is re-proved against the regenerated table on every run: the table extracted from the source is
   accepted under the declared policy completed by inference *)
Theorem C17_table_ok : table_ok (effective policy_all table) exceptions table = true.
Proof. vm_compute. reflexivity. Qed.

(* instance: the library as extracted from /repo *)
Theorem C17_no_race_in_extracted_table : forall init sched st,
  initial init ->
  progs_in table init ->
  run init sched = Some st ->
  truthful (eff_locks table) st ->
  forall i j ti tj s1 s2,
    i <> j -> nth_error st i = Some ti -> nth_error st j = Some tj ->
    next_acc ti = Some s1 -> next_acc tj = Some s2 ->
    conflict s1 s2 = true ->
    excused policy_all exceptions table s1 s2 = true.
Proof. exact (fun init sched st => discipline_sound_inferred policy_all exceptions table init sched st C17_table_ok). Qed.

Print Assumptions C17_discipline_sound.
Print Assumptions C17_discipline_sound_static.
Print Assumptions C17_mutual_exclusion.
Print Assumptions C17_excused_cases.
Print Assumptions C17_entries_sound.
Print Assumptions C17_eff_locks_truthful.
Print Assumptions C17_declared_authoritative.
Print Assumptions C17_inferred_checked.
Print Assumptions C17_inferred_never_hbvia.
Print Assumptions C17_every_field_classified.
Print Assumptions C17_discipline_sound_inferred.
Print Assumptions C17_discipline_sound_inferred_static.
Print Assumptions C17_table_ok.
Print Assumptions C17_no_race_in_extracted_table.

(* non-vacuity, on frozen miniatures of the httpcluster currentEntries defect and its repair
   (independent of the regenerated table, so they stay true whatever /repo looks like) *)
Example C17_ex_repaired_shape_accepted : table_ok mini_pol [] mini_fixed = true.
Proof. exact ex_fixed_ok. Qed.
Example C17_ex_rlock_writer_refuted : table_ok mini_pol [] mini_broken = false.
Proof. exact ex_rlock_writer_rejected. Qed.
Example C17_ex_exception_masks_only_its_field :
  table_ok mini_pol [("httpcluster.Runner", "currentEntries")] mini_broken = true /\
  table_ok mini_pol [("httpcluster.Runner", "mu")] mini_broken = false.
Proof. exact ex_exception_masks_exactly_that_field. Qed.
Example C17_ex_unknown_field_refuted : table_ok [(("httpcluster.Runner", "mu"), SyncTyped)] [] mini_fixed = false.
Proof. exact ex_unknown_field_rejected. Qed.
(* ... but under the effective policy the unnamed field of the repaired shape gets GuardedBy mu by inference (accepted),
   the defective shape admits no discipline (rejected), a declared policy that fails is not rescued by inference, and
   renamed / new constructor-only and mutex fields are inferred while a late unguarded write is not *)
Example C17_ex_inferred_guarded :
  inferred only_mu mini_fixed = [(("httpcluster.Runner", "currentEntries"), GuardedBy mu)] /\
  table_ok (effective only_mu mini_fixed) [] mini_fixed = true.
Proof. exact ex_inferred_guarded. Qed.
Example C17_ex_no_discipline_no_inference :
  inferred only_mu mini_broken = [] /\ table_ok (effective only_mu mini_broken) [] mini_broken = false.
Proof. exact ex_no_discipline_no_inference. Qed.
Example C17_ex_declared_is_authoritative :
  table_ok (effective ((("httpcluster.Runner", "currentEntries"), CtorOnly) :: only_mu) mini_fixed) [] mini_fixed = false.
Proof. exact ex_declared_is_authoritative. Qed.
Example C17_ex_renamed_fields_inferred :
  inferred [] (ren_tbl false) = [(("p.T", "lifecycle"), CtorOnly); (("p.T", "extraMu"), SyncTyped)] /\
  table_ok (effective [] (ren_tbl false)) [] (ren_tbl false) = true /\
  inferred [] (ren_tbl true) = [(("p.T", "extraMu"), SyncTyped)] /\
  table_ok (effective [] (ren_tbl true)) [] (ren_tbl true) = false.
Proof. exact ex_renamed_fields_inferred. Qed.
Example C17_ex_sync_reassign_refuted :
  table_ok mini_pol [] (mini [site_ctor; site_wr Ex; site_rd; site_once_reassign]) = false.
Proof. exact ex_sync_reassign_rejected. Qed.
Example C17_ex_hbvia_unlisted_pair_refuted :
  table_ok [(("c.R", "ch"), HBVia "p" [HB "c.R.boot" "c.R.Run"])] [] hb_tbl = true /\
  table_ok [(("c.R", "ch"), HBVia "p" [])] [] hb_tbl = false.
Proof. exact ex_hbvia_listed_or_rejected. Qed.
Example C17_ex_entry_certificate_checked :
  table_ok [] [] (ent_tbl [("p.T.mu", Ex)]) = true /\ table_ok [] [] (ent_tbl [("p.T.mu", Sh)]) = false
  /\ table_ok [] [] (ent_tbl []) = false.
Proof. exact ex_entry_certificate. Qed.
(* the theorem's hypotheses are satisfiable, and the defective shape really races in the model
   although every annotation is truthful *)
Example C17_ex_hypotheses_satisfiable : forall m,
  initial (init2 m) /\ progs_in (mini [site_ctor; site_wr m; site_rd]) (init2 m) /\
  forall t, In t (init2 m) -> check_prog (eff_locks (mini [site_ctor; site_wr m; site_rd])) [] (prog t) = true.
Proof. exact ex_init_hypotheses. Qed.
Example C17_ex_rlock_writer_races :
  exists st ti tj, run (init2 Sh) [0; 1] = Some st /\
    nth_error st 0 = Some ti /\ nth_error st 1 = Some tj /\
    next_acc ti = Some (site_wr Sh) /\ next_acc tj = Some site_rd /\
    conflict (site_wr Sh) site_rd = true /\ excused mini_pol [] mini_broken (site_wr Sh) site_rd = false.
Proof. exact ex_rlock_writer_races. Qed.
Example C17_ex_repaired_shape_runs :
  exists st, run (init2 Ex) [0; 0; 0; 1; 1; 1] = Some st /\ forall t, In t st -> prog t = [].
Proof. exact ex_fixed_runs_to_completion. Qed.
