(* C01 - Supervisor: exactly-once, reverse-order, sequential Stop on every shutdown path.
   Statements only.  All statements quantify over every configuration (any number of runnables,
   any capability mix, both Stop styles, any Run-exit behaviour) and every schedule - including the
   schedules in which Shutdown() is called BEFORE Run() (Run() is an action of the environment:
   LRunEnter / LRunEntered; the initial state has no Run() goroutine). *)
From Coq Require Import List Bool Arith.
From GS Require Import LTS Supervisor SupAccept SupProps SupInv SupStop SupTrig SupGate SupOnce.
Import ListNotations.

(* The Stop() calls and returns of every execution are a prefix of
     StopCall (k-1); StopRet (k-1); ...; StopCall 0; StopRet 0      for some k <= n:
   at most once each, strictly reverse registration order, each returning before the next begins. *)
Theorem C01_order : forall c ls s,
  run (step c) (init c) ls = Some s -> c01_order c (obs_trace obs ls) = true.
Proof. exact sup_c01_order. Qed.

(* No Stop() is issued before shutdown starts: every StopCall is preceded by a trigger event
   (unless the start-up deadline, which leaves no event, can fire). *)
Theorem C01_not_before : forall c ls s,
  run (step c) (init c) ls = Some s -> c01_not_before c (obs_trace obs ls) = true.
Proof. exact sup_c01_not_before. Qed.

(* Once Run() has returned, every runnable whose Run was invoked has been stopped exactly once.
   ("at most once on every registered runnable" is C01_order; when Shutdown() precedes Run(), Stop() is
   called on runnables whose Run is never invoked - allowed by "at most once" - see C01_stop_range.) *)
Theorem C01_exactly_once : forall c ls s,
  run (step c) (init c) ls = Some s -> c01_exactly_once c (obs_trace obs ls) = true.
Proof. exact sup_c01_exactly_once. Qed.

(* The supervisor does not cancel the runnables' contexts until every Stop() has returned: whenever
   its own cancel() has been called, the complete stop sequence Stop(k-1) .. Stop(0), with all
   returns, over the whole stop range k = stop_k c s (see C01_stop_range) is already in the history. *)
Theorem C01_cancel_after : forall c s,
  reachable_sup c s -> own_cancel s = true ->
  stop_evs (rev (hist s)) = canon_stops (stop_k c s).
Proof. exact sup_c01_cancel_after. Qed.

(* Nothing is started once shutdown has begun (launch gate, /repo commit 00876a0): the started runnables
   are always a prefix of the registration order. *)
Theorem C01_started_prefix : forall c s,
  reachable_sup c s -> is_prefix_k (rn s) (launched s).
Proof. intros c s H. exact (ip_prefix _ _ (InvPre_reachable c s H)). Qed.

(* Which runnables are stopped (stop_k c s = if sd_all (aux s) then nrun c else launched s; the ghost flag
   sd_all is set exactly by the step that starts the shutdown while p.runEntered is still false):
   - when Run() was entered before the launch gate was closed, ONLY what Run() has started is stopped;
   - when Shutdown() closed the gate BEFORE Run() was entered, EVERY registered runnable is stopped
     (supervisor.go Shutdown: stopCount = len(p.runnables)), and no runnable's Run is ever invoked. *)
Theorem C01_stop_range : forall c s,
  reachable_sup c s ->
  (sd s <> SdNot -> run_entered (aux s) = false -> sd_all (aux s) = true) /\
  (sd_all (aux s) = false -> stop_k c s = launched s) /\
  (sd_all (aux s) = true -> stop_k c s = nrun c /\ launched s = 0) /\
  (own_cancel s = true -> stop_evs (rev (hist s)) = canon_stops (stop_k c s)).
Proof. exact sup_c01_stop_range. Qed.

Print Assumptions C01_order.
Print Assumptions C01_exactly_once.
Print Assumptions C01_cancel_after.
Print Assumptions C01_started_prefix.
Print Assumptions C01_stop_range.
Print Assumptions C01_not_before.

Definition c01_cfg : config :=
  {| specs := [dflt_spec; dflt_spec]; startup_may_fire := false; shutdown_may_fire := false |}.
Definition c01_sched : list label :=
  [LRunEnter; LRunEntered; LLaunch 0; LRunCall 0; LLaunch 1; LRunCall 1; LCall 1 OpShutdown; LCallerGo 1;
   LStopCall 1; LStopRet 1; LStopCall 0; LStopRet 0; LSdCancel].
Example C01_ex_schedule :
  exists s, run (step c01_cfg) (init c01_cfg) c01_sched = Some s /\
            stop_evs (obs_trace obs c01_sched) = canon_stops 2.
Proof. eexists. split; vm_compute; reflexivity. Qed.
(* Shutdown() before Run(): both registered runnables are stopped, in reverse order, once each, although no
   Run is ever invoked; a later Run() starts nothing and returns nil *)
Definition c01_first_sched : list label :=
  [LCall 1 OpShutdown; LCallerGo 1; LStopCall 1; LStopRet 1; LStopCall 0; LStopRet 0; LSdCancel; LSdWgDone;
   LRet 1 OpShutdown; LRunEnter; LRunEntered; LLaunch 0; LReapCtx; LMainShutdown; LMainReturn ResNil].
Example C01_ex_shutdown_before_run :
  exists s, run (step c01_cfg) (init c01_cfg) c01_first_sched = Some s /\
            sd_all (aux s) = true /\ stop_k c01_cfg s = 2 /\ launched s = 0 /\
            stop_evs (obs_trace obs c01_first_sched) = canon_stops 2 /\ main s = MReturned ResNil /\
            c01_exactly_once c01_cfg (obs_trace obs c01_first_sched) = true.
Proof. eexists. split; [vm_compute; reflexivity|]. repeat split; vm_compute; reflexivity. Qed.
Example C01_ex_rejects_forward_order :
  c01_order c01_cfg [EStopCall 0; EStopRet 0; EStopCall 1; EStopRet 1] = false.
Proof. vm_compute. reflexivity. Qed.
