(* C01 - Supervisor: exactly-once, reverse-order, sequential Stop on every shutdown path.
   Statements only.  All statements quantify over every configuration (any number of runnables,
   any capability mix, both Stop styles, any Run-exit behaviour) and every schedule - including the
   schedules in which Shutdown() is called BEFORE Run() (Run() is an action of the environment:
   LRunEnter / LRunEntered; the initial state has no Run() goroutine). *)
From Coq Require Import List Bool Arith.
From GS Require Import LTS Supervisor SupAccept SupProps SupInv SupStop SupTrig SupGate SupOnce.
Import ListNotations.

(* The Stop() calls and returns of every execution are a prefix of
     StopCall (k-1); StopRet (k-1); ...; StopCall 0; StopRet 0      for some k <= n:
   at most once each, strictly reverse registration order, each returning before the next begins. *)
Theorem C01_order : forall c ls s,
  run (step c) (init c) ls = Some s -> c01_order c (obs_trace obs ls) = true.
Proof. exact sup_c01_order. Qed.

(* No Stop() is issued before shutdown starts.  A shutdown starts only with a cause; `is_trigger c` are the
   events that are one: a Shutdown() call, an INT/TERM SendSignal call, cancellation of the parent context, a
   trigger offered by a runnable that IS a ShutdownSender, a runnable's Run returning a non-cancellation error
   (no other API call, no trigger of a non-ShutdownSender).  The only cause without an event is the start-up
   deadline firing: in the model it sets the ghost flag su_fired (C01_su_fired says what the flag means).
   MODEL FORM - for EVERY configuration (also when the start-up deadline can fire: realistic configurations),
   every schedule on which the deadline has not fired: every StopCall is preceded by a trigger event. *)
Theorem C01_not_before : forall c ls s,
  run (step c) (init c) ls = Some s -> su_fired (aux s) = false ->
  c01_not_before_strict c (obs_trace obs ls) = true.
Proof. exact sup_c01_not_before_model. Qed.

(* the flag: set only by the step LGateTimeout (by definition of step), never cleared; when it is set the
   deadline can fire in this configuration and Run() has fixed the start-up timeout error as its result *)
Theorem C01_su_fired : forall c s,
  reachable_sup c s -> su_fired (aux s) = true ->
  startup_may_fire c = true /\ main_res (main s) = Some ResTimeout.
Proof. exact InvSu_reachable. Qed.

(* TRACE FORM (the monitor evaluated on the implementation's traces, which have no ghost flag): every StopCall
   is preceded by a trigger event, or Run() returned the start-up timeout error, or it has not returned yet and
   the deadline can fire. *)
Theorem C01_not_before_trace : forall c ls s,
  run (step c) (init c) ls = Some s -> c01_not_before c (obs_trace obs ls) = true.
Proof. exact sup_c01_not_before. Qed.

(* Once Run() has returned, every runnable whose Run was invoked has been stopped exactly once.
   ("at most once on every registered runnable" is C01_order; when Shutdown() precedes Run(), Stop() is
   called on runnables whose Run is never invoked - allowed by "at most once" - see C01_stop_range.) *)
Theorem C01_exactly_once : forall c ls s,
  run (step c) (init c) ls = Some s -> c01_exactly_once c (obs_trace obs ls) = true.
Proof. exact sup_c01_exactly_once. Qed.

(* The supervisor does not cancel the runnables' contexts until every Stop() has returned: whenever
   its own cancel() has been called, the complete stop sequence Stop(k-1) .. Stop(0), with all
   returns, over the whole stop range k = stop_k c s (see C01_stop_range) is already in the history. *)
Theorem C01_cancel_after : forall c s,
  reachable_sup c s -> own_cancel s = true ->
  stop_evs (rev (hist s)) = canon_stops (stop_k c s).
Proof. exact sup_c01_cancel_after. Qed.

(* Nothing is started once shutdown has begun (launch gate, /repo commit 00876a0): the started runnables
   are always a prefix of the registration order. *)
Theorem C01_started_prefix : forall c s,
  reachable_sup c s -> is_prefix_k (rn s) (launched s).
Proof. intros c s H. exact (ip_prefix _ _ (InvPre_reachable c s H)). Qed.

(* Which runnables are stopped (stop_k c s = if sd_all (aux s) then nrun c else launched s; the ghost flag
   sd_all is set exactly by the step that starts the shutdown while p.runEntered is still false):
   - when Run() was entered before the launch gate was closed, ONLY what Run() has started is stopped;
   - when Shutdown() closed the gate BEFORE Run() was entered, EVERY registered runnable is stopped
     (supervisor.go Shutdown: stopCount = len(p.runnables)), and no runnable's Run is ever invoked. *)
Theorem C01_stop_range : forall c s,
  reachable_sup c s ->
  (sd s <> SdNot -> run_entered (aux s) = false -> sd_all (aux s) = true) /\
  (sd_all (aux s) = false -> stop_k c s = launched s) /\
  (sd_all (aux s) = true -> stop_k c s = nrun c /\ launched s = 0) /\
  (own_cancel s = true -> stop_evs (rev (hist s)) = canon_stops (stop_k c s)).
Proof. exact sup_c01_stop_range. Qed.

Print Assumptions C01_order.
Print Assumptions C01_exactly_once.
Print Assumptions C01_cancel_after.
Print Assumptions C01_started_prefix.
Print Assumptions C01_stop_range.
Print Assumptions C01_not_before.
Print Assumptions C01_su_fired.
Print Assumptions C01_not_before_trace.

Definition c01_cfg : config :=
  {| specs := [dflt_spec; dflt_spec]; startup_may_fire := false; shutdown_may_fire := false |}.
Definition c01_sched : list label :=
  [LRunEnter; LRunEntered; LLaunch 0; LRunCall 0; LLaunch 1; LRunCall 1; LCall 1 OpShutdown; LCallerGo 1;
   LStopCall 1; LStopRet 1; LStopCall 0; LStopRet 0; LSdCancel].
Example C01_ex_schedule :
  exists s, run (step c01_cfg) (init c01_cfg) c01_sched = Some s /\
            stop_evs (obs_trace obs c01_sched) = canon_stops 2.
Proof. eexists. split; vm_compute; reflexivity. Qed.
(* C01_not_before is not vacuous for realistic configurations: here the start-up deadline CAN fire
   (startup_may_fire = true), it has not, and Stops were issued - after the SIGTERM call *)
Definition c01_su_cfg : config :=
  {| specs := [ {| stateable := true; reloadable := false; rsender := false; ssender := false;
                   stop_style := StopNonBlocking; run_exit := ExitOnSignal; held_sub := false |}; dflt_spec];
     startup_may_fire := true; shutdown_may_fire := true |}.
Definition c01_su_sched : list label :=
  [LRunEnter; LRunEntered; LLaunch 0; LRunStore 0; LRunCall 0; LPoll 0 true; LGateDecide 0; LLaunch 1; LRunCall 1;
   LCall 1 (OpSignal SigTerm); LSigPut 1; LReapSig; LMainShutdown; LStopCall 1; LStopRet 1; LStopCall 0].
Example C01_ex_not_before_hypotheses :
  exists s, run (step c01_su_cfg) (init c01_su_cfg) c01_su_sched = Some s /\ su_fired (aux s) = false /\
            startup_may_fire c01_su_cfg = true /\ stop_evs (obs_trace obs c01_su_sched) = [EStopCall 1; EStopRet 1; EStopCall 0].
Proof. eexists. split; [vm_compute; reflexivity|]. repeat split; vm_compute; reflexivity. Qed.
(* the genuine excuse: the deadline fires at runnable 0's gate, Stop is called with no trigger event before *)
Definition c01_su_fire : list label :=
  [LRunEnter; LRunEntered; LLaunch 0; LRunStore 0; LRunCall 0; LPoll 0 false; LGateTimeout 0; LMainShutdown; LStopCall 0].
Example C01_ex_startup_timeout_path :
  exists s, run (step c01_su_cfg) (init c01_su_cfg) c01_su_fire = Some s /\ su_fired (aux s) = true /\
            c01_not_before_strict c01_su_cfg (obs_trace obs c01_su_fire) = false /\
            c01_not_before c01_su_cfg (obs_trace obs c01_su_fire) = true.
Proof. eexists. split; [vm_compute; reflexivity|]. repeat split; vm_compute; reflexivity. Qed.
(* the monitor is not blinded by startup_may_fire = true: a Stop without a trigger in a trace whose Run()
   returned nil is rejected; so are "triggers" that are none *)
Example C01_ex_not_before_rejects :
  c01_not_before c01_su_cfg [ERunEnter; ERunCall 0; EStopCall 0; EStopRet 0; ERunReturn ResNil] = false /\
  c01_not_before c01_su_cfg [ERunEnter; ERunCall 0; ETrigS 1; ECall 1 OpReloadAll; ECall 2 (OpSignal SigHup);
                             ERunRet 0 None; EStopCall 0; EStopRet 0; ERunReturn ResNil] = false /\
  c01_not_before c01_su_cfg [ERunEnter; ERunCall 0; ECall 1 OpShutdown; EStopCall 0; EStopRet 0; ERunReturn ResNil] = true.
Proof. repeat split; vm_compute; reflexivity. Qed.

(* Shutdown() before Run(): both registered runnables are stopped, in reverse order, once each, although no
   Run is ever invoked; a later Run() starts nothing and returns nil *)
Definition c01_first_sched : list label :=
  [LCall 1 OpShutdown; LCallerGo 1; LStopCall 1; LStopRet 1; LStopCall 0; LStopRet 0; LSdCancel; LSdWgDone;
   LRet 1 OpShutdown; LRunEnter; LRunEntered; LLaunch 0; LReapCtx; LMainShutdown; LMainReturn ResNil].
Example C01_ex_shutdown_before_run :
  exists s, run (step c01_cfg) (init c01_cfg) c01_first_sched = Some s /\
            sd_all (aux s) = true /\ stop_k c01_cfg s = 2 /\ launched s = 0 /\
            stop_evs (obs_trace obs c01_first_sched) = canon_stops 2 /\ main s = MReturned ResNil /\
            c01_exactly_once c01_cfg (obs_trace obs c01_first_sched) = true.
Proof. eexists. split; [vm_compute; reflexivity|]. repeat split; vm_compute; reflexivity. Qed.
Example C01_ex_rejects_forward_order :
  c01_order c01_cfg [EStopCall 0; EStopRet 0; EStopCall 1; EStopRet 1] = false.
Proof. vm_compute. reflexivity. Qed.
