(* C01 - Supervisor: exactly-once, reverse-order, sequential Stop on every shutdown path.
   Statements only.  All statements quantify over every configuration (any number of runnables,
   any capability mix, both Stop styles, any Run-exit behaviour) and every schedule. *)
From Coq Require Import List Bool Arith.
From GS Require Import LTS Supervisor SupAccept SupProps SupInv SupStop SupTrig SupGate SupOnce.
Import ListNotations.

(* The Stop() calls and returns of every execution are a prefix of
     StopCall (k-1); StopRet (k-1); ...; StopCall 0; StopRet 0      for some k <= n:
   at most once each, strictly reverse registration order, each returning before the next begins. *)
Theorem C01_order : forall c ls s,
  run (step c) (init c) ls = Some s -> c01_order c (obs_trace obs ls) = true.
Proof. exact sup_c01_order. Qed.

(* No Stop() is issued before shutdown starts: every StopCall is preceded by a trigger event
   (unless the start-up deadline, which leaves no event, can fire). *)
Theorem C01_not_before : forall c ls s,
  run (step c) (init c) ls = Some s -> c01_not_before c (obs_trace obs ls) = true.
Proof. exact sup_c01_not_before. Qed.

(* Once Run() has returned, every runnable whose Run was invoked has been stopped exactly once. *)
Theorem C01_exactly_once : forall c ls s,
  run (step c) (init c) ls = Some s -> c01_exactly_once c (obs_trace obs ls) = true.
Proof. exact sup_c01_exactly_once. Qed.

(* The supervisor does not cancel the runnables' contexts until every Stop() has returned: whenever
   its own cancel() has been called, the complete stop sequence Stop(k-1) .. Stop(0), with all
   returns, over all k started runnables is already in the history. *)
Theorem C01_cancel_after : forall c s,
  reachable_sup c s -> own_cancel s = true ->
  stop_evs (rev (hist s)) = canon_stops (launched s).
Proof. exact sup_c01_cancel_after. Qed.

(* Only started runnables are stopped, and nothing is started once shutdown has begun (launch
   gate, /repo commit 00876a0): the started runnables are always a prefix of the registration order. *)
Theorem C01_started_prefix : forall c s,
  reachable_sup c s -> is_prefix_k (rn s) (launched s).
Proof. intros c s H. exact (ip_prefix _ _ (InvPre_reachable c s H)). Qed.

Print Assumptions C01_order.
Print Assumptions C01_exactly_once.
Print Assumptions C01_cancel_after.
Print Assumptions C01_started_prefix.
Print Assumptions C01_not_before.

Definition c01_cfg : config :=
  {| specs := [dflt_spec; dflt_spec]; startup_may_fire := false; shutdown_may_fire := false |}.
Definition c01_sched : list label :=
  [LLaunch 0; LRunCall 0; LLaunch 1; LRunCall 1; LCall 1 OpShutdown; LCallerGo 1;
   LStopCall 1; LStopRet 1; LStopCall 0; LStopRet 0; LSdCancel].
Example C01_ex_schedule :
  exists s, run (step c01_cfg) (init c01_cfg) c01_sched = Some s /\
            stop_evs (obs_trace obs c01_sched) = canon_stops 2.
Proof. eexists. split; vm_compute; reflexivity. Qed.
Example C01_ex_rejects_forward_order :
  c01_order c01_cfg [EStopCall 0; EStopRet 0; EStopCall 1; EStopRet 1] = false.
Proof. vm_compute. reflexivity. Qed.
