(* C11 — composite: Reload applies the newest config, in place or by full restart.
   Statements only; every proof is `exact <lemma>`.  The model is of the repaired code by default
   (fix_ms P = true: hasMembershipChanged compares name multisets, hooks/fix-c09-membership-multiset.patch);
   the two earlier tests are named explicitly (fix_ms P = false with fix_c11 P = true: name sets, /repo
   5b52fc2; with fix_c11 P = false: the original one-sided test).
   [reach P s]: s is reached by some schedule - any pool, any sequence of callback values
   (configurations, nil, errors), any number of concurrent Reload()/Stop() callers. *)
From Coq Require Import List NArith Bool Permutation.
From GS Require Import Errs LTS Composite CompositeMon CompositeBase CompositeC10 CompositeC11
     CompositeLocks CompositeLive CompositeProto CompositeTrace CompositeLink2.
Import ListNotations.

(* C11_membership (pure; ALL entry lists of any length, duplicates included, no hypothesis):
   the test answers "unchanged" exactly when the two lists hold the same runnable identities WITH THEIR
   MULTIPLICITIES - the name list of the new configuration is a permutation of the old one's.  For
   duplicate-free lists this is "the same set of identities" (the property's wording); a configuration
   that lists a runnable twice is a multiset, and [a;a;b] -> [a;b;b] (same set) is a change. *)
Theorem C11_membership : forall P old new,
  fix_ms P = true ->
  (membership_changed P old new = false <-> Permutation (names P old) (names P new)).
Proof. exact membership_multiset. Qed.

(* every repaired variant: "unchanged" implies same length and same name set *)
Theorem C11_membership_unchanged_same_set : forall P old new,
  fix_ms P = true \/ fix_c11 P = true ->
  membership_changed P old new = false ->
  length old = length new /\ forall x, In x (names P old) <-> In x (names P new).
Proof. exact membership_false_len_set. Qed.

(* C11_in_place: a Reload() that found the identity set unchanged and has returned made exactly one
   ReloadWithConfig(its new config) call (Reload() for a child without that method, nothing for a
   child with neither) per entry of the new configuration, in entry order, and stopped and started
   no child *)
Theorem C11_in_place : forall P s k r,
  reach P s -> nth_error (reloaders s) k = Some r -> r_path r = PInPlace ->
  r_pc r = RRet \/ r_pc r = RDone ->
  membership_changed P (r_old r) (r_new r) = false /\ r_calls r = calls_of P (r_new r)
  /\ wof (ORel k) s = [] /\ kof (ORel k) s = [].
Proof. exact in_place_reload. Qed.

(* C11_restart: a Reload() that found the identity set changed makes no reload call; if it has
   started any child then every child of the old configuration has been stopped by it (Stop()
   returned), in reverse order, before, and the children it started are exactly the new
   configuration, in order *)
Theorem C11_restart : forall P s k r,
  reach P s -> nth_error (reloaders s) k = Some r -> r_path r = PRestart ->
  membership_changed P (r_old r) (r_new r) = true /\ r_calls r = [] /\
  (kof (ORel k) s <> [] ->
   forallb wdone (wof (ORel k) s) = true /\
   map w_child (wof (ORel k) s) = map fst (rev (r_old r)) /\
   map k_child (kof (ORel k) s) = map fst (r_new r)).
Proof. exact restart_reload. Qed.

(* C11_restart by program counter (audit-2 M7): the same facts indexed by how far the Reload() has got, so
   that they also speak about a restart to the EMPTY configuration (no child is ever started there):
   once its stopAllRunnables has created the Stop workers they are exactly the entries of the old
   configuration, last entry first (creation order; the Stop() calls run concurrently); once wg.Wait() has
   returned every one of those Stop() calls has returned; the children it has launched are none before its
   boot and exactly the new configuration, in order, after it *)
Theorem C11_restart_by_pc : forall P s k r,
  reach P s -> nth_error (reloaders s) k = Some r -> r_path r = PRestart ->
  (spawned (r_pc r) = true -> map w_child (wof (ORel k) s) = map fst (rev (r_old r))) /\
  (spawned (r_pc r) = false -> wof (ORel k) s = []) /\
  (stopped (r_pc r) = true -> forallb wdone (wof (ORel k) s) = true) /\
  (launched (r_pc r) = true -> map k_child (kof (ORel k) s) = map fst (r_new r)) /\
  (launched (r_pc r) = false -> kof (ORel k) s = []).
Proof. exact restart_reload_pc. Qed.

(* C11_newest: whenever no Reload() is inside its critical section - in particular after every
   Reload() has returned, also with concurrent callers - the stored configuration is the value most
   recently returned by the callback *)
Theorem C11_newest : forall P s, reach P s -> reload_mu s = None -> cfg s = last_cb s.
Proof. exact newest_config. Qed.

(* C11_failed_callback over whole schedules: a Reload() that failed (callback error / nil, or the
   state machine refused Reloading) never touched a child ... *)
Theorem C11_failed_callback : forall P s k r,
  reach P s -> nth_error (reloaders s) k = Some r -> r_path r = PFailedCb \/ r_path r = PFailedFsm ->
  r_calls r = [] /\ wof (ORel k) s = [] /\ kof (ORel k) s = [].
Proof. exact failed_reload. Qed.

(* ... and the failing step itself (the callback returns nil or an error: r = CbNil or r = CbErr)
   keeps the configuration, moves the machine to Error, releases reloadMu and makes Reload return,
   from any state *)
Theorem C11_failed_callback_step : forall P s k r s',
  (forall c, r <> CbSome c) ->
  step P s (LCb (ORel k) r) = Some s' ->
  fsm s' = FError /\ cfg s' = cfg s /\ kids s' = kids s /\ workers s' = workers s
  /\ sigs s' = sigs s /\ reload_mu s' = None
  /\ option_map r_pc (nth_error (reloaders s') k) = Some RRet
  /\ option_map r_path (nth_error (reloaders s') k) = Some PFailedCb
  /\ option_map r_calls (nth_error (reloaders s') k) = option_map r_calls (nth_error (reloaders s) k).
Proof. exact failed_callback_step. Qed.

(* LEGACY variant 2 (fix_ms P = false, fix_c11 P = true: /repo 5b52fc2 .. before the multiset repair):
   same length and same name SET - refuted as a membership test on [a;a;b] -> [a;b;b] *)
Theorem C11_membership_set_legacy : forall P old new,
  fix_ms P = false -> fix_c11 P = true ->
  (membership_changed P old new = false <->
   length old = length new /\ forall x, In x (names P old) <-> In x (names P new)).
Proof. exact membership_fixed. Qed.

Theorem C11_membership_set_refuted_legacy :
  membership_changed (ms_pool false) ms_old ms_new = false /\
  membership_changed (ms_pool true) ms_old ms_new = true /\
  ~ Permutation (names (ms_pool false) ms_old) (names (ms_pool false) ms_new).
Proof. exact membership_set_refuted. Qed.

(* LEGACY variant 1 (fix_ms P = false, fix_c11 P = false, the code before /repo 5b52fc2) *)
Theorem C11_membership_legacy : forall P old new,
  fix_ms P = false -> fix_c11 P = false ->
  (membership_changed P old new = false <->
   length old = length new /\ incl (names P new) (names P old)).
Proof. exact membership_unfixed. Qed.

Theorem C11_membership_legacy_nodup : forall P old new,
  fix_ms P = false -> fix_c11 P = false -> NoDup (names P old) -> NoDup (names P new) ->
  (membership_changed P old new = false <->
   forall x, In x (names P old) <-> In x (names P new)).
Proof. exact membership_nodup. Qed.

Theorem C11_membership_refuted_legacy : exists P old new,
  fix_ms P = false /\ fix_c11 P = false /\ membership_changed P old new = false /\
  ~ (forall x, In x (names P old) <-> In x (names P new)).
Proof. exists dup_pool, dup_old, dup_new. split; [reflexivity|]. split; [reflexivity|]. exact membership_dup_refuted. Qed.

Theorem C11_accepted_traces_are_model_traces : forall P fuel tr s,
  In s (fst (accept P fuel tr)) ->
  exists ls, run (step P) init ls = Some s /\ obs_trace obs ls = tr.
Proof. exact accept_sound. Qed.

Print Assumptions C11_membership.
Print Assumptions C11_in_place.
Print Assumptions C11_restart.
Print Assumptions C11_restart_by_pc.
Print Assumptions C11_newest.
Print Assumptions C11_failed_callback.
Print Assumptions C11_failed_callback_step.
Print Assumptions C11_membership_unchanged_same_set.
Print Assumptions C11_membership_set_legacy.
Print Assumptions C11_membership_set_refuted_legacy.
Print Assumptions C11_membership_legacy.
Print Assumptions C11_membership_legacy_nodup.
Print Assumptions C11_membership_refuted_legacy.
Print Assumptions C11_accepted_traces_are_model_traces.

(* non-vacuity *)
Definition ex_pool : params :=
  mkParams [mkSpec 7 UntilRunDone OnSignal RWC; mkSpec 8 NonBlocking OnSignal RPlain;
            mkSpec 9 UntilRunDone OnSignal RNone] true true true true true.

Example C11_nonvacuous_membership :
  membership_changed ex_pool [(0, 1); (1, 2); (2, 3)]%N [(2, 0); (0, 5); (1, 5)]%N = false /\
  membership_changed ex_pool [(0, 1); (1, 2)]%N [(2, 0); (0, 5)]%N = true /\
  membership_changed ex_pool [(0, 1); (1, 2)]%N [(0, 5)]%N = true /\
  (* the former witness: old [a;b], new [a;a] is now a change *)
  membership_changed ex_pool [(0, 0); (1, 0)]%N [(0, 1); (0, 2)]%N = true /\
  (* and so is old [a;a;b], new [a;b;b] (same length, same name set): hypothesis of C11_membership *)
  fix_ms ex_pool = true /\
  membership_changed ex_pool [(0, 0); (0, 0); (1, 0)]%N [(0, 1); (1, 1); (1, 1)]%N = true /\
  membership_changed ex_pool [(0, 0); (0, 0); (1, 0)]%N [(1, 1); (0, 1); (0, 2)]%N = false.
Proof. repeat split; reflexivity. Qed.

(* an in-place reload, a restart reload and a failed reload as one schedule of the model *)
Definition ex_sched : list label :=
  [LRunCall; LRunBegin; LBootLock ORun; LCb ORun (CbSome [(0, 0); (1, 0)]%N); LBootLaunch ORun; LToRunning;
   LKRun 0 0%N; LKRun 1 1%N;
   LReloadCall 0; LRlLock 0; LCb (ORel 0) (CbSome [(1, 4); (0, 3)]%N); LRlSetInPlace 0;
   LRlPlain 0 1%N; LRlCfg 0 0%N 3%N; LRlFinish 0; LRlRet 0;
   LReloadCall 1; LRlLock 1; LCb (ORel 1) (CbSome [(1, 4); (2, 9)]%N);
   LStopBegin (ORel 1); LWCall 0 0%N; LWCall 1 1%N; LWRet 1 1%N; LKExit 0 0%N None; LKExit 1 1%N None;
   LWUnblock 0; LWRet 0 0%N; LStopCancel (ORel 1); LStopJoin (ORel 1); LRlSetCfg 1; LBootLock (ORel 1); LBootLaunch (ORel 1);
   LRlFinish 1; LRlRet 1;
   LReloadCall 2; LRlLock 2; LCb (ORel 2) CbErr; LRlRet 2].

Example C11_nonvacuous_protocol : exists s,
  run (step ex_pool) init ex_sched = Some s /\ fsm s = FError /\ cfg s = Some [(1, 4); (2, 9)]%N /\
  last_cb s = Some [(1, 4); (2, 9)]%N /\ reload_mu s = None /\
  option_map r_path (nth_error (reloaders s) 0) = Some PInPlace /\
  option_map r_calls (nth_error (reloaders s) 0) = Some [(1, None); (0, Some 3)]%N /\
  option_map r_path (nth_error (reloaders s) 1) = Some PRestart /\
  map w_child (wof (ORel 1) s) = [0; 1]%N /\ map k_child (kof (ORel 1) s) = [1; 2]%N /\
  option_map r_path (nth_error (reloaders s) 2) = Some PFailedCb.
Proof. eexists. split; [vm_compute; reflexivity|]. vm_compute. repeat split. Qed.

(* all hypotheses of C11_failed_callback_step at once: the third Reload of the schedule above, whose
   callback returns an error *)
Example C11_failed_callback_step_nonvacuous : exists s s',
  run (step ex_pool) init (firstn 36 ex_sched) = Some s /\
  (forall c, CbErr <> CbSome c) /\
  step ex_pool s (LCb (ORel 2) CbErr) = Some s' /\
  nth_error ex_sched 36 = Some (LCb (ORel 2) CbErr) /\
  fsm s = FReloading /\ fsm s' = FError /\ cfg s' = cfg s /\ cfg s = Some [(1, 4); (2, 9)]%N.
Proof.
  eexists. eexists. split; [vm_compute; reflexivity|]. split; [discriminate|].
  split; [vm_compute; reflexivity|]. vm_compute. repeat split.
Qed.

(* ---------------------------------------------------------------------------------------------
   Monitor link for c11-clause30 (the driver's check on the Held observable: "at an observation with
   no Reload() in flight, Runner.String() names the newest configuration the callback returned").
   Every schedule of every variant: at any point of a trace at which every Reload() call has
   returned, the stored configuration is the value of the last successful callback in the trace
   (cur_of; None if there was none).
   --------------------------------------------------------------------------------------------- *)
Theorem C11_monitor_clause30_link : forall P ls s,
  run (step P) init ls = Some s ->
  count_ev (is_call OpReload) (obs_trace obs ls) = count_ev (is_ret OpReload) (obs_trace obs ls) ->
  cfg s = cur_of (obs_trace obs ls).
Proof. exact c11_clause30_link. Qed.

Print Assumptions C11_monitor_clause30_link.

(* all hypotheses at once: after the three reloads of ex_sched all have returned; the Runner holds
   the value of the second callback (the third failed) *)
Example C11_monitor_clause30_nonvacuous : exists s,
  run (step ex_pool) init ex_sched = Some s /\
  count_ev (is_call OpReload) (obs_trace obs ex_sched) = 3 /\
  count_ev (is_ret OpReload) (obs_trace obs ex_sched) = 3 /\
  cfg s = Some [(1, 4); (2, 9)]%N /\ cur_of (obs_trace obs ex_sched) = Some [(1, 4); (2, 9)]%N.
Proof. eexists. split; [vm_compute; reflexivity|]. vm_compute. auto. Qed.

(* FINDINGS about the monitors (not about the code).  c11-clause10 ("Reload did not return before
   the next observation") is FALSE of prefixes / of observations taken while the Reload() is in
   progress ... *)
Definition boot_sched : list label :=
  [LRunCall; LRunBegin; LBootLock ORun; LCb ORun (CbSome [(0, 0)]%N); LBootLaunch ORun; LToRunning;
   LKRun 0 0%N; LState FRunning].

Example C11_monitor_clause10_prefix_witness : exists s,
  run (step ex_pool) init (boot_sched ++ [LReloadCall 0; LState FRunning]) = Some s /\
  C11_holdsb ex_pool (obs_trace obs (boot_sched ++ [LReloadCall 0; LState FRunning])) = 10%N.
Proof. eexists. split; vm_compute; reflexivity. Qed.

(* ... and c11-clause13 ("an unchanged set gets exactly one ReloadWithConfig per entry") is FALSE of
   model traces in which a Reload() is called while an earlier one - called before Running was
   observed, hence not examined - has not returned: the window of the second contains the calls of
   both.  The clause is meant for the SEQUENTIAL regime the harness scripts (a Reload() is issued when
   no other is in flight, or the monitor is disarmed by the extra API call in the window); its model
   counterpart is C11_in_place; no theorem links the two yet *)
Definition overlap_sched : list label :=
  [LRunCall; LRunBegin; LState FBooting; LReloadCall 0;
   LBootLock ORun; LCb ORun (CbSome [(0, 0)]%N); LBootLaunch ORun; LToRunning; LKRun 0 0%N; LState FRunning;
   LReloadCall 1;
   LRlLock 0; LCb (ORel 0) (CbSome [(0, 1)]%N); LRlSetInPlace 0; LRlCfg 0 0%N 1%N; LRlFinish 0; LRlRet 0;
   LRlLock 1; LCb (ORel 1) (CbSome [(0, 2)]%N); LRlSetInPlace 1; LRlCfg 1 0%N 2%N; LRlFinish 1; LRlRet 1;
   LState FRunning].

Example C11_monitor_clause13_needs_sequential : exists s,
  run (step ex_pool) init overlap_sched = Some s /\
  C11_holdsb ex_pool (obs_trace obs overlap_sched) = 13%N.
Proof. eexists. split; vm_compute; reflexivity. Qed.

(* all hypotheses of C11_restart_by_pc on a restart to the EMPTY configuration: [a] -> []; the old child has
   been stopped and has finished, nothing is started, the composite is Running with no child *)
Definition ex_empty_sched : list label :=
  [LRunCall; LRunBegin; LBootLock ORun; LCb ORun (CbSome [(0, 0)]%N); LBootLaunch ORun; LToRunning; LKRun 0 0%N;
   LReloadCall 0; LRlLock 0; LCb (ORel 0) (CbSome []);
   LStopBegin (ORel 0); LWCall 0 0%N; LKExit 0 0%N None; LWUnblock 0; LWRet 0 0%N;
   LStopCancel (ORel 0); LStopJoin (ORel 0); LRlSetCfg 0; LBootLock (ORel 0); LBootLaunch (ORel 0); LRlFinish 0; LRlRet 0].

Example C11_restart_to_empty_nonvacuous : exists s r,
  run (step ex_pool) init ex_empty_sched = Some s /\ nth_error (reloaders s) 0 = Some r /\
  r_path r = PRestart /\ r_pc r = RDone /\ stopped (r_pc r) = true /\ launched (r_pc r) = true /\
  r_old r = [(0, 0)]%N /\ r_new r = [] /\
  map w_child (wof (ORel 0) s) = [0%N] /\ forallb wdone (wof (ORel 0) s) = true /\ kof (ORel 0) s = [] /\
  forallb kdone (kids s) = true /\ fsm s = FRunning /\ cfg s = Some [] /\ gen s = 2.
Proof. eexists. eexists. split; [vm_compute; reflexivity|]. vm_compute. repeat split. Qed.
