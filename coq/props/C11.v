(* C11 — composite: Reload applies the newest config, in place or by full restart.
   Statements only; every proof is `exact <lemma>`. *)
From Coq Require Import List NArith Bool.
From GS Require Import Errs LTS Composite CompositeMon CompositeBase CompositeC11.
Import ListNotations.

(* C11_membership (pure, ALL entry lists of any length): for name-duplicate-free entry lists the
   code's test answers "unchanged" exactly when the two SETS of runnable identities are equal *)
Theorem C11_membership : forall P old new,
  fix_c11 P = false -> NoDup (names P old) -> NoDup (names P new) ->
  (membership_changed P old new = false <->
   forall x, In x (names P old) <-> In x (names P new)).
Proof. exact membership_nodup. Qed.

(* what the unrepaired test computes for arbitrary lists (duplicates included) *)
Theorem C11_membership_as_written : forall P old new,
  fix_c11 P = false ->
  (membership_changed P old new = false <->
   length old = length new /\ incl (names P new) (names P old)).
Proof. exact membership_unfixed. Qed.

(* without the no-duplicates hypothesis the statement is false of the code: old [a;b], new [a;a]
   is reported "unchanged" although b left the configuration (finding duplicate-entry-names) *)
Theorem C11_membership_refuted : exists P old new,
  fix_c11 P = false /\ membership_changed P old new = false /\
  ~ (forall x, In x (names P old) <-> In x (names P new)).
Proof. exists dup_pool, dup_old, dup_new. split; [reflexivity|]. exact membership_dup_refuted. Qed.

(* the candidate repair (hooks/fix-c11-composite-duplicate-entry-names.patch), full statement with no
   hypothesis on the lists: "unchanged" iff same length and same identity set *)
Theorem C11_membership_repaired : forall P old new,
  fix_c11 P = true ->
  (membership_changed P old new = false <->
   length old = length new /\ forall x, In x (names P old) <-> In x (names P new)).
Proof. exact membership_fixed. Qed.

(* C11_failed_callback: a callback error or nil configuration inside Reload touches no child
   (no goroutine, no Stop worker, no signal), keeps the configuration, moves the machine to Error,
   releases reloadMu and makes Reload return — as one step of the model, from any state *)
Theorem C11_failed_callback : forall P s k r s',
  r <> CbNil \/ r <> CbErr -> (forall c, r <> CbSome c) ->
  step P s (LCb (ORel k) r) = Some s' ->
  fsm s' = FError /\ cfg s' = cfg s /\ kids s' = kids s /\ workers s' = workers s
  /\ sigs s' = sigs s /\ reload_mu s' = None
  /\ option_map r_pc (nth_error (reloaders s') k) = Some RRet
  /\ option_map r_path (nth_error (reloaders s') k) = Some PFailedCb
  /\ option_map r_calls (nth_error (reloaders s') k) = option_map r_calls (nth_error (reloaders s) k).
Proof. exact failed_callback_step. Qed.

Theorem C11_accepted_traces_are_model_traces : forall P fuel tr s,
  In s (fst (accept P fuel tr)) ->
  exists ls, run (step P) init ls = Some s /\ obs_trace obs ls = tr.
Proof. exact accept_sound. Qed.

Print Assumptions C11_membership.
Print Assumptions C11_membership_as_written.
Print Assumptions C11_membership_refuted.
Print Assumptions C11_membership_repaired.
Print Assumptions C11_failed_callback.
Print Assumptions C11_accepted_traces_are_model_traces.

(* non-vacuity *)
Definition ex_pool : params :=
  mkParams [mkSpec 7 UntilRunDone OnSignal RWC; mkSpec 8 NonBlocking OnSignal RPlain;
            mkSpec 9 UntilRunDone OnSignal RNone] true true false.

Example C11_nonvacuous_unchanged :
  NoDup (names ex_pool [(0, 1); (1, 2); (2, 3)]%N) /\ NoDup (names ex_pool [(2, 0); (0, 5); (1, 5)]%N) /\
  membership_changed ex_pool [(0, 1); (1, 2); (2, 3)]%N [(2, 0); (0, 5); (1, 5)]%N = false /\
  membership_changed ex_pool [(0, 1); (1, 2)]%N [(2, 0); (0, 5)]%N = true /\
  membership_changed ex_pool [(0, 1); (1, 2)]%N [(0, 5)]%N = true.
Proof.
  repeat split; try reflexivity; cbn; repeat constructor; cbn; intuition discriminate.
Qed.

(* an in-place reload followed by a restart reload, as a schedule of the model *)
Definition ex_sched : list label :=
  [LRunCall; LRunBegin; LBootLock ORun; LCb ORun (CbSome [(0, 0); (1, 0)]%N); LBootLaunch ORun; LToRunning;
   LKRun 0 0%N; LKRun 1 1%N;
   LReloadCall 0; LRlLock 0; LCb (ORel 0) (CbSome [(1, 4); (0, 3)]%N); LRlSetInPlace 0;
   LRlPlain 0 1%N; LRlCfg 0 0%N 3%N; LRlFinish 0; LRlRet 0;
   LReloadCall 1; LRlLock 1; LCb (ORel 1) CbErr; LRlRet 1].

Example C11_nonvacuous_protocol : exists s,
  run (step ex_pool) init ex_sched = Some s /\ fsm s = FError /\ cfg s = Some [(1, 4); (0, 3)]%N /\
  last_cb s = Some [(1, 4); (0, 3)]%N /\
  option_map r_calls (nth_error (reloaders s) 0) = Some [(1, None); (0, Some 3)]%N /\
  option_map r_path (nth_error (reloaders s) 1) = Some PFailedCb /\ workers s = [].
Proof. eexists. split; [vm_compute; reflexivity|]. vm_compute. repeat split. Qed.
