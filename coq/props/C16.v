(* C16 — HTTP cluster: converges to desired servers; unchanged untouched; none leaked.
   This file contains only statements; every proof is `exact <lemma>`.

   Models: Cluster.v (entries planner; [fx] = true is the code of /repo since dec72e6: the derived
   key id ++ ":stop" of a restart's stop entry is extended until unused; [fx] = false is the legacy
   planner) and ClusterLTS.v (Run loop; schedule = list of labels; [s_live] = instances created whose
   Stop() has not been called, [s_stopping] = Stop() called and not returned; ghost fields
   [s_base]/[s_des]/[s_failed] = collection at the start of the round in progress, desired entries of
   the last received map, ids whose start failed in that round).

   All theorems about fx = true are UNCONDITIONAL in the server ids (no id hygiene).  The legacy
   planner is refuted (C16_*_legacy_refuted), on the planner and on the protocol. *)
From Coq Require Import List NArith Bool Permutation.
From GS Require Import LTS Cluster ClusterLTS ClusterPlan ClusterFix ClusterFixPlan ClusterRun ClusterInv
     ClusterStep ClusterMain ClusterRound ClusterRoundB ClusterRoundC ClusterHist ClusterFsm ClusterGo ClusterLive ClusterTable ClusterMon ClusterMonP.
Import ListNotations.
Open Scope N_scope.

(* The key-extension loop of the repair always ends on a key used nowhere (its fuel suffices). *)
Theorem C16_fresh_key_unused : forall cur des acc k,
  let q := fresh_key (S (maxlen (keys cur ++ keys des ++ keys acc))) (taken_in cur des acc) k in
  ~ In q (keys cur) /\ ~ In q (keys des) /\ ~ In q (keys acc).
Proof. exact fresh_key_ok. Qed.

(* The plan does not depend on the map iteration order, up to the names of the derived keys of the
   stop entries: same multiset of entries, same non-stop entries under the same keys, same collection
   after commit. *)
Theorem C16_plan_order_free : forall ord1 ord2 cur des,
  NoDup (keys cur) -> NoDup (keys des) -> Permutation ord1 (keys cur) -> Permutation ord2 (keys cur) ->
  let p1 := build_pending true ord1 cur des in
  let p2 := build_pending true ord2 cur des in
  Permutation (map snd p1) (map snd p2) /\
  (forall q e, e_act e <> AStop -> (lookup q p1 = Some e <-> lookup q p2 = Some e)) /\
  (forall q, lookup q (commit p1) = lookup q (commit p2)).
Proof. exact true_order_free. Qed.

(* What a processed map does to the collection (planner level, arbitrary ids): keys stay distinct and
   every runtime is conserved; unchanged entries keep their instance and get no action; a changed
   running entry has its old instance in a stop entry (under a key that is nobody's id) and a start
   entry with the new configuration; removed running entries are stopped; new ids are started; and
   there is nothing else in the plan. *)
Theorem C16_converge : forall ord cur des,
  NoDup (keys cur) -> NoDup (keys des) -> Permutation ord (keys cur) ->
  let pend := build_pending true ord cur des in
  NoDup (keys pend) /\ Permutation (rts pend) (rts cur) /\
  (forall k old, lookup k cur = Some old -> dcfg des k = Some (e_cfg old) ->
                 lookup k pend = Some (set_act ANone old)) /\
  (forall k old c i, lookup k cur = Some old -> dcfg des k = Some c -> e_cfg old <> c -> e_rt old = Some i ->
     (exists q, lookup q pend = Some (set_act AStop old) /\ ~ In q (keys cur) /\ ~ In q (keys des)) /\
     lookup k pend = Some (start_entry k c)) /\
  (forall k old c, lookup k cur = Some old -> dcfg des k = Some c -> e_cfg old <> c -> e_rt old = None ->
                   lookup k pend = Some (start_entry k c)) /\
  (forall k old i, lookup k cur = Some old -> dcfg des k = None -> e_rt old = Some i ->
                   lookup k pend = Some (set_act AStop old)) /\
  (forall k d, lookup k des = Some d -> lookup k cur = None -> lookup k pend = Some (start_entry k (e_cfg d))) /\
  (forall q e, In (q, e) pend ->
     (exists k old q0, lookup k cur = Some old /\ In (q0, e) (process_existing k old (dcfg des k)) /\
                       (q = q0 \/ (e_act e = AStop /\ ~ In q (keys cur) /\ ~ In q (keys des)))) \/
     (exists d, In (q, d) des /\ mem q cur = false /\ e = start_entry q (e_cfg d))).
Proof. exact converge_plan. Qed.

(* Every schedule of the Run loop (any sequence of maps over any ids, factory errors, readiness
   failures, slow stops, Stop()/cancel/close at any point): the running instances are distinct, and
   whenever the loop is idle they are exactly the runtimes recorded in the collection. *)
Theorem C16_running_are_recorded : forall d ls s,
  run (step true) (init d) ls = Some s ->
  NoDup (map fst (s_live s)) /\
  (s_pc s = PIdle -> NoDup (keys (s_entries s)) /\ Permutation (map fst (s_live s)) (rts (s_entries s))).
Proof. exact running_are_recorded. Qed.

(* GetServerCount, wherever the model lets it be observed (loop idle or Run finished): no Stop() is
   in flight and the count is the number of servers started and not stopped PLUS the entries that have
   no server.  The count is therefore EXACT only while the context is not cancelled
   (C16_serverless_only_after_cancel); after cancellation only the bounds of C16_count_bounds hold. *)
Theorem C16_count : forall d ls s,
  run (step true) (init d) ls = Some s -> idle_pc (s_pc s) = true ->
  s_stopping s = [] /\
  count (s_entries s) = (length (s_live s) + length (no_rt (s_entries s)))%nat.
Proof. exact count_ok. Qed.

(* When Run has finished (and after it returned) no instance is left that was started and not
   stopped, no Stop() is in flight, and the collection is empty. *)
Theorem C16_none_leaked : forall d ls s,
  run (step true) (init d) ls = Some s -> returned_pc (s_pc s) = true ->
  s_live s = [] /\ s_stopping s = [] /\ s_entries s = [].
Proof. exact none_leaked. Qed.

(* Round convergence on the protocol.  Whenever the loop is idle (every received map processed):
   every entry of the collection has exactly the configuration the last received map gives its id and
   no pending action; every id the map wants is in the collection unless its start failed in that
   round; an entry whose configuration the map did not change is the very entry (same instance) the
   round started with; an entry without a server exists only if the context was cancelled; and every
   RUNNING SERVER INSTANCE (j, id k, created by the factory from configuration c) is the runtime of
   the entry of its id, that entry carries the configuration c the instance was created from, and c is
   the configuration the last received map gives k -- each server runs with the given configuration. *)
Theorem C16_round_converges : forall d ls s,
  run (step true) (init d) ls = Some s -> s_pc s = PIdle ->
  (forall q e, lookup q (s_entries s) = Some e ->
               dcfg (s_des s) q = Some (e_cfg e) /\ e_act e = ANone /\ e_id e = q) /\
  (forall q c, dcfg (s_des s) q = Some c -> (exists e, lookup q (s_entries s) = Some e) \/ In q (s_failed s)) /\
  (forall k old, lookup k (s_base s) = Some old -> dcfg (s_des s) k = Some (e_cfg old) ->
                 lookup k (s_entries s) = Some (set_act ANone old)) /\
  (forall q e, lookup q (s_entries s) = Some e -> e_rt e = None -> s_cancel s = true) /\
  (forall j k c, In (j, (k, c)) (s_live s) ->
                 exists e, lookup k (s_entries s) = Some e /\ e_rt e = Some j /\ e_cfg e = c /\
                           dcfg (s_des s) k = Some c).
Proof. exact round_converges. Qed.

(* Entries without a server exist only after cancellation: while the context is not cancelled, at every
   idle point GetServerCount is exactly the number of servers started and not stopped. *)
Theorem C16_serverless_only_after_cancel : forall d ls s,
  run (step true) (init d) ls = Some s -> s_pc s = PIdle -> s_cancel s = false ->
  no_rt (s_entries s) = [] /\ count (s_entries s) = length (s_live s).
Proof. exact count_exact_without_cancel. Qed.

(* ... and in every case, cancelled or not: at least the running servers, at most one entry per id of
   the last received map. *)
Theorem C16_count_bounds : forall d ls s,
  run (step true) (init d) ls = Some s -> s_pc s = PIdle ->
  (length (s_live s) <= count (s_entries s) <= length (s_des s))%nat.
Proof. exact count_bounds. Qed.

(* Over the history: whenever the factory is called for an id, every instance created earlier for the
   same id has already returned from Stop() (the old server is fully stopped before the replacement
   is started), for every schedule. *)
Theorem C16_old_stopped_before_replacement : forall d ls1 k c i b ls2 s,
  run (step true) (init d) (ls1 ++ LFactory k c i b :: ls2) = Some s ->
  forall c' j b', In (LFactory k c' j b') ls1 -> In (LStopRet j) ls1.
Proof. exact old_stopped_before_replacement. Qed.

(* The cluster's own FSM.  The model moves it through the transition table it is created with
   (fsm_allowed = go-fsm transitions.Typical) and contains the `!IsRunning()` gate of
   processConfigUpdate ("Ignoring config update - cluster not running"), the failure of
   Transition(Reloading) (the map is dropped) and the failure of the return to Running
   (setStateError).  NOT definitional: proved by an invariant over every schedule -- whenever the loop
   is idle the FSM is Running, whatever failed in the rounds before (factory errors, servers that never
   became ready, cancelled restart delays); once Run has finished it is Stopped; it is never Error. *)
Theorem C16_idle_is_running : forall d ls s,
  run (step true) (init d) ls = Some s ->
  (s_pc s = PIdle -> s_fsm s = CRunning) /\ (s_pc s = PFin \/ s_pc s = PRet -> s_fsm s = CStopped) /\
  s_fsm s <> CError.
Proof. exact (idle_is_running true). Qed.

(* Hence the gate and the error branches are dead code under the Typical table: whenever the loop is
   idle the guard of the processing branch holds, and a map received from the siphon always becomes the
   desired map of a round (it is never ignored). *)
Theorem C16_update_never_ignored : forall d ls s,
  run (step true) (init d) ls = Some s -> s_pc s = PIdle ->
  cstate_eqb (s_fsm s) CRunning && fsm_allowed (s_fsm s) CReloading = true /\
  forall m ord s', s_offer s = Some m -> step true s (LRecv ord) = Some s' ->
                   s_base s' = s_entries s /\ s_des s' = new_entries m /\ s_offer s' = None.
Proof. exact (update_never_ignored true). Qed.

(* ---- "the servers it RUNS" (ClusterGo.v: child-server liveness on top of the protocol model) ----
   [s_live] only says "created, Stop() not called".  ClusterGo.gstep adds what makes a server run: its
   Run was called ([s_unrun]), its goroutine is inside Run ([g_run]) and the context the cluster gave it
   is live ([cxb] false: the cluster cancels a server's context only after its Stop() returned, in the
   cleanup of a failed start, and - all of them at once - through the context given to Run or the
   Stop() path's runCancel()).  A server's Run returns only after its Stop() was called or its context
   was cancelled, or BY ITSELF once it has been ready ([g_self], environment action GSelfExit). *)

(* Whenever the loop is idle and the context given to Run is not cancelled, runCancel() has not fired
   and every server started and not stopped has a live context, has had its Run called, and is inside
   Run unless it gave up by itself. *)
Theorem C16_live_servers_run : forall d g,
  reachable (gstep true) (ginit d) g -> s_pc (g_s g) = PIdle -> s_cancel (g_s g) = false ->
  g_rc g = false /\
  forall j k c, In (j, (k, c)) (s_live (g_s g)) ->
    cxb g j = false /\ ~ In j (s_unrun (g_s g)) /\ (In j (g_run g) \/ In j (g_self g)).
Proof. exact live_servers_run. Qed.

(* The first sentence of the property, about servers that actually run: at every idle point (context
   not cancelled) each id the last received map gives a configuration c either failed to start in that
   round or has a RUNNING instance created from exactly c; and every instance started and not stopped
   is such an instance.  [aliveb] = context live, Run called, inside Run or gave up by itself. *)
Theorem C16_runs_exactly : forall d g,
  reachable (gstep true) (ginit d) g -> s_pc (g_s g) = PIdle -> s_cancel (g_s g) = false ->
  (forall q c, dcfg (s_des (g_s g)) q = Some c ->
     In q (s_failed (g_s g)) \/ exists j, In (j, (q, c)) (s_live (g_s g)) /\ aliveb g j = true) /\
  (forall j k c, In (j, (k, c)) (s_live (g_s g)) -> dcfg (s_des (g_s g)) k = Some c /\ aliveb g j = true).
Proof. exact runs_exactly. Qed.

(* The liveness schedules are schedules of the protocol model: every theorem above applies to them. *)
Theorem C16_liveness_schedules_project : forall fx ls g g',
  run (gstep fx) g ls = Some g' -> run (step fx) (g_s g) (erase ls) = Some (g_s g').
Proof. exact grun_erase. Qed.

(* What the code does with a server that gives up by itself (OUTSIDE the property: its fault clause
   names factory errors, readiness timeouts and slow stops): nothing.  createAndStartServer's goroutine
   logs "Server instance failed"; the entry keeps its runner, GetServerCount() keeps counting it, and a
   map that gives the id the same configuration does not restart it - only a changed configuration, a
   removal or the shutdown touch the entry again (Stop() on the dead server, then a fresh one).
   Witness: two servers, the second gives up; the count stays 2 before and after the same map again. *)
Definition self_exit_schedule : list glabel :=
  [GB (LOffer [(id_a, Some 0); (id_a_stop, Some 0)]); GB (LRecv []); GSent;
   GB (LFactory id_a 0 0 BReady); GB (LRunCall 0); GB LReady;
   GB (LFactory id_a_stop 0 1 BReady); GB (LRunCall 1); GB LReady; GB (LCount 2);
   GSelfExit 1; GB (LCount 2);
   GB (LOffer [(id_a, Some 0); (id_a_stop, Some 0)]); GB (LRecv [id_a; id_a_stop]); GSent; GB (LCount 2)].
Theorem C16_self_exited_child_is_kept :
  exists g, run (gstep true) (ginit false) self_exit_schedule = Some g /\
            s_pc (g_s g) = PIdle /\ s_cancel (g_s g) = false /\
            g_self g = [1] /\ g_run g = [0] /\ map fst (s_live (g_s g)) = [1; 0] /\
            count (s_entries (g_s g)) = 2%nat /\ s_next (g_s g) = 2.
Proof. eexists. split; [vm_compute; reflexivity|]. repeat split. Qed.

(* ---- the property as an executable monitor over the observable trace (audit2 M3, M4) ----
   ClusterMon.c16_holdsb runs a small state machine over the events the harness logs at the mock servers
   and at the public API (factory calls, Run / Stop() calls and returns, the servers' own reports, offers
   and their receipt, GetServerCount / GetState, Run's return) and checks, from those events alone:
   1 no factory call for an id while an instance of that id is started and its Stop() has not returned,
   2 nothing started and not stopped when Run returns, 3 GetServerCount = servers started and not stopped
   (>= between a cancellation and Run's return), 4/5 at an idle point (no shutdown trigger seen, last map
   received) the running servers are exactly the (id, configuration) pairs of the last offered map, minus
   the ids whose start failed since that offer, 6 GetState never Error, 7 Running at an idle point,
   8 no server sees its context cancelled unless the context given to Run was cancelled, Stop() was called
   on the cluster, or the server had announced it would not become ready.
   EVERY schedule of the liveness model passes it - so, by C16_acceptor_sound, every accepted trace of
   the real Runner does, and a trace that fails it is outside the model. *)
Theorem C16_monitor_sound : forall d ls g,
  run (gstep true) (ginit d) ls = Some g -> c16_holdsb (obs_trace gobs ls) = true.
Proof. exact mon_sound. Qed.

(* The ghost fields of the protocol model, read off the observable history: the monitor state reached on
   the trace - a function of the events only - has the model's live and stopping instances; once the last
   offered map has been received (and no shutdown began) [s_des] is exactly the entries of THAT map; and
   every id in [s_failed] had a start fail since that offer (a factory error, or an instance created since
   the offer whose Stop() returned). *)
Theorem C16_ghost_fields_from_trace : forall d ls g,
  run (gstep true) (ginit d) ls = Some g ->
  exists m, mrun m0 0 (obs_trace gobs ls) = inl m /\
    m_live m = s_live (g_s g) /\ m_stopping m = s_stopping (g_s g) /\
    (s_offer (g_s g) = None -> s_shut (g_s g) = false -> s_des (g_s g) = new_entries (m_last m)) /\
    (s_offer (g_s g) = None -> incl (s_failed (g_s g)) (m_failed m)).
Proof. exact ghost_fields_from_trace. Qed.

(* ---- ties (audit2 L5, L7) ---- *)

(* The acceptors' event equality tests decide equality, so the generic soundness theorem of the
   acceptor (LTS.accepts_sound) applies with no hypothesis left: every state the C16 acceptor returns
   for a trace is reached by a schedule of the liveness model whose observable trace is exactly that
   trace (hence every theorem over all schedules holds of every accepted implementation trace). *)
Theorem C16_acceptor_sound : forall d fuel t g,
  In g (fst (gaccept d fuel t)) ->
  exists ls, LTS.run (gstep true) (ginit d) ls = Some g /\ obs_trace gobs ls = t.
Proof. exact gaccept_sound. Qed.

(* The FSM transition table of the model is the table dumped from the go-fsm linked into the
   repository (coq/gen/FsmTable.v, regenerated by ./check C08), on the states a started cluster has. *)
Theorem C16_fsm_table_is_dumped : forall a b,
  fsm_allowed a b = Fsm.allowedb FsmTable.fsm_cfg (st_of a) (st_of b).
Proof. exact fsm_allowed_is_dumped_table. Qed.

(* ---- the legacy planner (fx = false, before dec72e6): refuted (F9) ---- *)

(* ids a and a:stop both running, a's configuration changes: in one iteration order the old instance
   of a is in no stop entry, in the other a:stop's own entry is replaced by a's stop entry; neither
   plan is correct and the two differ. *)
Theorem C16_converge_legacy_refuted :
  hygienicb (ids_of w_cur w_des) = false /\
  (stops (build_pending false [id_a; id_a_stop] w_cur w_des) 0 = false /\
   plan_okb w_cur w_des (build_pending false [id_a; id_a_stop] w_cur w_des) = false) /\
  (lookup id_a_stop (build_pending false [id_a_stop; id_a] w_cur w_des) = Some (mkE id_a 0 (Some 0) AStop) /\
   plan_okb w_cur w_des (build_pending false [id_a_stop; id_a] w_cur w_des) = false) /\
  emap_eqb (build_pending false [id_a; id_a_stop] w_cur w_des)
           (build_pending false [id_a_stop; id_a] w_cur w_des) = false.
Proof. exact (conj witness_not_hygienic (conj witness_order1 (conj witness_order2 witness_order_dependent))). Qed.

(* A legacy schedule after which Run has returned while instance 0 was never stopped. *)
Theorem C16_none_leaked_legacy_refuted :
  exists s, run (step false) (init false) leak_schedule = Some s /\
            s_pc s = PRet /\ map fst (s_live s) = [0] /\ s_hyg s = false.
Proof. exact leak_schedule_runs. Qed.

(* A legacy schedule after which the loop is idle, GetServerCount is 1, two servers run, and the
   running server a:stop is no longer in the collection. *)
Theorem C16_count_legacy_refuted :
  exists s, run (step false) (init false) drop_schedule = Some s /\
            s_pc s = PIdle /\ count (s_entries s) = 1%nat /\ map fst (s_live s) = [2; 1] /\
            lookup id_a_stop (s_entries s) = None.
Proof. exact drop_schedule_runs. Qed.

(* The F9 witness on the repaired model: the leak schedule is impossible, the proper schedule (old a
   stopped first) ends with everything stopped. *)
Theorem C16_witness_repaired :
  run (step true) (init false) leak_schedule = None /\
  exists s, run (step true) (init false) repaired_schedule = Some s /\ s_pc s = PRet /\ s_live s = [].
Proof. exact repaired_schedule_runs. Qed.

Print Assumptions C16_fresh_key_unused.
Print Assumptions C16_plan_order_free.
Print Assumptions C16_converge.
Print Assumptions C16_running_are_recorded.
Print Assumptions C16_count.
Print Assumptions C16_none_leaked.
Print Assumptions C16_round_converges.
Print Assumptions C16_serverless_only_after_cancel.
Print Assumptions C16_old_stopped_before_replacement.
Print Assumptions C16_idle_is_running.
Print Assumptions C16_update_never_ignored.
Print Assumptions C16_count_bounds.
Print Assumptions C16_live_servers_run.
Print Assumptions C16_runs_exactly.
Print Assumptions C16_liveness_schedules_project.
Print Assumptions C16_self_exited_child_is_kept.
Print Assumptions C16_monitor_sound.
Print Assumptions C16_ghost_fields_from_trace.
Print Assumptions C16_acceptor_sound.
Print Assumptions C16_fsm_table_is_dumped.
Print Assumptions C16_converge_legacy_refuted.
Print Assumptions C16_none_leaked_legacy_refuted.
Print Assumptions C16_count_legacy_refuted.
Print Assumptions C16_witness_repaired.

(* ---- non-vacuity ---- *)
Definition id_b : id := [98].
(* a colliding round on the repaired planner: a restarted while a:stop is unchanged; the stop entry of
   a gets the key a:stop:stop *)
Example C16_ex_plan_colliding :
  build_pending true [id_a; id_a_stop] w_cur w_des =
  [(id_a_stop ++ sfx, mkE id_a 0 (Some 0) AStop); (id_a, mkE id_a 1 None AStart);
   (id_a_stop, mkE id_a_stop 0 (Some 1) ANone)] /\
  build_pending true [id_a_stop; id_a] w_cur w_des =
  [(id_a_stop, mkE id_a_stop 0 (Some 1) ANone); (id_a_stop ++ sfx, mkE id_a 0 (Some 0) AStop);
   (id_a, mkE id_a 1 None AStart)] /\
  NoDup (keys w_cur) /\ NoDup (keys w_des).
Proof. split; [vm_compute; reflexivity|]. split; [vm_compute; reflexivity|]. split; vm_compute; repeat constructor;
       cbn; intuition discriminate. Qed.

(* a schedule with colliding ids that reaches "Run returned": restart of a with a never-ready
   replacement next to a:stop, a factory error, a slow stop overlapping, context cancelled *)
Definition ex_schedule : list label :=
  [LOffer [(id_a, Some 0); (id_a_stop, Some 0)]; LRecv []; LFactory id_a 0 0 BReady; LRunCall 0; LReady;
   LFactory id_a_stop 0 1 BReady; LReady; LCount 2; LState CRunning;
   LOffer [(id_a, Some 1); (id_a_stop, Some 0); ([99], Some 2)]; LRecv [id_a; id_a_stop];
   LStopCall 0; LState CReloading; LStopRet 0; LFactoryErr [99] 2; LFactory id_a 1 2 BNever; LStopCall 2; LStopRet 2;
   LCount 1; LCancel; LShut; LStopCall 1; LStopRet 1; LRunReturn; LCount 0; LState CStopped].
Example C16_ex_schedule :
  exists s, run (step true) (init false) ex_schedule = Some s /\ s_hyg s = false /\ s_pc s = PRet /\
            s_live s = [] /\ s_next s = 3.
Proof. eexists. split; [vm_compute; reflexivity|]. repeat split. Qed.

(* ---- every theorem's hypotheses are jointly satisfiable (one Example per hypothesis set) ---- *)

(* planner theorems (C16_plan_order_free, C16_converge): well-formed maps and two iteration orders, with
   colliding ids; and the premises of each conjunct of C16_converge *)
Example C16_ex_planner_hyps :
  NoDup (keys w_cur) /\ NoDup (keys w_des) /\
  Permutation [id_a; id_a_stop] (keys w_cur) /\ Permutation [id_a_stop; id_a] (keys w_cur) /\
  (* changed running entry *)
  (lookup id_a w_cur = Some (mkE id_a 0 (Some 0) ANone) /\ dcfg w_des id_a = Some 1 /\ 0 <> 1) /\
  (* unchanged entry *)
  (lookup id_a_stop w_cur = Some (mkE id_a_stop 0 (Some 1) ANone) /\ dcfg w_des id_a_stop = Some 0).
Proof.
  split; [vm_compute; repeat constructor; cbn; intuition discriminate|].
  split; [vm_compute; repeat constructor; cbn; intuition discriminate|].
  split; [apply Permutation_refl|]. split; [apply perm_swap|]. repeat split; try reflexivity. discriminate.
Qed.

Definition ex2_cur : emap :=
  [(id_a, mkE id_a 0 (Some 0) ANone); (id_b, mkE id_b 0 None ANone); ([99], mkE [99] 0 (Some 2) ANone)].
Definition ex2_des : emap := new_entries [(id_a, Some 0); (id_b, Some 1); ([100], Some 3)].
Example C16_ex_planner_hyps2 :
  NoDup (keys ex2_cur) /\ NoDup (keys ex2_des) /\ Permutation [id_b; id_a; [99]] (keys ex2_cur) /\
  (* changed entry without a server *)
  (lookup id_b ex2_cur = Some (mkE id_b 0 None ANone) /\ dcfg ex2_des id_b = Some 1 /\ 0 <> 1) /\
  (* removed running entry *)
  (lookup [99] ex2_cur = Some (mkE [99] 0 (Some 2) ANone) /\ dcfg ex2_des [99] = None) /\
  (* new id *)
  (lookup [100] ex2_des = Some (mkE [100] 3 None AStart) /\ lookup [100] ex2_cur = None) /\
  In ([100], mkE [100] 3 None AStart) (build_pending true [id_b; id_a; [99]] ex2_cur ex2_des).
Proof.
  split; [vm_compute; repeat constructor; cbn; intuition discriminate|].
  split; [vm_compute; repeat constructor; cbn; intuition discriminate|].
  split; [apply perm_swap|].
  repeat split; try reflexivity; try discriminate. vm_compute. auto 6.
Qed.

(* protocol theorems at an idle point, not cancelled (C16_running_are_recorded, C16_count,
   C16_count_bounds, C16_round_converges conjuncts 1-3 and 5, C16_serverless_only_after_cancel,
   C16_idle_is_running, C16_update_never_ignored): colliding ids, a restart, a failed start *)
Definition ex_idle_schedule : list label :=
  [LOffer [(id_a, Some 0); (id_a_stop, Some 0)]; LRecv []; LFactory id_a 0 0 BReady; LRunCall 0; LReady;
   LFactory id_a_stop 0 1 BReady; LReady;
   LOffer [(id_a, Some 1); (id_a_stop, Some 0); ([99], Some 2)]; LRecv [id_a; id_a_stop];
   LStopCall 0; LStopRet 0; LFactoryErr [99] 2; LFactory id_a 1 2 BReady; LReady].
Example C16_ex_idle_hyps :
  exists s, run (step true) (init false) ex_idle_schedule = Some s /\
            s_pc s = PIdle /\ idle_pc (s_pc s) = true /\ s_cancel s = false /\
            lookup id_a (s_entries s) = Some (mkE id_a 1 (Some 2) ANone) /\
            dcfg (s_des s) [99] = Some 2 /\ In [99] (s_failed s) /\
            lookup id_a_stop (s_base s) = Some (mkE id_a_stop 0 (Some 1) ANone) /\
            dcfg (s_des s) id_a_stop = Some 0 /\
            In (2, (id_a, 1)) (s_live s) /\ In (1, (id_a_stop, 0)) (s_live s).
Proof. eexists. split; [vm_compute; reflexivity|]. repeat split; vm_compute; auto. Qed.

(* ... with a map waiting on the siphon (premises of the second part of C16_update_never_ignored) *)
Example C16_ex_offer_hyps :
  exists s s', run (step true) (init false) (firstn 8 ex_idle_schedule) = Some s /\ s_pc s = PIdle /\
               s_offer s = Some [(id_a, Some 1); (id_a_stop, Some 0); ([99], Some 2)] /\
               step true s (LRecv [id_a; id_a_stop]) = Some s'.
Proof. eexists. eexists. split; [vm_compute; reflexivity|]. repeat split. Qed.

(* conjunct 4 of C16_round_converges: an idle point with an entry that has no server (restart delay cut
   short by cancellation) *)
Definition ex_cancel_schedule : list label :=
  [LOffer [(id_a, Some 0)]; LRecv []; LFactory id_a 0 0 BReady; LReady;
   LOffer [(id_a, Some 1)]; LCancel; LRecv [id_a]; LStopCall 0; LStopRet 0; LDelayCancel].
Example C16_ex_cancel_hyps :
  exists s, run (step true) (init true) ex_cancel_schedule = Some s /\ s_pc s = PIdle /\
            lookup id_a (s_entries s) = Some (mkE id_a 1 None ANone) /\ s_cancel s = true /\
            s_live s = [] /\ count (s_entries s) = 1%nat.
Proof. eexists. split; [vm_compute; reflexivity|]. repeat split. Qed.

(* C16_none_leaked / C16_idle_is_running (finished) : C16_ex_schedule above reaches PRet.
   C16_old_stopped_before_replacement: a schedule split at the second factory call for id a, with an
   earlier factory call for a in the first part *)
Example C16_ex_history_hyps :
  exists s, run (step true) (init false) (firstn 12 ex_idle_schedule ++ LFactory id_a 1 2 BReady :: [LReady]) = Some s /\
            In (LFactory id_a 0 0 BReady) (firstn 12 ex_idle_schedule) /\
            In (LStopRet 0) (firstn 12 ex_idle_schedule).
Proof. eexists. split; [vm_compute; reflexivity|]. split; vm_compute; auto 12. Qed.

(* C16_live_servers_run / C16_runs_exactly: an idle point, context not cancelled, reached by a liveness
   schedule with a restart and a failed start; instance 2 runs id a with configuration 1, [99] failed *)
Definition ex_live_schedule : list glabel :=
  [GB (LOffer [(id_a, Some 0); (id_a_stop, Some 0)]); GB (LRecv []); GSent;
   GB (LFactory id_a 0 0 BReady); GB (LRunCall 0); GB LReady;
   GB (LFactory id_a_stop 0 1 BReady); GB (LRunCall 1); GB LReady;
   GB (LOffer [(id_a, Some 1); (id_a_stop, Some 0); ([99], Some 2)]); GB (LRecv [id_a; id_a_stop]); GSent;
   GB (LStopCall 0); GB (LStopRet 0); GRunRet 0; GB (LFactoryErr [99] 2);
   GB (LFactory id_a 1 2 BReady); GB (LRunCall 2); GB LReady].
Example C16_ex_live_hyps :
  exists g, run (gstep true) (ginit false) ex_live_schedule = Some g /\
            s_pc (g_s g) = PIdle /\ s_cancel (g_s g) = false /\
            In (2, (id_a, 1)) (s_live (g_s g)) /\ aliveb g 2 = true /\ aliveb g 0 = false /\
            dcfg (s_des (g_s g)) id_a = Some 1 /\ dcfg (s_des (g_s g)) [99] = Some 2 /\
            In [99] (s_failed (g_s g)).
Proof. eexists. split; [vm_compute; reflexivity|]. repeat split; vm_compute; auto. Qed.

(* C16_acceptor_sound: the acceptor does return a state for a trace of the real Runner *)
Example C16_ex_accepted :
  exists g, In g (fst (gaccept false 100 [GE (EOffer [(id_a, Some 0)]); GESent; GE (EFactory id_a 0 0 BReady);
                                           GE (ERunCall 0); GE (ECount 1); GE (EState CRunning)])).
Proof. eexists. vm_compute. left. reflexivity. Qed.

(* C16_monitor_sound / C16_ghost_fields_from_trace: a liveness schedule (ex_live_schedule above: restart, failed
   start) - and the monitor does reject: the counter-change of audit2 H2 (context cancelled right after the start)
   fails clause 8, a wrong count clause 3 *)
Example C16_ex_monitor :
  c16_holdsb (obs_trace gobs ex_live_schedule) = true /\
  c16_monitor [GE (EOffer [(id_a, Some 0)]); GESent; GE (EFactory id_a 0 0 BReady); GE (ERunCall 0); GECtxSeen 0]
    = Some (4%nat, 8) /\
  c16_monitor [GE (EOffer [(id_a, Some 0)]); GESent; GE (EFactory id_a 0 0 BReady); GE (ERunCall 0); GE (ECount 0)]
    = Some (4%nat, 3) /\
  c16_monitor [GE (EOffer [(id_a, Some 0)]); GESent; GE (ECount 0)] = Some (2%nat, 5).
Proof. repeat split; vm_compute; reflexivity. Qed.
