(* C16 — HTTP cluster: converges to desired servers; unchanged untouched; none leaked.
   This file contains only statements; every proof is `exact <lemma>`.

   Models: Cluster.v (entries planner, as written incl. the derived key id ++ ":stop"; [fx] = true is
   the candidate repair) and ClusterLTS.v (Run loop; schedule = list of labels; [s_live] = instances
   created whose Stop() has not been called, [s_stopping] = Stop() called and not returned;
   [s_hyg] = every processed map satisfied id hygiene).

   The full statements hold under ID HYGIENE (no id of current ∪ desired equals another id followed by
   ":stop") and are REFUTED without it (known finding id-collision:x/x:stop). *)
From Coq Require Import List NArith Bool Permutation.
From GS Require Import LTS Cluster ClusterLTS ClusterPlan ClusterRun ClusterInv ClusterStep ClusterMain.
Import ListNotations.
Open Scope N_scope.

(* Under hygiene the plan does not depend on the map iteration order. *)
Theorem C16_plan_order_free : forall ord1 ord2 cur des,
  NoDup (keys cur) -> NoDup (keys des) -> hygienic (ids_of cur des) ->
  Permutation ord1 (keys cur) -> Permutation ord2 (keys cur) ->
  (forall q, lookup q (build_pending false ord1 cur des) = lookup q (build_pending false ord2 cur des)) /\
  Permutation (build_pending false ord1 cur des) (build_pending false ord2 cur des).
Proof. exact plan_order_free. Qed.

(* What a processed map does to the collection (planner level): every runtime is conserved;
   unchanged entries keep their instance and get no action; a changed running entry has its old
   instance in a stop entry and a start entry with the new configuration; removed running entries
   are stopped; new ids are started; and there is nothing else in the plan. *)
Theorem C16_converge : forall ord cur des,
  NoDup (keys cur) -> NoDup (keys des) -> hygienic (ids_of cur des) -> Permutation ord (keys cur) ->
  let pend := build_pending false ord cur des in
  NoDup (keys pend) /\ Permutation (rts pend) (rts cur) /\
  (forall k old, lookup k cur = Some old -> dcfg des k = Some (e_cfg old) ->
                 lookup k pend = Some (set_act ANone old)) /\
  (forall k old c i, lookup k cur = Some old -> dcfg des k = Some c -> e_cfg old <> c -> e_rt old = Some i ->
                     lookup (k ++ sfx) pend = Some (set_act AStop old) /\ lookup k pend = Some (start_entry k c)) /\
  (forall k old c, lookup k cur = Some old -> dcfg des k = Some c -> e_cfg old <> c -> e_rt old = None ->
                   lookup k pend = Some (start_entry k c)) /\
  (forall k old i, lookup k cur = Some old -> dcfg des k = None -> e_rt old = Some i ->
                   lookup k pend = Some (set_act AStop old)) /\
  (forall k d, lookup k des = Some d -> lookup k cur = None -> lookup k pend = Some (start_entry k (e_cfg d))) /\
  (forall q e, In (q, e) pend ->
     (exists k old, lookup k cur = Some old /\ In (q, e) (process_existing k old (dcfg des k))) \/
     (exists d, In (q, d) des /\ mem q cur = false /\ e = start_entry q (e_cfg d))).
Proof. exact converge_plan. Qed.

(* Every schedule of the Run loop (any sequence of maps, factory errors, readiness failures, slow
   stops, Stop()/cancel/close at any point): the running instances are distinct, and whenever the
   loop is idle they are exactly the runtimes recorded in the collection (one per entry). *)
Theorem C16_running_are_recorded : forall d ls s,
  run (step false) (init d) ls = Some s -> s_hyg s = true ->
  NoDup (map fst (s_live s)) /\
  (s_pc s = PIdle -> NoDup (keys (s_entries s)) /\ Permutation (map fst (s_live s)) (rts (s_entries s))).
Proof. exact running_are_recorded. Qed.

(* GetServerCount, wherever the model lets it be observed (loop idle or Run finished): no Stop() is
   in flight and the count is the number of servers started and not stopped, plus the entries that
   never got a server (left behind only by a restart delay cut short by cancellation). *)
Theorem C16_count : forall d ls s,
  run (step false) (init d) ls = Some s -> s_hyg s = true -> idle_pc (s_pc s) = true ->
  s_stopping s = [] /\
  count (s_entries s) = (length (s_live s) + length (no_rt (s_entries s)))%nat.
Proof. exact count_ok. Qed.

(* When Run has finished (and after it returned) no instance is left that was started and not
   stopped, no Stop() is in flight, and the collection is empty. *)
Theorem C16_none_leaked : forall d ls s,
  run (step false) (init d) ls = Some s -> s_hyg s = true -> returned_pc (s_pc s) = true ->
  s_live s = [] /\ s_stopping s = [] /\ s_entries s = [].
Proof. exact none_leaked. Qed.

(* ---- without hygiene: refuted (F9), on the planner and on the protocol ---- *)

(* ids a and a:stop both running, a's configuration changes: in one iteration order the old instance
   of a is in no stop entry, in the other a:stop's own entry is replaced by a's stop entry; neither
   plan is correct and the two differ. *)
Theorem C16_converge_refuted :
  hygienicb (ids_of w_cur w_des) = false /\
  (stops (build_pending false [id_a; id_a_stop] w_cur w_des) 0 = false /\
   plan_okb w_cur w_des (build_pending false [id_a; id_a_stop] w_cur w_des) = false) /\
  (lookup id_a_stop (build_pending false [id_a_stop; id_a] w_cur w_des) = Some (mkE id_a 0 (Some 0) AStop) /\
   plan_okb w_cur w_des (build_pending false [id_a_stop; id_a] w_cur w_des) = false) /\
  emap_eqb (build_pending false [id_a; id_a_stop] w_cur w_des)
           (build_pending false [id_a_stop; id_a] w_cur w_des) = false.
Proof. exact (conj witness_not_hygienic (conj witness_order1 (conj witness_order2 witness_order_dependent))). Qed.

(* A schedule after which Run has returned while instance 0 was never stopped. *)
Theorem C16_none_leaked_refuted :
  exists s, run (step false) (init false) leak_schedule = Some s /\
            s_pc s = PRet /\ map fst (s_live s) = [0] /\ s_hyg s = false.
Proof. exact leak_schedule_runs. Qed.

(* A schedule after which the loop is idle, GetServerCount is 1, two servers run, and the running
   server a:stop is no longer in the collection. *)
Theorem C16_count_refuted :
  exists s, run (step false) (init false) drop_schedule = Some s /\
            s_pc s = PIdle /\ count (s_entries s) = 1%nat /\ map fst (s_live s) = [2; 1] /\
            lookup id_a_stop (s_entries s) = None.
Proof. exact drop_schedule_runs. Qed.

(* ---- the candidate repair (fx = true): evidence, not yet general theorems ---- *)
(* the leak schedule is impossible on the repaired model, the proper schedule ends clean *)
Theorem C16_repaired_witness :
  run (step true) (init false) leak_schedule = None /\
  exists s, run (step true) (init false) repaired_schedule = Some s /\ s_pc s = PRet /\ s_live s = [].
Proof. exact repaired_schedule_runs. Qed.

(* bounded: all current/desired pairs over {a, a:stop, a:stop:stop}, all iteration orders *)
Theorem C16_repaired_plan_ok_bounded :
  forallb (fun cur => forallb (fun des => forallb (plan_okb cur des) (build_pending_all true cur des))
                              (all_des pool3)) (all_curs pool3 0) = true.
Proof. exact repaired_pool_exhaustive. Qed.

Print Assumptions C16_plan_order_free.
Print Assumptions C16_converge.
Print Assumptions C16_running_are_recorded.
Print Assumptions C16_count.
Print Assumptions C16_none_leaked.
Print Assumptions C16_converge_refuted.
Print Assumptions C16_none_leaked_refuted.
Print Assumptions C16_count_refuted.
Print Assumptions C16_repaired_witness.
Print Assumptions C16_repaired_plan_ok_bounded.

(* ---- non-vacuity ---- *)
Definition id_b : id := [98].
(* a hygienic round: a restarted, b unchanged, c new; the hypotheses of C16_converge hold *)
Definition ex_cur : emap := [(id_a, mkE id_a 0 (Some 0) ANone); (id_b, mkE id_b 0 (Some 1) ANone)].
Definition ex_des : emap := new_entries [(id_a, Some 1); (id_b, Some 0); ([99], Some 2)].
Example C16_ex_hygienic : hygienicb (ids_of ex_cur ex_des) = true /\ hygienic (ids_of ex_cur ex_des).
Proof. split; [vm_compute; reflexivity|apply hygienicb_spec; vm_compute; reflexivity]. Qed.
Example C16_ex_plan :
  build_pending false [id_b; id_a] ex_cur ex_des =
  [(id_b, mkE id_b 0 (Some 1) ANone); (id_a ++ sfx, mkE id_a 0 (Some 0) AStop); (id_a, mkE id_a 1 None AStart);
   ([99], mkE [99] 2 None AStart)].
Proof. vm_compute. reflexivity. Qed.

(* a hygienic schedule that reaches "Run returned" with the flag still true: restart of a with a
   never-ready replacement, a factory error for c, a slow stop overlapping, context cancelled *)
Definition ex_schedule : list label :=
  [LOffer [(id_a, Some 0); (id_b, Some 0)]; LRecv []; LFactory id_a 0 0 BReady; LRunCall 0; LReady;
   LFactory id_b 0 1 BReady; LReady; LCount 2; LState CRunning;
   LOffer [(id_a, Some 1); (id_b, Some 0); ([99], Some 2)]; LRecv [id_a; id_b];
   LStopCall 0; LState CReloading; LStopRet 0; LFactoryErr [99] 2; LFactory id_a 1 2 BNever; LStopCall 2; LStopRet 2;
   LCount 1; LCancel; LShut; LStopCall 1; LStopRet 1; LRunReturn; LCount 0; LState CStopped].
Example C16_ex_schedule :
  exists s, run (step false) (init false) ex_schedule = Some s /\ s_hyg s = true /\ s_pc s = PRet /\
            s_live s = [] /\ s_next s = 3.
Proof. eexists. split; [vm_compute; reflexivity|]. repeat split. Qed.
