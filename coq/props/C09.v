(* C09 — composite: running children == configured; none survive Run(); no deadlock.
   Statements only; every proof is `exact <lemma>`.

   The model is of the repaired code by default: fix_c09 P = true (Run takes reloadMu around its
   stopAllRunnables, /repo 82de565) and fix_c11 P = true (/repo 5b52fc2).  Legacy variants are named
   explicitly (fix_c09 P = false).  [greach P s] = s is reached by a schedule whose callback values
   range over the pool; [good_pool] = distinct pool members have distinct String(). *)
From Coq Require Import List NArith Bool Permutation.
From GS Require Import Errs LTS Composite CompositeMon CompositeBase CompositeC10 CompositeC11 CompositeExactMs
     CompositeLocks CompositeLive CompositeC09 CompositeProgress CompositeExact CompositeMeasure
     CompositeTrace CompositeLink2.
Import ListNotations.

(* C09_live (delivered as no-stuck-state, DESIGN.md section 9): for the repaired code (composite
   82de565, lifecycle b0569e6) and children whose Run returns once signalled or cancelled
   ([good_children]: like the bundled runnables, or earlier and with any result - a failure included;
   only a Run that never returns is excluded; Stop either non-blocking or blocking until the Run
   cycle it targeted has returned), in EVERY reachable state of every guarded schedule - any pool, any reload history, any
   number of concurrent Reload()/Stop() callers, any interleaving - in which Run() has been called and
   some Stop()/Reload() caller has not returned (or Run() is past its select), a label other than a
   new API call / cancellation / observation is enabled.  No shape is excluded. *)
Theorem C09_live : forall P s,
  fix_c09 P = true -> fix_lc P = true -> good_pool P -> good_children P ->
  greach P s -> runt s <> TIdle -> pending s ->
  exists l s', env_label l = false /\ step P s l = Some s'.
Proof. exact no_stuck_state_lc_env. Qed.

(* with the repaired lifecycle a blocking child Stop() is never overtaken: whenever it is still
   waiting, the child's stop signal is in place *)
Theorem C09_stop_never_overtaken : forall P s,
  fix_lc P = true -> reach P s -> ~ overtaken P s.
Proof. exact not_overtaken. Qed.

(* LEGACY lifecycle (fix_lc arbitrary, in particular the StartStop before /repo b0569e6): the same
   statement holds outside the shape [overtaken] (a blocking child Stop() overtaken by a new Run of
   the same child: C07's cycle-reset defect seen from the composite) ... *)
Theorem C09_live_legacy_lifecycle : forall P s,
  fix_c09 P = true -> good_pool P -> good_children P ->
  greach P s -> ~ overtaken P s -> runt s <> TIdle -> pending s ->
  exists l s', env_label l = false /\ step P s l = Some s'.
Proof. exact no_stuck_state_env. Qed.

(* ... and with fix_lc P = false that shape is reachable and stuck: a Reload() caller is pending and
   no label other than new API calls / cancellation / observations is enabled *)
Theorem C09_overtaken_is_stuck_legacy : exists P s,
  fix_c09 P = true /\ fix_lc P = false /\ good_pool P /\ good_children P /\ greach P s /\
  overtaken P s /\ runt s <> TIdle /\ pending s /\
  (forall l s', step P s l = Some s' -> env_label l = true).
Proof.
  exists ov_params, ov_st. split; [reflexivity|]. split; [reflexivity|].
  split; [repeat constructor; cbn; intuition discriminate|].
  split; [intros c [<-|[<-|[]]]; left; reflexivity|].
  split; [exact ov_reach|]. split; [exact ov_overtaken|].
  split; [discriminate|]. split; [|exact ov_stuck].
  right. right. exists 1. eexists. split; [vm_compute; reflexivity|discriminate].
Qed.

(* the mutual exclusion behind it: at most one Reload() is inside its critical section, and
   never while Run() tears down (repaired code) *)
Theorem C09_reload_mutex : forall P s, reach P s ->
  count_r inside (reloaders s) + b2n (fix_c09 P && tear_hold (runt s))
  = b2n (negb (mu_free (reload_mu s))).
Proof. intros P s H. exact (proj1 (proj1 (proj2 (base_reach_locks P s H)))). Qed.

(* C09_exact (code with /repo 82de565, 5b52fc2, f0fcb2b): while the composite is Running and no
   Reload() is inside its critical section, the children started by the current boot generation are
   exactly the runnables of the current configuration (as sets of pool members), and no other child
   is running: every child goroutine of an older generation has finished *)
Theorem C09_exact : forall P s,
  fix_c09 P = true -> fix_c11 P = true -> fix_stale P = true -> good_pool P -> greach P s ->
  fsm s = FRunning -> reload_mu s = None ->
  (forall c, In c (ids (entries_of s)) <-> In c (map k_child (cur_kids s)))
  /\ (forall k, In k (kids s) -> k_gen k < gen s -> k_pc k = KDone).
Proof.
  intros P s H9 H11 Hs Hp Hr Hf Hm. split.
  - exact (exact_running P s H9 H11 Hp Hr Hf Hm).
  - exact (older_generations_finished P s H9 Hs (greach_reach P s Hr)).
Qed.

(* C09_exact with multiplicities ("each once" per entry; code with hooks/fix-c09-membership-multiset.patch,
   fix_ms): the children of the current boot generation are a PERMUTATION of the entries' runnables - a
   configuration that lists a runnable twice has exactly two goroutines of it.  [good_pool] (distinct pool
   members have distinct String()) is needed: see C09_exact_refuted_without_good_pool. *)
Theorem C09_exact_multiset : forall P s,
  fix_c09 P = true -> fix_ms P = true -> good_pool P -> greach P s ->
  fsm s = FRunning -> reload_mu s = None ->
  Permutation (ids (entries_of s)) (map k_child (cur_kids s)).
Proof. exact exact_running_multiset. Qed.

(* with the name-SET test of /repo 5b52fc2 (fix_ms = false) it is false - H3 of the second audit:
   configuration [a;a;b], Reload([a;b;b]) is taken in place; afterwards a runs twice and b once while the
   configuration lists a once and b twice (the set form C09_exact still holds).  The multiset test sends
   the same reload down the restart path. *)
Theorem C09_exact_multiset_refuted_legacy :
  exists s, run (step (ms_pool false)) init ms_sched = Some s /\
            fsm s = FRunning /\ reload_mu s = None /\ good_pool (ms_pool false) /\
            Forall (good_label (ms_pool false)) ms_sched /\
            ids (entries_of s) = [0; 1; 1]%N /\ map k_child (cur_kids s) = [0; 0; 1]%N /\
            ~ Permutation (ids (entries_of s)) (map k_child (cur_kids s)) /\
            (forall c, In c (ids (entries_of s)) <-> In c (map k_child (cur_kids s))) /\
            run (step (ms_pool true)) init (firstn 13 ms_sched) = None /\
            (exists s1, run (step (ms_pool true)) init (firstn 12 ms_sched) = Some s1 /\
                        rel_pc 0 s1 = Some RStopBegin).
Proof. exact exact_multiset_refuted_legacy. Qed.

(* [good_pool] cannot be dropped - H4 of the second audit, recorded finding
   same-name-different-object:inplace-reload: with two DISTINCT runnables x, x' of equal String(), Reload([x'])
   on configuration [x] is taken in place: x' (never started) receives ReloadWithConfig and becomes the
   configuration, x keeps running outside it (neither the multiset nor the set form of C09_exact holds);
   Stop() then makes Run() call Stop() on x', which (blocking style) waits for a Run that never started: no
   internal step, no child-owed step and no return is enabled - Run() and Stop() hang *)
Theorem C09_exact_refuted_without_good_pool :
  ~ good_pool h4_pool /\ Forall (good_label h4_pool) h4_sched /\
  membership_changed h4_pool [(0, 0)]%N [(1, 1)]%N = false /\
  (exists s, run (step h4_pool) init (firstn 14 h4_sched) = Some s /\
             fsm s = FRunning /\ reload_mu s = None /\
             ids (entries_of s) = [1%N] /\ map k_child (cur_kids s) = [0%N] /\
             ~ (forall c, In c (ids (entries_of s)) <-> In c (map k_child (cur_kids s))) /\
             option_map r_calls (nth_error (reloaders s) 0) = Some [(1%N, Some 1%N)]) /\
  (exists s, run (step h4_pool) init h4_sched = Some s /\
             runt s = TStopWait /\ nth_error (stoppers s) 0 = Some SWaiting /\
             option_map w_pc (nth_error (workers s) 0) = Some WCalled /\ ever 1%N s = false /\
             forallb kdone (kids s) = true /\
             none_enabled h4_pool s (taus s ++ [LWRet 0 1%N; LSRet 0; LRunRet None]) = true).
Proof. exact exact_refuted_without_good_pool. Qed.

(* the second half holds at every moment of every schedule, not only while Running ... *)
Theorem C09_older_generations_finished : forall P s,
  fix_c09 P = true -> fix_stale P = true -> reach P s ->
  forall k, In k (kids s) -> k_gen k < gen s -> k_pc k = KDone.
Proof. exact older_generations_finished. Qed.

(* ... and between a reload's stopAllRunnables and its boot no child goroutine at all is alive *)
Theorem C09_all_finished_before_reboot : forall P s k r,
  fix_c09 P = true -> fix_stale P = true -> reach P s ->
  nth_error (reloaders s) k = Some r -> post_join (r_pc r) = true ->
  forallb kdone (kids s) = true.
Proof. exact all_finished_before_reboot. Qed.

(* ... and right after every boot exactly one goroutine per entry, in entry order *)
Theorem C09_exact_at_boot : forall P s o s',
  reach P s -> step P s (LBootLaunch o) = Some s' ->
  map k_child (cur_kids s') = ids (entries_of s) /\ entries_of s' = entries_of s.
Proof. exact boot_launch_exact_reach. Qed.

(* every Stop worker of stopAllRunnables addresses a child that has a goroutine (no Stop() on a
   child that nobody will ever run: the F8 shape is gone), repaired code *)
Theorem C09_stop_targets_launched : forall P s,
  fix_c09 P = true -> good_pool P -> greach P s ->
  forall w, In w (workers s) -> has_kid (w_child w) s = true.
Proof. intros P s Hf Hp Hr. exact (proj2 (g_kids P s (Gall_greach P s Hf Hp Hr))). Qed.

(* C09_none_survive, as far as it is a state fact: whenever Run() has executed its deferred calls
   (after Stop(), cancellation, a child failure or a failed reload, under every interleaving) its
   context - the parent of every child context ever created - is cancelled and Stop() callers are
   released.  This is what the LRunExit step establishes and nothing more: a child may still be
   inside its Run at that moment (when the transition to Running was refused after the boot, or when
   a Reload() that raced with Stop() boots afterwards); such a child can then always return
   (C09_cancelled_child_exits, C18_comp_no_blocked_leftover), and after a teardown that went through
   stopAllRunnables with no later boot no goroutine is left at all (C18_comp_clean). *)
Theorem C09_none_survive : forall P s, reach P s ->
  returned (runt s) = true -> rctx s = true /\ lc_done s = true.
Proof. exact none_survive. Qed.

(* ... and a child that honours its context can then always return: none is left running *)
Theorem C09_cancelled_child_exits : forall P s i k,
  rctx s = true -> nth_error (kids s) i = Some k -> k_pc k = KInRun ->
  c_exit (spec_of P (k_child k)) = OnSignal ->
  exists s', step P s (LKExit i (k_child k) None) = Some s'.
Proof. exact cancelled_child_can_exit. Qed.

Theorem C09_launched_child_runs : forall P s i k,
  nth_error (kids s) i = Some k -> k_pc k = KLaunched ->
  exists s', step P s (LKRun i (k_child k)) = Some s'.
Proof. exact launched_child_can_run. Qed.

(* the model branches that the code cannot take are unreachable *)
Theorem C09_oops_unreachable : forall P s, reach P s -> oops s = false.
Proof. intros P s H. exact (proj1 (proj2 (proj2 (base_reach_locks P s H)))). Qed.

(* LEGACY variant (fix_c09 P = false, the code before /repo 82de565): deadlock freedom is refuted.
   A reachable state in which a Stop() caller and a Reload() caller are parked, Run() is inside
   stopAllRunnables, and no label other than new API calls / cancellation / observations is
   enabled; witness schedule: Stop() between setConfig(new) and boot(new). *)
Theorem C09_live_refuted_legacy : exists P s,
  fix_c09 P = false /\
  (forall c, In c (pool P) -> c_stop c = UntilRunDone /\ c_exit c = OnSignal) /\
  reach P s /\
  nth_error (stoppers s) 0 = Some SWaiting /\
  option_map r_pc (nth_error (reloaders s) 0) = Some RBootLock /\
  runt s = TStopWait /\
  (forall l s', step P s l = Some s' -> env_label l = true).
Proof.
  exists f8_params, f8_st. split; [reflexivity|]. split.
  - intros c [<-|[<-|[]]]; split; reflexivity.
  - split; [exact f8_reach|].
    destruct f8_parked as (H1 & H2 & H3). repeat split; auto. exact f8_stuck.
Qed.

Theorem C09_accepted_traces_are_model_traces : forall P fuel tr s,
  In s (fst (accept P fuel tr)) ->
  exists ls, run (step P) init ls = Some s /\ obs_trace obs ls = tr.
Proof. exact accept_sound. Qed.

(* the incremental acceptor the driver actually runs (frontier cap / time budget between events) *)
Theorem C09_incremental_acceptor_sound : forall P fuel tr S e,
  sound_set P tr S -> sound_set P (tr ++ [e]) (fst (accept1 P fuel S e)).
Proof. exact accept1_sound. Qed.

Print Assumptions C09_live.
Print Assumptions C09_stop_never_overtaken.
Print Assumptions C09_live_legacy_lifecycle.
Print Assumptions C09_overtaken_is_stuck_legacy.
Print Assumptions C09_older_generations_finished.
Print Assumptions C09_all_finished_before_reboot.
Print Assumptions C09_reload_mutex.
Print Assumptions C09_exact.
Print Assumptions C09_exact_multiset.
Print Assumptions C09_exact_multiset_refuted_legacy.
Print Assumptions C09_exact_refuted_without_good_pool.
Print Assumptions C09_exact_at_boot.
Print Assumptions C09_stop_targets_launched.
Print Assumptions C09_none_survive.
Print Assumptions C09_cancelled_child_exits.
Print Assumptions C09_launched_child_runs.
Print Assumptions C09_oops_unreachable.
Print Assumptions C09_live_refuted_legacy.
Print Assumptions C09_accepted_traces_are_model_traces.
Print Assumptions C09_incremental_acceptor_sound.

(* non-vacuity: the former F8 witness in the repaired model - Stop() arrives between setConfig(new)
   and boot(new); Run() waits for reloadMu, the reload boots, Run() then stops everything and
   returns; every hypothesis of C09_live holds along the way *)
Definition cur_params : params :=
  mkParams [mkSpec 0 UntilRunDone OnSignal RWC; mkSpec 1 UntilRunDone OnSignal RWC] true true true true true.

Definition ex_sched : list label :=
  [LRunCall; LRunBegin; LBootLock ORun; LCb ORun (CbSome [(0, 0)]%N); LBootLaunch ORun; LToRunning;
   LKRun 0 0%N;
   LReloadCall 0; LRlLock 0; LCb (ORel 0) (CbSome [(0, 1); (1, 1)]%N);
   LStopBegin (ORel 0); LWCall 0 0%N; LKExit 0 0%N None; LWUnblock 0; LWRet 0 0%N;
   LStopCancel (ORel 0); LStopJoin (ORel 0); LRlSetCfg 0;
   LStopApi 0; LSSignal 0; LSelStop; LTransIf;
   LBootLock (ORel 0); LBootLaunch (ORel 0); LRlFinish 0; LRlRet 0;
   LTearLock; LStopBegin ORun; LWCall 1 1%N; LWCall 2 0%N; LKRun 1 0%N; LKRun 2 1%N;
   LKExit 1 0%N None; LKExit 2 1%N (Some Canceled);
   LWUnblock 1; LWRet 1 1%N; LWRet 2 0%N; LStopCancel ORun; LStopJoin ORun; LToStopped; LRunExit;
   LRunRet internal_err; LSRet 0].

Example C09_nonvacuous : exists s,
  run (step cur_params) init ex_sched = Some s /\ Forall (good_label cur_params) ex_sched /\
  good_pool cur_params /\ good_children cur_params /\
  returned (runt s) = true /\ rctx s = true /\
  forallb (fun k => match k_pc k with KDone => true | _ => false end) (kids s) = true /\
  length (kids s) = 3 /\ stoppers s = [SDone] /\ fsm s = FError.
Proof.
  eexists. split; [vm_compute; reflexivity|]. split.
  - repeat constructor.
  - split; [repeat constructor; cbn; intuition discriminate|].
    split; [intros c [<-|[<-|[]]]; left; reflexivity|]. vm_compute. repeat split.
Qed.

(* the state after the first 21 labels is the former deadlock point: Run() is waiting for reloadMu
   and the reloader can take runnablesMu *)
Example C09_nonvacuous_window : exists s,
  run (step cur_params) init (firstn 22 ex_sched) = Some s /\
  runt s = TTearLock /\ option_map r_pc (nth_error (reloaders s) 0) = Some RBootLock /\
  pending s /\ exists s', step cur_params s (LBootLock (ORel 0)) = Some s'.
Proof.
  eexists. split; [vm_compute; reflexivity|]. split; [reflexivity|]. split; [reflexivity|].
  split; [left; reflexivity|]. eexists. vm_compute. reflexivity.
Qed.

(* ---------------------------------------------------------------------------------------------
   Termination measure (proofs/CompositeMeasure.v).  [mu s] is a natural number: Run()'s program
   point + 3 per goroutine/Stop worker it has yet to create + the ranks of the child goroutines, Stop
   workers, Stop() callers and Reload() callers.  SYSTEM labels (is_system l = true) are the library's
   own steps and the steps a child owes under its contract (Run returning nil/a cancellation error,
   Stop and ReloadWithConfig returning); ENVIRONMENT labels are the new API calls LRunCall /
   LReloadCall / LStopApi, LCancel, the observation LState, the RETURN of the configuration callback
   LCb (its value is chosen by the user and has unbounded size) and a child's Run returning a
   non-cancellation error (never owed).
   --------------------------------------------------------------------------------------------- *)

(* every system step strictly decreases the measure - in every reachable state of every variant,
   during a teardown or not *)
Theorem C09_measure_decreases : forall P s l s',
  reach P s -> step P s l = Some s' -> is_system l = true -> mu s' < mu s.
Proof. exact mu_decreases. Qed.

(* an environment step raises it by at most ecost B = 8 + 12*B, B a bound on the number of entries
   of the configurations in play (the stored one, those of the reloads in progress, the one the
   callback returns) ... *)
Theorem C09_measure_env : forall P B s l s',
  sizes_le B s -> label_le B l -> step P s l = Some s' -> is_system l = false ->
  mu s' <= mu s + ecost B.
Proof. exact mu_env_step. Qed.

(* ... and such a bound is kept by every step whose callback value respects it *)
Theorem C09_sizes_kept : forall P B s l s',
  sizes_le B s -> label_le B l -> step P s l = Some s' -> sizes_le B s'.
Proof. exact sizes_le_step. Qed.

(* hence: the system steps of any execution from a reachable state are bounded by the measure of its
   first state plus ecost B for every environment step in it *)
Theorem C09_teardown_bounded : forall P B ls s s',
  reach P s -> sizes_le B s -> Forall (label_le B) ls ->
  run (step P) s ls = Some s' ->
  count_sys ls + mu s' <= mu s + ecost B * count_env ls.
Proof. exact system_steps_bounded. Qed.

(* a state in which neither a system step nor the return of a callback is possible, after the
   teardown was requested (a Stop() call exists, the parent context is cancelled, or Run() took a
   child failure): Run() has returned and so has every Stop() and Reload() call *)
Theorem C09_stuck_returned : forall P s,
  fix_c09 P = true -> fix_lc P = true -> good_pool P -> good_children P ->
  greach P s -> runt s <> TIdle -> teardown s ->
  ~ (exists l s', is_system l || is_cb l = true /\ step P s l = Some s') ->
  (exists r, runt s = TDone r) /\
  (forall k p, nth_error (stoppers s) k = Some p -> p = SDone) /\
  (forall k r, nth_error (reloaders s) k = Some r -> r_pc r = RDone).
Proof. exact stuck_returned. Qed.

(* C09_maximal_execution_returns: once the teardown was requested, an execution of system steps
   that cannot be extended by a system step has at most [mu s] steps, and it ends with Run() and
   every Stop()/Reload() call returned - unless a configuration callback has been called and has not
   returned (cb_out: Run() in its initial load, or a Reload() holding reloadMu) *)
Theorem C09_maximal_execution_returns : forall P s ls s',
  fix_c09 P = true -> fix_lc P = true -> good_pool P -> good_children P ->
  greach P s -> runt s <> TIdle -> teardown s ->
  Forall (fun l => is_system l = true) ls ->
  run (step P) s ls = Some s' ->
  (forall l s'', step P s' l = Some s'' -> is_system l = false) ->
  length ls <= mu s /\ (cb_out s' = true \/ all_returned s').
Proof. exact maximal_execution_returns. Qed.

(* with the callbacks returning (values over the pool): an execution that cannot be extended by a
   system step or a callback return ends with everything returned *)
Theorem C09_maximal_execution_returns_cb : forall P s ls s',
  fix_c09 P = true -> fix_lc P = true -> good_pool P -> good_children P ->
  greach P s -> runt s <> TIdle -> teardown s ->
  Forall (good_label P) ls ->
  run (step P) s ls = Some s' ->
  (forall l s'', step P s' l = Some s'' -> is_system l || is_cb l = false) ->
  all_returned s'.
Proof. exact maximal_execution_returns_cb. Qed.

Print Assumptions C09_measure_decreases.
Print Assumptions C09_measure_env.
Print Assumptions C09_sizes_kept.
Print Assumptions C09_teardown_bounded.
Print Assumptions C09_stuck_returned.
Print Assumptions C09_maximal_execution_returns.
Print Assumptions C09_maximal_execution_returns_cb.

(* non-vacuity: in the schedule above Stop() is called after 18 labels; the remaining 24 labels are
   system steps, the measure goes from 27 to 0 and the run ends with everything returned *)
Example C09_measure_nonvacuous : exists s s',
  run (step cur_params) init (firstn 19 ex_sched) = Some s /\
  run (step cur_params) s (skipn 19 ex_sched) = Some s' /\
  forallb is_system (skipn 19 ex_sched) = true /\ length (skipn 19 ex_sched) = 24 /\
  stoppers s = [SCalled] /\ runt s = TSelect /\ sizes_le 2 s /\
  mu s = 27 /\ mu s' = 0 /\ cb_out s' = false /\
  runt s' = TDone internal_err /\ stoppers s' = [SDone] /\ map r_pc (reloaders s') = [RDone].
Proof.
  eexists. eexists. split; [vm_compute; reflexivity|]. split; [vm_compute; reflexivity|].
  vm_compute. repeat split; repeat constructor.
Qed.

(* all hypotheses of C09_live at once ON A SCHEDULE WITH A CHILD FAILURE (good_children admits
   children that fail: child 1 may return at any time): child 1 has failed, Run() has taken the
   failure, a Reload() caller has not returned - and a step is enabled *)
Definition lf_params (lc : bool) : params :=
  mkParams [mkSpec 0 UntilRunDone OnSignal RWC; mkSpec 1 UntilRunDone Free RWC] true true true lc true.
Definition lf_sched : list label :=
  [LRunCall; LRunBegin; LBootLock ORun; LCb ORun (CbSome [(0, 0); (1, 0)]%N); LBootLaunch ORun; LToRunning;
   LKRun 0 0%N; LKRun 1 1%N; LReloadCall 0;
   LKExit 1 1%N (Some (Errs.Leaf 7%N)); LKSend 1; LSelErr].

Example C09_live_nonvacuous_failure : exists s,
  fix_c09 (lf_params true) = true /\ fix_lc (lf_params true) = true /\
  good_pool (lf_params true) /\ good_children (lf_params true) /\
  greach (lf_params true) s /\ runt s <> TIdle /\ pending s /\
  took s = Some (Wrap (Errs.Leaf 7%N)) /\ map r_pc (reloaders s) = [RCalled] /\
  exists s', step (lf_params true) s LTearLock = Some s'.
Proof.
  eexists. split; [reflexivity|]. split; [reflexivity|].
  split; [repeat constructor; cbn; intuition discriminate|].
  split; [intros c [<-|[<-|[]]]; [left|right]; reflexivity|].
  split; [exists lf_sched; split; [repeat constructor|vm_compute; reflexivity]|].
  split; [discriminate|]. split; [left; reflexivity|]. split; [reflexivity|]. split; [reflexivity|].
  eexists. vm_compute. reflexivity.
Qed.

(* the same for C09_live_legacy_lifecycle (fix_lc P = false): no Stop worker exists, so no Stop() is
   overtaken *)
Example C09_live_legacy_lifecycle_nonvacuous : exists s,
  fix_c09 (lf_params false) = true /\ good_pool (lf_params false) /\ good_children (lf_params false) /\
  greach (lf_params false) s /\ ~ overtaken (lf_params false) s /\ runt s <> TIdle /\ pending s /\
  took s = Some (Wrap (Errs.Leaf 7%N)).
Proof.
  eexists. split; [reflexivity|].
  split; [repeat constructor; cbn; intuition discriminate|].
  split; [intros c [<-|[<-|[]]]; [left|right]; reflexivity|].
  split; [exists lf_sched; split; [repeat constructor|vm_compute; reflexivity]|].
  split; [intros (j & w & i & k & Hw & _); destruct j; discriminate Hw|].
  split; [discriminate|]. split; [left; reflexivity|]. reflexivity.
Qed.

(* ---------------------------------------------------------------------------------------------
   Monitor links (proofs/CompositeTrace.v, CompositeLink2.v).
   c09-clause21 - "an API call is still blocked at final quiescence" - is FALSE of arbitrary model
   traces (they are prefix closed: C09_monitor_clause21_prefix_witness); it is a statement about
   complete runs, and with the measure it is a theorem about every MAXIMAL schedule: one whose final
   state allows no system step and no callback return - the harness' final quiescence.
   --------------------------------------------------------------------------------------------- *)

(* the trace and the state agree on the API calls made and returned (every schedule) *)
Theorem C09_trace_state : forall P ls s, run (step P) init ls = Some s -> T_all (obs_trace obs ls) s.
Proof. exact trace_state. Qed.

(* on every maximal schedule in which Run() was called and Stop()/cancel/a failing child exit
   occurred, no API call of the trace is without its return ... *)
Theorem C09_monitor_clause21_maximal : forall P ls s,
  fix_c09 P = true -> fix_lc P = true -> good_pool P -> good_children P ->
  Forall (good_label P) ls -> run (step P) init ls = Some s -> ~ prog P s ->
  existsb (is_call OpRun) (obs_trace obs ls) = true ->
  existsb is_stop_or_cancel (obs_trace obs ls) || existsb is_fail_exit (obs_trace obs ls) = true ->
  blocked_of (obs_trace obs ls) = 0.
Proof. exact c09_clause21_link. Qed.

(* ... so the monitor, given that number, never answers 21 *)
Theorem C09_monitor_never_clause21 : forall P ls s lives,
  fix_c09 P = true -> fix_lc P = true -> good_pool P -> good_children P ->
  Forall (good_label P) ls -> run (step P) init ls = Some s -> ~ prog P s ->
  existsb (is_call OpRun) (obs_trace obs ls) = true ->
  existsb is_stop_or_cancel (obs_trace obs ls) || existsb is_fail_exit (obs_trace obs ls) = true ->
  C09_holdsb P (obs_trace obs ls) (blocked_of (obs_trace obs ls)) lives <> 21%N.
Proof. exact c09_holdsb_not_21. Qed.

Print Assumptions C09_trace_state.
Print Assumptions C09_monitor_clause21_maximal.
Print Assumptions C09_monitor_never_clause21.

(* all hypotheses at once: ex_sched is maximal (measure 0, no callback outstanding) *)
Example C09_monitor_clause21_nonvacuous : exists s,
  fix_c09 cur_params = true /\ fix_lc cur_params = true /\ good_pool cur_params /\ good_children cur_params /\
  Forall (good_label cur_params) ex_sched /\ run (step cur_params) init ex_sched = Some s /\
  ~ prog cur_params s /\
  existsb (is_call OpRun) (obs_trace obs ex_sched) = true /\
  existsb is_stop_or_cancel (obs_trace obs ex_sched) = true /\
  blocked_of (obs_trace obs ex_sched) = 0.
Proof.
  assert (Hg : exists s, run (step cur_params) init ex_sched = Some s) by (eexists; vm_compute; reflexivity).
  destruct Hg as [s Hs]. exists s.
  assert (Hr : reach cur_params s) by (exists ex_sched; exact Hs).
  split; [reflexivity|]. split; [reflexivity|].
  split; [repeat constructor; cbn; intuition discriminate|].
  split; [intros c [<-|[<-|[]]]; left; reflexivity|].
  split; [repeat constructor|]. split; [exact Hs|].
  vm_compute in Hs. injection Hs as <-.
  split; [apply mu_zero_stuck; [exact Hr|reflexivity|reflexivity]|].
  vm_compute. auto.
Qed.

(* FINDING about the monitors (not about the code).  On prefixes the clause fails: right after the
   calls nothing has returned ... *)
Example C09_monitor_clause21_prefix_witness : exists s,
  run (step cur_params) init [LRunCall; LStopApi 0] = Some s /\
  blocked_of (obs_trace obs [LRunCall; LStopApi 0]) = 2.
Proof. eexists. split; vm_compute; reflexivity. Qed.

(* ... and c09-clause20 ("at a Running observation with no reload in flight the running children are
   the configured ones") is FALSE of the unrestricted model, whose LState observation may be taken at
   any moment: here right after the boot, before the child goroutine has called Run.  The clause is
   meant for observations made at QUIESCENCE (the harness waits until no goroutine can move); no
   theorem links it to the model yet - its state-level counterpart is C09_exact *)
Example C09_monitor_clause20_needs_quiescence : exists s,
  run (step cur_params) init
      [LRunCall; LRunBegin; LBootLock ORun; LCb ORun (CbSome [(0, 0)]%N); LBootLaunch ORun; LToRunning;
       LState FRunning] = Some s /\
  map k_pc (kids s) = [KLaunched] /\
  C09_holdsb cur_params
    (obs_trace obs [LRunCall; LRunBegin; LBootLock ORun; LCb ORun (CbSome [(0, 0)]%N); LBootLaunch ORun;
                    LToRunning; LState FRunning]) 0 [] = 20%N.
Proof. eexists. split; [vm_compute; reflexivity|]. split; vm_compute; reflexivity. Qed.
