(* C09 — composite: running children == configured; none survive Run(); no deadlock.
   Statements only; every proof is `exact <lemma>`.

   What is NOT proved here (see notes/composite.md): C09_exact and C09_live as universally
   quantified theorems.  Delivered: none-survive for all schedules, the refutation of deadlock
   freedom for the unrepaired code (finding stop-between-setconfig-and-boot), and the no-stuck-state
   witness facts. *)
From Coq Require Import List NArith Bool.
From GS Require Import Errs LTS Composite CompositeMon CompositeBase CompositeC10 CompositeC09.
Import ListNotations.

(* C09_none_survive: in every reachable state in which Run() has executed its deferred calls
   (it has returned, or is about to hand its result to the caller) Run's context — from which the
   context of every child ever started is derived — is cancelled, and Stop() callers are released;
   after Stop(), cancellation, a child failure or a failed reload, under every interleaving *)
Theorem C09_none_survive : forall P s, reach P s ->
  returned (runt s) = true -> rctx s = true /\ lc_done s = true.
Proof. exact none_survive. Qed.

(* ... and a child that honours its context can then always return: none is left running *)
Theorem C09_cancelled_child_exits : forall P s i k,
  rctx s = true -> nth_error (kids s) i = Some k -> k_pc k = KInRun ->
  c_exit (spec_of P (k_child k)) = OnSignal ->
  exists s', step P s (LKExit i (k_child k) None) = Some s'.
Proof. exact cancelled_child_can_exit. Qed.

Theorem C09_launched_child_runs : forall P s i k,
  nth_error (kids s) i = Some k -> k_pc k = KLaunched ->
  exists s', step P s (LKRun i (k_child k)) = Some s'.
Proof. exact launched_child_can_run. Qed.

(* C09_live_refuted (unrepaired code, children that behave like the bundled runnables: Stop blocks
   until Run has started and finished, Run exits when signalled or cancelled): a reachable state in
   which a Stop() caller and a Reload() caller are parked, Run() is inside stopAllRunnables, and NO
   label other than new API calls / cancellation / observations is enabled.  The schedule is the
   witness: Stop() between setConfig(new) and boot(new). *)
Theorem C09_live_refuted : exists P s,
  fix_c09 P = false /\
  (forall c, In c (pool P) -> c_stop c = UntilRunDone /\ c_exit c = OnSignal) /\
  reach P s /\
  nth_error (stoppers s) 0 = Some SWaiting /\
  option_map r_pc (nth_error (reloaders s) 0) = Some RBootLock /\
  runt s = TStopWait /\
  (forall l s', step P s l = Some s' -> env_label l = true).
Proof.
  exists f8_params, f8_st. split; [reflexivity|]. split.
  - intros c [<-|[<-|[]]]; split; reflexivity.
  - split; [exact f8_reach|].
    destruct f8_parked as (H1 & H2 & H3). repeat split; auto. exact f8_stuck.
Qed.

Theorem C09_accepted_traces_are_model_traces : forall P fuel tr s,
  In s (fst (accept P fuel tr)) ->
  exists ls, run (step P) init ls = Some s /\ obs_trace obs ls = tr.
Proof. exact accept_sound. Qed.

Print Assumptions C09_none_survive.
Print Assumptions C09_cancelled_child_exits.
Print Assumptions C09_launched_child_runs.
Print Assumptions C09_live_refuted.
Print Assumptions C09_accepted_traces_are_model_traces.

(* non-vacuity: a schedule in which Run() returns after Stop() during a growth reload (Stop arrives
   while the reloader is already inside boot, holding runnablesMu): every child has exited *)
Definition ex_sched : list label :=
  [LRunCall; LRunBegin; LBootLock ORun; LCb ORun (CbSome [(0, 0)]%N); LBootLaunch ORun; LToRunning;
   LKRun 0 0%N;
   LReloadCall 0; LRlLock 0; LCb (ORel 0) (CbSome [(0, 1); (1, 1)]%N);
   LStopBegin (ORel 0); LWCall 0 0%N; LKExit 0 0%N None; LWUnblock 0; LWRet 0 0%N;
   LStopJoin (ORel 0); LRlSetCfg 0; LBootLock (ORel 0);
   LStopApi 0; LSSignal 0; LSelStop; LTransIf;
   LBootLaunch (ORel 0); LRlFinish 0; LRlRet 0;
   LStopBegin ORun; LWCall 1 1%N; LWCall 2 0%N; LKRun 1 0%N; LKRun 2 1%N;
   LKExit 1 0%N None; LKExit 2 1%N (Some Canceled);
   LWUnblock 1; LWUnblock 2; LWRet 1 1%N; LWRet 2 0%N; LStopJoin ORun; LToStopped; LRunExit;
   LRunRet internal_err; LSRet 0].

Example C09_nonvacuous : exists s,
  run (step f8_params) init ex_sched = Some s /\ returned (runt s) = true /\ rctx s = true /\
  forallb (fun k => match k_pc k with KDone => true | _ => false end) (kids s) = true /\
  length (kids s) = 3 /\ stoppers s = [SDone] /\ fsm s = FError.
Proof. eexists. split; [vm_compute; reflexivity|]. vm_compute. repeat split. Qed.
