(* C19 — accepted inputs never crash the process.   PARTIAL: http.ServeMux is an ORACLE ([mux_ok], a
   deterministic function of the ordered pattern list: false = ServeMux.Handle panics); net/http.Server and
   the socket table are modelled.  What the proof establishes is structural: the only panic site of the
   runner is getMux inside boot, every path to it passes the SAME ordered pattern list through NewConfig
   first, and nothing else in Run/Reload/stopServer can crash.  This file contains only statements. *)
From Coq Require Import List NArith ZArith Bool.
From GS Require Import LTS HttpCfg HttpServer HttpCfgProofs HttpCtor HttpProps CompositeCfg CompositeCfgProofs.
Import ListNotations.

(* The code as it is (validated = false), faithful to the defect: for every initial configuration and every
   schedule - any reload sequence, any callback results delivered at any time, Stop/cancel at any point,
   foreign binders included - if the oracle accepts the initial route list and every route list the
   callback delivers, the process never crashes. *)
Theorem C19_http : forall sl validated mux_ok c0 ls s,
  mux_ok (map rpath (routes c0)) = true ->
  Forall (delivers_ok mux_ok) ls ->
  run (step sl validated mux_ok) (init c0) ls = Some s ->
  crashed s = false.
Proof. intros sl v m c0 ls s H0 Hd Hr. exact (proj1 (crash_free sl v m c0 ls s H0 Hd Hr)). Qed.

(* The hypothesis cannot be dropped for the code as it is: EVERY configuration NewConfig accepts
   (non-empty route list) whose patterns the mux rejects crashes Run() - duplicate paths, conflicting
   wildcards, malformed patterns.  Replayed against the implementation on every run of the check. *)
Theorem C19_http_refuted : forall sl mux_ok c0,
  routes c0 <> [] -> new_config_ok false mux_ok (routes c0) = true /\
  (mux_ok (map rpath (routes c0)) = false ->
   exists s, run (step sl false mux_ok) (init c0) [LRunCall; LRunStart; LRunLock; LBootCrash] = Some s /\
             crashed s = true).
Proof.
  intros sl m c0 Hne. split; [destruct (routes c0); [contradiction|reflexivity]|].
  intros Hm. exact (crash_witness sl m c0 Hne Hm).
Qed.

(* ... and the same at reload time, on the reloading goroutine (concrete witness: a second route with the
   first one's path, an oracle that rejects duplicate paths) *)
Definition c19_good : config :=
  {| addr := [65%N]; drain := 5%Z; read_to := 1%Z; write_to := 2%Z; idle_to := 3%Z;
     routes := [{| rname := [97%N]; rpath := [47%N; 120%N] |}] |}.
Definition c19_dup : config :=
  {| addr := [65%N]; drain := 5%Z; read_to := 1%Z; write_to := 2%Z; idle_to := 3%Z;
     routes := [{| rname := [97%N]; rpath := [47%N; 120%N] |}; {| rname := [98%N]; rpath := [47%N; 120%N] |}] |}.
Definition dup_oracle (ps : list str) : bool :=
  paths_nodup (map (fun p => {| rname := []; rpath := p |}) ps).
Definition c19_reload_sched : list label :=
  [LRunCall; LRunStart; LRunLock; LBootCreate 0 c19_good; LBindOk 0; LProbeOk; LRunFinishBoot;
   LReloadCall 0; LReloadBegin 0; LFetch (CbCfg c19_dup); LStopCallS 0; LShutdownRet 0 SOk; LBootCrash].
Theorem C19_http_refuted_at_reload :
  new_config_ok false dup_oracle (routes c19_dup) = true /\
  exists s, run (step true false dup_oracle) (init c19_good) c19_reload_sched = Some s /\ crashed s = true.
Proof. split; [reflexivity|]. eexists. split; [vm_compute; reflexivity|reflexivity]. Qed.

(* With the candidate repair (NewConfig registers the patterns on a scratch mux under recover and returns an
   error) the full statement holds with NO hypothesis on what is delivered: a bad configuration at
   construction or at reload time ends in a returned error / the Error state (C13_visible), never a crash.
   Switching the model is one definition: HttpServer.validated_now. *)
Theorem C19_http_repaired : forall sl mux_ok c0 ls s,
  run (step sl true mux_ok) (init c0) ls = Some s -> crashed s = false.
Proof. exact crash_free_validated. Qed.

(* the switch is consistent with the theorems: the model the check runs is one of the two variants *)
Theorem C19_model_in_use : validated_now = false \/ validated_now = true.
Proof. destruct validated_now; auto. Qed.

(* ---- the public construction paths (model/HttpCfg.v: new_config = NewConfig with its functional options applied in
   order; OCopy src = WithConfigCopy(src)) ----
   Acceptance is decided by the route list handed to NewConfig and by nothing else: not by the options, not by
   their order, not by anything a copied configuration has been through (a copy of a validated configuration does
   not make other routes validated).  All option lists, copies of arbitrary configurations, chains of any length. *)
Theorem C19_constructor_accepts_by_routes_only : forall validated mux_ok a rs opts,
  (exists c, new_config validated mux_ok a rs opts = Some c) <-> new_config_ok validated mux_ok rs = true.
Proof. exact new_config_accept_iff. Qed.

(* the validating constructor (the code as it is): every product carries exactly the address and routes it was
   given, a non-empty route list, and patterns the ServeMux accepts in that order *)
Theorem C19_constructor_validates : forall mux_ok a rs opts c,
  new_config true mux_ok a rs opts = Some c ->
  addr c = a /\ routes c = rs /\ rs <> [] /\ mux_ok (map rpath rs) = true.
Proof. exact new_config_validated. Qed.

(* boot() rebuilds the configuration it holds through NewConfig(addr, routes, WithConfigCopy(cfg), WithRequestContext):
   the product is that very configuration and exists iff the constructor accepts its routes - the guard of
   LBootReject / LBootCreate / LBootCrash in the protocol model is the constructor's test *)
Theorem C19_boot_rebuilds_through_constructor : forall validated mux_ok c,
  boot_config validated mux_ok c = if new_config_ok validated mux_ok (routes c) then Some c else None.
Proof. exact boot_config_spec. Qed.

(* Composite runner: for every entry list - nil, empty, any length - boot, stopAllRunnables,
   Config.Equal and Reload (any old/new pair, empty on either side) perform no out-of-range index and never
   drive a WaitGroup negative; Run starts exactly the configured entries and Stop stops as many. *)
Theorem C19_composite : forall old new : list entry,
  (exists stopped, run_stop old = Done (old, stopped) /\ length stopped = length old) /\
  (exists r, reload old new = Done r) /\
  (exists b, config_equal_comp old new = Done b) /\
  boot new = Done new.
Proof.
  intros old new. split; [apply run_stop_ok|]. split; [apply reload_ok|]. split; [apply config_equal_comp_ok|apply boot_ok].
Qed.

Print Assumptions C19_http.
Print Assumptions C19_http_refuted.
Print Assumptions C19_http_refuted_at_reload.
Print Assumptions C19_http_repaired.
Print Assumptions C19_model_in_use.
Print Assumptions C19_composite.
Print Assumptions C19_constructor_accepts_by_routes_only.
Print Assumptions C19_constructor_validates.
Print Assumptions C19_boot_rebuilds_through_constructor.

(* ---- non-vacuity ---- *)
Example C19_ex_good_accepted : dup_oracle (map rpath (routes c19_good)) = true.
Proof. reflexivity. Qed.
Example C19_ex_dup_rejected_by_oracle : dup_oracle (map rpath (routes c19_dup)) = false.
Proof. reflexivity. Qed.
Example C19_ex_repaired_rejects : new_config_ok true dup_oracle (routes c19_dup) = false.
Proof. reflexivity. Qed.
(* "same settings, new routes": a copy of a validated configuration with a duplicate path is refused; with good
   routes it is accepted and carries the copied timeouts, its own address and routes (satisfies the hypothesis of
   C19_constructor_validates) *)
Example C19_ex_copy_of_validated_does_not_validate :
  new_config true dup_oracle [66%N] (routes c19_dup) [OCopy (Some c19_good)] = None /\
  new_config true dup_oracle [66%N] (routes c19_dup) [ORead 7%Z; OCopy (Some c19_good); ONone; OCopy None] = None.
Proof. split; vm_compute; reflexivity. Qed.
Example C19_ex_copy_accepted :
  new_config true dup_oracle [66%N] (routes c19_good) [ODrain 9%Z; OCopy (Some c19_good); OIdle 4%Z] =
  Some {| addr := [66%N]; drain := 5%Z; read_to := 1%Z; write_to := 2%Z; idle_to := 4%Z; routes := routes c19_good |}.
Proof. vm_compute. reflexivity. Qed.
Example C19_ex_composite_empty : run_stop [] = Done ([], []) /\ reload [] [] = Done ([], []).
Proof. split; reflexivity. Qed.
Example C19_ex_composite_grow : reload [] [(1%N, 0%N); (2%N, 0%N)] = Done ([], [(1%N, 0%N); (2%N, 0%N)]).
Proof. reflexivity. Qed.
