(* C18 - No goroutine outlives clean termination; reloads/subscriptions don't accumulate.
   Supervisor part (the thread table of the supervisor model is the goroutine census that the
   harness compares with runtime.Stack at every quiescent snapshot).  Statements only. *)
From Coq Require Import List Bool Arith.
From GS Require Import LTS Supervisor SupAccept SupProps SupInv SupOnce SupReload SupCensus.
Import ListNotations.

(* After a clean termination - Run() returned, the shutdown timeout did not fire, no API caller is
   pending, every subscription channel has been closed after its context ended - the census is 0:
   Main, the runnable goroutines, the three managers, their listeners and monitors, pending SIGHUP
   senders, trigger-spawned Shutdown goroutines, the wg waiter and subscription closers are gone. *)
Theorem C18_sup_clean : forall c s r,
  reachable_sup c s -> main s = MReturned r -> sd_timed_out s = false -> callers s = [] ->
  forallb sub_closed (subs s) = true -> census s = 0.
Proof. exact sup_c18_clean. Qed.

(* While running, the census is bounded by the configuration, the pending callers, the pending
   reload requests / trigger-spawned shutdown goroutines and the open subscriptions - never by the
   number of SIGHUPs, reload passes, state changes or subscriptions made so far. *)
Theorem C18_sup_bounded : forall c s,
  reachable_sup c s ->
  census s <= 5 + 4 * nrun c + hup s + sd_trig s + length (callers s)
              + count_if (fun b => negb (sub_closed b)) (subs s).
Proof. exact sup_c18_bounded. Qed.

(* ... and pending SIGHUP senders do not accumulate: whenever the system is quiescent with an idle
   reload manager there is none (each was accepted, or gave up when the context ended). *)
Theorem C18_sup_no_hup_accumulation : forall c s,
  quiescent c s = true -> rm s = RmIdle -> hup s = 0.
Proof. intros c s Q R. exact (proj1 (sup_c05_no_loss c s Q R)). Qed.

Print Assumptions C18_sup_clean.
Print Assumptions C18_sup_bounded.
Print Assumptions C18_sup_no_hup_accumulation.

Definition c18_cfg : config :=
  {| specs := [ {| stateable := true; reloadable := true; rsender := true; ssender := true;
                   stop_style := StopUntilRunDone; run_exit := ExitOnSignal; held_sub := false |} ];
     startup_may_fire := false; shutdown_may_fire := false |}.
Definition c18_sched : list label :=
  [LLaunch 0; LRunStore 0; LRunCall 0; LMonSub 0; LMonRecv 0; LPoll 0 true; LGateDecide 0;
   LCall 1 (OpSignal SigHup); LSigPut 1; LRet 1 (OpSignal SigHup); LReapSig; LRmAccept SndHup;
   LReloadCall 0; LReloadRet 0;
   LTrigS 0; LTrigRecvS 0; LStopCall 0; LRunRet 0 None; LStopRet 0; LSdCancel;
   LRmCtx; LRmExit; LSdmExit; LStmExit; LSdWgDone; LReapCtx; LMainShutdown; LMainReturn ResNil].
Example C18_ex_clean_run :
  exists s, run (step c18_cfg) (init c18_cfg) c18_sched = Some s /\ census s = 0
            /\ census (init c18_cfg) = 7.
Proof. eexists. split; [vm_compute; reflexivity|]. split; vm_compute; reflexivity. Qed.

(* ====================================================================================================
   C18 - composite leg (appended; model coq/model/Composite.v, proofs coq/proofs/CompositeCensus.v).
   The goroutines the composite creates on its own behalf: one per child per boot (alive until
   startRunnable has returned) and one per child per stopAllRunnables round (alive until that
   child's Stop() has returned).  [CompositeMon.census] counts both; the harness compares it with the
   real census (goroutines whose creator is a function of runnables/composite) at every quiescent
   snapshot.  Code modelled: /repo f0fcb2b (fix_c09, fix_stale).  All schedules, any pool, any reload
   / restart history, failed boots and failed reloads included.
   ==================================================================================================== *)
From Coq Require Import NArith.
From GS Require Import Errs Composite CompositeMon CompositeBase CompositeC10 CompositeC09 CompositeLocks
     CompositeProgress CompositeExact CompositeCensus.

(* after a clean termination - Run() has returned, no Reload() is inside its critical section, and no
   boot happened after the last completed stopAllRunnables (gen_cancelled = gen) - the census is 0 *)
Theorem C18_comp_clean : forall P s,
  fix_c09 P = true -> fix_stale P = true -> CompositeBase.reach P s ->
  returned (runt s) = true -> reload_mu s = None -> gen_cancelled s = gen s ->
  CompositeMon.census s = 0.
Proof. exact census_zero_after_clean_termination. Qed.

(* in every state in which Run() has returned - also when it returned without stopAllRunnables (the
   transition to Running failed after a boot) or a Reload() raced with Stop() and booted afterwards -
   each child goroutine still alive has an enabled step of its own (its context is cancelled): none is
   left behind blocked *)
Theorem C18_comp_no_blocked_leftover : forall P s i k,
  good_children P -> CompositeBase.reach P s -> returned (runt s) = true ->
  nth_error (kids s) i = Some k -> kid_alive k = true ->
  exists l s', Composite.step P s l = Some s' /\
    (l = LKRun i (k_child k) \/ l = LKExit i (k_child k) None \/ l = LKSend i).
Proof. exact live_child_goroutine_can_step. Qed.

(* no accumulation while running: the live child goroutines all belong to the current boot
   generation - their number is bounded by the size of the configuration launched by the last boot,
   however many reloads and restarts happened before ... *)
Theorem C18_comp_children_bounded : forall P s,
  fix_c09 P = true -> fix_stale P = true -> CompositeBase.reach P s ->
  kid_census s <= length (cur_kids s).
Proof. exact kid_census_bounded. Qed.

(* ... and Stop-worker goroutines exist only inside a stopAllRunnables round in progress (rounds
   are serialised by runnablesMu): whenever neither Run() nor a Reload() is waiting in
   stopAllRunnables there is none *)
Theorem C18_comp_workers_scoped : forall P s,
  CompositeBase.reach P s -> runt s <> TStopWait ->
  count_r (fun p => rpc_is p RStopWait) (reloaders s) = 0 -> worker_census s = 0.
Proof. exact no_live_worker_outside_rounds. Qed.

Print Assumptions C18_comp_clean.
Print Assumptions C18_comp_no_blocked_leftover.
Print Assumptions C18_comp_children_bounded.
Print Assumptions C18_comp_workers_scoped.

(* non-vacuity: boot, restart reload, Stop(): the census is 0 at the end and was 2 in between *)
Definition c18_comp_params : params :=
  mkParams [mkSpec 0%N UntilRunDone OnSignal RWC; mkSpec 1%N NonBlocking OnSignal RWC] true true true true.
Definition c18_comp_sched : list Composite.label :=
  [LRunCall; LRunBegin; LBootLock ORun; LCb ORun (CbSome [(0, 0)]%N); LBootLaunch ORun; LToRunning;
   LKRun 0 0%N;
   LReloadCall 0; LRlLock 0; LCb (ORel 0) (CbSome [(0, 1); (1, 1)]%N);
   LStopBegin (ORel 0); LWCall 0 0%N; LKExit 0 0%N None; LWUnblock 0; LWRet 0 0%N;
   LStopCancel (ORel 0); LStopJoin (ORel 0); LRlSetCfg 0; LBootLock (ORel 0); LBootLaunch (ORel 0);
   LRlFinish 0; LRlRet 0; LKRun 1 0%N; LKRun 2 1%N;
   LStopApi 0; LSSignal 0; LSelStop; LTransIf; LTearLock; LStopBegin ORun;
   LWCall 1 1%N; LWCall 2 0%N; LWRet 1 1%N; LKExit 1 0%N None; LKExit 2 1%N (Some Canceled);
   LWUnblock 2; LWRet 2 0%N; LStopCancel ORun; LStopJoin ORun; LToStopped; LRunExit; LRunRet None; LSRet 0].
Example C18_comp_ex_clean_run : exists s s1,
  LTS.run (Composite.step c18_comp_params) Composite.init c18_comp_sched = Some s /\
  CompositeMon.census s = 0 /\ returned (runt s) = true /\ reload_mu s = None /\ gen_cancelled s = gen s /\
  LTS.run (Composite.step c18_comp_params) Composite.init (firstn 24 c18_comp_sched) = Some s1 /\
  CompositeMon.census s1 = 2.
Proof. eexists. eexists. split; [vm_compute; reflexivity|]. vm_compute. repeat split. Qed.

(* ======================================================================================================
   C18 - HTTP-server leg (appended; model coq/model/HttpServer.v, proofs coq/proofs/HttpCensus.v).
   The goroutines the HTTP runner creates on its own behalf are the serve goroutines started by boot()
   ("go func() { server.ListenAndServe() ... }()"), one per server ever created - by Run's boot and by every
   Reload that restarts; Run, Reload and stopServer start nothing else.  [HttpServer.census] counts the ones
   that have not finished; the harness compares it with the real census (goroutines whose creator is a
   function of runnables/httpserver, read from runtime.Stack) at every quiescent point of the reload histories
   and after Run() returned.  Every schedule: any number of reloads / restarts / failed boots, Stop and cancel
   at any time (before Run, inside the boot's probe window, during a reload), every callback and Shutdown
   result.  Hypothesis as for C12: no foreign binder (the bind-failure path is covered by the check only).
   (Names are qualified: the composite model above uses the same constructor names.) *)
From Coq Require Import ZArith.
From GS Require HttpCfg HttpServer HttpInvStep2 HttpProps HttpCensus.

(* zero once Run() has returned and the serve goroutines have run as far as they can - whether Run() returned
   from a clean stop, from a FAILED boot (rejected configuration, readiness probe cut short) or from a boot
   whose context was cancelled before the first probe tick *)
Theorem C18_http_clean : forall sl validated mux_ok c0 ls s,
  HttpInvStep2.no_foreign ls ->
  LTS.run (HttpServer.step sl validated mux_ok) (HttpServer.init c0) ls = Some s ->
  HttpServer.crashed s = false ->
  (exists r, HttpServer.rpc s = HttpServer.RRet r) \/ HttpServer.rpc s = HttpServer.RDone ->
  (forall sid, HttpServer.step sl validated mux_ok s (HttpServer.LLasClosed sid) = None) ->
  HttpServer.census s = 0.
Proof. exact HttpCensus.http_census_clean. Qed.

(* ... and nothing is left blocked: a serve goroutine still alive after Run() returned can always exit
   (ListenAndServe returns ErrServerClosed: every server has been shut down) *)
Theorem C18_http_no_blocked_leftover : forall sl validated mux_ok c0 ls s sid sv,
  HttpInvStep2.no_foreign ls ->
  LTS.run (HttpServer.step sl validated mux_ok) (HttpServer.init c0) ls = Some s ->
  HttpServer.crashed s = false ->
  (exists r, HttpServer.rpc s = HttpServer.RRet r) \/ HttpServer.rpc s = HttpServer.RDone ->
  nth_error (HttpServer.servers s) sid = Some sv -> HttpServer.serve_alive sv = true ->
  HttpServer.step sl validated mux_ok s (HttpServer.LLasClosed sid) <> None.
Proof. exact HttpCensus.http_no_blocked_leftover. Qed.

(* while running: at most ONE goroutine at every point where the serve goroutines have settled, whatever the
   number of reloads, restarts and failed boots - they do not accumulate *)
Theorem C18_http_bounded : forall sl validated mux_ok c0 ls s,
  HttpInvStep2.no_foreign ls ->
  LTS.run (HttpServer.step sl validated mux_ok) (HttpServer.init c0) ls = Some s ->
  HttpServer.crashed s = false ->
  (forall sid, HttpServer.step sl validated mux_ok s (HttpServer.LLasClosed sid) = None) ->
  HttpServer.census s <= 1.
Proof. exact HttpCensus.http_census_bounded. Qed.

(* the census observation of the harness is the model's *)
Theorem C18_http_observable : forall sl validated mux_ok c0 ls s,
  LTS.run (HttpServer.step sl validated mux_ok) (HttpServer.init c0) ls = Some s ->
  HttpServer.crashed s = false ->
  HttpServer.step sl validated mux_ok s (HttpServer.LObsCensus (HttpServer.census s)) = Some s.
Proof. exact HttpCensus.http_census_observable. Qed.

Print Assumptions C18_http_clean.
Print Assumptions C18_http_no_blocked_leftover.
Print Assumptions C18_http_bounded.
Print Assumptions C18_http_observable.

(* non-vacuity: (1) boot, a restarting reload, Stop: 1 goroutine while running, 2 for an instant during the
   restart, 0 at the end; (2) the context is cancelled before Run: the boot fails, Run returns the boot error,
   the serve goroutine exits: 0 *)
Definition c18_http_cfg (a : N) : HttpCfg.config :=
  HttpCfg.Build_config [a] 5%Z 1%Z 2%Z 3%Z [HttpCfg.Build_route [97%N] [47%N; 120%N]].
Definition c18_http_sched : list HttpServer.label :=
  [HttpServer.LRunCall; HttpServer.LRunStart; HttpServer.LRunLock; HttpServer.LBootCreate 0 (c18_http_cfg 65%N);
   HttpServer.LBindOk 0; HttpServer.LProbeOk; HttpServer.LRunFinishBoot; HttpServer.LObsCensus 1;
   HttpServer.LReloadCall 0; HttpServer.LReloadBegin 0; HttpServer.LFetch (HttpServer.CbCfg (c18_http_cfg 66%N));
   HttpServer.LStopCallS 0; HttpServer.LShutdownRet 0 HttpServer.SOk; HttpServer.LBootCreate 1 (c18_http_cfg 66%N);
   HttpServer.LObsCensus 2; HttpServer.LLasClosed 0; HttpServer.LBindOk 1; HttpServer.LProbeOk; HttpServer.LFinish;
   HttpServer.LReloadRet 0; HttpServer.LObsCensus 1;
   HttpServer.LStopCall 0; HttpServer.LRunWake; HttpServer.LRunLockStop; HttpServer.LStopCallS 1;
   HttpServer.LShutdownRet 1 HttpServer.SOk; HttpServer.LRunRet HttpServer.ROk; HttpServer.LStopRet 0;
   HttpServer.LLasClosed 1; HttpServer.LObsCensus 0].
Example C18_http_ex_restart_and_stop : exists s,
  LTS.run (HttpServer.step true true (fun _ => true)) (HttpServer.init (c18_http_cfg 65%N)) c18_http_sched = Some s /\
  HttpServer.census s = 0 /\ HttpServer.rpc s = HttpServer.RDone /\ length (HttpServer.servers s) = 2.
Proof. eexists. split; [vm_compute; reflexivity|]. repeat split. Qed.
Definition c18_http_cancelled : list HttpServer.label :=
  [HttpServer.LCancel; HttpServer.LRunCall; HttpServer.LRunStart; HttpServer.LRunLock;
   HttpServer.LBootCreate 0 (c18_http_cfg 65%N); HttpServer.LProbeCancelled; HttpServer.LCleanupCall 0;
   HttpServer.LObsCensus 1; HttpServer.LShutdownRet 0 HttpServer.SOk; HttpServer.LRunRet HttpServer.RBootErr;
   HttpServer.LLasClosed 0; HttpServer.LObsCensus 0].
Example C18_http_ex_cancelled_boot : exists s,
  LTS.run (HttpServer.step true true (fun _ => true)) (HttpServer.init (c18_http_cfg 65%N)) c18_http_cancelled = Some s /\
  HttpServer.census s = 0 /\ HttpServer.rpc s = HttpServer.RDone /\ HttpServer.fsm_st s = HttpServer.FError.
Proof. eexists. split; [vm_compute; reflexivity|]. repeat split. Qed.
Example C18_http_ex_no_foreign : HttpInvStep2.no_foreign c18_http_sched /\ HttpInvStep2.no_foreign c18_http_cancelled.
Proof. split; repeat constructor. Qed.
