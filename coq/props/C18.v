(* C18 - No goroutine outlives clean termination; reloads/subscriptions don't accumulate.
   Supervisor part (the thread table of the supervisor model is the goroutine census that the
   harness compares with runtime.Stack at every quiescent snapshot).  Statements only. *)
From Coq Require Import List Bool Arith.
From GS Require Import LTS Supervisor SupAccept SupProps SupInv SupOnce SupReload SupCensus.
Import ListNotations.

(* After a clean termination - Run() returned, the shutdown timeout did not fire, no API caller is
   pending, every subscription channel has been closed after its context ended - the census is 0:
   Main, the runnable goroutines, the three managers, their listeners and monitors, pending SIGHUP
   senders, trigger-spawned Shutdown goroutines, the wg waiter and subscription closers are gone. *)
Theorem C18_sup_clean : forall c s r,
  reachable_sup c s -> main s = MReturned r -> sd_timed_out s = false -> callers s = [] ->
  forallb sub_closed (subs s) = true -> census s = 0.
Proof. exact sup_c18_clean. Qed.

(* While running, the census is bounded by the configuration, the pending callers, the pending
   reload requests / trigger-spawned shutdown goroutines and the open subscriptions - never by the
   number of SIGHUPs, reload passes, state changes or subscriptions made so far. *)
Theorem C18_sup_bounded : forall c s,
  reachable_sup c s ->
  census s <= 5 + 4 * nrun c + hup s + sd_trig s + length (callers s)
              + count_if (fun b => negb (sub_closed b)) (subs s).
Proof. exact sup_c18_bounded. Qed.

(* ... and pending SIGHUP senders do not accumulate: whenever the system is quiescent with an idle
   reload manager there is none (each was accepted, or gave up when the context ended). *)
Theorem C18_sup_no_hup_accumulation : forall c s,
  quiescent c s = true -> rm s = RmIdle -> hup s = 0.
Proof. intros c s Q R. exact (proj1 (sup_c05_no_loss c s Q R)). Qed.

Print Assumptions C18_sup_clean.
Print Assumptions C18_sup_bounded.
Print Assumptions C18_sup_no_hup_accumulation.

Definition c18_cfg : config :=
  {| specs := [ {| stateable := true; reloadable := true; rsender := true; ssender := true;
                   stop_style := StopUntilRunDone; run_exit := ExitOnSignal; held_sub := false |} ];
     startup_may_fire := false; shutdown_may_fire := false |}.
Definition c18_sched : list label :=
  [LLaunch 0; LRunCall 0; LMonSub 0; LMonRecv 0; LPoll 0 true; LGateDecide 0;
   LCall 1 (OpSignal SigHup); LSigPut 1; LRet 1 (OpSignal SigHup); LReapSig; LRmAccept SndHup;
   LReloadCall 0; LReloadRet 0;
   LTrigS 0; LTrigRecvS 0; LStopCall 0; LRunRet 0 None; LStopRet 0; LSdCancel;
   LRmCtx; LRmExit; LSdmExit; LStmExit; LSdWgDone; LReapCtx; LMainShutdown; LMainReturn ResNil].
Example C18_ex_clean_run :
  exists s, run (step c18_cfg) (init c18_cfg) c18_sched = Some s /\ census s = 0
            /\ census (init c18_cfg) = 7.
Proof. eexists. split; [vm_compute; reflexivity|]. split; vm_compute; reflexivity. Qed.
