(* C18 - No goroutine outlives clean termination; reloads/subscriptions don't accumulate.
   Supervisor part (the thread table of the supervisor model is the goroutine census that the
   harness compares with runtime.Stack at every quiescent snapshot).  Statements only. *)
From Coq Require Import List Bool Arith.
From GS Require Import LTS Supervisor SupAccept SupProps SupInv SupOnce SupReload SupCensus.
Import ListNotations.

(* After a clean termination - Run() returned, the shutdown timeout did not fire, no API caller is
   pending, every subscription channel has been closed after its context ended - the census is 0:
   Main, the runnable goroutines, the three managers, their listeners and monitors, pending SIGHUP
   senders, trigger-spawned Shutdown goroutines, the wg waiter and subscription closers are gone. *)
Theorem C18_sup_clean : forall c s r,
  reachable_sup c s -> main s = MReturned r -> sd_timed_out s = false -> callers s = [] ->
  forallb sub_closed (subs s) = true -> census s = 0.
Proof. exact sup_c18_clean. Qed.

(* While running, the census is bounded by the configuration, the pending callers, the pending
   reload requests / trigger-spawned shutdown goroutines and the open subscriptions - never by the
   number of SIGHUPs, reload passes, state changes or subscriptions made so far. *)
Theorem C18_sup_bounded : forall c s,
  reachable_sup c s ->
  census s <= 5 + 4 * nrun c + hup s + sd_trig s + length (callers s)
              + count_if (fun b => negb (sub_closed b)) (subs s).
Proof. exact sup_c18_bounded. Qed.

(* ... and pending SIGHUP senders do not accumulate: whenever the system is quiescent with an idle
   reload manager there is none (each was accepted, or gave up when the context ended). *)
Theorem C18_sup_no_hup_accumulation : forall c s,
  quiescent c s = true -> rm s = RmIdle -> hup s = 0.
Proof. intros c s Q R. exact (proj1 (sup_c05_no_loss c s Q R)). Qed.

Print Assumptions C18_sup_clean.
Print Assumptions C18_sup_bounded.
Print Assumptions C18_sup_no_hup_accumulation.

Definition c18_cfg : config :=
  {| specs := [ {| stateable := true; reloadable := true; rsender := true; ssender := true;
                   stop_style := StopUntilRunDone; run_exit := ExitOnSignal; held_sub := false |} ];
     startup_may_fire := false; shutdown_may_fire := false |}.
Definition c18_sched : list label :=
  [LLaunch 0; LRunCall 0; LMonSub 0; LMonRecv 0; LPoll 0 true; LGateDecide 0;
   LCall 1 (OpSignal SigHup); LSigPut 1; LRet 1 (OpSignal SigHup); LReapSig; LRmAccept SndHup;
   LReloadCall 0; LReloadRet 0;
   LTrigS 0; LTrigRecvS 0; LStopCall 0; LRunRet 0 None; LStopRet 0; LSdCancel;
   LRmCtx; LRmExit; LSdmExit; LStmExit; LSdWgDone; LReapCtx; LMainShutdown; LMainReturn ResNil].
Example C18_ex_clean_run :
  exists s, run (step c18_cfg) (init c18_cfg) c18_sched = Some s /\ census s = 0
            /\ census (init c18_cfg) = 7.
Proof. eexists. split; [vm_compute; reflexivity|]. split; vm_compute; reflexivity. Qed.

(* ====================================================================================== *)
(* C18, HTTP cluster leg (runnables/httpcluster).  Models: ClusterLTS.v (the Run loop, C16) and
   ClusterGo.v (the goroutine census on top of it: [g_run] = server instances whose
   createAndStartServer goroutine is alive; [helpers] = stopServers goroutines; [main_alive] = the
   goroutine inside Run).  A schedule is any list of labels: any sequence of config maps over any
   ids (restarts of the same id included), factory errors, servers that never become ready or
   report Error, slow Stop()s, Stop()/cancel/close(siphon) at any point, servers' Run returning at
   any time after it was called.  [settledb g]: no server goroutine of [g_run] is still owed by the
   environment (Stop() has not returned for it and the parent context is live) or has yet to call
   Run - the states in which the harness compares the census with the real goroutine dump.
   Statements only. *)
From GS Require Import Cluster ClusterLTS ClusterMain ClusterGo ClusterCensus.
Open Scope nat_scope.

(* (i) After Run() has returned - whatever the history - no goroutine of the cluster is left once
   the servers have honoured their contract. *)
Theorem C18_cluster_clean : forall d g,
  reachable (gstep true) (ginit d) g -> ClusterLTS.s_pc (g_s g) = PRet -> settledb g = true ->
  ClusterGo.census g = 0.
Proof. exact cluster_census_clean. Qed.

(* (ii) While running, at every settled point: 1 (Run) + one goroutine per server started and not
   yet stopped + one helper per pending Stop(), and there are never more helpers than such servers.
   Nothing in the bound depends on the number of config updates, restarts or failed starts so far. *)
Theorem C18_cluster_bounded : forall d g,
  reachable (gstep true) (ginit d) g -> settledb g = true ->
  ClusterGo.census g <= 1 + started_not_stopped (g_s g) + helpers (g_s g) /\
  helpers (g_s g) <= started_not_stopped (g_s g).
Proof. exact cluster_census_bounded. Qed.

(* ... with the loop idle: at most 1 + GetServerCount() goroutines. *)
Theorem C18_cluster_bounded_idle : forall d g,
  reachable (gstep true) (ginit d) g -> settledb g = true -> ClusterLTS.s_pc (g_s g) = PIdle ->
  ClusterGo.census g <= 1 + count (s_entries (g_s g)).
Proof. exact cluster_census_idle. Qed.

(* (iii) In EVERY reachable state, settled or not, the only goroutines beyond that bound are server
   goroutines whose Stop() has already returned ([zombies]: the Runnable contract obliges them to
   end) ... *)
Theorem C18_cluster_bounded_all_states : forall d g,
  reachable (gstep true) (ginit d) g ->
  ClusterGo.census g <= 1 + 2 * started_not_stopped (g_s g) + length (zombies g).
Proof. exact cluster_census_all_states. Qed.

(* ... and the cluster never blocks one of them: a server goroutine can always take its next step
   (call Run if it has not yet, otherwise return and end). *)
Theorem C18_cluster_server_goroutine_can_end : forall fx g i,
  In i (g_run g) ->
  if memN i (s_unrun (g_s g))
  then exists s', ClusterLTS.step fx (g_s g) (ClusterLTS.LRunCall i) = Some s'
  else exists g', gstep fx g (GRunRet i) = Some g' /\ g_run g' = removeN i (g_run g).
Proof. exact cluster_owed_can_end. Qed.

(* The census observation of the harness is accepted by the model only in a settled state and only
   with the model's own numbers (so an accepted trace's goroutine dumps are the model's census),
   and a census schedule is a schedule of the C16 protocol model (all C16 theorems apply). *)
Theorem C18_cluster_observation_sound : forall fx g m h r g',
  gstep fx g (GCensus m h r) = Some g' ->
  g' = g /\ settledb g = true /\ N.to_nat m + N.to_nat h + N.to_nat r = ClusterGo.census g.
Proof. exact gcensus_label_sound. Qed.

Theorem C18_cluster_schedules_project : forall fx ls g g',
  run (gstep fx) g ls = Some g' -> run (ClusterLTS.step fx) (g_s g) (erase ls) = Some (g_s g').
Proof. exact grun_erase. Qed.

Print Assumptions C18_cluster_clean.
Print Assumptions C18_cluster_bounded.
Print Assumptions C18_cluster_bounded_idle.
Print Assumptions C18_cluster_bounded_all_states.
Print Assumptions C18_cluster_server_goroutine_can_end.
Print Assumptions C18_cluster_observation_sound.
Print Assumptions C18_cluster_schedules_project.

(* non-vacuity: three rounds on the same id (start; restart with a never-ready replacement next to a
   factory error; start again), census observed in between, cancel, shutdown: Run returned, settled,
   census 0.  And the bound of (ii) is attained: two servers both inside slow Stop()s. *)
Example C18_ex_cluster_clean_run :
  exists g, run (gstep true) (ginit false) census_schedule = Some g /\
            ClusterLTS.s_pc (g_s g) = PRet /\ settledb g = true /\ ClusterGo.census g = 0 /\
            s_next (g_s g) = 3%N.
Proof. exact census_schedule_runs. Qed.
Example C18_ex_cluster_peak :
  exists g, run (gstep true) (ginit false) census_schedule_peak = Some g /\
            settledb g = true /\ ClusterGo.census g = 5 /\ started_not_stopped (g_s g) = 2 /\
            helpers (g_s g) = 2.
Proof. exact census_schedule_peak_runs. Qed.

(* ====================================================================================== *)
(* C18, internal/finitestate leg (subscriptions of every bundled runnable and of the supervisor's
   state monitors).  Models: Fsm.v (the machine, the broadcast manager, the GetStateChan forwarder;
   [Fsm.step] = the repaired forwarder (send-or-ctx.Done; after the cancel a value in flight waits
   for room in the wrapped channel for a bounded grace only, then it is discarded - a timed internal
   step - and the forwarder goes on until the manager channel is closed),
   [stepx false] = the unchanged code) and FsmGo.v (census: forwarders, the manager's cleanup
   goroutines, broadcast senders; [quietb]: no internal label of any subscriber is enabled - the
   consumer's labels LRecv / LRecvClosed are NOT internal, so nothing is assumed about consumers:
   they may never read, read slowly or stop mid-way).  A schedule is any list of labels: any
   sequence of machine calls, subscriptions, cancellations, deliveries, timeouts, reads.
   Statements only. *)
From GS Require Import Fsm FsmTable FsmGo FsmCensus.

(* After a subscription's context is cancelled, in every quiescent state its forwarder and its
   cleanup goroutine are gone - for every consumer behaviour and every transition history. *)
Theorem C18_fsm_clean : forall cfg ls s i x,
  run (Fsm.step cfg) Fsm.init ls = Some s -> quietb fix_fwd cfg s = true ->
  nth_error (Fsm.subs s) i = Some x -> cancelled x = true ->
  fwd_alive x = false /\ cln_alive x = false.
Proof. exact fsm_cancelled_gone. Qed.

(* An open subscription keeps both goroutines: nothing ends before the context does. *)
Theorem C18_fsm_open_alive : forall cfg ls s i x,
  run (Fsm.step cfg) Fsm.init ls = Some s -> nth_error (Fsm.subs s) i = Some x -> cancelled x = false ->
  cln_alive x = true /\ (sg x = SLive -> fwd_alive x = true).
Proof. exact fsm_open_alive. Qed.

(* Hence in every quiescent state the forwarders (and the cleanup goroutines) are exactly the open
   subscriptions and no broadcast sender is left: the census is 2 x (open subscriptions), whatever
   the number of subscribe / cancel cycles and state changes so far. *)
Theorem C18_fsm_no_accumulation : forall cfg ls s,
  run (Fsm.step cfg) Fsm.init ls = Some s -> quietb fix_fwd cfg s = true ->
  forwarders s = open_subs s /\ cleaners s = open_subs s /\ senders s = 0 /\
  FsmGo.census s = 2 * open_subs s.
Proof. exact fsm_census_exact. Qed.

(* The executable form evaluated by the driver on the states its acceptor returns. *)
Theorem C18_fsm_okb : forall cfg ls s,
  run (Fsm.step cfg) Fsm.init ls = Some s -> quietb fix_fwd cfg s = true -> c18_okb s = true.
Proof. exact fsm_c18_okb. Qed.

(* The goroutine dump of the harness is accepted only in a state where every goroutine is blocked
   (possibly on one of the two timers: 5 s broadcast timeout, 100 ms forwarder grace) and only with
   the model's own numbers; a dump taken after a pause longer than the grace with no machine call in
   flight only in a QUIESCENT state (to which C18_fsm_clean / _no_accumulation apply); a wrapper
   schedule is a schedule of the machine model. *)
Theorem C18_fsm_observation_sound : forall fx c g f cl b g',
  FsmGo.gstep fx c g (GSnap f cl b) = Some g' ->
  g' = g /\ stableb fx c (gm g) = true /\
  f = forwarders (gm g) /\ cl = cleaners (gm g) /\ b = senders (gm g).
Proof. exact gsnap_label_sound. Qed.

Theorem C18_fsm_quiet_observation_sound : forall fx c g f cl b g',
  FsmGo.gstep fx c g (GQuiet f cl b) = Some g' ->
  g' = g /\ quietb fx c (gm g) = true /\
  f = forwarders (gm g) /\ cl = cleaners (gm g) /\ b = senders (gm g).
Proof. exact gquiet_label_sound. Qed.

Theorem C18_fsm_schedules_project : forall fx c ls g g',
  run (FsmGo.gstep fx c) g ls = Some g' -> run (stepx fx c) (gm g) (FsmGo.erase ls) = Some (gm g').
Proof. exact FsmCensus.grun_erase. Qed.

(* The UNCHANGED forwarder (for s := range userCh { wrappedCh <- s }) is refuted: one subscription
   whose consumer never reads, one state change, cancel - the system is quiescent, the subscription
   is cancelled and un-registered, and its forwarder is still blocked in its send ... *)
Theorem C18_fsm_leak_legacy_refuted :
  exists s x, run (stepx false fsm_cfg) Fsm.init leak_witness = Some s /\
              quietb false fsm_cfg s = true /\ nth_error (Fsm.subs s) 0 = Some x /\
              cancelled x = true /\ unsub x = true /\ got x = [] /\
              fwd_alive x = true /\ forwarders s = 1 /\ open_subs s = 0.
Proof. exact leak_legacy. Qed.

(* ... and such forwarders accumulate over subscribe / change / cancel cycles. *)
Theorem C18_fsm_leak_legacy_accumulates :
  exists s, run (stepx false fsm_cfg) Fsm.init (leak_cycle 0 ++ leak_cycle 1 ++ leak_cycle 2) = Some s /\
            quietb false fsm_cfg s = true /\ open_subs s = 0 /\ forwarders s = 3.
Proof. exact leak_legacy_accumulates. Qed.

(* On the repaired model the same history is not quiescent (the forwarder can discard the value it
   holds and then ends on the closed manager channel), and after those two steps nothing is left. *)
Theorem C18_fsm_leak_repaired :
  run (Fsm.step fsm_cfg) Fsm.init leak_witness <> None /\
  (forall s, run (Fsm.step fsm_cfg) Fsm.init leak_witness = Some s -> quietb fix_fwd fsm_cfg s = false) /\
  exists s, run (Fsm.step fsm_cfg) Fsm.init (leak_witness ++ [LFwdAbort 0; LFwdClose 0]) = Some s /\
            quietb fix_fwd fsm_cfg s = true /\ forwarders s = 0 /\ FsmGo.census s = 0.
Proof. exact leak_repaired. Qed.

Print Assumptions C18_fsm_clean.
Print Assumptions C18_fsm_open_alive.
Print Assumptions C18_fsm_no_accumulation.
Print Assumptions C18_fsm_okb.
Print Assumptions C18_fsm_observation_sound.
Print Assumptions C18_fsm_quiet_observation_sound.
Print Assumptions C18_fsm_schedules_project.
Print Assumptions C18_fsm_leak_legacy_refuted.
Print Assumptions C18_fsm_leak_legacy_accumulates.
Print Assumptions C18_fsm_leak_repaired.

(* non-vacuity: three subscribe / cancel cycles during a transition burst - an absent consumer (its
   forwarder discards two values), a consumer that reads one value and stops, a consumer that drains and sees
   the close - then a fourth subscription stays open: quiescent, 4 subscriptions made, 1 open,
   census 2 (its forwarder and its cleanup goroutine). *)
Example C18_ex_fsm_cycles :
  exists s, run (Fsm.step fsm_cfg) Fsm.init census_run = Some s /\ quietb fix_fwd fsm_cfg s = true /\
            length (Fsm.subs s) = 4 /\ open_subs s = 1 /\ forwarders s = 1 /\ FsmGo.census s = 2.
Proof. exact census_run_ok. Qed.
