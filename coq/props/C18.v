(* C18 - No goroutine outlives clean termination; reloads/subscriptions don't accumulate.
   Supervisor part (the thread table of the supervisor model is the goroutine census that the
   harness compares with runtime.Stack at every quiescent snapshot).  Statements only. *)
From Coq Require Import List Bool Arith.
From GS Require Import LTS Supervisor SupAccept SupProps SupInv SupOnce SupReload SupCensus.
Import ListNotations.

(* After a clean termination - Run() returned, the shutdown timeout did not fire, no API caller is
   pending, every subscription channel has been closed after its context ended - the census is 0:
   Main, the runnable goroutines, the three managers, their listeners and monitors, pending SIGHUP
   senders, trigger-spawned Shutdown goroutines, the wg waiter and subscription closers are gone. *)
Theorem C18_sup_clean : forall c s r,
  reachable_sup c s -> main s = MReturned r -> sd_timed_out s = false -> callers s = [] ->
  forallb sub_closed (subs s) = true -> census s = 0.
Proof. exact sup_c18_clean. Qed.

(* While running, the census is bounded by the configuration, the pending callers, the pending
   reload requests / trigger-spawned shutdown goroutines and the open subscriptions - never by the
   number of SIGHUPs, reload passes, state changes or subscriptions made so far. *)
Theorem C18_sup_bounded : forall c s,
  reachable_sup c s ->
  census s <= 5 + 4 * nrun c + hup s + sd_trig s + length (callers s)
              + count_if (fun b => negb (sub_closed b)) (subs s).
Proof. exact sup_c18_bounded. Qed.

(* ... and pending SIGHUP senders do not accumulate: whenever the system is quiescent with an idle
   reload manager there is none (each was accepted, or gave up when the context ended). *)
Theorem C18_sup_no_hup_accumulation : forall c s,
  quiescent c s = true -> rm s = RmIdle -> hup s = 0.
Proof. intros c s Q R. exact (proj1 (sup_c05_no_loss c s Q R)). Qed.

Print Assumptions C18_sup_clean.
Print Assumptions C18_sup_bounded.
Print Assumptions C18_sup_no_hup_accumulation.

Definition c18_cfg : config :=
  {| specs := [ {| stateable := true; reloadable := true; rsender := true; ssender := true;
                   stop_style := StopUntilRunDone; run_exit := ExitOnSignal; held_sub := false |} ];
     startup_may_fire := false; shutdown_may_fire := false |}.
Definition c18_sched : list label :=
  [LLaunch 0; LRunCall 0; LMonSub 0; LMonRecv 0; LPoll 0 true; LGateDecide 0;
   LCall 1 (OpSignal SigHup); LSigPut 1; LRet 1 (OpSignal SigHup); LReapSig; LRmAccept SndHup;
   LReloadCall 0; LReloadRet 0;
   LTrigS 0; LTrigRecvS 0; LStopCall 0; LRunRet 0 None; LStopRet 0; LSdCancel;
   LRmCtx; LRmExit; LSdmExit; LStmExit; LSdWgDone; LReapCtx; LMainShutdown; LMainReturn ResNil].
Example C18_ex_clean_run :
  exists s, run (step c18_cfg) (init c18_cfg) c18_sched = Some s /\ census s = 0
            /\ census (init c18_cfg) = 7.
Proof. eexists. split; [vm_compute; reflexivity|]. split; vm_compute; reflexivity. Qed.

(* ====================================================================================================
   C18 - composite leg (appended; model coq/model/Composite.v, proofs coq/proofs/CompositeCensus.v).
   The goroutines the composite creates on its own behalf: one per child per boot (alive until
   startRunnable has returned) and one per child per stopAllRunnables round (alive until that
   child's Stop() has returned).  [CompositeMon.census] counts both; the harness compares it with the
   real census (goroutines whose creator is a function of runnables/composite) at every quiescent
   snapshot.  Code modelled: /repo f0fcb2b (fix_c09, fix_stale).  All schedules, any pool, any reload
   / restart history, failed boots and failed reloads included.
   ==================================================================================================== *)
From Coq Require Import NArith.
From GS Require Import Errs Composite CompositeMon CompositeBase CompositeC10 CompositeC09 CompositeLocks
     CompositeProgress CompositeExact CompositeCensus.

(* after a clean termination - Run() has returned, no Reload() is inside its critical section, and no
   boot happened after the last completed stopAllRunnables (gen_cancelled = gen) - the census is 0 *)
Theorem C18_comp_clean : forall P s,
  fix_c09 P = true -> fix_stale P = true -> CompositeBase.reach P s ->
  returned (runt s) = true -> reload_mu s = None -> gen_cancelled s = gen s ->
  CompositeMon.census s = 0.
Proof. exact census_zero_after_clean_termination. Qed.

(* in every state in which Run() has returned - also when it returned without stopAllRunnables (the
   transition to Running failed after a boot) or a Reload() raced with Stop() and booted afterwards -
   each child goroutine still alive has an enabled step of its own (its context is cancelled): none is
   left behind blocked *)
Theorem C18_comp_no_blocked_leftover : forall P s i k,
  good_children P -> CompositeBase.reach P s -> returned (runt s) = true ->
  nth_error (kids s) i = Some k -> kid_alive k = true ->
  exists l s', Composite.step P s l = Some s' /\
    (l = LKRun i (k_child k) \/ l = LKExit i (k_child k) None \/ l = LKSend i).
Proof. exact live_child_goroutine_can_step. Qed.

(* no accumulation while running: the live child goroutines all belong to the current boot
   generation - their number is bounded by the size of the configuration launched by the last boot,
   however many reloads and restarts happened before ... *)
Theorem C18_comp_children_bounded : forall P s,
  fix_c09 P = true -> fix_stale P = true -> CompositeBase.reach P s ->
  kid_census s <= length (cur_kids s).
Proof. exact kid_census_bounded. Qed.

(* ... and Stop-worker goroutines exist only inside a stopAllRunnables round in progress (rounds
   are serialised by runnablesMu): whenever neither Run() nor a Reload() is waiting in
   stopAllRunnables there is none *)
Theorem C18_comp_workers_scoped : forall P s,
  CompositeBase.reach P s -> runt s <> TStopWait ->
  count_r (fun p => rpc_is p RStopWait) (reloaders s) = 0 -> worker_census s = 0.
Proof. exact no_live_worker_outside_rounds. Qed.

Print Assumptions C18_comp_clean.
Print Assumptions C18_comp_no_blocked_leftover.
Print Assumptions C18_comp_children_bounded.
Print Assumptions C18_comp_workers_scoped.

(* non-vacuity: boot, restart reload, Stop(): the census is 0 at the end and was 2 in between *)
Definition c18_comp_params : params :=
  mkParams [mkSpec 0%N UntilRunDone OnSignal RWC; mkSpec 1%N NonBlocking OnSignal RWC] true true true true.
Definition c18_comp_sched : list Composite.label :=
  [LRunCall; LRunBegin; LBootLock ORun; LCb ORun (CbSome [(0, 0)]%N); LBootLaunch ORun; LToRunning;
   LKRun 0 0%N;
   LReloadCall 0; LRlLock 0; LCb (ORel 0) (CbSome [(0, 1); (1, 1)]%N);
   LStopBegin (ORel 0); LWCall 0 0%N; LKExit 0 0%N None; LWUnblock 0; LWRet 0 0%N;
   LStopCancel (ORel 0); LStopJoin (ORel 0); LRlSetCfg 0; LBootLock (ORel 0); LBootLaunch (ORel 0);
   LRlFinish 0; LRlRet 0; LKRun 1 0%N; LKRun 2 1%N;
   LStopApi 0; LSSignal 0; LSelStop; LTransIf; LTearLock; LStopBegin ORun;
   LWCall 1 1%N; LWCall 2 0%N; LWRet 1 1%N; LKExit 1 0%N None; LKExit 2 1%N (Some Canceled);
   LWUnblock 2; LWRet 2 0%N; LStopCancel ORun; LStopJoin ORun; LToStopped; LRunExit; LRunRet None; LSRet 0].
Example C18_comp_ex_clean_run : exists s s1,
  LTS.run (Composite.step c18_comp_params) Composite.init c18_comp_sched = Some s /\
  CompositeMon.census s = 0 /\ returned (runt s) = true /\ reload_mu s = None /\ gen_cancelled s = gen s /\
  LTS.run (Composite.step c18_comp_params) Composite.init (firstn 24 c18_comp_sched) = Some s1 /\
  CompositeMon.census s1 = 2.
Proof. eexists. eexists. split; [vm_compute; reflexivity|]. vm_compute. repeat split. Qed.
