(* C18 - No goroutine outlives clean termination; reloads/subscriptions don't accumulate.
   Supervisor part (the thread table of the supervisor model is the goroutine census that the
   harness compares with runtime.Stack at every quiescent snapshot).  Statements only. *)
From Coq Require Import List Bool Arith.
From GS Require Import LTS Supervisor SupAccept SupProps SupInv SupOnce SupReload SupCensus.
Import ListNotations.

(* After a clean termination - Run() returned, the shutdown timeout did not fire, no API caller is
   pending, every subscription channel has been closed after its context ended - the census is 0:
   Main, the runnable goroutines, the three managers, their listeners and monitors, pending SIGHUP
   senders, trigger-spawned Shutdown goroutines, the wg waiter and subscription closers are gone. *)
Theorem C18_sup_clean : forall c s r,
  reachable_sup c s -> main s = MReturned r -> sd_timed_out s = false -> callers s = [] ->
  forallb sub_closed (subs s) = true -> census s = 0.
Proof. exact sup_c18_clean. Qed.

(* While running, the census is bounded by the configuration, the pending callers, the pending
   reload requests / trigger-spawned shutdown goroutines and the open subscriptions - never by the
   number of SIGHUPs, reload passes, state changes or subscriptions made so far. *)
Theorem C18_sup_bounded : forall c s,
  reachable_sup c s ->
  census s <= 5 + 4 * nrun c + hup s + sd_trig s + length (callers s)
              + count_if (fun b => negb (sub_closed b)) (subs s).
Proof. exact sup_c18_bounded. Qed.

(* ... and pending SIGHUP senders do not accumulate: whenever the system is quiescent with an idle
   reload manager there is none (each was accepted, or gave up when the context ended). *)
Theorem C18_sup_no_hup_accumulation : forall c s,
  quiescent c s = true -> rm s = RmIdle -> hup s = 0.
Proof. intros c s Q R. exact (proj1 (sup_c05_no_loss c s Q R)). Qed.

(* ---- helpers are counted until they have left (audit M5) ----
   `census` - the function the acceptor compares with the goroutine count observed by runtime.Stack - counts a
   trigger listener, a state monitor and a pending 'go ReloadAll()' sender as gone once the supervisor's context is
   done, and a trigger-spawned Shutdown caller as gone once the shutdown body is done (their exits are not explored
   by the acceptor: a helper's exit is observable only through its manager's join).  `census_strict` counts each of
   them until it HAS left, by an exit step of its own (LRlsExit, LSlsExit, LMonExit, LHupExit, LSdTrigExit) or
   through its manager's join. *)
Theorem C18_sup_census_le_strict : forall s, census s <= census_strict s.
Proof. exact census_le_strict. Qed.

(* None of the helpers the lazy census stops counting is stuck: once the context is done every live listener,
   monitor (after a broadcast it still owes) and pending SIGHUP sender has an ENABLED exit step, and so has every
   trigger-spawned Shutdown caller once the shutdown body is done.  (Contracts of the model: listeners select on
   ctx.Done in both positions - reload.go, shutdown.go -; a runnable's GetStateChan honours its context;
   ReloadAll gives up on ctx.Done.  A GetStateChan that ignores its context would pin its monitor: outside the
   contract, only the runtime census of the harness would show it.) *)
Theorem C18_sup_helpers_can_exit : forall c s,
  ctx_done s = true ->
  (forall i, ls_finished (get LsAbsent (rls s) i) = false -> step c s (LRlsExit i) <> None) /\
  (forall i, ls_finished (get LsAbsent (sls s) i) = false -> step c s (LSlsExit i) <> None) /\
  (forall i, mon_finished (mon_at s i) = false ->
             step c s (LMonExit i) <> None \/ step c s (LMonBcast i) <> None) /\
  (hup s <> 0 -> step c s LHupExit <> None) /\
  (sd s = SdDone -> sd_trig s <> 0 -> step c s LSdTrigExit <> None).
Proof. exact sup_c18_helpers_can_exit. Qed.

(* After a clean termination, once no helper has an exit step left to take, NOTHING is left - strict census 0. *)
Theorem C18_sup_clean_strict : forall c s r,
  reachable_sup c s -> main s = MReturned r -> sd_timed_out s = false -> callers s = [] ->
  forallb sub_closed (subs s) = true ->
  (forall l, helper_exit l = true -> step c s l = None) ->
  census_strict s = 0.
Proof. exact sup_c18_clean_strict. Qed.

(* ... and the strict census obeys the same configuration bound while running. *)
Theorem C18_sup_bounded_strict : forall c s,
  reachable_sup c s ->
  census_strict s <= 5 + 4 * nrun c + hup s + sd_trig s + length (callers s)
                     + count_if (fun b => negb (sub_closed b)) (subs s).
Proof. exact sup_c18_bounded_strict. Qed.

Print Assumptions C18_sup_clean.
Print Assumptions C18_sup_bounded.
Print Assumptions C18_sup_no_hup_accumulation.
Print Assumptions C18_sup_census_le_strict.
Print Assumptions C18_sup_helpers_can_exit.
Print Assumptions C18_sup_clean_strict.
Print Assumptions C18_sup_bounded_strict.

Definition c18_cfg : config :=
  {| specs := [ {| stateable := true; reloadable := true; rsender := true; ssender := true;
                   stop_style := StopUntilRunDone; run_exit := ExitOnSignal; held_sub := false |} ];
     startup_may_fire := false; shutdown_may_fire := false |}.
Definition c18_sched : list label :=
  [LRunEnter; LRunEntered; LLaunch 0; LRunStore 0; LRunCall 0; LMonSub 0; LMonRecv 0; LPoll 0 true; LGateDecide 0;
   LCall 1 (OpSignal SigHup); LSigPut 1; LRet 1 (OpSignal SigHup); LReapSig; LRmAccept SndHup;
   LReloadCall 0; LReloadRet 0;
   LTrigS 0; LTrigRecvS 0; LStopCall 0; LRunRet 0 None; LStopRet 0; LSdCancel;
   LRmCtx; LRmExit; LSdmExit; LStmExit; LSdWgDone; LReapCtx; LMainShutdown; LMainReturn ResNil].
Example C18_ex_clean_run :
  exists s s1, run (step c18_cfg) (init c18_cfg) c18_sched = Some s /\ census s = 0
            /\ census (init c18_cfg) = 0
            /\ run (step c18_cfg) (init c18_cfg) (firstn 2 c18_sched) = Some s1 /\ census s1 = 7.
Proof.
  eexists. eexists. split; [vm_compute; reflexivity|]. split; [vm_compute; reflexivity|].
  split; [vm_compute; reflexivity|]. split; vm_compute; reflexivity.
Qed.

(* the strict census of the same run: the Shutdown caller spawned by the trigger listener is still there when Run()
   has returned (lazy census 0, strict census 1); it has an enabled exit, after which nothing is left and no
   helper exit is enabled - all hypotheses of C18_sup_clean_strict at once *)
Example C18_ex_strict :
  exists s s', run (step c18_cfg) (init c18_cfg) c18_sched = Some s /\ census s = 0 /\ census_strict s = 1 /\
               step c18_cfg s LSdTrigExit = Some s' /\ census_strict s' = 0 /\
               reachable_sup c18_cfg s' /\ main s' = MReturned ResNil /\ sd_timed_out s' = false /\
               callers s' = [] /\ forallb sub_closed (subs s') = true /\
               (forall l, helper_exit l = true -> step c18_cfg s' l = None).
Proof.
  eexists. eexists. split; [vm_compute; reflexivity|]. split; [vm_compute; reflexivity|].
  split; [vm_compute; reflexivity|]. split; [vm_compute; reflexivity|]. split; [vm_compute; reflexivity|].
  split; [exists (c18_sched ++ [LSdTrigExit]); vm_compute; reflexivity|].
  split; [reflexivity|]. split; [reflexivity|]. split; [reflexivity|]. split; [reflexivity|].
  intros l Hl. destruct l; try discriminate Hl; unfold step; cbn [step0];
    repeat match goal with |- context [match ?i with _ => _ end] => is_var i; destruct i end; vm_compute;
    repeat (try reflexivity; match goal with |- context [match ?i with _ => _ end] => is_var i; destruct i; vm_compute end);
    try reflexivity.
Qed.

(* ====================================================================================================
   C18 - composite leg (appended; model coq/model/Composite.v, proofs coq/proofs/CompositeCensus.v).
   The goroutines the composite creates on its own behalf: one per child per boot (alive until
   startRunnable has returned) and one per child per stopAllRunnables round (alive until that
   child's Stop() has returned).  [CompositeMon.census] counts both; the harness compares it with the
   real census (goroutines whose creator is a function of runnables/composite) at every quiescent
   snapshot.  Code modelled: /repo f0fcb2b (fix_c09, fix_stale).  All schedules, any pool, any reload
   / restart history, failed boots and failed reloads included.
   ==================================================================================================== *)
From Coq Require Import NArith.
From GS Require Import Errs Composite CompositeMon CompositeBase CompositeC10 CompositeC09 CompositeLocks
     CompositeProgress CompositeExact CompositeCensus.

(* after a clean termination - Run() has returned, no Reload() is inside its critical section, and no
   boot happened after the last completed stopAllRunnables (gen_cancelled = gen) - the census is 0 *)
Theorem C18_comp_clean : forall P s,
  fix_c09 P = true -> fix_stale P = true -> CompositeBase.reach P s ->
  returned (runt s) = true -> reload_mu s = None -> gen_cancelled s = gen s ->
  CompositeMon.census s = 0.
Proof. exact census_zero_after_clean_termination. Qed.

(* in every state in which Run() has returned - also when it returned without stopAllRunnables (the
   transition to Running failed after a boot) or a Reload() raced with Stop() and booted afterwards -
   each child goroutine still alive has an enabled step of its own (its context is cancelled): none is
   left behind blocked *)
Theorem C18_comp_no_blocked_leftover : forall P s i k,
  good_children P -> CompositeBase.reach P s -> returned (runt s) = true ->
  nth_error (kids s) i = Some k -> kid_alive k = true ->
  exists l s', Composite.step P s l = Some s' /\
    (l = LKRun i (k_child k) \/ l = LKExit i (k_child k) None \/ l = LKSend i).
Proof. exact live_child_goroutine_can_step. Qed.

(* no accumulation while running: the live child goroutines all belong to the current boot
   generation - their number is bounded by the size of the configuration launched by the last boot,
   however many reloads and restarts happened before ... *)
Theorem C18_comp_children_bounded : forall P s,
  fix_c09 P = true -> fix_stale P = true -> CompositeBase.reach P s ->
  kid_census s <= length (cur_kids s).
Proof. exact kid_census_bounded. Qed.

(* ... and Stop-worker goroutines exist only inside a stopAllRunnables round in progress (rounds
   are serialised by runnablesMu): whenever neither Run() nor a Reload() is waiting in
   stopAllRunnables there is none *)
Theorem C18_comp_workers_scoped : forall P s,
  CompositeBase.reach P s -> runt s <> TStopWait ->
  count_r (fun p => rpc_is p RStopWait) (reloaders s) = 0 -> worker_census s = 0.
Proof. exact no_live_worker_outside_rounds. Qed.

Print Assumptions C18_comp_clean.
Print Assumptions C18_comp_no_blocked_leftover.
Print Assumptions C18_comp_children_bounded.
Print Assumptions C18_comp_workers_scoped.

(* non-vacuity: boot, restart reload, Stop(): the census is 0 at the end and was 2 in between *)
Definition c18_comp_params : params :=
  mkParams [mkSpec 0%N UntilRunDone OnSignal RWC; mkSpec 1%N NonBlocking OnSignal RWC] true true true true true.
Definition c18_comp_sched : list Composite.label :=
  [LRunCall; LRunBegin; LBootLock ORun; LCb ORun (CbSome [(0, 0)]%N); LBootLaunch ORun; LToRunning;
   LKRun 0 0%N;
   LReloadCall 0; LRlLock 0; LCb (ORel 0) (CbSome [(0, 1); (1, 1)]%N);
   LStopBegin (ORel 0); LWCall 0 0%N; LKExit 0 0%N None; LWUnblock 0; LWRet 0 0%N;
   LStopCancel (ORel 0); LStopJoin (ORel 0); LRlSetCfg 0; LBootLock (ORel 0); LBootLaunch (ORel 0);
   LRlFinish 0; LRlRet 0; LKRun 1 0%N; LKRun 2 1%N;
   LStopApi 0; LSSignal 0; LSelStop; LTransIf; LTearLock; LStopBegin ORun;
   LWCall 1 1%N; LWCall 2 0%N; LWRet 1 1%N; LKExit 1 0%N None; LKExit 2 1%N (Some Canceled);
   LWUnblock 2; LWRet 2 0%N; LStopCancel ORun; LStopJoin ORun; LToStopped; LRunExit; LRunRet None; LSRet 0].
Example C18_comp_ex_clean_run : exists s s1,
  LTS.run (Composite.step c18_comp_params) Composite.init c18_comp_sched = Some s /\
  CompositeMon.census s = 0 /\ returned (runt s) = true /\ reload_mu s = None /\ gen_cancelled s = gen s /\
  LTS.run (Composite.step c18_comp_params) Composite.init (firstn 24 c18_comp_sched) = Some s1 /\
  CompositeMon.census s1 = 2.
Proof. eexists. eexists. split; [vm_compute; reflexivity|]. vm_compute. repeat split. Qed.

(* ======================================================================================================
   C18 - HTTP-server leg (appended; model coq/model/HttpServer.v, proofs coq/proofs/HttpCensus.v).
   The goroutines the HTTP runner creates on its own behalf are the serve goroutines started by boot()
   ("go func() { server.ListenAndServe() ... }()"), one per server ever created - by Run's boot and by every
   Reload that restarts; Run, Reload and stopServer start nothing else.  [HttpServer.census] counts the ones
   that have not finished; the harness compares it with the real census (goroutines whose creator is a
   function of runnables/httpserver, read from runtime.Stack) at every quiescent point of the reload histories
   and after Run() returned.  Every schedule: any number of reloads / restarts / failed boots, Stop and cancel
   at any time (before Run, inside the boot's probe window, during a reload), every callback and Shutdown
   result.  Hypothesis as for C12: no foreign binder (the bind-failure path is covered by the check only).
   (Names are qualified: the composite model above uses the same constructor names.) *)
From Coq Require Import ZArith.
From GS Require HttpCfg HttpServer HttpInvStep2 HttpProps HttpCensus.

(* zero once Run() has returned and the serve goroutines have run as far as they can - whether Run() returned
   from a clean stop, from a FAILED boot (rejected configuration, readiness probe cut short) or from a boot
   whose context was cancelled before the first probe tick *)
Theorem C18_http_clean : forall sl validated mux_ok c0 ls s,
  HttpInvStep2.no_foreign ls ->
  LTS.run (HttpServer.step sl validated mux_ok) (HttpServer.init c0) ls = Some s ->
  HttpServer.crashed s = false ->
  (exists r, HttpServer.rpc s = HttpServer.RRet r) \/ HttpServer.rpc s = HttpServer.RDone ->
  (forall sid, HttpServer.step sl validated mux_ok s (HttpServer.LLasClosed sid) = None) ->
  HttpServer.census s = 0.
Proof. exact HttpCensus.http_census_clean. Qed.

(* ... and nothing is left blocked: a serve goroutine still alive after Run() returned can always exit
   (ListenAndServe returns ErrServerClosed: every server has been shut down) *)
Theorem C18_http_no_blocked_leftover : forall sl validated mux_ok c0 ls s sid sv,
  HttpInvStep2.no_foreign ls ->
  LTS.run (HttpServer.step sl validated mux_ok) (HttpServer.init c0) ls = Some s ->
  HttpServer.crashed s = false ->
  (exists r, HttpServer.rpc s = HttpServer.RRet r) \/ HttpServer.rpc s = HttpServer.RDone ->
  nth_error (HttpServer.servers s) sid = Some sv -> HttpServer.serve_alive sv = true ->
  HttpServer.step sl validated mux_ok s (HttpServer.LLasClosed sid) <> None.
Proof. exact HttpCensus.http_no_blocked_leftover. Qed.

(* while running: at most ONE goroutine at every point where the serve goroutines have settled, whatever the
   number of reloads, restarts and failed boots - they do not accumulate *)
Theorem C18_http_bounded : forall sl validated mux_ok c0 ls s,
  HttpInvStep2.no_foreign ls ->
  LTS.run (HttpServer.step sl validated mux_ok) (HttpServer.init c0) ls = Some s ->
  HttpServer.crashed s = false ->
  (forall sid, HttpServer.step sl validated mux_ok s (HttpServer.LLasClosed sid) = None) ->
  HttpServer.census s <= 1.
Proof. exact HttpCensus.http_census_bounded. Qed.

(* the census observation of the harness is the model's *)
Theorem C18_http_observable : forall sl validated mux_ok c0 ls s,
  LTS.run (HttpServer.step sl validated mux_ok) (HttpServer.init c0) ls = Some s ->
  HttpServer.crashed s = false ->
  HttpServer.step sl validated mux_ok s (HttpServer.LObsCensus (HttpServer.census s)) = Some s.
Proof. exact HttpCensus.http_census_observable. Qed.

Print Assumptions C18_http_clean.
Print Assumptions C18_http_no_blocked_leftover.
Print Assumptions C18_http_bounded.
Print Assumptions C18_http_observable.

(* non-vacuity: (1) boot, a restarting reload, Stop: 1 goroutine while running, 2 for an instant during the
   restart, 0 at the end; (2) the context is cancelled before Run: the boot fails, Run returns the boot error,
   the serve goroutine exits: 0 *)
Definition c18_http_cfg (a : N) : HttpCfg.config :=
  HttpCfg.Build_config [a] 5%Z 1%Z 2%Z 3%Z [HttpCfg.Build_route [97%N] [47%N; 120%N]].
Definition c18_http_sched : list HttpServer.label :=
  [HttpServer.LRunCall; HttpServer.LRunStart; HttpServer.LRunLock; HttpServer.LBootCreate 0 (c18_http_cfg 65%N);
   HttpServer.LBindOk 0; HttpServer.LProbeOk; HttpServer.LRunFinishBoot; HttpServer.LObsCensus 1;
   HttpServer.LReloadCall 0; HttpServer.LReloadBegin 0; HttpServer.LFetch (HttpServer.CbCfg (c18_http_cfg 66%N));
   HttpServer.LStopCallS 0; HttpServer.LShutdownRet 0 HttpServer.SOk; HttpServer.LBootCreate 1 (c18_http_cfg 66%N);
   HttpServer.LObsCensus 2; HttpServer.LLasClosed 0; HttpServer.LBindOk 1; HttpServer.LProbeOk; HttpServer.LFinish;
   HttpServer.LReloadRet 0; HttpServer.LObsCensus 1;
   HttpServer.LStopCall 0; HttpServer.LRunWake; HttpServer.LRunLockStop; HttpServer.LStopCallS 1;
   HttpServer.LShutdownRet 1 HttpServer.SOk; HttpServer.LRunFinishStop; HttpServer.LRunRet HttpServer.ROk; HttpServer.LStopRet 0;
   HttpServer.LLasClosed 1; HttpServer.LObsCensus 0].
Example C18_http_ex_restart_and_stop : exists s,
  LTS.run (HttpServer.step true true (fun _ => true)) (HttpServer.init (c18_http_cfg 65%N)) c18_http_sched = Some s /\
  HttpServer.census s = 0 /\ HttpServer.rpc s = HttpServer.RDone /\ length (HttpServer.servers s) = 2.
Proof. eexists. split; [vm_compute; reflexivity|]. repeat split. Qed.
Definition c18_http_cancelled : list HttpServer.label :=
  [HttpServer.LCancel; HttpServer.LRunCall; HttpServer.LRunStart; HttpServer.LRunLock;
   HttpServer.LBootCreate 0 (c18_http_cfg 65%N); HttpServer.LProbeCancelled; HttpServer.LCleanupCall 0;
   HttpServer.LObsCensus 1; HttpServer.LShutdownRet 0 HttpServer.SOk; HttpServer.LRunRet HttpServer.RBootErr;
   HttpServer.LLasClosed 0; HttpServer.LObsCensus 0].
Example C18_http_ex_cancelled_boot : exists s,
  LTS.run (HttpServer.step true true (fun _ => true)) (HttpServer.init (c18_http_cfg 65%N)) c18_http_cancelled = Some s /\
  HttpServer.census s = 0 /\ HttpServer.rpc s = HttpServer.RDone /\ HttpServer.fsm_st s = HttpServer.FError.
Proof. eexists. split; [vm_compute; reflexivity|]. repeat split. Qed.
Example C18_http_ex_no_foreign : HttpInvStep2.no_foreign c18_http_sched /\ HttpInvStep2.no_foreign c18_http_cancelled.
Proof. split; repeat constructor. Qed.

(* ====================================================================================== *)
(* C18, HTTP cluster leg (runnables/httpcluster).  Models: ClusterLTS.v (the Run loop, C16) and
   ClusterGo.v on top of it: [g_run] = server instances whose createAndStartServer goroutine is alive
   (from the factory call until the server's Run returns); [helpers] = stopServers goroutines;
   [main_alive] = the goroutine inside Run; [g_cx] / [g_rc] = server contexts cancelled by the cluster
   (entry.cancel() after Stop() returned, serverCancel() of a failed start; runCancel() on the Stop()
   path).  A schedule is any list of labels: any sequence of config maps over any ids (restarts of the
   same id included), factory errors, servers that never become ready or report Error, servers that
   give up by themselves, slow Stop()s, Stop()/cancel/close(siphon) at any point; a server's Run
   returns only after its Stop() was called or its context was cancelled (or by itself, once ready).
   [obliged g i]: the Runnable contract obliges server goroutine i to end - its Stop() has returned,
   or its context is cancelled (its own, the one given to Run, or runCtx through the Stop() path's
   runCancel()).  [settledb g]: no goroutine of [g_run] is obliged or has yet to call Run - the states
   in which the harness compares the census with the real goroutine dump.  Statements only. *)
From GS Require Import Cluster ClusterLTS ClusterMain ClusterGo ClusterLive ClusterCensus.
Open Scope nat_scope.

(* (i) After Run() has returned - whatever the history - the only goroutines left are server
   goroutines, and each of them belongs to an instance whose Stop() HAS RETURNED earlier in that
   history (a label of the schedule, not a state flag): the cluster stopped every server it ever
   started, and only the servers' own obligation to leave Run keeps the goroutines alive. *)
Theorem C18_cluster_clean : forall d ls g,
  run (gstep true) (ginit d) ls = Some g -> ClusterLTS.s_pc (g_s g) = PRet ->
  ClusterGo.census g = length (g_run g) /\
  forall i, In i (g_run g) -> In (GB (LStopRet i)) ls /\ obliged g i = true.
Proof. exact cluster_clean_hist. Qed.

(* ... so once the servers have honoured their contract nothing is left ... *)
Theorem C18_cluster_clean_settled : forall d g,
  reachable (gstep true) (ginit d) g -> ClusterLTS.s_pc (g_s g) = PRet -> settledb g = true ->
  ClusterGo.census g = 0.
Proof. exact cluster_census_clean. Qed.

(* ... and they can: from every state in which Run() has returned, steps of the environment alone
   (servers entering and leaving Run) lead to a state with census 0.  The cluster blocks none of them. *)
Theorem C18_cluster_returned_drains : forall d ls g,
  run (gstep true) (ginit d) ls = Some g -> ClusterLTS.s_pc (g_s g) = PRet ->
  exists ls' g', run (gstep true) g ls' = Some g' /\ Forall env_label ls' /\ ClusterGo.census g' = 0.
Proof. exact cluster_returned_drains. Qed.

(* (ii) While running, at every settled point: 1 (Run) + one goroutine per server started and not
   yet stopped + one helper per pending Stop(), and there are never more helpers than such servers.
   Nothing in the bound depends on the number of config updates, restarts or failed starts so far. *)
Theorem C18_cluster_bounded : forall d g,
  reachable (gstep true) (ginit d) g -> settledb g = true ->
  ClusterGo.census g <= 1 + started_not_stopped (g_s g) + helpers (g_s g) /\
  helpers (g_s g) <= started_not_stopped (g_s g).
Proof. exact cluster_census_bounded. Qed.

(* ... with the loop idle: at most 1 + GetServerCount() goroutines. *)
Theorem C18_cluster_bounded_idle : forall d g,
  reachable (gstep true) (ginit d) g -> settledb g = true -> ClusterLTS.s_pc (g_s g) = PIdle ->
  ClusterGo.census g <= 1 + count (s_entries (g_s g)).
Proof. exact cluster_census_idle. Qed.

(* (iii) In EVERY reachable state, settled or not, the only goroutines beyond that bound are server
   goroutines whose Stop() has already returned ([zombies]).  Their number is NOT bounded by the
   configuration: it is the number of stopped servers that have not yet left Run, i.e. it depends on
   how promptly the environment honours the contract, not on anything the cluster does. *)
Theorem C18_cluster_bounded_all_states : forall d g,
  reachable (gstep true) (ginit d) g ->
  ClusterGo.census g <= 1 + 2 * started_not_stopped (g_s g) + length (zombies g).
Proof. exact cluster_census_all_states. Qed.

(* DEFINITIONAL (restates the guards of LRunCall / GRunRet; the reachability statement is
   C18_cluster_returned_drains): an obliged server goroutine has an enabled step of its own. *)
Theorem C18_cluster_server_goroutine_can_end : forall fx g i,
  In i (g_run g) -> obliged g i = true ->
  if memN i (s_unrun (g_s g))
  then exists g', gstep fx g (GB (ClusterLTS.LRunCall i)) = Some g' /\ g_run g' = g_run g
  else exists g', gstep fx g (GRunRet i) = Some g' /\ g_run g' = removeN i (g_run g).
Proof. exact cluster_owed_can_end. Qed.

(* The census observation of the harness is accepted by the model only in a settled state and only
   with the model's own numbers (so an accepted trace's goroutine dumps are the model's census),
   and a census schedule is a schedule of the C16 protocol model (all C16 theorems apply). *)
Theorem C18_cluster_observation_sound : forall fx g m h r g',
  gstep fx g (GCensus m h r) = Some g' ->
  g' = g /\ settledb g = true /\ N.to_nat m + N.to_nat h + N.to_nat r = ClusterGo.census g.
Proof. exact gcensus_label_sound. Qed.

Theorem C18_cluster_schedules_project : forall fx ls g g',
  run (gstep fx) g ls = Some g' -> run (ClusterLTS.step fx) (g_s g) (erase ls) = Some (g_s g').
Proof. exact grun_erase. Qed.

Print Assumptions C18_cluster_clean.
Print Assumptions C18_cluster_clean_settled.
Print Assumptions C18_cluster_returned_drains.
Print Assumptions C18_cluster_bounded.
Print Assumptions C18_cluster_bounded_idle.
Print Assumptions C18_cluster_bounded_all_states.
Print Assumptions C18_cluster_server_goroutine_can_end.
Print Assumptions C18_cluster_observation_sound.
Print Assumptions C18_cluster_schedules_project.

(* non-vacuity: three rounds on the same id (start; restart with a never-ready replacement - whose
   context is cancelled before its Stop() - next to a factory error; start again), census observed in
   between, cancel, shutdown: Run returned, settled, census 0.  The bound of (ii) is attained: two
   servers both inside slow Stop()s.  The hypotheses of (i) / the definitional theorem with a goroutine
   left: the same schedule cut before the last server leaves Run.  The Stop() path: runCancel() makes
   every server owed at once (not settled), a server that gave up by itself is still counted. *)
Example C18_ex_cluster_clean_run :
  exists g, run (gstep true) (ginit false) census_schedule = Some g /\
            ClusterLTS.s_pc (g_s g) = PRet /\ settledb g = true /\ ClusterGo.census g = 0 /\
            s_next (g_s g) = 3%N.
Proof. exact census_schedule_runs. Qed.
Example C18_ex_cluster_returned_owed :
  exists g, run (gstep true) (ginit false) (removelast (removelast census_schedule)) = Some g /\
            ClusterLTS.s_pc (g_s g) = PRet /\ g_run g = [2%N] /\ obliged g 2%N = true /\
            In (GB (LStopRet 2%N)) (removelast (removelast census_schedule)) /\
            memN 2%N (s_unrun (g_s g)) = false.
Proof. eexists. split; [vm_compute; reflexivity|]. repeat split. vm_compute. auto 50. Qed.
Example C18_ex_cluster_peak :
  exists g, run (gstep true) (ginit false) census_schedule_peak = Some g /\
            settledb g = true /\ ClusterGo.census g = 5 /\ started_not_stopped (g_s g) = 2 /\
            helpers (g_s g) = 2.
Proof. exact census_schedule_peak_runs. Qed.
Example C18_ex_cluster_stop_path :
  exists g, run (gstep true) (ginit false) census_schedule_stop = Some g /\
            settledb g = false /\ g_rc g = true /\ obliged g 0%N = true /\ g_self g = [1%N] /\
            g_run g = [0%N] /\ ClusterGo.census g = 4.
Proof. exact census_schedule_stop_runs. Qed.
Example C18_ex_cluster_idle :
  exists g, run (gstep true) (ginit false) (firstn 7 census_schedule) = Some g /\
            settledb g = true /\ ClusterLTS.s_pc (g_s g) = PIdle /\ ClusterGo.census g = 2.
Proof. eexists. split; [vm_compute; reflexivity|]. repeat split. Qed.

(* ====================================================================================== *)
(* C18, internal/finitestate leg (subscriptions of every bundled runnable and of the supervisor's
   state monitors).  Models: Fsm.v (the machine, the broadcast manager, the GetStateChan forwarder;
   [Fsm.step] = the repaired forwarder (send-or-ctx.Done; after the cancel a value in flight waits
   for room in the wrapped channel for a bounded grace only, then it is discarded - a timed internal
   step - and the forwarder goes on until the manager channel is closed),
   [stepx false] = the unchanged code) and FsmGo.v (census: forwarders, the manager's cleanup
   goroutines, broadcast senders; [quietb]: no internal label of any subscriber is enabled - the
   consumer's labels LRecv / LRecvClosed are NOT internal, so nothing is assumed about consumers:
   they may never read, read slowly or stop mid-way).  A schedule is any list of labels: any
   sequence of machine calls, subscriptions, cancellations, deliveries, timeouts, reads.
   Statements only. *)
From GS Require Import Fsm FsmTable FsmGo FsmCensus.

(* After a subscription's context is cancelled, in every quiescent state its forwarder and its
   cleanup goroutine are gone - for every consumer behaviour and every transition history. *)
Theorem C18_fsm_clean : forall cfg ls s i x,
  run (Fsm.step cfg) Fsm.init ls = Some s -> quietb fix_fwd cfg s = true ->
  nth_error (Fsm.subs s) i = Some x -> cancelled x = true ->
  fwd_alive x = false /\ cln_alive x = false.
Proof. exact fsm_cancelled_gone. Qed.

(* An open subscription keeps both goroutines: nothing ends before the context does. *)
Theorem C18_fsm_open_alive : forall cfg ls s i x,
  run (Fsm.step cfg) Fsm.init ls = Some s -> nth_error (Fsm.subs s) i = Some x -> cancelled x = false ->
  cln_alive x = true /\ (sg x = SLive -> fwd_alive x = true).
Proof. exact fsm_open_alive. Qed.

(* Hence in every quiescent state the forwarders (and the cleanup goroutines) are exactly the open
   subscriptions and no broadcast sender is left: the census is 2 x (open subscriptions), whatever
   the number of subscribe / cancel cycles and state changes so far. *)
Theorem C18_fsm_no_accumulation : forall cfg ls s,
  run (Fsm.step cfg) Fsm.init ls = Some s -> quietb fix_fwd cfg s = true ->
  forwarders s = open_subs s /\ cleaners s = open_subs s /\ senders s = 0 /\
  FsmGo.census s = 2 * open_subs s.
Proof. exact fsm_census_exact. Qed.

(* The executable form evaluated by the driver on the states its acceptor returns. *)
Theorem C18_fsm_okb : forall cfg ls s,
  run (Fsm.step cfg) Fsm.init ls = Some s -> quietb fix_fwd cfg s = true -> c18_okb s = true.
Proof. exact fsm_c18_okb. Qed.

(* The goroutine dump of the harness is accepted only in a state where every goroutine is blocked
   (possibly on one of the two timers: 5 s broadcast timeout, 100 ms forwarder grace) and only with
   the model's own numbers; a dump taken after a pause longer than the grace with no machine call in
   flight only in a QUIESCENT state (to which C18_fsm_clean / _no_accumulation apply); a wrapper
   schedule is a schedule of the machine model. *)
Theorem C18_fsm_observation_sound : forall fx c g f cl b g',
  FsmGo.gstep fx c g (GSnap f cl b) = Some g' ->
  g' = g /\ stableb fx c (gm g) = true /\
  f = forwarders (gm g) /\ cl = cleaners (gm g) /\ b = senders (gm g).
Proof. exact gsnap_label_sound. Qed.

Theorem C18_fsm_quiet_observation_sound : forall fx c g f cl b g',
  FsmGo.gstep fx c g (GQuiet f cl b) = Some g' ->
  g' = g /\ quietb fx c (gm g) = true /\
  f = forwarders (gm g) /\ cl = cleaners (gm g) /\ b = senders (gm g).
Proof. exact gquiet_label_sound. Qed.

Theorem C18_fsm_schedules_project : forall fx c ls g g',
  run (FsmGo.gstep fx c) g ls = Some g' -> run (stepx fx c) (gm g) (FsmGo.erase ls) = Some (gm g').
Proof. exact FsmCensus.grun_erase. Qed.

(* The UNCHANGED forwarder (for s := range userCh { wrappedCh <- s }) is refuted: one subscription
   whose consumer never reads, one state change, cancel - the system is quiescent, the subscription
   is cancelled and un-registered, and its forwarder is still blocked in its send ... *)
Theorem C18_fsm_leak_legacy_refuted :
  exists s x, run (stepx false fsm_cfg) Fsm.init leak_witness = Some s /\
              quietb false fsm_cfg s = true /\ nth_error (Fsm.subs s) 0 = Some x /\
              cancelled x = true /\ unsub x = true /\ got x = [] /\
              fwd_alive x = true /\ forwarders s = 1 /\ open_subs s = 0.
Proof. exact leak_legacy. Qed.

(* ... and such forwarders accumulate over subscribe / change / cancel cycles. *)
Theorem C18_fsm_leak_legacy_accumulates :
  exists s, run (stepx false fsm_cfg) Fsm.init (leak_cycle 0 ++ leak_cycle 1 ++ leak_cycle 2) = Some s /\
            quietb false fsm_cfg s = true /\ open_subs s = 0 /\ forwarders s = 3.
Proof. exact leak_legacy_accumulates. Qed.

(* On the repaired model the same history is not quiescent (the forwarder can discard the value it
   holds and then ends on the closed manager channel), and after those two steps nothing is left. *)
Theorem C18_fsm_leak_repaired :
  run (Fsm.step fsm_cfg) Fsm.init leak_witness <> None /\
  (forall s, run (Fsm.step fsm_cfg) Fsm.init leak_witness = Some s -> quietb fix_fwd fsm_cfg s = false) /\
  exists s, run (Fsm.step fsm_cfg) Fsm.init (leak_witness ++ [LFwdAbort 0; LFwdClose 0]) = Some s /\
            quietb fix_fwd fsm_cfg s = true /\ forwarders s = 0 /\ FsmGo.census s = 0.
Proof. exact leak_repaired. Qed.

Print Assumptions C18_fsm_clean.
Print Assumptions C18_fsm_open_alive.
Print Assumptions C18_fsm_no_accumulation.
Print Assumptions C18_fsm_okb.
Print Assumptions C18_fsm_observation_sound.
Print Assumptions C18_fsm_quiet_observation_sound.
Print Assumptions C18_fsm_schedules_project.
Print Assumptions C18_fsm_leak_legacy_refuted.
Print Assumptions C18_fsm_leak_legacy_accumulates.
Print Assumptions C18_fsm_leak_repaired.

(* non-vacuity: three subscribe / cancel cycles during a transition burst - an absent consumer (its
   forwarder discards two values), a consumer that reads one value and stops, a consumer that drains and sees
   the close - then a fourth subscription stays open: quiescent, 4 subscriptions made, 1 open,
   census 2 (its forwarder and its cleanup goroutine). *)
Example C18_ex_fsm_cycles :
  exists s, run (Fsm.step fsm_cfg) Fsm.init census_run = Some s /\ quietb fix_fwd fsm_cfg s = true /\
            length (Fsm.subs s) = 4 /\ open_subs s = 1 /\ forwarders s = 1 /\ FsmGo.census s = 2.
Proof. exact census_run_ok. Qed.
