(* C20 — ValidatePort: valid ports accepted, bad ones rejected, stable equivalent result.
   This file contains only statements; every proof is `exact <lemma>`. *)
From Coq Require Import List NArith ZArith Bool.
From GS Require Import Port PortProofs PortMain.
Import ListNotations.
Open Scope N_scope.

(* accepted forms: port, :port, host:port, [v6]:port, for every decimal port 1..65535 *)
Theorem C20_accepts_port : forall p, good_port p -> validate_port p = VOk (c_colon :: p).
Proof. exact accepts_bare. Qed.

Theorem C20_accepts_colon_port : forall p,
  good_port p -> validate_port (c_colon :: p) = VOk (c_colon :: p).
Proof. exact accepts_colon. Qed.

Theorem C20_accepts_host_port : forall h p,
  nobyte c_colon h -> nobyte c_lbr h -> nobyte c_rbr h -> good_port p ->
  validate_port (h ++ c_colon :: p) = VOk (h ++ c_colon :: p).
Proof. exact accepts_host. Qed.

Theorem C20_accepts_bracketed : forall v6 p,
  nobyte c_lbr v6 -> nobyte c_rbr v6 -> contains neg_marker v6 = false -> good_port p ->
  validate_port (c_lbr :: v6 ++ c_rbr :: c_colon :: p) = VOk (join_host_port v6 p).
Proof. exact accepts_bracketed. Qed.

(* rejections, with the documented error class *)
Theorem C20_rejects_empty : validate_port [] = VEmpty /\ forall s, validate_port s = VEmpty -> s = [].
Proof. exact (conj rejects_empty empty_only). Qed.

Theorem C20_rejects_malformed : forall s,
  s <> [] -> split_host_port (norm_colon s) = None -> validate_port s = VInvalid.
Proof. exact rejects_malformed. Qed.

Theorem C20_rejects_non_numeric : forall s h p,
  s <> [] -> split_host_port (norm_colon s) = Some (h, p) -> atoi p = None ->
  validate_port s = VInvalid.
Proof. exact rejects_non_numeric. Qed.

Theorem C20_non_digit_is_not_a_number : forall p c,
  In c p -> is_digit c = false -> (forall t, p <> c :: t) -> atoi p = None.
Proof. exact atoi_non_digit. Qed.

Theorem C20_rejects_range : forall h p,
  nobyte c_colon h -> nobyte c_lbr h -> nobyte c_rbr h ->
  p <> [] -> all_digits p -> (dec p = 0 \/ 65535 < dec p <= max_int64)%Z ->
  validate_port (h ++ c_colon :: p) = VRange /\ validate_port p = VRange.
Proof. exact rejects_range_digits. Qed.

Theorem C20_range_only : forall s,
  validate_port s = VRange ->
  exists h p n, split_host_port (norm_colon s) = Some (h, p) /\ atoi p = Some n /\
                (n < 1 \/ 65535 < n)%Z.
Proof. exact range_only. Qed.

Theorem C20_rejects_negative : forall h ds,
  validate_port (h ++ c_colon :: c_minus :: ds) = VInvalid /\
  (nobyte c_colon ds -> validate_port (c_minus :: ds) = VInvalid).
Proof. exact rejects_negative. Qed.

(* Everything accepted has a decimal port 1..65535 (optionally written with '+', as strconv.Atoi allows). *)
Theorem C20_accepted_shape : forall s r,
  validate_port s = VOk r ->
  exists h p sign ds,
    split_host_port (norm_colon s) = Some (h, p) /\ p = sign ++ ds /\
    (sign = [] \/ sign = [c_plus]) /\ ds <> [] /\ all_digits ds /\ (1 <= dec ds <= 65535)%Z.
Proof. exact ok_port_shape. Qed.

(* The result denotes the same host and port, splits back into them, and is a fixed point. *)
Theorem C20_roundtrip : forall s r,
  validate_port s = VOk r ->
  exists h p, split_host_port (norm_colon s) = Some (h, p) /\
              split_host_port r = Some (h, p) /\
              validate_port r = VOk r.
Proof. exact validate_roundtrip. Qed.

(* the model of net.SplitHostPort is characterised completely *)
Theorem C20_split_characterised : forall hp h p,
  split_host_port hp = Some (h, p) <-> split_shape hp h p.
Proof. exact split_iff. Qed.

Print Assumptions C20_accepts_port.
Print Assumptions C20_accepts_colon_port.
Print Assumptions C20_accepts_host_port.
Print Assumptions C20_accepts_bracketed.
Print Assumptions C20_rejects_empty.
Print Assumptions C20_rejects_malformed.
Print Assumptions C20_rejects_non_numeric.
Print Assumptions C20_non_digit_is_not_a_number.
Print Assumptions C20_rejects_range.
Print Assumptions C20_range_only.
Print Assumptions C20_rejects_negative.
Print Assumptions C20_accepted_shape.
Print Assumptions C20_roundtrip.
Print Assumptions C20_split_characterised.

(* non-vacuity: the hypotheses are met by concrete inputs, and the functions compute *)
Example C20_ex_good_port : good_port [56; 48; 56; 48].            (* "8080" *)
Proof. repeat split; try discriminate; try (vm_compute; congruence).
       repeat constructor. Qed.
Example C20_ex_v6 :                                                (* "[::1]:80" *)
  validate_port [91; 58; 58; 49; 93; 58; 56; 48] = VOk [91; 58; 58; 49; 93; 58; 56; 48].
Proof. vm_compute. reflexivity. Qed.
Example C20_ex_range : validate_port [58; 48] = VRange.            (* ":0" *)
Proof. vm_compute. reflexivity. Qed.
Example C20_ex_neg : validate_port [58; 45; 53] = VInvalid.        (* ":-5" *)
Proof. vm_compute. reflexivity. Qed.
Example C20_ex_big :                                               (* overflow -> not a number *)
  validate_port [57;57;57;57;57;57;57;57;57;57;57;57;57;57;57;57;57;57;57;57] = VInvalid.
Proof. vm_compute. reflexivity. Qed.
