(* C14 — HTTP server: graceful drain is honoured and bounded by DrainTimeout.   PARTIAL: everything inside
   net/http.Server.Shutdown is MODELLED (model/HttpDrain.v: the listener is closed first; Shutdown returns nil
   at a poll instant no later than [gap] after the server became idle, or the context error at its deadline;
   time cannot pass a request's finishing instant nor the deadline), not verified.
   Three groups of statements:
   (A) the hand model of Shutdown alone (C14_no_new ... C14_zero_drain; several restate a guard of [dstep] and are
       marked DEFINITIONAL);
   (B) the RUNNER: the protocol model of Run/Reload/stopServer composed with that drain model
       (model/HttpCompose.v: they synchronise on boot, on the Shutdown call and on its return) - what stopServer
       reports in every reachable state of the composition (C14_runner_drain), and what becomes of a reported timeout:
       Run() returns it as its error, a Reload ends in the Error state (C14_run_reports_timeout,
       C14_reload_reports_failure);
   (C) DrainTimeout <= 0 (C14_zero_drain_always_times_out).
   Time unit: that of DrainTimeout (the examples read it as milliseconds).  This file contains only statements. *)
From Coq Require Import List NArith ZArith Bool.
From GS Require Import LTS HttpDrain HttpDrainProofs HttpCfg HttpServer HttpInv HttpInvStep2 HttpProps HttpCompose HttpComposeProofs.
Import ListNotations.
Open Scope N_scope.

(* all drain timeouts, all polling gaps, any number of requests with any durations arriving at any time
   before the stop trigger, all schedules *)

(* ---------------- (A) the drain model alone ---------------- *)

(* From the instant Shutdown starts, every dial to the address is refused and no new request is accepted.
   DEFINITIONAL given the invariant "started => listener closed": both halves are the guards of DDial / DNewReq.
   Hypotheses: s reachable in the drain model, Shutdown has been called (sd_start s = Some t0). *)
Theorem C14_no_new : forall drain gap ls s t0,
  run (dstep drain gap) dinit ls = Some s -> sd_start s = Some t0 ->
  (forall ok s', dstep drain gap s (DDial ok) = Some s' -> ok = false) /\
  (forall i d, dstep drain gap s (DNewReq i d) = None).
Proof.
  intros drain gap ls s t0 Hr Hs. split.
  - intros ok s'. exact (no_new drain gap ls s t0 ok s' Hr Hs).
  - intros i d. exact (no_new_requests drain gap ls s t0 i d Hr Hs).
Qed.

(* A request that needed less than the drain timeout when Shutdown was called has completed (its handler ran
   to the end and its response was written: DFinish) by the time Shutdown returns - whatever Shutdown returns. *)
Theorem C14_complete : forall drain gap ls s t0 t ok r,
  run (dstep drain gap) dinit ls = Some s -> sd_start s = Some t0 -> sd_ret s = Some (t, ok) ->
  In r (reqs s) -> q_stop r < drain -> q_done r = true.
Proof. exact complete. Qed.

(* If every request finishes by D after the stop trigger and D + gap < drain, stopServer returns nil no later
   than D + gap after it was called: Stop() returns once the requests have finished, without waiting out the
   timeout. *)
Theorem C14_prompt : forall drain gap ls s t0 t ok,
  run (dstep drain gap) dinit ls = Some s -> sd_start s = Some t0 -> sd_ret s = Some (t, ok) ->
  maxstop (reqs s) + gap < drain ->
  ok = true /\ t <= t0 + maxstop (reqs s) + gap.
Proof. exact prompt. Qed.

(* Always: Shutdown returns no later than the drain timeout after it was called (DEFINITIONAL: the guards of
   DTick and of the two DShutRet labels), and if some request outlasts the drain timeout the result is the deadline error (what the
   runner makes of it: C14_run_reports_timeout, C14_reload_reports_failure below).
   Hypotheses: s reachable, Shutdown called at t0 and returned at t with result ok. *)
Theorem C14_bounded : forall drain gap ls s t0 t ok,
  run (dstep drain gap) dinit ls = Some s -> sd_start s = Some t0 -> sd_ret s = Some (t, ok) ->
  t0 <= t /\ t <= t0 + drain /\ (drain < maxstop (reqs s) -> ok = false).
Proof. exact bounded. Qed.

(* ... and it does return: while it has not, time cannot pass the deadline, and at the deadline the return is
   enabled (no time-lock). *)
Theorem C14_bounded_progress : forall drain gap ls s t0,
  run (dstep drain gap) dinit ls = Some s -> sd_start s = Some t0 -> sd_ret s = None ->
  now s <= t0 + drain /\ (now s = t0 + drain -> dstep drain gap s DShutRetTimeout <> None).
Proof.
  intros drain gap ls s t0 Hr Hs Hn. split.
  - exact (deadline_not_passed drain gap ls s t0 Hr Hs Hn).
  - exact (return_enabled_at_deadline drain gap ls s t0 Hr Hs Hn).
Qed.

(* The outcome predicate the correspondence check runs (extracted [drain_check]) accepts, at zero tolerance,
   every outcome of the model: whenever Shutdown returns in a schedule, the remaining durations at its call, the
   result, the elapsed time and the completion flags pass the check.  (The check's 40 ms band and 150 ms slack
   only widen the accepted set.) *)
Theorem C14_check_sound : forall drain gap ls s l s' t0,
  run (dstep drain gap) dinit ls = Some s -> sd_start s = Some t0 ->
  dstep drain gap s l = Some s' -> (l = DShutRetOk \/ l = DShutRetTimeout) ->
  drain_check drain gap 0 0 (map q_stop (reqs s'))
              (match l with DShutRetOk => true | _ => false end) (now s' - t0) (map q_done (reqs s')) = true.
Proof. exact drain_check_sound. Qed.

(* DrainTimeout = 0 (accepted by NewConfig; a negative value is the same already expired context): Shutdown
   returns at the very instant it is called - it does not wait for anything, in particular not for a default.
   DEFINITIONAL (C14_bounded at drain 0). *)
Theorem C14_zero_drain : forall gap ls s t0 t ok,
  run (dstep 0 gap) dinit ls = Some s -> sd_start s = Some t0 -> sd_ret s = Some (t, ok) -> t = t0.
Proof.
  intros gap ls s t0 t ok Hr Hs Hret. destruct (bounded 0 gap ls s t0 t ok Hr Hs Hret) as (A & B & _).
  rewrite N.add_0_r in B. now apply N.le_antisymm.
Qed.

(* Which server is drained (protocol model, every schedule, any number of earlier reloads, restarts and failed
   boots): whenever Run's or Reload's stopServer is about to run and a server of this runner is still un-shut,
   the shutdown guard is armed for it and r.server points at it - the no-op path is closed and
   http.Server.Shutdown is called on exactly that server.  (The guard is re-armed by every boot.) *)
Theorem C14_stop_reaches_live_server : forall sl validated mux_ok c0 ls s sid sv,
  no_foreign ls -> run (step sl validated mux_ok) (init c0) ls = Some s ->
  crashed s = false -> kpc s = KStopPending ->
  nth_error (servers s) sid = Some sv -> s_shut sv = false ->
  step sl validated mux_ok s LStopSkip = None /\ step sl validated mux_ok s (LStopCallS sid) <> None.
Proof. exact stop_reaches_live_server. Qed.

(* ---------------- (B) the runner: protocol model x drain model ---------------- *)

(* The composition is faithful to both sides: every schedule of the composite projects to a schedule of the protocol
   model reaching the composite's protocol component (so every theorem of C12/C13 about reachable protocol states
   applies to it; foreign binders are preserved), and - per server generation - its drain component is a reachable
   state of the drain model under the timeout of the Shutdown in flight (before the call: under any timeout). *)
Theorem C14_composition_projects : forall sl validated mux_ok gap c0 cls cs,
  run (cstep sl validated mux_ok gap) (cinit c0) cls = Some cs ->
  (exists ls, run (step sl validated mux_ok) (init c0) ls = Some (cp cs) /\
              (Forall cno_foreign_label cls -> no_foreign ls)) /\
  (forall D, (sd_start (cd cs) <> None -> D = cpar cs) -> exists dls, run (dstep D gap) dinit dls = Some (cd cs)).
Proof.
  intros sl v m gap c0 cls cs H. split.
  - exact (crun_proj sl v m gap cls _ _ H).
  - exact (dproj_reach sl v m gap c0 cs (ex_intro _ cls H)).
Qed.

(* What stopServer reports - for EVERY reachable state of the composition (any reload history, any traffic, any
   trigger: Run's own stopServer after Stop()/cancel, a Reload's, boot's cleanup), when its Shutdown returns with r:
   it was called at t0 under the timeout D = cpar (the CURRENT configuration's DrainTimeout at the call) and
   - bounded:  t0 <= now <= t0 + D;
   - complete: every request that needed less than D when Shutdown was called has completed (full response);
   - prompt:   if all requests need at most R and R + gap < D, the result is NOT the timeout and now <= t0 + R + gap;
   - reported: if some request needs more than D, the result IS the timeout.
   Hypotheses: cs reachable in the composition; the synchronised return CShutRet sid r is the step taken. *)
Theorem C14_runner_drain : forall sl validated mux_ok gap c0 cs sid r cs',
  creach sl validated mux_ok gap c0 cs ->
  cstep sl validated mux_ok gap cs (CShutRet sid r) = Some cs' ->
  exists t0, sd_start (cd cs) = Some t0 /\
    (t0 <= now (cd cs) /\ now (cd cs) <= t0 + cpar cs) /\
    (forall q, In q (reqs (cd cs')) -> q_stop q < cpar cs -> q_done q = true) /\
    (maxstop (reqs (cd cs')) + gap < cpar cs -> r <> STimeout /\ now (cd cs) <= t0 + maxstop (reqs (cd cs')) + gap) /\
    (cpar cs < maxstop (reqs (cd cs')) -> r = STimeout).
Proof. exact runner_drain. Qed.

(* "Run() reports the graceful-shutdown timeout as an error" - the code as it is (stop_locked = true), every
   reachable state, NO hypothesis on the environment:
   (1) when Run's own stopServer (holder = ByRun, Shutdown in flight) reports the timeout, shutdown() releases the
       mutex with exactly that result pending;
   (2) while it is pending Run's next step is enabled, and every step of anybody either leaves it pending or is that
       step - which sets the state Error and makes the result of Run() the timeout error;
   (3) from then on the only thing Run() can return is that error. *)
Theorem C14_run_reports_timeout : forall validated mux_ok c0 ls s,
  run (step true validated mux_ok) (init c0) ls = Some s ->
  (forall sid s', holder s = Some ByRun -> kpc s = KStopWait sid ->
     step true validated mux_ok s (LShutdownRet sid STimeout) = Some s' ->
     rpc s' = RStopDone STimeout /\ holder s' = None) /\
  (rpc s = RStopDone STimeout -> crashed s = false ->
     step true validated mux_ok s LRunFinishStop <> None /\
     forall l s', step true validated mux_ok s l = Some s' ->
       rpc s' = RStopDone STimeout \/
       (l = LRunFinishStop /\ rpc s' = RRet (RStop STimeout) /\ fsm_st s' = FError)) /\
  (rpc s = RRet (RStop STimeout) ->
     forall l s', step true validated mux_ok s l = Some s' ->
       rpc s' = RRet (RStop STimeout) \/
       (exists y, l = LRunRet y /\ rres_code y = rres_code (RStop STimeout) /\ rpc s' = RDone)).
Proof.
  intros v m c0 ls s Hr. split; [|split].
  - intros sid s' Eh Ek H. exact (run_timeout_pending v m s sid s' Eh Ek H).
  - intros Er Hc. split.
    + rewrite (run_finish_enabled true v m s STimeout Hc Er). discriminate.
    + intros l s' H. exact (run_timeout_kept true v m c0 ls s l s' Hr Er H).
  - intros Er l s' H. exact (run_ret_kept true v m c0 ls s l s' (RStop STimeout) Hr Er H).
Qed.

(* the same result inside a Reload (trigger "reload with a changed configuration"): anything but success of the old
   server's Shutdown - the timeout in particular - ends that Reload at once, in the state Error, mutex released
   (both variants; hypotheses: the Reload caller i holds the mutex, its Shutdown of server sid is in flight) *)
Theorem C14_reload_reports_failure : forall sl validated mux_ok s i sid r s',
  holder s = Some (ByReload i) -> kpc s = KStopWait sid -> r <> SOk ->
  step sl validated mux_ok s (LShutdownRet sid r) = Some s' ->
  fsm_st s' = FError /\ holder s' = None /\ In i (rl_ret s').
Proof. exact reload_stop_failure. Qed.

(* ---------------- (C) DrainTimeout <= 0 ---------------- *)

(* NewConfig accepts DrainTimeout <= 0.  stopServer's context is then expired when it is created and stopServer tests
   it before looking at Shutdown's result: EVERY stop reports the timeout - with nothing in flight, too.  Hence
   (C14_run_reports_timeout, C14_reload_reports_failure) every Stop()/cancel makes Run() return the timeout error and
   every Reload with a changed configuration whose NEW DrainTimeout is <= 0 ends in the Error state with no server
   running.  Confirmed on the real code; the model follows it.  Not a violation of C14 as worded (the return is
   within the timeout; with requests in flight they all outlast it) - recorded in the claim. *)
Theorem C14_zero_drain_always_times_out : forall sl validated mux_ok s sid r s',
  (drain (cur s) <= 0)%Z -> step sl validated mux_ok s (LShutdownRet sid r) = Some s' -> r = STimeout.
Proof. exact zero_drain_always_times_out. Qed.

Print Assumptions C14_no_new.
Print Assumptions C14_composition_projects.
Print Assumptions C14_runner_drain.
Print Assumptions C14_run_reports_timeout.
Print Assumptions C14_reload_reports_failure.
Print Assumptions C14_zero_drain_always_times_out.
Print Assumptions C14_zero_drain.
Print Assumptions C14_stop_reaches_live_server.
Print Assumptions C14_check_sound.
Print Assumptions C14_complete.
Print Assumptions C14_prompt.
Print Assumptions C14_bounded.
Print Assumptions C14_bounded_progress.

(* ---- non-vacuity of (B) and (C): DrainTimeout 300, gap 20 ---- *)
Definition c14_cfg (d : Z) : config :=
  {| addr := [65%N]; drain := d; read_to := 1%Z; write_to := 2%Z; idle_to := 3%Z;
     routes := [{| rname := [97%N]; rpath := [47%N; 120%N] |}] |}.
Definition c14_up (d : Z) : list clabel :=
  [CP LRunCall; CP LRunStart; CP LRunLock; CBoot 0 (c14_cfg d); CP (LBindOk 0); CP LProbeOk; CP LRunFinishBoot].
(* a request of 500 outlasts the timeout: Stop() -> Shutdown called at 40, returns at 340 = the deadline with the
   timeout; Run() returns the timeout error, state Error.  The state before the last three labels satisfies all
   hypotheses of C14_runner_drain (reachable, CShutRet enabled) with 300 < maxstop = 460 *)
Definition c14_comp_long : list clabel :=
  c14_up 300 ++ [CD (DNewReq 0 500); CD (DTick 40); CP (LStopCall 0); CP LRunWake; CP LRunLockStop; CShutCall 0;
                 CD (DDial false); CD (DTick 300)].
Example C14_ex_runner_timeout :
  match run (cstep true true (fun _ => true) 20) (cinit (c14_cfg 300)) c14_comp_long with
  | Some cs =>
    match cstep true true (fun _ => true) 20 cs (CShutRet 0 STimeout), cstep true true (fun _ => true) 20 cs (CShutRet 0 SOk) with
    | Some cs', None =>
      match run (cstep true true (fun _ => true) 20) cs' [CP LRunFinishStop; CP (LRunRet (RStop STimeout)); CP (LStopRet 0)] with
      | Some cs'' =>
        (cpar cs =? 300) && (maxstop (reqs (cd cs')) =? 460) && (now (cd cs) =? 340) &&
        match holder (cp cs), kpc (cp cs), rpc (cp cs'), fsm_st (cp cs''), rpc (cp cs'') with
        | Some ByRun, KStopWait 0, RStopDone STimeout, FError, RDone => true
        | _, _, _, _, _ => false
        end
      | None => false
      end
    | _, _ => false
    end
  | None => false
  end = true.
Proof. vm_compute. reflexivity. Qed.
(* a request of 100 finishes within the timeout: Shutdown returns nil 15 after it, far from the deadline; Run() = nil *)
Definition c14_comp_short : list clabel :=
  c14_up 300 ++ [CD (DNewReq 0 100); CD (DTick 40); CP (LStopCall 0); CP LRunWake; CP LRunLockStop; CShutCall 0;
                 CD (DTick 60); CD (DFinish 0); CD (DTick 15)].
Example C14_ex_runner_prompt :
  match run (cstep true true (fun _ => true) 20) (cinit (c14_cfg 300)) c14_comp_short with
  | Some cs =>
    match cstep true true (fun _ => true) 20 cs (CShutRet 0 SOk), cstep true true (fun _ => true) 20 cs (CShutRet 0 STimeout) with
    | Some cs', None =>
      match run (cstep true true (fun _ => true) 20) cs' [CP LRunFinishStop; CP (LRunRet ROk)] with
      | Some cs'' =>
        (maxstop (reqs (cd cs')) =? 60) && (now (cd cs) =? 115) && all_done (reqs (cd cs')) &&
        match fsm_st (cp cs''), rpc (cp cs'') with FStopped, RDone => true | _, _ => false end
      | None => false
      end
    | _, _ => false
    end
  | None => false
  end = true.
Proof. vm_compute. reflexivity. Qed.
(* the protocol schedule reaching "timeout pending" (hypotheses of C14_run_reports_timeout (2)) *)
Example C14_ex_timeout_pending :
  exists s, run (step true true (fun _ => true)) (init (c14_cfg 300))
              [LRunCall; LRunStart; LRunLock; LBootCreate 0 (c14_cfg 300); LBindOk 0; LProbeOk; LRunFinishBoot;
               LStopCall 0; LRunWake; LRunLockStop; LStopCallS 0; LShutdownRet 0 STimeout] = Some s /\
            rpc s = RStopDone STimeout /\ crashed s = false /\ fsm_st s = FStopping.
Proof. eexists. split; [vm_compute; reflexivity|]. repeat split. Qed.
(* a Reload whose old server's Shutdown times out (hypotheses of C14_reload_reports_failure) *)
Example C14_ex_reload_timeout :
  exists s s', run (step true true (fun _ => true)) (init (c14_cfg 300))
              [LRunCall; LRunStart; LRunLock; LBootCreate 0 (c14_cfg 300); LBindOk 0; LProbeOk; LRunFinishBoot;
               LReloadCall 7; LReloadBegin 7; LFetch (CbCfg (c14_cfg 200)); LStopCallS 0] = Some s /\
            holder s = Some (ByReload 7) /\ kpc s = KStopWait 0 /\
            step true true (fun _ => true) s (LShutdownRet 0 STimeout) = Some s' /\ fsm_st s' = FError.
Proof. do 2 eexists. split; [vm_compute; reflexivity|]. split; [reflexivity|]. split; [reflexivity|]. split; reflexivity. Qed.
(* DrainTimeout 0, idle server: the only result is the timeout (hypotheses of C14_zero_drain_always_times_out) *)
Example C14_ex_zero_drain_idle :
  exists s, run (step true true (fun _ => true)) (init (c14_cfg 0))
              [LRunCall; LRunStart; LRunLock; LBootCreate 0 (c14_cfg 0); LBindOk 0; LProbeOk; LRunFinishBoot;
               LStopCall 0; LRunWake; LRunLockStop; LStopCallS 0] = Some s /\
            (drain (cur s) <= 0)%Z /\
            step true true (fun _ => true) s (LShutdownRet 0 SOk) = None /\
            step true true (fun _ => true) s (LShutdownRet 0 SFail) = None /\
            step true true (fun _ => true) s (LShutdownRet 0 STimeout) <> None.
Proof.
  eexists. split; [vm_compute; reflexivity|]. split; [cbn; discriminate|].
  split; [reflexivity|]. split; [reflexivity|]. discriminate.
Qed.

(* ---- non-vacuity: drain 300 ms, polling gap 20 ms; one request of 100 ms, one of 500 ms ---- *)
Definition c14_short : list dlabel :=
  [DNewReq 0 100; DTick 10; DShutStart; DDial false; DTick 90; DFinish 0; DTick 15; DShutRetOk].
Example C14_ex_short_completes :
  exists s, run (dstep 300 20) dinit c14_short = Some s /\ sd_ret s = Some (115, true) /\ sd_start s = Some 10 /\
            all_done (reqs s) = true.
Proof. eexists. split; [vm_compute; reflexivity|]. repeat split. Qed.

Definition c14_long : list dlabel :=
  [DNewReq 0 100; DNewReq 1 500; DShutStart; DTick 100; DFinish 0; DTick 200; DShutRetTimeout].
Example C14_ex_long_times_out :
  exists s, run (dstep 300 20) dinit c14_long = Some s /\ sd_ret s = Some (300, false) /\
            map q_done (reqs s) = [false; true].
Proof. eexists. split; [vm_compute; reflexivity|]. repeat split. Qed.

(* time cannot run past a finishing request, nor past the deadline *)
Example C14_ex_urgent : run (dstep 300 20) dinit [DNewReq 0 100; DShutStart; DTick 101] = None.
Proof. vm_compute. reflexivity. Qed.
Example C14_ex_deadline : run (dstep 300 20) dinit [DNewReq 0 500; DShutStart; DTick 301] = None.
Proof. vm_compute. reflexivity. Qed.

(* the outcome predicate used by the correspondence check accepts these two outcomes and rejects wrong ones *)
Example C14_ex_check_ok : drain_check 300 20 0 0 [90] true 105 [true] = true.
Proof. vm_compute. reflexivity. Qed.
Example C14_ex_check_timeout : drain_check 300 20 0 0 [100; 500] false 300 [true; false] = true.
Proof. vm_compute. reflexivity. Qed.
Example C14_ex_check_rejects_late : drain_check 300 20 40 150 [90] true 320 [true] = false.
Proof. vm_compute. reflexivity. Qed.
Example C14_ex_check_rejects_cut : drain_check 300 20 40 150 [100; 500] false 300 [false; false] = false.
Proof. vm_compute. reflexivity. Qed.

(* DrainTimeout 0 with a request in flight: the only continuation after the call is the immediate return *)
Example C14_ex_zero_drain :
  exists s, run (dstep 0 20) dinit [DNewReq 0 300; DShutStart; DShutRetTimeout] = Some s /\ sd_ret s = Some (0, false).
Proof. eexists. split; [vm_compute; reflexivity|reflexivity]. Qed.
Example C14_ex_zero_drain_no_wait : run (dstep 0 20) dinit [DNewReq 0 300; DShutStart; DTick 1] = None.
Proof. vm_compute. reflexivity. Qed.
Example C14_ex_check_zero_drain_rejects_wait : drain_check 0 400 40 150 [298] true 305 [true] = false.
Proof. vm_compute. reflexivity. Qed.
