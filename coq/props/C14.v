(* C14 — HTTP server: graceful drain is honoured and bounded by DrainTimeout.   PARTIAL: everything inside
   net/http.Server.Shutdown is MODELLED (model/HttpDrain.v: the listener is closed first; Shutdown returns nil
   at a poll instant no later than [gap] after the server became idle, or the context error at its deadline;
   time cannot pass a request's finishing instant nor the deadline), not verified.  The trigger - Stop(),
   context cancel, Reload with a changed configuration - only decides who calls stopServer (model/HttpServer.v:
   Run's and Reload's KStopPending -> LStopCallS -> LShutdownRet); the drain itself is this model.
   Time unit: milliseconds.  This file contains only statements. *)
From Coq Require Import List NArith Bool.
From GS Require Import LTS HttpDrain HttpDrainProofs HttpCfg HttpServer HttpInv HttpInvStep2 HttpProps.
Import ListNotations.
Open Scope N_scope.

(* all drain timeouts, all polling gaps, any number of requests with any durations arriving at any time
   before the stop trigger, all schedules *)

(* From the instant Shutdown starts, every dial to the address is refused and no new request is accepted. *)
Theorem C14_no_new : forall drain gap ls s t0,
  run (dstep drain gap) dinit ls = Some s -> sd_start s = Some t0 ->
  (forall ok s', dstep drain gap s (DDial ok) = Some s' -> ok = false) /\
  (forall i d, dstep drain gap s (DNewReq i d) = None).
Proof.
  intros drain gap ls s t0 Hr Hs. split.
  - intros ok s'. exact (no_new drain gap ls s t0 ok s' Hr Hs).
  - intros i d. exact (no_new_requests drain gap ls s t0 i d Hr Hs).
Qed.

(* A request that needed less than the drain timeout when Shutdown was called has completed (its handler ran
   to the end and its response was written: DFinish) by the time Shutdown returns - whatever Shutdown returns. *)
Theorem C14_complete : forall drain gap ls s t0 t ok r,
  run (dstep drain gap) dinit ls = Some s -> sd_start s = Some t0 -> sd_ret s = Some (t, ok) ->
  In r (reqs s) -> q_stop r < drain -> q_done r = true.
Proof. exact complete. Qed.

(* If every request finishes by D after the stop trigger and D + gap < drain, stopServer returns nil no later
   than D + gap after it was called: Stop() returns once the requests have finished, without waiting out the
   timeout. *)
Theorem C14_prompt : forall drain gap ls s t0 t ok,
  run (dstep drain gap) dinit ls = Some s -> sd_start s = Some t0 -> sd_ret s = Some (t, ok) ->
  maxstop (reqs s) + gap < drain ->
  ok = true /\ t <= t0 + maxstop (reqs s) + gap.
Proof. exact prompt. Qed.

(* Always: Shutdown returns no later than the drain timeout after it was called, and if some request outlasts
   the drain timeout the result is the deadline error (which stopServer wraps as ErrGracefulShutdownTimeout:
   Run() returns it; on a Reload it becomes the Error state, C13_visible). *)
Theorem C14_bounded : forall drain gap ls s t0 t ok,
  run (dstep drain gap) dinit ls = Some s -> sd_start s = Some t0 -> sd_ret s = Some (t, ok) ->
  t0 <= t /\ t <= t0 + drain /\ (drain < maxstop (reqs s) -> ok = false).
Proof. exact bounded. Qed.

(* ... and it does return: while it has not, time cannot pass the deadline, and at the deadline the return is
   enabled (no time-lock). *)
Theorem C14_bounded_progress : forall drain gap ls s t0,
  run (dstep drain gap) dinit ls = Some s -> sd_start s = Some t0 -> sd_ret s = None ->
  now s <= t0 + drain /\ (now s = t0 + drain -> dstep drain gap s DShutRetTimeout <> None).
Proof.
  intros drain gap ls s t0 Hr Hs Hn. split.
  - exact (deadline_not_passed drain gap ls s t0 Hr Hs Hn).
  - exact (return_enabled_at_deadline drain gap ls s t0 Hr Hs Hn).
Qed.

(* The outcome predicate the correspondence check runs (extracted [drain_check]) accepts, at zero tolerance,
   every outcome of the model: whenever Shutdown returns in a schedule, the remaining durations at its call, the
   result, the elapsed time and the completion flags pass the check.  (The check's 40 ms band and 150 ms slack
   only widen the accepted set.) *)
Theorem C14_check_sound : forall drain gap ls s l s' t0,
  run (dstep drain gap) dinit ls = Some s -> sd_start s = Some t0 ->
  dstep drain gap s l = Some s' -> (l = DShutRetOk \/ l = DShutRetTimeout) ->
  drain_check drain gap 0 0 (map q_stop (reqs s'))
              (match l with DShutRetOk => true | _ => false end) (now s' - t0) (map q_done (reqs s')) = true.
Proof. exact drain_check_sound. Qed.

(* DrainTimeout = 0 (accepted by NewConfig; a negative value is the same already expired context): Shutdown
   returns at the very instant it is called - it does not wait for anything, in particular not for a default. *)
Theorem C14_zero_drain : forall gap ls s t0 t ok,
  run (dstep 0 gap) dinit ls = Some s -> sd_start s = Some t0 -> sd_ret s = Some (t, ok) -> t = t0.
Proof.
  intros gap ls s t0 t ok Hr Hs Hret. destruct (bounded 0 gap ls s t0 t ok Hr Hs Hret) as (A & B & _).
  rewrite N.add_0_r in B. now apply N.le_antisymm.
Qed.

(* Which server is drained (protocol model, every schedule, any number of earlier reloads, restarts and failed
   boots): whenever Run's or Reload's stopServer is about to run and a server of this runner is still un-shut,
   the shutdown guard is armed for it and r.server points at it - the no-op path is closed and
   http.Server.Shutdown is called on exactly that server.  (The guard is re-armed by every boot.) *)
Theorem C14_stop_reaches_live_server : forall sl validated mux_ok c0 ls s sid sv,
  no_foreign ls -> run (step sl validated mux_ok) (init c0) ls = Some s ->
  crashed s = false -> kpc s = KStopPending ->
  nth_error (servers s) sid = Some sv -> s_shut sv = false ->
  step sl validated mux_ok s LStopSkip = None /\ step sl validated mux_ok s (LStopCallS sid) <> None.
Proof. exact stop_reaches_live_server. Qed.

Print Assumptions C14_no_new.
Print Assumptions C14_zero_drain.
Print Assumptions C14_stop_reaches_live_server.
Print Assumptions C14_check_sound.
Print Assumptions C14_complete.
Print Assumptions C14_prompt.
Print Assumptions C14_bounded.
Print Assumptions C14_bounded_progress.

(* ---- non-vacuity: drain 300 ms, polling gap 20 ms; one request of 100 ms, one of 500 ms ---- *)
Definition c14_short : list dlabel :=
  [DNewReq 0 100; DTick 10; DShutStart; DDial false; DTick 90; DFinish 0; DTick 15; DShutRetOk].
Example C14_ex_short_completes :
  exists s, run (dstep 300 20) dinit c14_short = Some s /\ sd_ret s = Some (115, true) /\ sd_start s = Some 10 /\
            all_done (reqs s) = true.
Proof. eexists. split; [vm_compute; reflexivity|]. repeat split. Qed.

Definition c14_long : list dlabel :=
  [DNewReq 0 100; DNewReq 1 500; DShutStart; DTick 100; DFinish 0; DTick 200; DShutRetTimeout].
Example C14_ex_long_times_out :
  exists s, run (dstep 300 20) dinit c14_long = Some s /\ sd_ret s = Some (300, false) /\
            map q_done (reqs s) = [false; true].
Proof. eexists. split; [vm_compute; reflexivity|]. repeat split. Qed.

(* time cannot run past a finishing request, nor past the deadline *)
Example C14_ex_urgent : run (dstep 300 20) dinit [DNewReq 0 100; DShutStart; DTick 101] = None.
Proof. vm_compute. reflexivity. Qed.
Example C14_ex_deadline : run (dstep 300 20) dinit [DNewReq 0 500; DShutStart; DTick 301] = None.
Proof. vm_compute. reflexivity. Qed.

(* the outcome predicate used by the correspondence check accepts these two outcomes and rejects wrong ones *)
Example C14_ex_check_ok : drain_check 300 20 0 0 [90] true 105 [true] = true.
Proof. vm_compute. reflexivity. Qed.
Example C14_ex_check_timeout : drain_check 300 20 0 0 [100; 500] false 300 [true; false] = true.
Proof. vm_compute. reflexivity. Qed.
Example C14_ex_check_rejects_late : drain_check 300 20 40 150 [90] true 320 [true] = false.
Proof. vm_compute. reflexivity. Qed.
Example C14_ex_check_rejects_cut : drain_check 300 20 40 150 [100; 500] false 300 [false; false] = false.
Proof. vm_compute. reflexivity. Qed.

(* DrainTimeout 0 with a request in flight: the only continuation after the call is the immediate return *)
Example C14_ex_zero_drain :
  exists s, run (dstep 0 20) dinit [DNewReq 0 300; DShutStart; DShutRetTimeout] = Some s /\ sd_ret s = Some (0, false).
Proof. eexists. split; [vm_compute; reflexivity|reflexivity]. Qed.
Example C14_ex_zero_drain_no_wait : run (dstep 0 20) dinit [DNewReq 0 300; DShutStart; DTick 1] = None.
Proof. vm_compute. reflexivity. Qed.
Example C14_ex_check_zero_drain_rejects_wait : drain_check 0 400 40 150 [298] true 305 [true] = false.
Proof. vm_compute. reflexivity. Qed.
