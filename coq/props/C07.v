(* C07 -- Stop() returns only after the Run() it targets has returned, in every ordering and cycle.
   Model: coq/model/Lifecycle.v ([step false] = supervisor/lifecycle/startstop.go as it is,
   [step true] = the candidate repair repair/c07-generation.patch).  A schedule is a label list;
   the number of Stop callers (LSpawn) and of Run cycles (LRunStart) is unbounded.
   This file contains only statements; every proof is `exact <lemma>`.

   [c_tgt c]  = generation current at the caller's first critical section: the Run it targets is
                cycle number [c_tgt c]  ([cyc_at (cycles s) (c_tgt c)]).
   [c_span c] = ghost, true iff the caller's second critical section ran (code as it is) in a
                later generation than its first -- finding F14, key stop-spans-cycle-reset
                (characterised by C07_span_is_exactly_that_shape). *)
From Coq Require Import List Arith Bool.
From GS Require Import Lifecycle LifecycleInv LifecycleStep LifecycleMain.
Import ListNotations.

(* ---------- the code as it is: refutation, and the statements under the hypothesis that
              excludes exactly the refuting shape ---------- *)

(* Witness: Stop's first section in cycle 0, cycle 0 ends, cycle 1 starts (reset), Stop's second
   section.  The caller is then parked on cycle 1's doneCh; cycle 1's stopCh is open; the Run it
   targeted has returned; none of its own labels and none of Run's reactions to a stop signal is
   enabled. *)
Theorem C07_signalled_progress_refuted :
  exists s, run false init f14_schedule = Some s /\ f14_bad s.
Proof. exact refuted. Qed.

Theorem C07_span_is_exactly_that_shape : forall fx s l s' k c',
  step fx s l = Some s' -> nth_error (callers s') k = Some c' -> c_span c' = true ->
  (exists c, nth_error (callers s) k = Some c /\ c_span c = true) \/
  (fx = false /\ l = LSec2 k /\
   exists c, nth_error (callers s) k = Some c /\ c_pc c = PastStarted /\ c_tgt c <> gen s /\
             c_tgt c' = c_tgt c).
Proof. exact span_only_sec2. Qed.

(* a returned caller's targeted Run cycle has started and finished *)
Theorem C07_after_run : forall fx sched s k c,
  run fx init sched = Some s -> nth_error (callers s) k = Some c ->
  c_pc c = Returned -> c_span c = false ->
  exists cy, cyc_at (cycles s) (c_tgt c) = Some cy /\ cy_pc cy = Finished.
Proof. exact after_run. Qed.

(* a caller at (or parked in) <-doneCh waits on the doneCh of the cycle it targets, and the
   stopCh that cycle's select reads is closed *)
Theorem C07_signalled : forall fx sched s k c d,
  run fx init sched = Some s -> nth_error (callers s) k = Some c ->
  c_pc c = AfterSec2 d -> c_span c = false ->
  exists cy, cyc_at (cycles s) (c_tgt c) = Some cy /\ cy_done cy = d /\
             is_closed s (cy_stop cy) = true.
Proof. exact signalled. Qed.

(* no caller is ever stuck: one of its own labels, or Run being invoked for the generation it
   targets (only if that Run has not started), or that Run reacting to the stop signal / calling
   done(), is enabled and strictly decreases the caller's measure *)
Theorem C07_progress : forall fx sched s k c,
  run fx init sched = Some s -> nth_error (callers s) k = Some c ->
  c_pc c <> Returned -> c_span c = false ->
  exists l s' c',
    In l (helpful k) /\ step fx s l = Some s' /\ nth_error (callers s') k = Some c' /\
    measure s' c' < measure s c /\
    (l = LRunStart -> cyc_at (cycles s) (c_tgt c) = None).
Proof. exact progress. Qed.

(* last cycle finished, none in progress: any caller returns with at most four labels of its own *)
Theorem C07_immediate : forall fx sched s k c c0 t,
  run fx init sched = Some s -> cycles s = c0 :: t -> cy_pc c0 = Finished ->
  nth_error (callers s) k = Some c ->
  exists own s' c',
    Forall (fun l => In l (own_labels k)) own /\ length own <= 4 /\
    run fx s own = Some s' /\ nth_error (callers s') k = Some c' /\ c_pc c' = Returned.
Proof. exact immediate. Qed.

(* ---------- the repaired code: the full statements ---------- *)
Theorem C07_repaired_never_spans : forall sched s c,
  run true init sched = Some s -> In c (callers s) -> c_span c = false.
Proof. exact nospan_fixed. Qed.

Theorem C07_after_run_repaired : forall sched s k c,
  run true init sched = Some s -> nth_error (callers s) k = Some c -> c_pc c = Returned ->
  exists cy, cyc_at (cycles s) (c_tgt c) = Some cy /\ cy_pc cy = Finished.
Proof. exact after_run_fixed. Qed.

Theorem C07_signalled_repaired : forall sched s k c d,
  run true init sched = Some s -> nth_error (callers s) k = Some c -> c_pc c = AfterSec2 d ->
  exists cy, cyc_at (cycles s) (c_tgt c) = Some cy /\ cy_done cy = d /\
             is_closed s (cy_stop cy) = true.
Proof. exact signalled_fixed. Qed.

Theorem C07_progress_repaired : forall sched s k c,
  run true init sched = Some s -> nth_error (callers s) k = Some c -> c_pc c <> Returned ->
  exists l s' c',
    In l (helpful k) /\ step true s l = Some s' /\ nth_error (callers s') k = Some c' /\
    measure s' c' < measure s c /\
    (l = LRunStart -> cyc_at (cycles s) (c_tgt c) = None).
Proof. exact progress_fixed. Qed.

Theorem C07_repaired_on_witness : exists s c,
  run true init f14_schedule = Some s /\ nth_error (callers s) 0 = Some c /\ c_pc c = Returned.
Proof. exact repaired_on_witness. Qed.

Print Assumptions C07_signalled_progress_refuted.
Print Assumptions C07_span_is_exactly_that_shape.
Print Assumptions C07_after_run.
Print Assumptions C07_signalled.
Print Assumptions C07_progress.
Print Assumptions C07_immediate.
Print Assumptions C07_repaired_never_spans.
Print Assumptions C07_after_run_repaired.
Print Assumptions C07_signalled_repaired.
Print Assumptions C07_progress_repaired.
Print Assumptions C07_repaired_on_witness.

(* ---------- non-vacuity: the hypotheses are met by concrete schedules ---------- *)
(* Stop during Run, returned, not spanned: C07_after_run's hypotheses hold *)
Example C07_ex_returned : exists s c,
  run false init [LSpawn; LRunStart; LSec1 0; LWaitStarted 0; LRunSeeStop; LSec2 0; LDone; LWaitDone 0] = Some s /\
  nth_error (callers s) 0 = Some c /\ c_pc c = Returned /\ c_span c = false.
Proof. eexists. eexists. split; [vm_compute; reflexivity|]. split; [vm_compute; reflexivity|]. split; reflexivity. Qed.

(* Stop during Run, parked in <-doneCh (not closed), not spanned: C07_signalled / C07_progress *)
Example C07_ex_parked_done : exists s c d,
  run false init [LSpawn; LRunStart; LSec1 0; LWaitStarted 0; LSec2 0] = Some s /\
  nth_error (callers s) 0 = Some c /\ c_pc c = AfterSec2 d /\ c_span c = false /\
  is_closed s d = false.
Proof.
  eexists. eexists. eexists. split; [vm_compute; reflexivity|]. split; [vm_compute; reflexivity|].
  split; [reflexivity|]. split; [reflexivity | vm_compute; reflexivity].
Qed.

(* Stop before Run: parked in <-startedCh, the only helpful enabled label is LRunStart *)
Example C07_ex_stop_before_run : exists s c ch,
  run false init [LSpawn; LSec1 0] = Some s /\ nth_error (callers s) 0 = Some c /\
  c_pc c = AfterSec1 ch /\ is_closed s ch = false /\
  filter (enabledb false s) (helpful 0) = [LRunStart].
Proof.
  eexists. eexists. eexists. split; [vm_compute; reflexivity|]. split; [vm_compute; reflexivity|].
  split; [reflexivity|]. split; vm_compute; reflexivity.
Qed.

(* two callers, two cycles, a late caller after the last Run finished: C07_immediate's hypotheses *)
Example C07_ex_immediate : exists s c0 t c,
  run false init [LRunStart; LRunExitOther; LDone; LRunStart; LRunExitOther; LDone; LSpawn; LSpawn; LSec1 1] = Some s /\
  cycles s = c0 :: t /\ cy_pc c0 = Finished /\ nth_error (callers s) 0 = Some c /\ c_pc c = Enter.
Proof.
  eexists. eexists. eexists. eexists. split; [vm_compute; reflexivity|].
  split; [reflexivity|]. split; [reflexivity|]. split; reflexivity.
Qed.

(* the spanned shape exists in the code as it is (so the hypothesis c_span = false is not void),
   and the caller of the witness does return once cycle 1 ends for another reason *)
Example C07_ex_spanned_returns_late : exists s c,
  run false init (f14_schedule ++ [LRunExitOther; LDone; LWaitDone 0]) = Some s /\
  nth_error (callers s) 0 = Some c /\ c_pc c = Returned /\ c_span c = true /\ c_tgt c = 0.
Proof.
  eexists. eexists. split; [vm_compute; reflexivity|]. split; [vm_compute; reflexivity|].
  split; [reflexivity|]. split; reflexivity.
Qed.
