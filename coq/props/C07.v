(* C07 -- Stop() returns only after the Run() it targets has returned, in every ordering and cycle.
   Model: coq/model/Lifecycle.v.  [step true] = supervisor/lifecycle/startstop.go as it is in /repo
   (with the generation counter of fix b0569e6); [step false] = the code before that fix, kept
   only for the legacy refutation.  A schedule is a label list; the number of Stop callers
   (LSpawn) and of Run cycles (LRunStart) is unbounded.
   This file contains only statements; every proof is `exact <lemma>`.

   [c_tgt c] = generation current at the caller's first critical section: the Run this Stop targets
               is cycle number [c_tgt c]  ([cyc_at (cycles s) (c_tgt c)]).
   [c_pc c]  = Enter | AfterSec1 startedCh | PastStarted | AfterSec2 doneCh | Returned. *)
From Coq Require Import List Arith Bool.
From GS Require Import Lifecycle LifecycleInv LifecycleStep LifecycleMain LifecycleMono LifecycleMeasure
                       LifecycleRunner LifecycleRunnerProofs RunnerShape.
Import ListNotations.

(* ---------- the lifecycle helper ---------- *)

(* a returned Stop's targeted Run cycle has started and finished *)
Theorem C07_after_run : forall sched s k c,
  run true init sched = Some s -> nth_error (callers s) k = Some c -> c_pc c = Returned ->
  exists cy, cyc_at (cycles s) (c_tgt c) = Some cy /\ cy_pc cy = Finished.
Proof. exact after_run_fixed. Qed.

(* a Stop at (or parked in) <-doneCh waits on the doneCh of the cycle it targets, and the stopCh
   that cycle's select reads is closed *)
Theorem C07_signalled : forall sched s k c d,
  run true init sched = Some s -> nth_error (callers s) k = Some c -> c_pc c = AfterSec2 d ->
  exists cy, cyc_at (cycles s) (c_tgt c) = Some cy /\ cy_done cy = d /\
             is_closed s (cy_stop cy) = true.
Proof. exact signalled_fixed. Qed.

(* no Stop is ever stuck: one of its own labels, or Run being invoked for the generation it targets
   (only if that Run has not started), or that Run reacting to the stop signal / calling done(),
   is enabled and strictly decreases the caller's measure *)
Theorem C07_progress : forall sched s k c,
  run true init sched = Some s -> nth_error (callers s) k = Some c -> c_pc c <> Returned ->
  exists l s' c',
    In l (helpful k) /\ step true s l = Some s' /\ nth_error (callers s') k = Some c' /\
    measure s' c' < measure s c /\
    (l = LRunStart -> cyc_at (cycles s) (c_tgt c) = None).
Proof. exact progress_fixed. Qed.

(* ... and no label whatsoever increases it (so at most measure <= 8 helpful steps are needed) *)
Theorem C07_measure_monotone : forall fx s l s' k c c',
  step fx s l = Some s' -> nth_error (callers s) k = Some c -> nth_error (callers s') k = Some c' ->
  measure s' c' <= measure s c.
Proof. exact measure_mono. Qed.

(* last cycle finished, none in progress: any Stop returns with at most four labels of its own *)
Theorem C07_immediate : forall sched s k c c0 t,
  run true init sched = Some s -> cycles s = c0 :: t -> cy_pc c0 = Finished ->
  nth_error (callers s) k = Some c ->
  exists own s' c',
    Forall (fun l => In l (own_labels k)) own /\ length own <= 4 /\
    run true s own = Some s' /\ nth_error (callers s') k = Some c' /\ c_pc c' = Returned.
Proof. exact (immediate true). Qed.

(* ---------- the fairness-free part of "never blocks forever once Run has been invoked" ---------- *)
(* [owed l]: l is a critical section / satisfied wait of a Stop caller, Run's select taking the StopCh case, or the
   deferred done() -- what the helper and a Run that honours the signal owe; the rest (a new Stop caller, Run being
   invoked, Run leaving for a reason of its own) is the environment.
   In every reachable state where no owed label is enabled, a Stop() that has not returned targets a Run that was
   NEVER INVOKED: a maximal execution of the owed labels ends with every other Stop() returned. *)
Theorem C07_stuck_returned : forall sched s k c,
  run true init sched = Some s -> owed_stuck true s ->
  nth_error (callers s) k = Some c -> c_pc c <> Returned ->
  cyc_at (cycles s) (c_tgt c) = None.
Proof. exact stuck_returned. Qed.

(* ... and such executions are finite: a measure of the whole state strictly decreases on every owed label,
   grows by at most 4 on an environment label, and bounds the length of any run of owed labels *)
Theorem C07_gmeasure_decreases : forall fx s l s',
  owed l = true -> step fx s l = Some s' -> gmeasure s' < gmeasure s.
Proof. exact gmeasure_decreases. Qed.

Theorem C07_gmeasure_env : forall fx s l s', step fx s l = Some s' -> gmeasure s' <= gmeasure s + 4.
Proof. exact gmeasure_env. Qed.

Theorem C07_owed_run_bounded : forall fx ls s s',
  Forall (fun l => owed l = true) ls -> run fx s ls = Some s' -> length ls + gmeasure s' <= gmeasure s.
Proof. exact owed_run_bounded. Qed.

(* ---------- the bundled runnables built on it (composite, HTTP server, HTTP cluster) ---------- *)

(* Source facts, regenerated from the repo on every run (coq/gen/RunnerShape.v): for each of the
   three runners, Run begins with `done := r.lc.Started(); defer done()`, has a select with
   `case <-r.lc.StopCh()`, Stop is exactly `r.lc.Stop()`, and lc is used nowhere else -- i.e. each is
   an instance of the skeleton of LifecycleRunner.v. *)
Theorem C07_runners_shape : all_ok RunnerShape.shapes = true.
Proof. vm_compute. reflexivity. Qed.

(* every schedule of the skeleton is a schedule of the lifecycle model *)
Theorem C07_runners_simulation : forall rsched rs,
  rrun rinit rsched = Some rs -> run true init (flat_map proj rsched) = Some (r_lc rs).
Proof. exact runner_reachable. Qed.

Theorem C07_runners_after_run : forall rsched rs k c,
  rrun rinit rsched = Some rs -> nth_error (callers (r_lc rs)) k = Some c -> c_pc c = Returned ->
  exists cy, cyc_at (cycles (r_lc rs)) (c_tgt c) = Some cy /\ cy_pc cy = Finished.
Proof. exact runner_after_run. Qed.

Theorem C07_runners_signalled : forall rsched rs k c d,
  rrun rinit rsched = Some rs -> nth_error (callers (r_lc rs)) k = Some c -> c_pc c = AfterSec2 d ->
  exists cy, cyc_at (cycles (r_lc rs)) (c_tgt c) = Some cy /\ cy_done cy = d /\
             is_closed (r_lc rs) (cy_stop cy) = true.
Proof. exact runner_signalled. Qed.

(* a parked Stop() of a runner can rely on: its own steps, Run being called, boot finishing, the
   select taking the StopCh case, Run returning -- one of them is enabled and decreases rmeasure *)
Theorem C07_runners_progress : forall rsched rs k c,
  rrun rinit rsched = Some rs -> nth_error (callers (r_lc rs)) k = Some c -> c_pc c <> Returned ->
  exists rl rs' c',
    In rl (rhelpful k) /\ rstep rs rl = Some rs' /\ nth_error (callers (r_lc rs')) k = Some c' /\
    rmeasure rs' c' < rmeasure rs c.
Proof. exact runner_progress. Qed.

Theorem C07_runners_immediate : forall rsched rs k c,
  rrun rinit rsched = Some rs -> r_pc rs = KIdle -> cycles (r_lc rs) <> [] ->
  nth_error (callers (r_lc rs)) k = Some c ->
  exists own rs' c',
    Forall (fun l => In l (own_labels k)) own /\ length own <= 4 /\
    rrun rs (map RCaller own) = Some rs' /\ r_pc rs' = KIdle /\
    nth_error (callers (r_lc rs')) k = Some c' /\ c_pc c' = Returned.
Proof. exact runner_immediate. Qed.

(* ---------- legacy: the code before fix b0569e6 ([step false]) ---------- *)
(* Witness: Stop's first section in cycle 0, cycle 0 ends, cycle 1 starts (reset), Stop's second
   section.  The caller is then parked on cycle 1's doneCh; cycle 1's stopCh is open; the Run it
   targeted has returned; none of its own labels and none of Run's reactions to a stop signal is
   enabled.  (F14; the witness is a regression case in corpus/C07.) *)
Theorem C07_legacy_signalled_progress_refuted :
  exists s, run false init f14_schedule = Some s /\ f14_bad s.
Proof. exact refuted. Qed.

(* the same schedule on the code as it is: the caller has returned *)
Theorem C07_legacy_witness_now_returns : exists s c,
  run true init f14_schedule = Some s /\ nth_error (callers s) 0 = Some c /\ c_pc c = Returned.
Proof. exact repaired_on_witness. Qed.

Print Assumptions C07_after_run.
Print Assumptions C07_signalled.
Print Assumptions C07_progress.
Print Assumptions C07_measure_monotone.
Print Assumptions C07_immediate.
Print Assumptions C07_stuck_returned.
Print Assumptions C07_gmeasure_decreases.
Print Assumptions C07_gmeasure_env.
Print Assumptions C07_owed_run_bounded.
Print Assumptions C07_runners_shape.
Print Assumptions C07_runners_simulation.
Print Assumptions C07_runners_after_run.
Print Assumptions C07_runners_signalled.
Print Assumptions C07_runners_progress.
Print Assumptions C07_runners_immediate.
Print Assumptions C07_legacy_signalled_progress_refuted.
Print Assumptions C07_legacy_witness_now_returns.

(* ---------- non-vacuity: the hypotheses are met by concrete schedules ---------- *)
(* Stop during Run, returned: C07_after_run's hypotheses hold *)
Example C07_ex_returned : exists s c,
  run true init [LSpawn; LRunStart; LSec1 0; LWaitStarted 0; LRunSeeStop; LSec2 0; LDone; LWaitDone 0] = Some s /\
  nth_error (callers s) 0 = Some c /\ c_pc c = Returned.
Proof. eexists. eexists. split; [vm_compute; reflexivity|]. split; [vm_compute; reflexivity|]. reflexivity. Qed.

(* Stop during Run, parked in <-doneCh (not closed): C07_signalled / C07_progress *)
Example C07_ex_parked_done : exists s c d,
  run true init [LSpawn; LRunStart; LSec1 0; LWaitStarted 0; LSec2 0] = Some s /\
  nth_error (callers s) 0 = Some c /\ c_pc c = AfterSec2 d /\ is_closed s d = false.
Proof.
  eexists. eexists. eexists. split; [vm_compute; reflexivity|]. split; [vm_compute; reflexivity|].
  split; [reflexivity | vm_compute; reflexivity].
Qed.

(* Stop before Run: parked in <-startedCh, the only helpful enabled label is LRunStart *)
Example C07_ex_stop_before_run : exists s c ch,
  run true init [LSpawn; LSec1 0] = Some s /\ nth_error (callers s) 0 = Some c /\
  c_pc c = AfterSec1 ch /\ is_closed s ch = false /\
  filter (enabledb true s) (helpful 0) = [LRunStart].
Proof.
  eexists. eexists. eexists. split; [vm_compute; reflexivity|]. split; [vm_compute; reflexivity|].
  split; [reflexivity|]. split; vm_compute; reflexivity.
Qed.

(* two cycles finished, a late caller: C07_immediate's hypotheses *)
Example C07_ex_immediate : exists s c0 t c,
  run true init [LRunStart; LRunExitOther; LDone; LRunStart; LRunExitOther; LDone; LSpawn; LSpawn; LSec1 1] = Some s /\
  cycles s = c0 :: t /\ cy_pc c0 = Finished /\ nth_error (callers s) 0 = Some c /\ c_pc c = Enter.
Proof.
  eexists. eexists. eexists. eexists. split; [vm_compute; reflexivity|].
  split; [reflexivity|]. split; [reflexivity|]. split; reflexivity.
Qed.

(* a runner schedule: Stop called while the runner boots; boot finishes, the select sees the signal,
   teardown, return; Stop returns *)
Example C07_ex_runner : exists rs c,
  rrun rinit [RCaller LSpawn; RRunCall; RLocal; RCaller (LSec1 0); RCaller (LWaitStarted 0);
              RCaller (LSec2 0); RBootOk; RSelStop; RLocal; RReturn; RCaller (LWaitDone 0)] = Some rs /\
  r_pc rs = KIdle /\ nth_error (callers (r_lc rs)) 0 = Some c /\ c_pc c = Returned.
Proof. eexists. eexists. split; [vm_compute; reflexivity|]. split; [reflexivity|]. split; [vm_compute; reflexivity | reflexivity]. Qed.

(* all hypotheses of C07_stuck_returned at once: Stop before any Run -- the state is owed-stuck, the caller has not
   returned, and indeed the Run it targets (generation 0) was never invoked *)
Example C07_ex_stuck_before_run : exists s c,
  run true init [LSpawn; LSec1 0] = Some s /\ owed_stuck true s /\
  nth_error (callers s) 0 = Some c /\ c_pc c <> Returned /\ cyc_at (cycles s) (c_tgt c) = None.
Proof.
  eexists. eexists. split; [vm_compute; reflexivity|]. split.
  - intros l Hl. destruct l; try discriminate Hl; try reflexivity;
      destruct k as [|[|k]]; reflexivity.
  - split; [vm_compute; reflexivity|]. split; [discriminate | reflexivity].
Qed.

(* a complete Stop-during-Run execution consists of owed labels after the two environment ones, ends owed-stuck with
   the caller returned, and its length obeys C07_owed_run_bounded (6 owed labels, measure 6 -> 0) *)
Example C07_ex_owed_run : exists s0 s1,
  run true init [LSpawn; LRunStart] = Some s0 /\ gmeasure s0 = 6 /\
  run true s0 [LSec1 0; LWaitStarted 0; LRunSeeStop; LSec2 0; LDone; LWaitDone 0] = Some s1 /\ gmeasure s1 = 0.
Proof. eexists. eexists. repeat split; vm_compute; reflexivity. Qed.
