(* C03 - Supervisor: readiness-gated startup order and clean abort on startup failure.
   Statements only; every proof is `exact <lemma>`.  The statements are about every schedule
   (label list) of the supervisor model, any number and mix of runnables. *)
From Coq Require Import List Bool Arith.
From GS Require Import LTS Supervisor SupAccept SupProps SupInv SupTrig SupGate SupResult SupPending.
Import ListNotations.

(* No later runnable's Run is invoked until every Stateable runnable registered before it has
   answered IsRunning()==true, unless the trace shows the supervisor's context was cancelled
   (parent cancelled, or the supervisor's own cancel after the last Stop() returned). *)
Theorem C03_gate : forall c ls s,
  run (step c) (init c) ls = Some s -> c03_gate c (obs_trace obs ls) = true.
Proof. exact sup_c03_gate. Qed.

(* Each runnable's Run is invoked at most once. *)
Theorem C03_once : forall c ls s,
  run (step c) (init c) ls = Some s -> c03_once c (obs_trace obs ls) = true.
Proof. exact sup_c03_once. Qed.

(* Clean abort: once Run() has left its start-up loop (a gate failed, the launch gate was closed by
   a shutdown, or start-up completed) no further runnable is ever started, on any continuation. *)
Theorem C03_abort : forall c s ls s',
  past_startup s -> run (step c) s ls = Some s' -> launched s' = launched s.
Proof. exact sup_c03_abort. Qed.

(* ... and the result of Run() is an error some runnable's Run really returned or the start-up timeout
   (provenance on traces; see also C04) ... *)
Theorem C03_abort_result : forall c ls s,
  run (step c) (init c) ls = Some s -> c04_holdsb c (obs_trace obs ls) = true.
Proof. exact sup_c04_result. Qed.

(* ... more precisely Run() returns THAT error: when a readiness wait ends with a failure taken from the error
   queue (gate_fail_label j l: the select took errorChan - LGateErr j -, or the runnable reported ready / the
   context was cancelled and a failure was already queued - LGateDecide j, LGateCtx j), the error taken is the
   head e of the queue, some runnable's Run really returned it (not a cancellation), Run() has fixed exactly e as
   its result, no further runnable is started on any continuation, and whenever Run() has returned it returned e.
   (For the start-up timeout: C03_startup_timeout_aborts.) *)
Theorem C03_abort_returns_that_error : forall c s j l e q s1 ls s2,
  reachable_sup c s -> gate_fail_label j l -> errq s = e :: q -> step c s l = Some s1 ->
  run (step c) s1 ls = Some s2 ->
  main s1 = MExit (ResErr e) /\ errq s1 = q /\ In e (real_error_ids (rev (hist s))) /\
  launched s2 = launched s /\ main_res (main s2) = Some (ResErr e) /\
  (forall r, main s2 = MReturned r -> r = ResErr e).
Proof. exact sup_c03_abort_returns_that_error. Qed.

Print Assumptions C03_gate.
Print Assumptions C03_once.
Print Assumptions C03_abort.
Print Assumptions C03_abort_result.
Print Assumptions C03_abort_returns_that_error.

(* non-vacuity: a concrete schedule in which a gate opens and the next runnable starts *)
Definition c03_cfg : config :=
  {| specs := [ {| stateable := true; reloadable := false; rsender := false; ssender := false;
                   stop_style := StopNonBlocking; run_exit := ExitOnSignal; held_sub := false |};
                dflt_spec ];
     startup_may_fire := false; shutdown_may_fire := false |}.
Example C03_ex_schedule :
  exists s, run (step c03_cfg) (init c03_cfg)
              [LRunEnter; LRunEntered; LLaunch 0; LRunStore 0; LRunCall 0; LPoll 0 false; LPoll 0 true; LGateDecide 0; LLaunch 1; LRunCall 1] = Some s
            /\ obs_trace obs [LRunEnter; LRunEntered; LLaunch 0; LRunStore 0; LRunCall 0; LPoll 0 false; LPoll 0 true; LGateDecide 0; LLaunch 1; LRunCall 1]
               = [ERunEnter; ERunCall 0; EPoll 0 false; EPoll 0 true; ERunCall 1].
Proof. eexists. split; vm_compute; reflexivity. Qed.
(* non-vacuity of C03_abort_returns_that_error: two failures are queued (7 before 8) while Run() is inside a slow
   IsRunning() of runnable 2's gate; the gate takes the HEAD, 7; Run() returns 7 *)
Definition c03_two_cfg : config :=
  {| specs := [ {| stateable := false; reloadable := false; rsender := false; ssender := false;
                   stop_style := StopNonBlocking; run_exit := ExitFree; held_sub := false |};
                {| stateable := false; reloadable := false; rsender := false; ssender := false;
                   stop_style := StopNonBlocking; run_exit := ExitFree; held_sub := false |};
                {| stateable := true; reloadable := false; rsender := false; ssender := false;
                   stop_style := StopNonBlocking; run_exit := ExitOnSignal; held_sub := false |} ];
     startup_may_fire := false; shutdown_may_fire := false |}.
Definition c03_two_pre : list label :=
  [LRunEnter; LRunEntered; LLaunch 0; LRunCall 0; LLaunch 1; LRunCall 1; LLaunch 2; LRunStore 2; LRunCall 2; LPollBegin 2;
   LRunRet 0 (Some (7, false)); LErrSend 0; LRunRet 1 (Some (8, false)); LErrSend 1; LPoll 2 false].
Definition c03_two_post : list label :=
  [LMainShutdown; LStopCall 2; LRunRet 2 None; LStopRet 2; LStopCall 1; LStopRet 1; LStopCall 0; LStopRet 0; LSdCancel;
   LStmExit; LSdWgDone; LMainReturn (ResErr 7)].
Example C03_ex_that_error :
  exists s s1 s2, run (step c03_two_cfg) (init c03_two_cfg) c03_two_pre = Some s /\ errq s = [7; 8] /\
                  gate_fail_label 2 (LGateErr 2) /\ step c03_two_cfg s (LGateErr 2) = Some s1 /\
                  run (step c03_two_cfg) s1 c03_two_post = Some s2 /\ main s2 = MReturned (ResErr 7).
Proof.
  eexists. eexists. eexists. split; [vm_compute; reflexivity|]. split; [vm_compute; reflexivity|].
  split; [now left|]. split; [vm_compute; reflexivity|]. split; vm_compute; reflexivity.
Qed.
(* ... and the monitor rejects a trace in which the second Run starts before readiness *)
Example C03_ex_rejects : c03_gate c03_cfg [ERunCall 0; EPoll 0 false; ERunCall 1] = false.
Proof. vm_compute. reflexivity. Qed.

(* ---- the "pending error" clause (fix 8eb6141 and the pending-on-cancel repair) ---- *)

(* On EVERY schedule: once a runnable's Run has returned a real error and the system has then been
   observed quiescent (so the failure is queued or already taken by Run()), no runnable's Run is
   ever invoked again - whether or not the supervisor's context is cancelled meanwhile. *)
Theorem C03_pending : forall c ls s,
  run (step c) (init c) ls = Some s -> c03_pending c (obs_trace obs ls) = true.
Proof. exact sup_c03_pending. Qed.

(* The gate itself: while a failure is queued, no step of any goroutine - not even Main leaving its
   readiness wait because the context was cancelled - opens a readiness gate: Main stays at the gate
   with the failure still queued or fixes its result (and then never starts anything: C03_abort),
   and no runnable is started. *)
Theorem C03_pending_gate : forall c s l s',
  at_gate s -> errq s <> [] -> step c s l = Some s' ->
  ((at_gate s' /\ errq s' <> []) \/ decided s') /\ launched s' = launched s.
Proof. exact sup_c03_pending_gate. Qed.

(* A quiescent state after some runnable returned a real error: no launched goroutine is still on its
   way to call Run (waiting p := p = RnLaunched \/ p = RnStored),
   and Main has fixed its result or is inside a slow IsRunning() call with the failure queued. *)
Theorem C03_pending_quiescent : forall c s,
  0 < nrun c -> reachable_sup c s -> quiescent c s = true -> real_in (hist s) = true ->
  (forall i, ~ waiting (rn_at s i)) /\ (decided s \/ (errq s <> [] /\ at_gate s)).
Proof. exact sup_c03_pending_quiescent. Qed.

(* The start-up timeout: one timer per readiness wait (armed when the wait begins; the model is untimed: the step
   LGateTimeout j is enabled from then on whenever Run() is not inside a slow IsRunning() call - the real-time side,
   that the deadline is NOT re-armed by every poll, is checked by the timed harness family gatetimed).  Once it has
   fired at gate j, no further runnable is started on any continuation and Run() returns the start-up timeout error. *)
Theorem C03_startup_timeout_aborts : forall c s j s1 ls s2,
  step c s (LGateTimeout j) = Some s1 -> run (step c) s1 ls = Some s2 ->
  main s = MGate j /\ startup_may_fire c = true /\ su_fired (aux s1) = true /\
  launched s2 = launched s /\ main_res (main s2) = Some ResTimeout /\
  (forall r, main s2 = MReturned r -> r = ResTimeout).
Proof. exact sup_c03_startup_timeout_aborts. Qed.

Print Assumptions C03_pending.
Print Assumptions C03_pending_gate.
Print Assumptions C03_pending_quiescent.
Print Assumptions C03_startup_timeout_aborts.

(* non-vacuity: the deadline fires while runnable 0 is not ready; runnable 1 is never started; Run() returns the
   start-up timeout error after stopping runnable 0 *)
Definition c03_to_cfg : config :=
  {| specs := specs c03_cfg; startup_may_fire := true; shutdown_may_fire := false |}.
Definition c03_to_pre : list label := [LRunEnter; LRunEntered; LLaunch 0; LRunStore 0; LRunCall 0; LPoll 0 false].
Definition c03_to_post : list label :=
  [LMainShutdown; LStopCall 0; LRunRet 0 None; LStopRet 0; LSdCancel; LStmExit; LSdWgDone; LMainReturn ResTimeout].
Example C03_ex_startup_timeout :
  exists s s1 s2, run (step c03_to_cfg) (init c03_to_cfg) c03_to_pre = Some s /\
                  step c03_to_cfg s (LGateTimeout 0) = Some s1 /\
                  run (step c03_to_cfg) s1 c03_to_post = Some s2 /\
                  main s2 = MReturned ResTimeout /\ launched s2 = 1 /\ rn_at s2 1 = RnNot.
Proof.
  eexists. eexists. eexists. split; [vm_compute; reflexivity|]. split; [vm_compute; reflexivity|].
  split; [vm_compute; reflexivity|]. repeat split; vm_compute; reflexivity.
Qed.

(* non-vacuity: runnable 0 became ready but failed before the gate looked: the gate does not open *)
Definition c03_pend_sched : list label :=
  [LRunEnter; LRunEntered; LLaunch 0; LRunStore 0; LRunCall 0; LMonSub 0; LMonRecv 0; LPollBegin 0; LRunRet 0 (Some (7, false)); LErrSend 0; LQuiet;
   LPoll 0 true].
Example C03_ex_pending_gate :
  exists s s', run (step pend_cfg) (init pend_cfg) c03_pend_sched = Some s /\
               main s = MGateCheck 0 /\ errq s = [7] /\
               step pend_cfg s (LGateDecide 0) = Some s' /\ main s' = MExit (ResErr 7).
Proof.
  eexists. eexists. split; [vm_compute; reflexivity|]. split; [vm_compute; reflexivity|].
  split; [vm_compute; reflexivity|]. split; vm_compute; reflexivity.
Qed.
Example C03_ex_pending_rejects :
  c03_pending pend_cfg [ERunCall 0; EPollBegin 0; ERunRet 0 (Some (7, false)); EQuiet; EPoll 0 true; ERunCall 1] = false.
Proof. vm_compute. reflexivity. Qed.
(* the schedule that refuted the clause before the repair (parent cancelled while the failure is
   queued, the readiness wait takes ctx.Done): the gate now returns the queued failure, runnable 1
   cannot be launched, and Run() returns error 7; the trace the old code produced is rejected *)
Example C03_ex_pending_cancelled :
  exists s1 s, run (step pend_cfg) (init pend_cfg) pend_prefix = Some s1 /\ main s1 = MExit (ResErr 7) /\
               step pend_cfg s1 (LLaunch 1) = None /\
               run (step pend_cfg) (init pend_cfg) pend_sched = Some s /\ main s = MReturned (ResErr 7) /\
               launched s = 1.
Proof. exact pend_sched_returns_error. Qed.
Example C03_ex_pending_old_trace_rejected :
  c03_pending pend_cfg
    [ERunCall 0; EPollBegin 0; ERunRet 0 (Some (7, false)); EQuiet; EParentCancel; EPoll 0 false; ERunCall 1] = false.
Proof. vm_compute. reflexivity. Qed.
