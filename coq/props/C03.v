(* C03 - Supervisor: readiness-gated startup order and clean abort on startup failure.
   Statements only; every proof is `exact <lemma>`.  The statements are about every schedule
   (label list) of the supervisor model, any number and mix of runnables. *)
From Coq Require Import List Bool Arith.
From GS Require Import LTS Supervisor SupAccept SupProps SupInv SupGate SupResult.
Import ListNotations.

(* No later runnable's Run is invoked until every Stateable runnable registered before it has
   answered IsRunning()==true, unless the trace shows the supervisor's context was cancelled
   (parent cancelled, or the supervisor's own cancel after the last Stop() returned). *)
Theorem C03_gate : forall c ls s,
  run (step c) (init c) ls = Some s -> c03_gate c (obs_trace obs ls) = true.
Proof. exact sup_c03_gate. Qed.

(* Each runnable's Run is invoked at most once. *)
Theorem C03_once : forall c ls s,
  run (step c) (init c) ls = Some s -> c03_once c (obs_trace obs ls) = true.
Proof. exact sup_c03_once. Qed.

(* Clean abort: once Run() has left its start-up loop (a gate failed, the launch gate was closed by
   a shutdown, or start-up completed) no further runnable is ever started, on any continuation. *)
Theorem C03_abort : forall c s ls s',
  past_startup s -> run (step c) s ls = Some s' -> launched s' = launched s.
Proof. exact sup_c03_abort. Qed.

(* ... and Run() then returns exactly the error that ended the gate, which is an error some
   runnable's Run really returned or the start-up timeout (see also C04). *)
Theorem C03_abort_result : forall c ls s,
  run (step c) (init c) ls = Some s -> c04_holdsb c (obs_trace obs ls) = true.
Proof. exact sup_c04_result. Qed.

Print Assumptions C03_gate.
Print Assumptions C03_once.
Print Assumptions C03_abort.
Print Assumptions C03_abort_result.

(* non-vacuity: a concrete schedule in which a gate opens and the next runnable starts *)
Definition c03_cfg : config :=
  {| specs := [ {| stateable := true; reloadable := false; rsender := false; ssender := false;
                   stop_style := StopNonBlocking; run_exit := ExitOnSignal; held_sub := false |};
                dflt_spec ];
     startup_may_fire := false; shutdown_may_fire := false |}.
Example C03_ex_schedule :
  exists s, run (step c03_cfg) (init c03_cfg)
              [LLaunch 0; LRunCall 0; LPoll 0 false; LPoll 0 true; LGateDecide 0; LLaunch 1; LRunCall 1] = Some s
            /\ obs_trace obs [LLaunch 0; LRunCall 0; LPoll 0 false; LPoll 0 true; LGateDecide 0; LLaunch 1; LRunCall 1]
               = [ERunCall 0; EPoll 0 false; EPoll 0 true; ERunCall 1].
Proof. eexists. split; vm_compute; reflexivity. Qed.
(* ... and the monitor rejects a trace in which the second Run starts before readiness *)
Example C03_ex_rejects : c03_gate c03_cfg [ERunCall 0; EPoll 0 false; ERunCall 1] = false.
Proof. vm_compute. reflexivity. Qed.
