(* C06 - Supervisor: state map converges to true runnable states; subscribers see it.
   Statements only. *)
From Coq Require Import List Bool Arith.
From GS Require Import LTS Supervisor SupAccept SupProps SupInv SupGate SupState SupFinal SupSubs SupEntry.
Import ListNotations.

(* While the supervisor is running (its context not cancelled), in EVERY quiescent state
   GetStateMap() holds, for every Stateable runnable whose Run has been invoked and whose state
   channel could be obtained, exactly the runnable's true current state - however late the monitor
   subscribed, for every emission history (duplicates, bursts), interleaved with reload passes and
   the stores done by startRunnable / the reload manager. *)
Theorem C06_converge : forall c s i,
  reachable_sup c s -> quiescent c s = true -> ctx_done s = false ->
  i < nrun c -> stateable (spec c i) = true -> ran (rn_at s i) ->
  get false (sub_ok (aux s)) i = true ->
  smap_at s i = Some (cur_at s i).
Proof. exact sup_c06_converge. Qed.

(* Consecutive identical states from a runnable cause no additional snapshot. *)
Theorem C06_dedupe : forall c s i v q s',
  mon_at s i = MoLoop (Some v) -> pend s i = v :: q -> step c s (LMonRecv i) = Some s' ->
  subs s' = subs s /\ smap s' = smap s /\ mon s' = mon s.
Proof. exact dedupe_no_snapshot. Qed.

(* A subscription channel is closed at most once, only after its context ended ... *)
Theorem C06_close_once : forall c s c0 s' b,
  step c s (LSubUnreg c0) = Some s' -> find_sub c0 (subs s) = Some b ->
  sub_closed b = false /\ sub_cancelled b = true.
Proof. exact close_once. Qed.

(* ... and it DOES get closed (the progress half of "exactly once"): for a subscription whose context has ended and
   whose channel is still open, the closer goroutine's step (LSubUnreg: unsubscribe, then close) is enabled as soon
   as SubscribeStateChanges has run (sub_started), and that set-up step (LSubDo) is enabled before; hence in every
   quiescent state every cancelled subscription's channel is closed. *)
Theorem C06_cancelled_gets_closed : forall c s c0 b,
  find_sub c0 (subs s) = Some b -> sub_cancelled b = true -> sub_closed b = false ->
  (sub_started b = true -> step c s (LSubUnreg c0) <> None) /\
  (sub_started b = false -> step c s (LSubDo c0) <> None).
Proof. exact sup_c06_cancelled_gets_closed. Qed.

Theorem C06_quiescent_closed : forall c s c0 b,
  quiescent c s = true -> find_sub c0 (subs s) = Some b -> sub_cancelled b = true -> sub_closed b = true.
Proof. exact sup_c06_quiescent_closed. Qed.

(* ... and a closed channel is never a broadcast target again (no send on a closed channel). *)
Theorem C06_no_send_on_closed : forall c s,
  reachable_sup c s -> forall b, In b (subs s) -> sub_closed b = true -> sub_registered b = false.
Proof. exact InvSubs_reachable. Qed.

(* After shutdown (the wait for the supervisor's goroutines completed, i.e. the shutdown timeout did not
   fire) the map reports, for every Stateable runnable that was stopped, the state Shutdown recorded when
   its Stop() returned - whatever a state monitor that was still catching up wrote in between.
   This is /repo after the repair of the former finding monitor-overwrites-final-state (Shutdown stores the
   recorded final states again once the monitors are gone). *)
Theorem C06_after_shutdown : forall c s i v,
  reachable_sup c s -> sd s = SdDone -> sd_timed_out s = false ->
  fin_at s i = Some v -> smap_at s i = Some v.
Proof. exact sup_c06_after_shutdown. Qed.

(* what is recorded is the runnable's state at the moment its Stop() returns ... *)
Theorem C06_final_is_state_at_stopret : forall c s i s',
  step c s (LStopRet i) = Some s' -> stateable (spec c i) = true -> i < length (finals (aux s)) ->
  fin_at s' i = Some (cur_at s i).
Proof. exact stopret_records. Qed.

(* ... it is also stored into the map at that very step (definitional), so the map is right from each Stop()
   return on.  When the shutdown timeout ENDS the wait (sd_timed_out = true) C06_after_shutdown does not apply:
   the stores after the wait are skipped (the monitors may still be running) and a monitor that was still
   catching up may have written an older value after this store - for such a shutdown only this step-level
   statement holds in general; the trace monitor C06.final checks the timed-out case for the entries that have
   no other writer (monitor never subscribed, not Reloadable: harness family timeoutfinal). *)
Theorem C06_stop_stores_state : forall c s i s',
  step c s (LStopRet i) = Some s' -> stateable (spec c i) = true -> i < length (smap s) ->
  smap_at s' i = Some (cur_at s i).
Proof. exact stopret_stores. Qed.

(* ... and nothing but a Stop() return ever changes a recorded value *)
Theorem C06_final_stable : forall c s l s' i v,
  step c s l = Some s' -> fin_at s i = Some v -> (forall j, l <> LStopRet j) -> fin_at s' i = Some v.
Proof. exact finals_stable. Qed.

(* The witness of the former finding: the runnable goes to state 4 then 5 during Stop; Shutdown records 5;
   the monitor then applies the pending 4 over it; the stores after the wait put 5 back. *)
Definition c06_bad_cfg : config :=
  {| specs := [ {| stateable := true; reloadable := false; rsender := false; ssender := false;
                   stop_style := StopNonBlocking; run_exit := ExitOnSignal; held_sub := false |} ];
     startup_may_fire := false; shutdown_may_fire := false |}.
Definition c06_bad_sched : list label :=
  [LRunEnter; LRunEntered; LLaunch 0; LRunStore 0; LRunCall 0; LMonSub 0; LMonRecv 0; LPoll 0 true; LGateDecide 0;
   LCall 1 OpShutdown; LCallerGo 1; LStopCall 0; LEmit 0 4; LEmit 0 5; LRunRet 0 None; LStopRet 0;
   LMonRecv 0; LSdCancel; LStmExit; LSdWgDone; LReapCtx; LMainShutdown; LMainReturn ResNil].
Example C06_witness_before_restore :
  exists s1, run (step c06_bad_cfg) (init c06_bad_cfg) (firstn 17 c06_bad_sched) = Some s1 /\
             smap_at s1 0 = Some 4 /\ fin_at s1 0 = Some 5.
Proof. eexists. split; [vm_compute; reflexivity|]. split; reflexivity. Qed.
Example C06_witness_repaired :
  exists s, run (step c06_bad_cfg) (init c06_bad_cfg) c06_bad_sched = Some s /\
            main s = MReturned ResNil /\ cur_at s 0 = 5 /\ smap_at s 0 = Some 5.
Proof. eexists. split; [vm_compute; reflexivity|]. split; [reflexivity|]. split; reflexivity. Qed.

Print Assumptions C06_converge.
Print Assumptions C06_after_shutdown.
Print Assumptions C06_final_is_state_at_stopret.
Print Assumptions C06_final_stable.
Print Assumptions C06_stop_stores_state.
Print Assumptions C06_dedupe.
Print Assumptions C06_close_once.
Print Assumptions C06_cancelled_gets_closed.
Print Assumptions C06_quiescent_closed.
Print Assumptions C06_no_send_on_closed.

(* non-vacuity: the late-subscription history that used to leave a stale map (F13): the runnable
   reaches state 2 before the monitor subscribes; the first channel value is now recorded *)
Definition c06_cfg : config :=
  {| specs := [ {| stateable := true; reloadable := false; rsender := false; ssender := false;
                   stop_style := StopNonBlocking; run_exit := ExitOnSignal; held_sub := true |} ];
     startup_may_fire := false; shutdown_may_fire := false |}.
Definition c06_sched : list label :=
  [LRunEnter; LRunEntered; LLaunch 0; LRunStore 0; LRunCall 0; LEmit 0 2; LSubRel 0; LMonSub 0; LMonRecv 0; LMonBcast 0].
Example C06_ex_late_subscription :
  exists s, run (step c06_cfg) (init c06_cfg) c06_sched = Some s /\
            smap_at s 0 = Some 2 /\ cur_at s 0 = 2 /\ ran (rn_at s 0).
Proof. eexists. split; [vm_compute; reflexivity|]. split; [reflexivity|]. split; [reflexivity|exact Logic.I]. Qed.

(* non-vacuity of C06_cancelled_gets_closed / C06_quiescent_closed: a subscription is cancelled; the closer's
   step is enabled (so the state is not quiescent); after it the channel is closed and the state is quiescent *)
Example C06_ex_cancelled_closed :
  exists s b s' b',
    run (step c06_bad_cfg) (init c06_bad_cfg)
        [LRunEnter; LRunEntered; LLaunch 0; LRunStore 0; LRunCall 0; LMonSub 0; LMonRecv 0; LSubscribe 7; LSubDo 7; LSubCancel 7] = Some s /\
    find_sub 7 (subs s) = Some b /\ sub_cancelled b = true /\ sub_closed b = false /\ sub_started b = true /\
    quiescent c06_bad_cfg s = false /\
    step c06_bad_cfg s (LSubUnreg 7) = Some s' /\ find_sub 7 (subs s') = Some b' /\ sub_closed b' = true /\
    quiescent c06_bad_cfg s' = true.
Proof.
  eexists. eexists. eexists. eexists. split; [vm_compute; reflexivity|]. split; [vm_compute; reflexivity|].
  repeat split; vm_compute; reflexivity.
Qed.

(* ---- the subscriber clause ---- *)

(* From the moment SubscribeStateChanges ran (LSubDo c0), along every run in which (run_ok) the
   subscriber's channel has room at every broadcast (a monitor's, or startRunnable's after it stored
   the initial state of a newly started runnable), the stores done by Shutdown / the reload manager
   do not change the map, the state-monitor manager has not exited and c0 is not unsubscribed: in
   every quiescent state the newest snapshot sent to c0 - the last one in its channel, or the last
   one it took - IS the map.  (Before the initial-broadcast repair of startRunnable this needed the
   extra hypothesis that no runnable is started after the subscription: see C06_ex_late_entry.) *)
Theorem C06_subscriber : forall c c0 s0 s1 ls s,
  reachable_sup c s0 -> step c s0 (LSubDo c0) = Some s1 ->
  run (step c) s1 ls = Some s -> run_ok c c0 s1 ls ->
  quiescent c s = true -> last_sent s c0 = Some (smap s).
Proof. exact sup_c06_subscriber. Qed.

(* ... so a subscriber that has drained its channel has received the quiescent map last. *)
Theorem C06_subscriber_drained : forall c c0 s0 s1 ls s b,
  reachable_sup c s0 -> step c s0 (LSubDo c0) = Some s1 ->
  run (step c) s1 ls = Some s -> run_ok c c0 s1 ls ->
  quiescent c s = true -> find_sub c0 (subs s) = Some b -> sub_buf b = [] ->
  last_recv c0 (hist s) = Some (smap s).
Proof. exact sup_c06_subscriber_drained. Qed.

Print Assumptions C06_subscriber.
Print Assumptions C06_subscriber_drained.

(* non-vacuity: a subscriber follows a state change of a running runnable *)
Definition c06_sub_pre : list label := [LRunEnter; LRunEntered; LLaunch 0; LRunStore 0; LRunCall 0; LMonSub 0; LMonRecv 0; LSubscribe 7].
Definition c06_sub_run : list label :=
  [LSubRecv 7 [Some 0]; LEmit 0 2; LMonRecv 0; LMonBcast 0; LSubRecv 7 [Some 2]; LPoll 0 true; LGateDecide 0].
Example C06_ex_subscriber :
  exists s0 s1 s b,
    run (step c06_bad_cfg) (init c06_bad_cfg) c06_sub_pre = Some s0 /\
    step c06_bad_cfg s0 (LSubDo 7) = Some s1 /\
    run (step c06_bad_cfg) s1 c06_sub_run = Some s /\ run_ok c06_bad_cfg 7 s1 c06_sub_run /\
    quiescent c06_bad_cfg s = true /\ find_sub 7 (subs s) = Some b /\ sub_buf b = [] /\
    last_recv 7 (hist s) = Some [Some 2] /\ smap s = [Some 2].
Proof.
  eexists. eexists. eexists. eexists.
  split; [vm_compute; reflexivity|]. split; [vm_compute; reflexivity|]. split; [vm_compute; reflexivity|].
  split.
  { vm_compute. repeat split; try exact Logic.I. intros b Hb. injection Hb as <-. cbn. repeat constructor. }
  split; [vm_compute; reflexivity|]. split; [vm_compute; reflexivity|]. split; [reflexivity|].
  split; vm_compute; reflexivity.
Qed.

(* the schedule that refuted the clause before the repair: the subscriber arrives before runnable 1
   is started, and runnable 1 never changes state afterwards.  startRunnable now broadcasts: at the
   quiescent point the subscriber's channel holds the full map *)
Example C06_ex_late_entry :
  exists s b,
    run (step subs_cfg) (init subs_cfg) subs_sched = Some s /\ quiescent subs_cfg s = true /\
    find_sub 7 (subs s) = Some b /\ sub_buf b = [[Some 0; Some 0]] /\
    last_sent s 7 = Some [Some 0; Some 0] /\ smap s = [Some 0; Some 0].
Proof. exact subs_sched_delivers. Qed.

(* The same clause as a property of observable traces (monitor c06_sub_entry, evaluated on the
   implementation's traces): a subscriber that had already taken a snapshot and had not been
   cancelled when a Stateable runnable j was started has, by the time it sees its channel closed,
   taken a snapshot with an entry for j - unless it took ten or more snapshots after the start (its
   channel may have been full when startRunnable broadcast). *)
Theorem C06_sub_entry : forall c ls s,
  run (step c) (init c) ls = Some s -> c06_sub_entry c (obs_trace obs ls) = true.
Proof. exact sup_c06_sub_entry. Qed.

Print Assumptions C06_sub_entry.

(* non-vacuity: the monitor rejects what the supervisor did before the repair (the subscriber
   drains its channel and sees it closed without ever having been told about runnable 1) and
   accepts the repaired behaviour *)
Example C06_ex_sub_entry_rejects :
  c06_sub_entry subs_cfg
    [ERunCall 0; ESubscribe 7; ESubRecv 7 [Some 0; None]; EPoll 0 true; ERunCall 1; EPoll 1 true; EQuiet;
     ESubCancel 7; ESubClosed 7] = false.
Proof. vm_compute. reflexivity. Qed.
Example C06_ex_sub_entry_accepts :
  c06_sub_entry subs_cfg
    [ERunCall 0; ESubscribe 7; ESubRecv 7 [Some 0; None]; EPoll 0 true; ERunCall 1; EPoll 1 true; EQuiet;
     ESubCancel 7; ESubRecv 7 [Some 0; Some 0]; ESubClosed 7] = true.
Proof. vm_compute. reflexivity. Qed.
