(* C02: once shutdown has started the supervisor is never stuck and never time-locked (for
   runnables none of whose Run stays inside forever): some internal step, some step the implementation performs
   by itself, or some step a contract-abiding runnable owes (its Run/Stop/Reload/IsRunning call
   returning) is always enabled - never only the shutdown timeout. *)
From Coq Require Import List NArith Bool Arith Lia.
From GS Require Import LTS Supervisor SupAccept SupProps SupInv SupStop SupTrig SupGate SupOnce SupReload SupCensus.
Import ListNotations.

(* ---- whose step it is ----
   Progress is stated per thread: a step of the shutdown body itself, or of a goroutine the body is
   waiting for in its present position - not "some step of somebody". *)

(* the shutdown body's own next step, or a step of what it is waiting for:
   inside Stop(i) of a lifecycle-style runnable that is the goroutine of runnable i (startRunnable's store,
   the call of Run, Run returning nil); in wg.Wait() it is any member of the WaitGroup: the runnable
   goroutines, the reload manager (including the Reload() call it is inside of: its return is owed by the
   runnable), the shutdown manager and the state-monitor manager.  Never a timer, never a step of Run()'s
   own goroutine, of an API caller, of a monitor or of the environment. *)
Definition body_step (s : state) (l : label) : bool :=
  match sd s, l with
  | SdNext (S j), LStopCall i => Nat.eqb i j
  | SdIn i, LStopRet j => Nat.eqb i j
  | SdIn i, LRunStore j | SdIn i, LRunCall j | SdIn i, LRunRet j None => Nat.eqb i j
  | SdCancel, LSdCancel => true
  | SdWait, LSdWgDone => true
  | SdWait, LRunStore _ | SdWait, LRunCall _ | SdWait, LRunRet _ None | SdWait, LErrSend _ => true
  | SdWait, LRmCtx | SdWait, LRmExit | SdWait, LReloadCall _ | SdWait, LReloadRet _ => true
  | SdWait, LSdmExit | SdWait, LStmExit => true
  | _, _ => false
  end.

(* a step of Run()'s own goroutine; the return of an IsRunning() call only while Run() is inside one *)
Definition main_step (s : state) (l : label) : bool :=
  match l with
  | LRunEntered | LLaunch _ | LGateDecide _ | LGateErr _ | LGateCtx _ | LReapErr | LReapCtx | LReapSig
  | LMainShutdown | LMainReturn _ => true
  | LPoll _ true => polling (aux s)
  | _ => false
  end.

(* a Shutdown() caller's own step *)
Definition caller_step (k : nat) (l : label) : bool :=
  match l with
  | LCallerGo k' => Nat.eqb k k'
  | LRet k' OpShutdown => Nat.eqb k k'
  | _ => false
  end.

Definition body_can_progress (c : config) (s : state) : Prop :=
  exists l, body_step s l = true /\ step c s l <> None.
Definition main_can_progress (c : config) (s : state) : Prop :=
  exists l, main_step s l = true /\ step c s l <> None.
Definition caller_can_progress (c : config) (s : state) (k : nat) : Prop :=
  exists l, caller_step k l = true /\ step c s l <> None.

(* the child contract of C02 ("Run returns after Stop or cancellation"): no runnable's Run may stay
   inside forever.  A Run that also returns BY ITSELF - with nil, with a cancellation error or with a real
   error, at any time (ExitFree: the failure triggers, start-up failures) - satisfies it. *)
Definition good (c : config) : Prop :=
  forall i, i < nrun c -> run_exit (spec c i) <> ExitNever.

(* under the contract, the Run of a runnable that was told to stop (or whose context ended) may return *)
Lemma good_may_return c s i :
  good c -> i < nrun c -> get false (stop_called s) i || ctx_done s = true -> run_may_return c s i = true.
Proof.
  intros G Li H. unfold run_may_return. specialize (G i Li).
  destruct (run_exit (spec c i)); [exact H|reflexivity|congruence].
Qed.

(* The one shape the C02 theorems exclude (recorded finding shutdown-before-run-blocks-forever): Shutdown()
   closed the launch gate before Run() was entered - it then calls Stop() on EVERY registered runnable,
   none of whose Run will ever be invoked - and some runnable has a lifecycle-style Stop (which blocks until
   its Run has been invoked and has returned). *)
Definition sdfirst_ok (c : config) (s : state) : Prop :=
  sd_all (aux s) = true -> forall i, i < nrun c -> stop_style (spec c i) = StopNonBlocking.

Lemma stop_k_le c s : length (rn s) = nrun c -> stop_k c s <= nrun c.
Proof.
  intros H. unfold stop_k. destruct (sd_all (aux s)); [lia|]. pose proof (launched_le s). lia.
Qed.

(* Stop() has been called on the runnable whose Stop() is in progress *)
Definition InvSC (c : config) (s : state) : Prop :=
  length (stop_called s) = nrun c /\
  (forall i, sd s = SdIn i -> get false (stop_called s) i = true).

Lemma InvSC_step c s l s' : InvK c s -> InvPre c s -> InvSC c s -> step c s l = Some s' -> InvSC c s'.
Proof.
  intros IK IP IS H. unfold step in H.
  destruct l; cbn [step0] in H; unfold start_shutdown, store_state in H;
    step_cases H; inversion H; subst; clear H; split; simp_st.
  all: try exact (proj1 IS).
  all: try exact (proj2 IS).
  all: try (rewrite upd_length; exact (proj1 IS)).
  all: try (intros ii Hi; discriminate Hi).
  all: try (intros ii Hi; exfalso; match type of Hi with sd_next ?k = _ => destruct k; discriminate Hi end).
  all: repeat match goal with E : _ && _ = true |- _ => apply andb_true_iff in E as [? ?] end.
  all: repeat match goal with E : (_ =? _) = true |- _ => apply Nat.eqb_eq in E; subst end.
  all: try (intros ii Hi; injection Hi as <-; apply get_upd_same; rewrite (proj1 IS);
            (* the stopped index is below the stop range <= n *)
            unfold InvK in IK; match goal with E : sd _ = SdNext _ |- _ => rewrite E in IK end;
            destruct IK as [_ Hfr]; pose proof (stops_fr_le _ _ _ Hfr);
            pose proof (stop_k_le c s (ip_len _ _ IP)); lia).
Qed.

Lemma InvSC_reachable c s : reachable_sup c s -> InvSC c s.
Proof.
  intros Hr.
  assert (G : InvPre c s /\ InvK c s /\ InvSC c s).
  { revert s Hr. apply sup_inv.
    - split; [apply InvPre_init|]. split; [split; reflexivity|]. split; [cbn; apply repeat_length|intros i H; discriminate H].
    - intros s0 l s1 (IP & IK & IS) Hs. split; [eapply InvPre_step; eassumption|].
      split; [eapply InvK_step; eassumption|eapply InvSC_step; eassumption]. }
  apply G.
Qed.

(* the start-up loop never points at index n *)
Lemma launch_idx_lt c s : 0 < nrun c -> reachable_sup c s -> forall i, main s = MLaunch i -> i < nrun c.
Proof.
  intros Hn. revert s. apply (sup_inv c (fun s => forall i, main s = MLaunch i -> i < nrun c)).
  - cbn. intros i H. discriminate H.
  - intros s l s' IH H.
    destruct (step_su_effect _ _ _ _ H) as [i Em Es Li Er Em' _ | i Em Em' Er _ | i Em Em' Er _ | Em Er | Hm _ _ Er | Em Er].
    + intros j Hj. destruct Em' as [E|E]; rewrite E in Hj; [discriminate Hj|].
      apply after_launch_cases in Hj as [[Hj L]|Hj]; [injection Hj as ->; exact L|discriminate Hj].
    + intros j Hj. rewrite Em' in Hj. apply after_launch_cases in Hj as [[Hj L]|Hj]; [injection Hj as ->; exact L|discriminate Hj].
    + intros j Hj. rewrite Em' in Hj. discriminate Hj.
    + intros j Hj. destruct Em as [[_ E]|[_ E]]; rewrite E in Hj; [discriminate Hj|]. injection Hj as <-. exact Hn.
    + intros j Hj. exfalso. destruct (Hm j) as (X & _). contradiction.
    + intros j Hj. rewrite Em in Hj. auto.
Qed.

Ltac enabled l := exists l; split; [cbn; rewrite ?Nat.eqb_refl; try reflexivity|].

(* ---- the goroutine of runnable i can always move on until its Run has returned ---- *)
(* its own next step: startRunnable's store, the call of Run, Run returning nil (under the contract, once
   it was told to stop or its context ended), the send of its error *)
Definition rn_own (i : nat) (l : label) : bool :=
  match l with
  | LRunStore j | LRunCall j | LRunRet j None | LErrSend j => Nat.eqb i j
  | _ => false
  end.

Lemma rn_progress c s i :
  good c -> i < nrun c ->
  match rn_at s i with RnNot | RnDone => False | _ => True end ->
  get false (stop_called s) i || ctx_done s = true ->
  exists l, rn_own i l = true /\ step c s l <> None.
Proof.
  intros G Li Hi Hsig. pose proof Li as Lb. apply Nat.ltb_lt in Lb.
  destruct (rn_at s i) eqn:Er; try contradiction.
  - destruct (stateable (spec c i)) eqn:St.
    + exists (LRunStore i). split; [cbn; apply Nat.eqb_refl|]. unfold step. cbn [step0]. rewrite Er, Lb, St. discriminate.
    + exists (LRunCall i). split; [cbn; apply Nat.eqb_refl|]. unfold step. cbn [step0]. rewrite Er, Lb, St. discriminate.
  - exists (LRunCall i). split; [cbn; apply Nat.eqb_refl|]. unfold step. cbn [step0]. rewrite Er, Lb. discriminate.
  - exists (LRunRet i None). split; [cbn; apply Nat.eqb_refl|]. unfold step. cbn [step0]. rewrite Er, Lb.
    rewrite (good_may_return c s i G Li Hsig). cbn. discriminate.
  - exists (LErrSend i). split; [cbn; apply Nat.eqb_refl|]. unfold step. cbn [step0]. rewrite Er, Lb. discriminate.
Qed.

(* some runnable goroutine is still alive *)
Lemma wg_rn_alive (l : list rn_pc) :
  forallb (fun p => match p with RnNot | RnDone => true | _ => false end) l = false ->
  exists i, i < length l /\ match get RnDone l i with RnNot | RnDone => False | _ => True end.
Proof.
  unfold get. induction l as [|p l IH]; [discriminate|].
  cbn [forallb]. intros Wz. apply andb_false_iff in Wz as [Hp|Hl].
  - exists 0. split; [cbn; lia|]. cbn. destruct p; try discriminate Hp; exact Logic.I.
  - destruct (IH Hl) as (i & Li & Hi). exists (S i). split; [cbn; lia|exact Hi].
Qed.

(* ---- the shutdown body up to the wait: the Stop loop and the cancel ---- *)
(* needs no assumption on Run for non-blocking Stops; for a lifecycle-style Stop the hypothesis says that its
   goroutine exists and that its Run obeys the contract *)
Lemma stop_loop_progress c s :
  reachable_sup c s ->
  (forall i, sd s = SdIn i -> stop_style (spec c i) = StopUntilRunDone ->
             rn_at s i <> RnNot /\ run_exit (spec c i) <> ExitNever) ->
  match sd s with SdNext _ | SdIn _ | SdCancel => body_can_progress c s | _ => True end.
Proof.
  intros Hre Hblk.
  pose proof (InvK_reachable _ _ Hre) as IK. pose proof (InvPre_reachable _ _ Hre) as IP.
  pose proof (InvSC_reachable _ _ Hre) as [SC1 SC2].
  unfold InvK in IK. unfold body_can_progress, body_step. destruct (sd s) as [|k|i| | |] eqn:Es; try exact Logic.I.
  - (* SdNext k: the next Stop() call *)
    destruct IK as [Hk _]. destruct k as [|j]; [lia|].
    exists (LStopCall j). split; [apply Nat.eqb_refl|]. unfold step. cbn [step0]. rewrite Es, Nat.eqb_refl. discriminate.
  - (* SdIn i: Stop(i) returns, possibly after Run(i) has been invoked and has returned *)
    destruct IK as (l0 & Hfr & _). pose proof (stops_fr_le _ _ _ Hfr) as Hle.
    assert (Li : i < nrun c) by (pose proof (stop_k_le c s (ip_len _ _ IP)); lia).
    assert (Hret : stop_may_return c s i = true -> exists l, match l with LStopRet j => i =? j | LRunStore j | LRunCall j | LRunRet j None => i =? j | _ => false end = true /\ step c s l <> None).
    { intros M. exists (LStopRet i). split; [apply Nat.eqb_refl|]. unfold step. cbn [step0]. rewrite Es, Nat.eqb_refl, M. discriminate. }
    destruct (stop_style (spec c i)) eqn:St.
    + apply Hret. unfold stop_may_return. now rewrite St.
    + destruct (Hblk i eq_refl St) as [Hst Hex].
      assert (Hmr : run_may_return c s i = true).
      { unfold run_may_return. destruct (run_exit (spec c i)); [|reflexivity|congruence].
        rewrite (SC2 i eq_refl). reflexivity. }
      pose proof Li as Lb. apply Nat.ltb_lt in Lb.
      destruct (rn_at s i) eqn:Er; try congruence.
      * destruct (stateable (spec c i)) eqn:Sb.
        -- exists (LRunStore i). split; [apply Nat.eqb_refl|]. unfold step. cbn [step0]. rewrite Er, Lb, Sb. discriminate.
        -- exists (LRunCall i). split; [apply Nat.eqb_refl|]. unfold step. cbn [step0]. rewrite Er, Lb, Sb. discriminate.
      * exists (LRunCall i). split; [apply Nat.eqb_refl|]. unfold step. cbn [step0]. rewrite Er, Lb. discriminate.
      * exists (LRunRet i None). split; [apply Nat.eqb_refl|]. unfold step. cbn [step0]. rewrite Er, Lb, Hmr. cbn. discriminate.
      * apply Hret. unfold stop_may_return. now rewrite St, Er.
      * apply Hret. unfold stop_may_return. now rewrite St, Er.
  - (* SdCancel *)
    exists LSdCancel. split; [reflexivity|]. unfold step. cbn [step0]. rewrite Es. discriminate.
Qed.

(* inside Stop(i) of a lifecycle-style runnable: its goroutine exists unless Shutdown preceded Run() *)
Lemma stopping_started c s i :
  reachable_sup c s -> sd s = SdIn i -> sd_all (aux s) = false -> rn_at s i <> RnNot.
Proof.
  intros Hre Es Ha. pose proof (InvK_reachable _ _ Hre) as IK. pose proof (InvPre_reachable _ _ Hre) as IP.
  unfold InvK in IK. rewrite Es in IK. destruct IK as (l0 & Hfr & _). pose proof (stops_fr_le _ _ _ Hfr) as Hle.
  unfold stop_k in Hle. rewrite Ha in Hle.
  destruct (ip_prefix _ _ IP) as (_ & A & _). apply A. lia.
Qed.

Lemma stopping_lt c s i : reachable_sup c s -> sd s = SdIn i -> i < nrun c.
Proof.
  intros Hre Es. pose proof (InvK_reachable _ _ Hre) as IK. pose proof (InvPre_reachable _ _ Hre) as IP.
  unfold InvK in IK. rewrite Es in IK. destruct IK as (l0 & Hfr & _). pose proof (stops_fr_le _ _ _ Hfr) as Hle.
  pose proof (stop_k_le c s (ip_len _ _ IP)). lia.
Qed.

(* ---- the wait for the goroutines ---- *)
Lemma wait_progress c s :
  reachable_sup c s -> good c -> sd s = SdWait -> body_can_progress c s.
Proof.
  intros Hre G Es. pose proof (InvPre_reachable _ _ Hre) as IP. pose proof (InvWg_reachable _ _ Hre) as [W1 _].
  rewrite Es in W1.
  assert (Hc : ctx_done s = true) by (unfold ctx_done; rewrite W1; reflexivity).
  unfold body_can_progress, body_step. rewrite Es.
  destruct (wg_zero s) eqn:Wz.
  { exists LSdWgDone. split; [reflexivity|]. unfold step. cbn [step0]. rewrite Es, Wz. discriminate. }
  unfold wg_zero in Wz.
  apply andb_false_iff in Wz as [Wz|Wz]; [apply andb_false_iff in Wz as [Wz|Wz]; [apply andb_false_iff in Wz as [Wz|Wz]|]|].
  - (* a runnable goroutine is still alive *)
    destruct (wg_rn_alive _ Wz) as (i & Li & Hi). rewrite (ip_len _ _ IP) in Li.
    destruct (rn_progress c s i G Li Hi) as (l & Hl & Hs); [rewrite Hc; apply orb_true_r|].
    exists l. split; [|exact Hs]. destruct l; try discriminate Hl; try reflexivity. destruct e; [discriminate Hl|reflexivity].
  - (* the reload manager *)
    destruct (rm s) eqn:Er; try discriminate Wz.
    + exists LRmCtx. split; [reflexivity|]. unfold step. cbn [step0]. rewrite Er, Hc. discriminate.
    + exists (LReloadCall j). split; [reflexivity|]. unfold step. cbn [step0]. rewrite Er, Nat.eqb_refl. discriminate.
    + exists (LReloadRet j). split; [reflexivity|]. unfold step. cbn [step0]. rewrite Er, Nat.eqb_refl. discriminate.
    + exists LRmExit. split; [reflexivity|]. unfold step. cbn [step0]. rewrite Er. discriminate.
  - exists LSdmExit. split; [reflexivity|]. unfold step. cbn [step0]. rewrite Wz, Hc. cbn. discriminate.
  - exists LStmExit. split; [reflexivity|]. unfold step. cbn [step0]. rewrite Wz, Hc. cbn. discriminate.
Qed.

(* ---- the shutdown body can always move (without the timeout) until it is done ---- *)
Theorem sup_c02_body_progress c s :
  reachable_sup c s -> good c -> sdfirst_ok c s ->
  match sd s with SdNot | SdDone => True | _ => body_can_progress c s end.
Proof.
  intros Hre G Hok.
  assert (Hblk : forall i, sd s = SdIn i -> stop_style (spec c i) = StopUntilRunDone ->
                           rn_at s i <> RnNot /\ run_exit (spec c i) <> ExitNever).
  { intros i Es St. pose proof (stopping_lt c s i Hre Es) as Li. split; [|exact (G i Li)].
    apply (stopping_started c s i Hre Es). destruct (sd_all (aux s)) eqn:Ea; [|reflexivity].
    rewrite (Hok Ea i Li) in St. discriminate St. }
  pose proof (stop_loop_progress c s Hre Hblk) as B.
  destruct (sd s) eqn:Es; try exact Logic.I; try exact B.
  now apply wait_progress.
Qed.

(* ---- once the shutdown body is done, Run() can always move until it has returned ---- *)
(* (no use is made of whether the timeout has fired) *)
Theorem sup_c02_main_progress c s :
  0 < nrun c -> reachable_sup c s -> sd s = SdDone ->
  main s = MNew \/ (exists r, main s = MReturned r) \/ main_can_progress c s.
Proof.
  intros Hn Hre Es.
  pose proof (InvWg_reachable _ _ Hre) as [W1 _]. rewrite Es in W1.
  assert (Hc : ctx_done s = true) by (unfold ctx_done; rewrite W1; reflexivity).
  unfold main_can_progress.
  destruct (main s) eqn:Em.
  - now left.
  - right; right. exists LRunEntered. split; [reflexivity|]. unfold step. cbn [step0]. rewrite Em. discriminate.
  - right; right. destruct (Nat.ltb i (nrun c)) eqn:L.
    + exists (LLaunch i). split; [reflexivity|]. unfold step. cbn [step0]. rewrite Em, Nat.eqb_refl, L, Es. cbn. discriminate.
    + exfalso. apply Nat.ltb_ge in L. pose proof (launch_idx_lt c s Hn Hre i Em). lia.
  - right; right. destruct (polling (aux s)) eqn:Ep.
    + exists (LPoll i true). split; [exact Ep|]. unfold step. cbn [step0]. rewrite Em, Nat.eqb_refl. discriminate.
    + exists (LGateCtx i). split; [reflexivity|]. unfold step. cbn [step0]. rewrite Em, Nat.eqb_refl, Hc, Ep. cbn.
      destruct (errq s); discriminate.
  - right; right. exists (LGateDecide i). split; [reflexivity|]. unfold step. cbn [step0]. rewrite Em, Nat.eqb_refl.
    destruct (errq s); discriminate.
  - right; right. exists LReapCtx. split; [reflexivity|]. unfold step. cbn [step0]. rewrite Em, Hc. discriminate.
  - right; right. exists LMainShutdown. split; [reflexivity|]. unfold step. cbn [step0]. rewrite Em. discriminate.
  - right; right. exists (LMainReturn r). split; [reflexivity|]. unfold step. cbn [step0]. rewrite Em, Es.
    destruct r; try discriminate. rewrite Nat.eqb_refl. discriminate.
  - right; left. eexists; reflexivity.
Qed.

(* a Shutdown() caller returns once the shutdown body is done *)
Theorem sup_c02_caller_returns c s k cs :
  sd s = SdDone -> find_caller k (callers s) = Some (OpShutdown, cs) -> caller_can_progress c s k.
Proof.
  intros Es Hf. unfold caller_can_progress. destruct cs.
  - exists (LCallerGo k). split; [cbn; apply Nat.eqb_refl|]. unfold step. cbn [step0]. rewrite Hf. discriminate.
  - exists (LRet k OpShutdown). split; [cbn; apply Nat.eqb_refl|]. unfold step. cbn [step0]. rewrite Hf, Es. cbn. discriminate.
  - exists (LRet k OpShutdown). split; [cbn; apply Nat.eqb_refl|]. unfold step. cbn [step0]. rewrite Hf, Es. cbn. discriminate.
Qed.

(* if some runnable never returns, the shutdown timeout ends the wait: it is enabled whenever the
   body is waiting for the goroutines *)
Theorem sup_c02_timeout_enabled c s :
  shutdown_may_fire c = true -> sd s = SdWait -> step c s LSdTimeout <> None.
Proof. intros Hf Es. unfold step. cbn [step0]. rewrite Es, Hf. discriminate. Qed.

(* a late error (a runnable returning after the shutdown body has finished, even after a timeout)
   is absorbed: sending it never fails, whatever the state of the shutdown *)
Theorem sup_c02_late_error_harmless c s i e :
  rn_at s i = RnSending e -> i < nrun c -> step c s (LErrSend i) <> None.
Proof.
  intros Er Li. unfold step. cbn [step0]. rewrite Er.
  replace (i <? nrun c) with true by (symmetry; apply Nat.ltb_lt; exact Li). discriminate.
Qed.
