(* C02: once shutdown has started the supervisor is never stuck and never time-locked (for
   runnables none of whose Run stays inside forever): some internal step, some step the implementation performs
   by itself, or some step a contract-abiding runnable owes (its Run/Stop/Reload/IsRunning call
   returning) is always enabled - never only the shutdown timeout. *)
From Coq Require Import List NArith Bool Arith Lia.
From GS Require Import LTS Supervisor SupAccept SupProps SupInv SupStop SupTrig SupGate SupOnce SupReload SupCensus.
Import ListNotations.

(* steps that do not depend on a free choice of the environment nor on a timer *)
Definition is_progress (l : label) : bool :=
  match l with
  | LGateTimeout _ | LSdTimeout => false                         (* timers *)
  | LCall _ _ | LEmit _ _ | LTrigR _ | LTrigS _ | LParentCancel | LSubscribe _ | LSubRecv _ _
  | LSubCancel _ | LSubClosed _ | LSubRel _ | LPollBegin _ | LQuiet | LSnap _ => false
  | LRunRet _ (Some _) => false                                  (* we only need the nil return *)
  | LPoll _ false => false
  | _ => true
  end.

(* the child contract of C02 ("Run returns after Stop or cancellation"): no runnable's Run may stay
   inside forever.  A Run that also returns BY ITSELF - with nil, with a cancellation error or with a real
   error, at any time (ExitFree: the failure triggers, start-up failures) - satisfies it. *)
Definition good (c : config) : Prop :=
  forall i, i < nrun c -> run_exit (spec c i) <> ExitNever.

(* under the contract, the Run of a runnable that was told to stop (or whose context ended) may return *)
Lemma good_may_return c s i :
  good c -> i < nrun c -> get false (stop_called s) i || ctx_done s = true -> run_may_return c s i = true.
Proof.
  intros G Li H. unfold run_may_return. specialize (G i Li).
  destruct (run_exit (spec c i)); [exact H|reflexivity|congruence].
Qed.

Definition can_progress (c : config) (s : state) : Prop :=
  exists l, is_progress l = true /\ step c s l <> None.

(* Stop() has been called on the runnable whose Stop() is in progress *)
Definition InvSC (c : config) (s : state) : Prop :=
  length (stop_called s) = nrun c /\
  (forall i, sd s = SdIn i -> get false (stop_called s) i = true).

Lemma InvSC_step c s l s' : InvK s -> InvPre c s -> InvSC c s -> step c s l = Some s' -> InvSC c s'.
Proof.
  intros IK IP IS H. unfold step in H.
  destruct l; cbn [step0] in H; unfold start_shutdown, store_state in H;
    step_cases H; inversion H; subst; clear H; split; simp_st.
  all: try exact (proj1 IS).
  all: try exact (proj2 IS).
  all: try (rewrite upd_length; exact (proj1 IS)).
  all: try (intros ii Hi; discriminate Hi).
  all: try (intros ii Hi; exfalso; match type of Hi with sd_next ?k = _ => destruct k; discriminate Hi end).
  all: repeat match goal with E : _ && _ = true |- _ => apply andb_true_iff in E as [? ?] end.
  all: repeat match goal with E : (_ =? _) = true |- _ => apply Nat.eqb_eq in E; subst end.
  all: try (intros ii Hi; injection Hi as <-; apply get_upd_same; rewrite (proj1 IS);
            (* the stopped index is below launched <= n *)
            unfold InvK in IK; match goal with E : sd _ = SdNext _ |- _ => rewrite E in IK end;
            destruct IK as [_ Hfr]; pose proof (stops_fr_le _ _ _ Hfr);
            pose proof (launched_le s); rewrite (ip_len _ _ IP) in *; lia).
Qed.

Lemma InvSC_reachable c s : reachable_sup c s -> InvSC c s.
Proof.
  intros Hr.
  assert (G : InvPre c s /\ InvK s /\ InvSC c s).
  { revert s Hr. apply sup_inv.
    - split; [apply InvPre_init|]. split; [reflexivity|]. split; [cbn; apply repeat_length|intros i H; discriminate H].
    - intros s0 l s1 (IP & IK & IS) Hs. split; [eapply InvPre_step; eassumption|].
      split; [eapply InvK_step; eassumption|eapply InvSC_step; eassumption]. }
  apply G.
Qed.

(* the start-up loop never points at index n *)
Lemma launch_idx_lt c s : 0 < nrun c -> reachable_sup c s -> forall i, main s = MLaunch i -> i < nrun c.
Proof.
  intros Hn. revert s. apply (sup_inv c (fun s => forall i, main s = MLaunch i -> i < nrun c)).
  - cbn. intros i H. injection H as <-. exact Hn.
  - intros s l s' IH H. destruct (step_su_effect _ _ _ _ H) as [i Em Es Li Er Em' _ | i Em Em' Er _ | i Em Em' Er _ | Hm Er | Em Er].
    + intros j Hj. destruct Em' as [E|E]; rewrite E in Hj; [discriminate Hj|].
      apply after_launch_cases in Hj as [[Hj L]|Hj]; [injection Hj as ->; exact L|discriminate Hj].
    + intros j Hj. rewrite Em' in Hj. apply after_launch_cases in Hj as [[Hj L]|Hj]; [injection Hj as ->; exact L|discriminate Hj].
    + intros j Hj. rewrite Em' in Hj. discriminate Hj.
    + intros j Hj. exfalso. destruct (Hm j) as (X & _). contradiction.
    + intros j Hj. rewrite Em in Hj. auto.
Qed.

Ltac enabled l := exists l; split; [reflexivity|].

(* a launched goroutine goes on: startRunnable stores and broadcasts (Stateable), then calls Run *)
Lemma launched_progress c s i : rn_at s i = RnLaunched -> i < nrun c -> can_progress c s.
Proof.
  intros Er Li. apply Nat.ltb_lt in Li. destruct (stateable (spec c i)) eqn:St.
  - enabled (LRunStore i). unfold step. cbn [step0]. rewrite Er, Li, St. discriminate.
  - enabled (LRunCall i). unfold step. cbn [step0]. rewrite Er, Li, St. discriminate.
Qed.

Lemma stored_progress c s i : rn_at s i = RnStored -> i < nrun c -> can_progress c s.
Proof.
  intros Er Li. apply Nat.ltb_lt in Li.
  enabled (LRunCall i). unfold step. cbn [step0]. rewrite Er, Li. discriminate.
Qed.

(* ---- the shutdown body can always move (without the timeout) until it is done ---- *)
Theorem sup_c02_body_progress c s :
  reachable_sup c s -> good c ->
  match sd s with SdNot | SdDone => True | _ => can_progress c s end.
Proof.
  intros Hre G.
  pose proof (InvK_reachable _ _ Hre) as IK. pose proof (InvPre_reachable _ _ Hre) as IP.
  pose proof (InvSC_reachable _ _ Hre) as [SC1 SC2]. pose proof (InvWg_reachable _ _ Hre) as [W1 _].
  pose proof (InvReload_reachable _ _ Hre) as [kk IR].
  unfold InvK in IK. destruct (sd s) as [|k|i| | |] eqn:Es; try exact Logic.I.
  - (* SdNext k: the next Stop() call *)
    destruct IK as [Hk _]. destruct k as [|j]; [lia|].
    enabled (LStopCall j). unfold step. cbn [step0]. rewrite Es, Nat.eqb_refl. discriminate.
  - (* SdIn i: Stop(i) returns, possibly after Run(i) has been invoked and has returned *)
    destruct IK as (l0 & Hfr & _). pose proof (stops_fr_le _ _ _ Hfr) as Hle.
    assert (Li : i < nrun c) by (pose proof (launched_le s); rewrite (ip_len _ _ IP) in *; lia).
    assert (Hst : rn_at s i <> RnNot).
    { destruct (ip_prefix _ _ IP) as (_ & A & _). apply A. lia. }
    destruct (stop_style (spec c i)) eqn:St.
    + enabled (LStopRet i). unfold step. cbn [step0]. rewrite Es, Nat.eqb_refl. unfold stop_may_return. rewrite St.
      cbn. discriminate.
    + destruct (rn_at s i) eqn:Er; try congruence.
      * eapply launched_progress; eassumption.
      * eapply stored_progress; eassumption.
      * enabled (LRunRet i None). unfold step. cbn [step0]. rewrite Er.
        replace (i <? nrun c) with true by (symmetry; apply Nat.ltb_lt; exact Li).
        rewrite (good_may_return c s i G Li) by (rewrite (SC2 i eq_refl); reflexivity). cbn. discriminate.
      * enabled (LStopRet i). unfold step. cbn [step0]. rewrite Es, Nat.eqb_refl. unfold stop_may_return.
        rewrite St, Er. cbn. discriminate.
      * enabled (LStopRet i). unfold step. cbn [step0]. rewrite Es, Nat.eqb_refl. unfold stop_may_return.
        rewrite St, Er. cbn. discriminate.
  - (* SdCancel *)
    enabled LSdCancel. unfold step. cbn [step0]. rewrite Es. discriminate.
  - (* SdWait: either everything has finished, or someone can still move *)
    assert (Hc : ctx_done s = true) by (unfold ctx_done; rewrite W1; reflexivity).
    destruct (wg_zero s) eqn:Wz.
    { enabled LSdWgDone. unfold step. cbn [step0]. rewrite Es, Wz. discriminate. }
    unfold wg_zero in Wz.
    apply andb_false_iff in Wz as [Wz|Wz]; [apply andb_false_iff in Wz as [Wz|Wz]; [apply andb_false_iff in Wz as [Wz|Wz]|]|].
    + (* a runnable goroutine is still alive *)
      assert (exists i, i < length (rn s) /\ match rn_at s i with RnNot | RnDone => False | _ => True end) as (i & Li & Hi).
      { unfold rn_at, get. clear -Wz. induction (rn s) as [|p l IH]; [discriminate Wz|].
        cbn [forallb] in Wz. apply andb_false_iff in Wz as [Hp|Hl].
        - exists 0. split; [cbn; lia|]. cbn. destruct p; try discriminate Hp; exact Logic.I.
        - destruct (IH Hl) as (i & Li & Hi). exists (S i). split; [cbn; lia|exact Hi]. }
      rewrite (ip_len _ _ IP) in Li.
      destruct (rn_at s i) eqn:Er; try contradiction.
      * eapply launched_progress; eassumption.
      * eapply stored_progress; eassumption.
      * enabled (LRunRet i None). unfold step. cbn [step0]. rewrite Er.
        replace (i <? nrun c) with true by (symmetry; apply Nat.ltb_lt; exact Li).
        rewrite (good_may_return c s i G Li) by (rewrite Hc; apply orb_true_r). cbn. discriminate.
      * enabled (LErrSend i). unfold step. cbn [step0]. rewrite Er.
        replace (i <? nrun c) with true by (symmetry; apply Nat.ltb_lt; exact Li). discriminate.
    + (* the reload manager *)
      destruct (rm s) eqn:Er; try discriminate Wz.
      * enabled LRmCtx. unfold step. cbn [step0]. rewrite Er, Hc. discriminate.
      * enabled (LReloadCall j). unfold step. cbn [step0]. rewrite Er, Nat.eqb_refl. discriminate.
      * enabled (LReloadRet j). unfold step. cbn [step0]. rewrite Er, Nat.eqb_refl. discriminate.
      * enabled LRmExit. unfold step. cbn [step0]. rewrite Er. discriminate.
    + enabled LSdmExit. unfold step. cbn [step0]. rewrite Wz, Hc. cbn. discriminate.
    + enabled LStmExit. unfold step. cbn [step0]. rewrite Wz, Hc. cbn. discriminate.
Qed.

(* ---- once the shutdown body is done, Run() can always move until it has returned ---- *)
Theorem sup_c02_main_progress c s :
  0 < nrun c -> reachable_sup c s -> sd s = SdDone -> sd_timed_out s = false ->
  (exists r, main s = MReturned r) \/ can_progress c s.
Proof.
  intros Hn Hre Es Ht.
  pose proof (InvWg_reachable _ _ Hre) as [W1 _]. rewrite Es in W1.
  assert (Hc : ctx_done s = true) by (unfold ctx_done; rewrite W1; reflexivity).
  pose proof (InvGate_reachable _ _ Hre) as IG.
  destruct (main s) eqn:Em.
  - right. destruct (Nat.ltb i (nrun c)) eqn:L.
    + enabled (LLaunch i). unfold step. cbn [step0]. rewrite Em, Nat.eqb_refl, L, Es. cbn. discriminate.
    + exfalso. apply Nat.ltb_ge in L. pose proof (launch_idx_lt c s Hn Hre i Em). lia.
  - right. destruct (polling (aux s)) eqn:Ep.
    + enabled (LPoll i true). unfold step. cbn [step0]. rewrite Em, Nat.eqb_refl. discriminate.
    + enabled (LGateCtx i). unfold step. cbn [step0]. rewrite Em, Nat.eqb_refl, Hc, Ep. cbn.
      destruct (errq s); discriminate.
  - right. enabled (LGateDecide i). unfold step. cbn [step0]. rewrite Em, Nat.eqb_refl.
    destruct (errq s); discriminate.
  - right. enabled LReapCtx. unfold step. cbn [step0]. rewrite Em, Hc. discriminate.
  - right. enabled LMainShutdown. unfold step. cbn [step0]. rewrite Em. discriminate.
  - right. enabled (LMainReturn r). unfold step. cbn [step0]. rewrite Em, Es.
    destruct r; try discriminate. rewrite Nat.eqb_refl. discriminate.
  - left. eexists; reflexivity.
Qed.

(* a Shutdown() caller returns once the shutdown body is done *)
Theorem sup_c02_caller_returns c s k cs :
  sd s = SdDone -> find_caller k (callers s) = Some (OpShutdown, cs) -> can_progress c s.
Proof.
  intros Es Hf. destruct cs.
  - enabled (LCallerGo k). unfold step. cbn [step0]. rewrite Hf. discriminate.
  - enabled (LRet k OpShutdown). unfold step. cbn [step0]. rewrite Hf, Es. cbn. discriminate.
  - enabled (LRet k OpShutdown). unfold step. cbn [step0]. rewrite Hf, Es. cbn. discriminate.
Qed.

(* if some runnable never returns, the shutdown timeout ends the wait: it is enabled whenever the
   body is waiting for the goroutines *)
Theorem sup_c02_timeout_enabled c s :
  shutdown_may_fire c = true -> sd s = SdWait -> step c s LSdTimeout <> None.
Proof. intros Hf Es. unfold step. cbn [step0]. rewrite Es, Hf. discriminate. Qed.

(* a late error (a runnable returning after the shutdown body has finished, even after a timeout)
   is absorbed: sending it never fails, whatever the state of the shutdown *)
Theorem sup_c02_late_error_harmless c s i e :
  rn_at s i = RnSending e -> i < nrun c -> step c s (LErrSend i) <> None.
Proof.
  intros Er Li. unfold step. cbn [step0]. rewrite Er.
  replace (i <? nrun c) with true by (symmetry; apply Nat.ltb_lt; exact Li). discriminate.
Qed.
