(* C08: what the two candidate repairs (hooks/candidate-fix-c08-{a,b}-*.patch, not in the repository)
   would establish, proved over the model variants prepared behind switches:
   (a) [step_fixsub]: register + read atomic w.r.t. state changes  =>  the stream is exactly
       s0 :: later changes (no duplicate, no stale replay);
   (b) [composite_stepx true true]: Run keeps reloadMu from its teardown to its return  =>  the full
       C08_result statement for composite. *)
From Coq Require Import List Arith NArith Bool Lia.
From GS Require Import LTS Fsm FsmTable FsmRunners FsmBase FsmGraph FsmWalk FsmStream FsmResult FsmMain FsmExtra.
Import ListNotations.

(* ------------------------------------------------------------------ *)
(* (a) *)

Lemma step_fixsub_sound cfg s l s' : step_fixsub cfg s l = Some s' -> step cfg s l = Some s'.
Proof. unfold step_fixsub. destruct l; try (intros H; exact H); destruct (all_live s); intros H; [exact H|discriminate| exact H|discriminate]. Qed.

Lemma run_fixsub_run cfg ls : forall s0 s, run (step_fixsub cfg) s0 ls = Some s -> run (step cfg) s0 ls = Some s.
Proof.
  induction ls as [|l ls IH]; intros s0 s H; [exact H|]. cbn [run] in *.
  destruct (step_fixsub cfg s0 l) as [s1|] eqn:E; [|discriminate].
  rewrite (step_fixsub_sound _ _ _ _ E). now apply IH.
Qed.

(* identity of a subscriber: stage and the two ghost instants *)
Definition same_id (x y : sub) : Prop := sg y = sg x /\ reg_at y = reg_at x /\ read_at y = read_at x.

Definition ids_kept (s s' : state) : Prop :=
  hist s' = hist s /\
  forall j y, nth_error (subs s') j = Some y -> exists x, nth_error (subs s) j = Some x /\ same_id x y.

Lemma ids_kept_upd s i x y p c :
  nth_error (subs s) i = Some x -> same_id x y ->
  ids_kept s (mkState c (hist s) p (upd i (fun _ => y) (subs s))).
Proof.
  intros Hx Hid. split; [reflexivity|]. cbn [subs]. intros j z Hz. rewrite nth_error_upd in Hz.
  destruct (Nat.eqb j i) eqn:E.
  - apply Nat.eqb_eq in E. subst j. rewrite Hx in Hz. cbn in Hz. inversion Hz; subst. eauto.
  - exists z. split; [exact Hz|]. repeat split.
Qed.

Ltac crack Hg :=
  repeat match type of Hg with
         | context [match ?t with _ => _ end] => destruct t eqn:?; try discriminate
         end;
  inversion Hg; subst; clear Hg.

(* every label except a machine call, a registration and a read keeps every subscriber's identity *)
Lemma step_keeps_ids cfg s l s' :
  step cfg s l = Some s' ->
  (forall o ok, l <> LOp o ok) -> l <> LSub -> (forall i, l <> LRead i) -> ids_kept s s'.
Proof.
  intros H N1 N2 N3. destruct l; try (exfalso; first [eapply N1; reflexivity|apply N2; reflexivity|eapply N3; reflexivity]);
    unfold step in H; cbn [stepx fix_fwd] in H.
  - (* LDeliver *)
    destruct (memn i (pend s)); [|discriminate].
    match type of H with context [with_sub s i ?g] => destruct (with_sub s i g) as [s1|] eqn:E end; [|discriminate].
    apply with_sub_inv in E as (x & y & Hx & Hg & ->). inversion H; subst; clear H. cbn [set_subs cur hist subs].
    crack Hg. apply ids_kept_upd with (x := x); [exact Hx|]. repeat split.
  - (* LDrop *)
    destruct (memn i (pend s)); [|discriminate].
    match type of H with context [with_sub s i ?g] => destruct (with_sub s i g) as [s1|] eqn:E end; [|discriminate].
    apply with_sub_inv in E as (x & y & Hx & Hg & ->). inversion H; subst; clear H. cbn [set_subs cur hist subs].
    crack Hg. apply ids_kept_upd with (x := x); [exact Hx|]. repeat split.
  - (* LFwdTake *)
    apply with_sub_inv in H as (x & y & Hx & Hg & ->). crack Hg. unfold set_subs.
    apply ids_kept_upd with (x := x); [exact Hx|]. repeat split; cbn; congruence.
  - (* LFwdPut *)
    apply with_sub_inv in H as (x & y & Hx & Hg & ->). crack Hg. unfold set_subs.
    apply ids_kept_upd with (x := x); [exact Hx|]. repeat split.
  - (* LFwdClose *)
    apply with_sub_inv in H as (x & y & Hx & Hg & ->). crack Hg. unfold set_subs.
    apply ids_kept_upd with (x := x); [exact Hx|]. repeat split; cbn; congruence.
  - (* LCancel *)
    apply with_sub_inv in H as (x & y & Hx & Hg & ->). crack Hg. unfold set_subs.
    apply ids_kept_upd with (x := x); [exact Hx|]. repeat split.
  - (* LUnsub *)
    destruct (is_nil (pend s)); [|discriminate].
    apply with_sub_inv in H as (x & y & Hx & Hg & ->). crack Hg. unfold set_subs.
    apply ids_kept_upd with (x := x); [exact Hx|]. repeat split.
  - (* LRecv *)
    apply with_sub_inv in H as (x & y & Hx & Hg & ->). crack Hg. unfold set_subs.
    apply ids_kept_upd with (x := x); [exact Hx|]. repeat split; cbn; congruence.
  - (* LRecvClosed *)
    apply with_sub_inv in H as (x & y & Hx & Hg & ->). crack Hg. unfold set_subs.
    apply ids_kept_upd with (x := x); [exact Hx|]. repeat split; cbn; congruence.
  - (* LGet *)
    destruct (st_eqb (cur s) v); inversion H; subst. split; [reflexivity|]. intros j y Hy. exists y. repeat split; auto.
  - (* LIsRun *)
    destruct (Bool.eqb (st_eqb (cur s) Running) b); inversion H; subst. split; [reflexivity|]. intros j y Hy. exists y. repeat split; auto.
  - (* LFwdAbort *)
    apply with_sub_inv in H as (x & y & Hx & Hg & ->). crack Hg. unfold set_subs.
    apply ids_kept_upd with (x := x); [exact Hx|]. repeat split; cbn; congruence.
Qed.

Definition atomic_inv (s : state) : Prop :=
  forall i x, nth_error (subs s) i = Some x ->
    match sg x with
    | SLive => read_at x = reg_at x
    | SReg => reg_at x = length (hist s)
    end.

Lemma all_live_spec s i x : all_live s = true -> nth_error (subs s) i = Some x -> sg x = SLive.
Proof.
  unfold all_live. rewrite forallb_forall. intros H Hx. apply nth_error_In in Hx. specialize (H x Hx).
  destruct (sg x); [discriminate|reflexivity].
Qed.

Lemma atomic_step cfg s l s' : atomic_inv s -> step_fixsub cfg s l = Some s' -> atomic_inv s'.
Proof.
  intros Hi H.
  destruct l as [o ok| |i| | | | | | | | | | | |];
    try solve [apply step_fixsub_sound in H;
               apply step_keeps_ids in H; try (intros; discriminate);
               destruct H as [Hh Hk]; intros j y Hy; destruct (Hk j y Hy) as (x & Hx & Es & Er & Ed);
               specialize (Hi j x Hx); rewrite Es, Er, Ed, Hh; exact Hi].
  - (* LOp: only when nobody is between registration and read *)
    unfold step_fixsub in H. destruct (all_live s) eqn:Ea; [|discriminate].
    unfold step in H. cbn [stepx] in H. destruct (is_nil (pend s)); [|discriminate].
    destruct (op_result cfg (cur s) o); destruct ok; try discriminate; inversion H; subst; clear H; [|exact Hi].
    intros i x Hx. cbn [subs] in Hx. specialize (Hi i x Hx). rewrite (all_live_spec s i x Ea Hx) in *. exact Hi.
  - (* LSub *)
    unfold step_fixsub in H. destruct (all_live s) eqn:Ea; [|discriminate].
    unfold step in H. cbn [stepx] in H. destruct (is_nil (pend s)); [|discriminate]. inversion H; subst; clear H.
    intros i x Hx. cbn [set_subs subs hist] in *.
    destruct (Nat.lt_ge_cases i (length (subs s))) as [Hlt|Hge].
    + rewrite nth_error_app1 in Hx by exact Hlt. specialize (Hi i x Hx). rewrite (all_live_spec s i x Ea Hx) in *. exact Hi.
    + rewrite nth_error_app2 in Hx by exact Hge.
      destruct (i - length (subs s)) as [|k]; [|destruct k; discriminate]. inversion Hx; subst. reflexivity.
  - (* LRead: the state read is the state at registration *)
    unfold step_fixsub, step in H. cbn [stepx] in H.
    apply with_sub_inv in H as (x & y & Hx & Hg & ->). destruct (sg x) eqn:Esg; [|discriminate].
    inversion Hg; subst; clear Hg. intros j z Hz. cbn [set_subs subs hist] in *. rewrite nth_error_upd in Hz.
    destruct (Nat.eqb j i) eqn:E.
    + apply Nat.eqb_eq in E. subst j. rewrite Hx in Hz. cbn in Hz. inversion Hz; subst. cbn.
      specialize (Hi i x Hx). rewrite Esg in Hi. now rewrite Hi.
    + exact (Hi j z Hz).
Qed.

Lemma atomic_reach cfg ls s : run (step_fixsub cfg) init ls = Some s -> atomic_inv s.
Proof.
  intros H. eapply (run_inv _ _ (step_fixsub cfg) atomic_inv); [apply atomic_step| |exact H].
  intros i x Hx. destruct i; discriminate.
Qed.

(* With repair (a) the property as stated holds, without any duplicate allowance: a subscriber that keeps
   up has received a prefix of  s0 :: every later change, s0 the state at an instant inside its call. *)
Lemma candidate_a_stream ls s i x :
  run (step_fixsub fsm_cfg) init ls = Some s -> nth_error (subs s) i = Some x ->
  dropped x = false -> sg x = SLive ->
  read_at x = reg_at x /\
  exists rest, got x ++ rest =
               state_at (hist s) (read_at x) :: segment (hist s) (read_at x) (endp (length (hist s)) x).
Proof.
  intros Hr Hx Hd Hl. pose proof (atomic_reach _ _ _ Hr i x Hx) as Ha. rewrite Hl in Ha.
  split; [exact Ha|].
  assert (Hm : mreach s) by (exists ls; now apply run_fixsub_run).
  destruct (stream_one_window s i x Hm Hx Hd Hl ltac:(lia)) as (rest & E0 & _). exists rest. now apply E0.
Qed.

(* the stale-replay witness is not a run of the repaired model *)
Lemma candidate_a_blocks_witness : run (step_fixsub fsm_cfg) init stream_witness = None.
Proof. vm_compute. reflexivity. Qed.

(* ... and the repaired model is not empty-handed: an ordinary subscription still runs *)
Lemma candidate_a_nonvacuous :
  exists s x, run (step_fixsub fsm_cfg) init
                  [LOp (OTrans Booting) true; LSub; LRead 0; LOp (OTrans Running) true; LDeliver 0;
                   LRecv 0 Booting; LFwdTake 0; LFwdPut 0; LRecv 0 Running] = Some s /\
              nth_error (subs s) 0 = Some x /\ got x = [Booting; Running] /\ dropped x = false /\ sg x = SLive.
Proof. eexists. eexists. split; [vm_compute; reflexivity|]. repeat split; reflexivity. Qed.

(* ------------------------------------------------------------------ *)
(* (b) *)

Definition composite_fixed_step := composite_stepx true true.
Definition composite_fixed_rstep := rstep fsm_cfg cctl ccl composite_fixed_step composite_tok.
Definition composite_fixed_astep := astep fsm_cfg cctl ccl composite_fixed_step.

Definition composite_fixed_set : list (cctl * st) :=
  Eval vm_compute in bfs _ _ composite_fixed_astep cctl_st_eq_dec composite_labels (400 * 250)
                         [(composite_init, New)] [(composite_init, New)].

Lemma composite_fixed_closed :
  closedb _ _ composite_fixed_astep cctl_st_eq_dec composite_labels composite_fixed_set = true.
Proof. vm_compute; reflexivity. Qed.

Definition composite_full_okb (x : cctl * st) : bool :=
  match c_run (fst x) with
  | CPDone b a => result_okb b a
  | CPRet b => result_okb b (snd x)
  | _ => true
  end.

Lemma composite_fixed_set_ok : forallb composite_full_okb composite_fixed_set = true.
Proof. vm_compute; reflexivity. Qed.

(* the unrepaired model does NOT pass the same test (sanity of the test itself) *)
Lemma composite_current_set_not_ok : forallb composite_full_okb composite_set = false.
Proof. vm_compute; reflexivity. Qed.

Lemma candidate_b_result ls s b a :
  run composite_fixed_rstep (rinit cctl composite_init) ls = Some s -> c_run (rc s) = CPDone b a ->
  (a = Stopped <-> b = true) /\ (b = false -> a = Error).
Proof.
  intros H E.
  assert (Hok : composite_full_okb (rc s, cur (rm s)) = true).
  { eapply memb_forallb; [exact composite_fixed_set_ok|].
    eapply product_in_set; [exact composite_labels_all| |exact composite_fixed_closed|exact H].
    vm_compute; reflexivity. }
  unfold composite_full_okb in Hok. cbn [fst] in Hok. rewrite E in Hok. now apply result_okb_spec.
Qed.

(* a clean cycle of the repaired model, and the old witness is no longer a run of it *)
Lemma candidate_b_nonvacuous :
  exists s, run composite_fixed_rstep (rinit cctl composite_init)
                (map RC [CRunCall; CTBooting; CCb true; CTRunning; CStopCall; CSelStop; CTStopping; CStopAllOk;
                         CTStopped; CRunRet true; CReloadCall; CRlBegin; CRlT; CRlSetErr]) = Some s /\
            c_run (rc s) = CPDone true Stopped /\ cur (rm s) = Error.
Proof. eexists. split; [vm_compute; reflexivity|]. split; reflexivity. Qed.

Lemma candidate_b_blocks_witness :
  run composite_fixed_rstep (rinit cctl composite_init) composite_witness = None.
Proof. vm_compute. reflexivity. Qed.
