(* C13 - termination of Reload / Run / Stop of the HTTP runner as a MEASURE (not only the absence of stuck states):
   a natural number [mu s] that strictly decreases on every implementation step - the internal steps of Run, of the
   Reload and Stop callers and of the serve goroutines, the returns of the calls, and also the returns of the two
   external calls a Reload waits for (the configuration callback and http.Server.Shutdown) - from every reachable
   state, with NO hypothesis on the environment; an environment step (a new Run/Stop/Reload call, context cancel, a
   foreign process binding or freeing an address) raises it by at most [env_cost]; observations leave it unchanged.
   Hence along any execution the number of implementation steps is bounded by the measure of the starting state
   plus [env_cost] per environment step: no livelock, a Reload cannot go round in circles. *)
From Coq Require Import List NArith ZArith Bool Lia.
From GS Require Import LTS HttpCfg HttpServer HttpCfgProofs HttpInv HttpInvStep HttpInvStep2 HttpProps HttpProgress.
Import ListNotations.

Inductive lclass := CSys | CEnv | CObs.

Definition label_class (l : label) : lclass :=
  match l with
  | LRunCall | LStopCall _ | LCancel | LReloadCall _ | LForeignBind _ | LForeignFree _ => CEnv
  | LObsState _ | LObsDial _ _ | LObsServe _ _ | LObsCensus _ | LQuiesce => CObs
  | _ => CSys
  end.
Definition is_sys (l : label) : bool := match label_class l with CSys => true | _ => false end.
Definition is_env (l : label) : bool := match label_class l with CEnv => true | _ => false end.

Definition w_kpc (k : crit) : nat :=
  match k with
  | KFree => 0 | KFetch => 20 | KUnchanged => 2 | KStopPending => 18 | KStopWait _ => 16 | KWantBoot => 14
  | KProbe _ => 8 | KBootFail _ => 6 | KCleanup _ => 4 | KFinish => 2
  end.
Definition w_rpc (p : run_pc) : nat :=
  match p with
  | RDone => 0 | RRet _ => 1 | RStopDone _ => 2 | RInStop => 3 | RWantStop => 22 | RSelect => 23 | RBooted => 24
  | RInBoot => 25 | RWantBoot => 40 | RCalled => 41 | RNew => 42
  end.
Definition w_sv (x : srv) : nat :=
  match s_pc x with SvStart => 3 | SvListening => 2 | SvFailed => 2 | SvExited => 0 end.
Definition w_wait : nat := 21.       (* a Reload caller that has not yet locked the mutex *)
Definition env_cost : nat := 21.

Definition mu (s : state) : nat :=
  w_rpc (rpc s) + w_kpc (kpc s) + list_sum (map w_sv (servers s)) + length (errs s)
  + w_wait * length (rl_wait s) + length (rl_ret s) + length (stoppers s) + (if crashed s then 0 else 1).

(* ---- list arithmetic ---- *)

Lemma sum_upd svs : forall sid f sv,
  nth_error svs sid = Some sv ->
  list_sum (map w_sv (upd_srv svs sid f)) + w_sv sv = list_sum (map w_sv svs) + w_sv (f sv).
Proof.
  induction svs as [|x svs IH]; intros [|sid] f sv H; cbn [nth_error] in H; try discriminate.
  - injection H as ->. unfold list_sum. cbn [upd_srv map fold_right]. lia.
  - specialize (IH sid f sv H). unfold list_sum in *. cbn [upd_srv map fold_right]. lia.
Qed.

Lemma sum_snoc svs x : list_sum (map w_sv (svs ++ [x])) = list_sum (map w_sv svs) + w_sv x.
Proof. rewrite map_app, list_sum_app. cbn. lia. Qed.

Lemma len_remove1 x l : mem x l = true -> S (length (remove1 x l)) = length l.
Proof.
  induction l as [|y l IH]; cbn [mem remove1 length]; [discriminate|].
  destruct (Nat.eqb x y); cbn [orb]; [reflexivity|]. intros H. cbn [length]. now rewrite IH.
Qed.

Lemma sum_upd_shut svs : forall sid, list_sum (map w_sv (upd_srv svs sid set_shut)) = list_sum (map w_sv svs).
Proof.
  induction svs as [|x svs IH]; intros [|sid]; cbn [upd_srv map]; try reflexivity.
  specialize (IH sid). unfold list_sum in *. cbn [fold_right]. rewrite IH. reflexivity.
Qed.

(* ---- the steps ---- *)

Ltac mu_simpl :=
  unfold mu; cbn [rpc kpc servers errs rl_wait rl_ret stoppers crashed fsm_st holder
                  with_fsm with_cur with_server with_errs with_srvnet with_rpc with_crit with_rl with_env with_crashed
                  w_rpc w_kpc length].

Section Measure.
  Variable stop_locked : bool.
  Variable validated : bool.
  Variable mux_ok : list str -> bool.
  Notation step := (step stop_locked validated mux_ok).

  (* an environment step costs at most env_cost, an observation nothing *)
  Lemma mu_env_step s l s' : step s l = Some s' -> is_sys l = false -> mu s' <= mu s + (if is_env l then env_cost else 0).
  Proof.
    intros H Hl. destruct l; cbn in Hl; try discriminate; open_step H; crush_step H; mu_simpl; cbn [is_env label_class env_cost];
      try lia.
    all: try (match goal with |- context[crashed ?x] => destruct (crashed x) end; lia).
    all: repeat match goal with E : rpc _ = _ |- _ => rewrite E end; unfold w_wait, env_cost; cbn [w_rpc]; lia.
  Qed.

  (* who holds the mutex for Run is inside boot or inside stopServer *)
  Lemma mu_sys_step s l s' :
    Inv0 s -> step s l = Some s' -> is_sys l = true -> mu s' < mu s.
  Proof.
    intros I H Hl.
    assert (Hrun : holder s = Some ByRun ->
                   (rpc s = RInBoot /\ boot_kpc (kpc s)) \/ (rpc s = RInStop /\ stop_kpc (kpc s))) by (apply (z_run _ I)).
    destruct l; cbn in Hl; try discriminate; clear Hl; open_step H; crush_step H; mu_simpl.
    all: repeat match goal with
                | E : srv_at _ _ = Some _ |- _ => unfold srv_at in E
                | E : nth_error (servers ?s) ?sid = Some ?sv |- context[upd_srv (servers ?s) ?sid ?f] =>
                  pose proof (sum_upd (servers s) sid f sv E); clear E
                | E : mem ?x ?l = true |- context[remove1 ?x ?l] => pose proof (len_remove1 x l E); clear E
                | E : (_ && _) = true |- _ => apply andb_true_iff in E; destruct E
                | E : (_ || _) = true |- _ => apply orb_true_iff in E; destruct E
                | E : sv_pc_eqb _ _ = true |- _ => apply sv_pc_eqb_eq in E
                | E : crashed _ = false |- _ => rewrite E in *; clear E
                | E : errs _ = _ |- _ => rewrite E in *; clear E
                end;
      rewrite ?sum_snoc, ?sum_upd_shut; unfold w_sv in *; cbn [s_pc set_pc set_shut] in *.
    all: repeat match goal with
                | E : rpc _ = _ |- _ => rewrite E in *
                | E : kpc _ = _ |- _ => rewrite E in *
                | E : s_pc _ = _ |- _ => rewrite E in *
                end; cbn [w_rpc w_kpc length] in *.
    all: try (unfold w_wait; cbn [length]; lia).
    all: try (destruct (Hrun eq_refl) as [[Er Hk]|[Er Hk]]; rewrite Er in *; cbn [w_rpc boot_kpc stop_kpc] in *;
              try contradiction; unfold w_wait; cbn [length]; lia).
  Qed.

  Theorem measure_decreases c0 ls s l s' :
    run step (init c0) ls = Some s -> step s l = Some s' -> is_sys l = true -> mu s' < mu s.
  Proof. intros Hr. apply mu_sys_step. exact (inv0_reachable stop_locked validated mux_ok c0 ls s Hr). Qed.

  Definition nsys (ls : list label) : nat := length (filter is_sys ls).
  Definition nenv (ls : list label) : nat := length (filter is_env ls).

  Lemma bounded_from ls : forall s s',
    Inv0 s -> run step s ls = Some s' -> nsys ls + mu s' <= mu s + env_cost * nenv ls.
  Proof.
    induction ls as [|l ls IH]; intros s s' I H.
    - injection H as <-. unfold nsys, nenv. cbn. lia.
    - cbn [run] in H. destruct (step s l) as [s1|] eqn:E; [|discriminate].
      pose proof (inv0_step stop_locked validated mux_ok s l s1 I E) as I1.
      specialize (IH s1 s' I1 H). unfold nsys, nenv in *. cbn [filter].
      destruct (is_sys l) eqn:Es.
      + pose proof (mu_sys_step s l s1 I E Es) as D.
        assert (is_env l = false) by (unfold is_sys, is_env in *; destruct (label_class l); congruence).
        rewrite H0. cbn [length]. lia.
      + pose proof (mu_env_step s l s1 E Es) as D. destruct (is_env l); cbn [length]; unfold env_cost in *; lia.
  Qed.

  (* along ANY execution from a reachable state: #implementation steps <= mu(start) + env_cost * #environment steps *)
  Theorem measure_bounded c0 ls0 s ls s' :
    run step (init c0) ls0 = Some s -> run step s ls = Some s' ->
    nsys ls + mu s' <= mu s + env_cost * nenv ls.
  Proof. intros Hr. apply bounded_from. exact (inv0_reachable stop_locked validated mux_ok c0 ls0 s Hr). Qed.

  Lemma progress_is_sys l : progress_label l = true -> is_sys l = true.
  Proof. destruct l; cbn; congruence. Qed.

  (* whoever holds r.mutex - a Reload in particular - always has a next implementation step: the measure cannot stop
     decreasing inside a critical section *)
  Theorem section_progress c0 ls s :
    run step (init c0) ls = Some s -> crashed s = false -> holder s <> None ->
    exists l, is_sys l = true /\ step s l <> None.
  Proof.
    intros Hr Hc Hh. destruct (crit_progress0 stop_locked validated mux_ok s (inv0_reachable _ _ _ c0 ls s Hr) Hc Hh) as (l & Hp & Hs).
    exists l. split; [now apply progress_is_sys|exact Hs].
  Qed.

  (* where a maximal execution ends: when no implementation step is enabled, nobody is inside or waiting for a
     critical section, every Reload and Stop call has returned, and Run is not in the middle of anything: it has not been
     called, has returned, or sits in its select with neither Stop nor cancel requested *)
  Theorem system_stuck_is_idle c0 ls s :
    run step (init c0) ls = Some s -> crashed s = false ->
    (forall l, is_sys l = true -> step s l = None) ->
    holder s = None /\ rl_wait s = [] /\ rl_ret s = [] /\
    (rpc s = RNew \/ rpc s = RDone \/ (rpc s = RSelect /\ cancelled s || stop_req s = false /\ errs s = [])) /\
    (stoppers s <> [] -> rpc s <> RDone).
  Proof.
    intros Hr Hc Hst.
    assert (Hh : holder s = None).
    { destruct (holder s) eqn:Eh; [|reflexivity]. exfalso.
      destruct (section_progress c0 ls s Hr Hc) as (l & Hl & Hs); [congruence|]. apply Hs. now apply Hst. }
    pose proof (inv0_reachable stop_locked validated mux_ok c0 ls s Hr) as I.
    assert (Hw : rl_wait s = []).
    { destruct (rl_wait s) as [|i w] eqn:Ew; [reflexivity|]. exfalso.
      pose proof (Hst (LReloadBegin i) eq_refl) as X. unfold HttpServer.step, step_core in X.
      rewrite Hc, Ew, Hh in X. cbn [mem] in X. rewrite Nat.eqb_refl in X. cbn [orb] in X.
      destruct (fsm_allowed _ _); discriminate. }
    assert (Hrr : rl_ret s = []).
    { destruct (rl_ret s) as [|i w] eqn:Ew; [reflexivity|]. exfalso.
      pose proof (Hst (LReloadRet i) eq_refl) as X. unfold HttpServer.step, step_core in X.
      rewrite Hc, Ew in X. cbn [mem] in X. rewrite Nat.eqb_refl in X. discriminate. }
    split; [exact Hh|]. split; [exact Hw|]. split; [exact Hrr|]. split.
    - destruct (rpc s) eqn:Er; auto.
      + exfalso. pose proof (Hst LRunStart eq_refl) as X. unfold HttpServer.step, step_core in X. rewrite Hc, Er in X.
        destruct (fsm_allowed _ _); discriminate.
      + exfalso. pose proof (Hst LRunLock eq_refl) as X. unfold HttpServer.step, step_core in X. rewrite Hc, Er, Hh in X. discriminate.
      + exfalso. assert (holder s = Some ByRun) by (apply (z_rpc _ I); auto). congruence.
      + exfalso. pose proof (Hst LRunFinishBoot eq_refl) as X. unfold HttpServer.step, step_core in X. rewrite Hc, Er in X.
        destruct (fsm_allowed _ _); discriminate.
      + destruct (cancelled s || stop_req s) eqn:Ec.
        * exfalso. pose proof (Hst LRunWake eq_refl) as X. unfold HttpServer.step, step_core in X. rewrite Hc, Er, Ec in X. discriminate.
        * destruct (errs s) eqn:Ee; [auto|].
          exfalso. pose proof (Hst LRunServeErr eq_refl) as X. unfold HttpServer.step, step_core in X. rewrite Hc, Er, Ee in X. discriminate.
      + exfalso. pose proof (Hst LRunLockStop eq_refl) as X. unfold HttpServer.step, step_core in X. rewrite Hc, Er, Hh in X. discriminate.
      + exfalso. assert (holder s = Some ByRun) by (apply (z_rpc _ I); auto). congruence.
      + exfalso. pose proof (Hst LRunFinishStop eq_refl) as X. unfold HttpServer.step, step_core in X. rewrite Hc, Er in X. discriminate.
      + exfalso. pose proof (Hst (LRunRet r) eq_refl) as X. unfold HttpServer.step, step_core in X. rewrite Hc, Er, N.eqb_refl in X. discriminate.
    - intros Hne Er. destruct (stoppers s) as [|j w] eqn:Ew; [contradiction|].
      pose proof (Hst (LStopRet j) eq_refl) as X. unfold HttpServer.step, step_core in X.
      rewrite Hc, Ew, Er in X. cbn [mem] in X. rewrite Nat.eqb_refl in X. discriminate.
  Qed.
End Measure.
