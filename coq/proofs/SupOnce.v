(* C01 (exactly once): when Run() has returned, every runnable whose Run was invoked has been
   stopped exactly once.  Rests on: the started runnables form a prefix of the registration order,
   the shutdown body stops exactly that prefix, and nothing is started once shutdown has begun. *)
From Coq Require Import List NArith Bool Arith Lia.
From GS Require Import LTS Supervisor SupAccept SupProps SupInv SupStop SupTrig SupGate.
Import ListNotations.

Definition nn_rn (p : rn_pc) : bool := match p with RnNot => false | _ => true end.

(* how one step moves the start-up loop and the runnable goroutines *)
Inductive su_effect (c : config) (s s' : state) : Prop :=
| su_launch i :
    main s = MLaunch i -> sd s = SdNot -> i < nrun c -> rn s' = upd (rn s) i RnLaunched ->
    (main s' = MGate i \/ main s' = after_launch c i) -> sd s' = sd s -> su_effect c s s'
| su_open i :
    (main s = MGate i \/ main s = MGateCheck i) -> main s' = after_launch c i -> rn s' = rn s ->
    sd s' = sd s -> su_effect c s s'
| su_poll i :
    main s = MGate i -> main s' = MGateCheck i -> rn s' = rn s -> sd s' = sd s -> su_effect c s s'
| su_enter :
    ((main s = MNew /\ main s' = MEntering) \/ (main s = MEntering /\ main s' = MLaunch 0)) ->
    rn s' = rn s -> su_effect c s s'
| su_leave :
    (forall i, main s' <> MLaunch i /\ main s' <> MGate i /\ main s' <> MGateCheck i) ->
    main s' <> MNew -> main s' <> MEntering ->
    rn s' = rn s -> su_effect c s s'
| su_same :
    main s' = main s ->
    (rn s' = rn s \/ exists i p, rn s' = upd (rn s) i p /\ get RnDone (rn s) i <> RnNot /\ p <> RnNot) ->
    su_effect c s s'.

Ltac leave_tac := apply su_leave; [intros ?; repeat split; discriminate|discriminate|discriminate|reflexivity].

Lemma step_su_effect c s l s' : step c s l = Some s' -> su_effect c s s'.
Proof.
  intros H. unfold step in H.
  destruct l; cbn [step0] in H; unfold start_shutdown, store_state in H;
    step_cases H; inversion H; subst; clear H.
  all: try (apply su_same; [reflexivity|left; reflexivity]; fail).
  all: repeat match goal with E : _ && _ = true |- _ => apply andb_true_iff in E as [? ?] end.
  all: repeat match goal with E : (_ =? _) = true |- _ => apply Nat.eqb_eq in E; subst end.
  all: repeat match goal with E : (_ <? _) = true |- _ => apply Nat.ltb_lt in E end.
  all: try (leave_tac; fail).
  all: try (apply su_enter; [first [left; split; [assumption|reflexivity]|right; split; [assumption|reflexivity]]|reflexivity]; fail).
  all: try (eapply su_launch; [eassumption|eassumption|eassumption|reflexivity|first [left; reflexivity|right; reflexivity]|reflexivity]; fail).
  all: try (eapply su_open; [first [left; eassumption|right; eassumption]|reflexivity|reflexivity|reflexivity]; fail).
  all: try (eapply su_poll; [eassumption|reflexivity|reflexivity|reflexivity]; fail).
  all: try (apply su_same; [reflexivity|right; eexists; eexists; split; [reflexivity|split;
            [match goal with H : rn_at _ _ = _ |- _ => unfold rn_at in H; rewrite H; discriminate end|discriminate]]]; fail).
Qed.

(* ---- the started runnables are a prefix ---- *)

Definition cnt (l : list rn_pc) : nat := length (filter nn_rn l).

Lemma launched_cnt s : launched s = cnt (rn s).
Proof. reflexivity. Qed.

(* l = (non-RnNot)^k ++ RnNot^(len-k) *)
Definition is_prefix_k (l : list rn_pc) (k : nat) : Prop :=
  k <= length l /\
  (forall j, j < k -> get RnDone l j <> RnNot) /\
  (forall j, k <= j -> j < length l -> get RnDone l j = RnNot).

Lemma prefix_cnt l k : is_prefix_k l k -> cnt l = k.
Proof.
  revert k; induction l as [|p l IH]; intros k (L & A & B).
  - cbn in *. lia.
  - destruct k as [|k].
    + assert (Hp : p = RnNot) by (apply (B 0); cbn; lia). subst p. unfold cnt. cbn [filter nn_rn].
      apply (IH 0). split; [cbn; lia|]. split; [intros j Hj; lia|].
      intros j _ Lj. apply (B (S j)); cbn; lia.
    + assert (Hp : p <> RnNot) by (apply (A 0); lia).
      assert (Hl : cnt l = k).
      { apply IH. split; [cbn in L; lia|]. split.
        - intros j Hj. apply (A (S j)). lia.
        - intros j L1 L2. apply (B (S j)); cbn; lia. }
      unfold cnt in *. cbn [filter]. destruct p; try congruence; cbn [nn_rn length]; now f_equal.
Qed.

Lemma prefix_upd_started l k i p :
  is_prefix_k l k -> get RnDone l i <> RnNot -> p <> RnNot -> is_prefix_k (upd l i p) k.
Proof.
  intros (L & A & B) Hi Hp. repeat split.
  - now rewrite upd_length.
  - intros j Hj. apply (upd_keeps (fun q => q <> RnNot)); auto.
  - intros j L1 L2. rewrite upd_length in L2. rewrite get_upd_other; [auto|].
    intros ->. apply Hi. auto.
Qed.

Lemma prefix_launch l k : is_prefix_k l k -> k < length l -> is_prefix_k (upd l k RnLaunched) (S k).
Proof.
  intros (L & A & B) Lk. repeat split.
  - rewrite upd_length. lia.
  - intros j Hj. destruct (Nat.eq_dec j k) as [->|N].
    + rewrite get_upd_same by exact Lk. discriminate.
    + rewrite get_upd_other by congruence. apply A. lia.
  - intros j L1 L2. rewrite upd_length in L2. rewrite get_upd_other by lia. apply B; lia.
Qed.

Record InvPre (c : config) (s : state) : Prop := {
  ip_len : length (rn s) = nrun c;
  ip_prefix : is_prefix_k (rn s) (launched s);
  ip_launch : forall i, main s = MLaunch i -> launched s = i;
  ip_gate : forall i, main s = MGate i \/ main s = MGateCheck i -> launched s = S i;
  ip_new : pre_run s -> launched s = 0;
}.

Lemma InvPre_init c : InvPre c (init c).
Proof.
  assert (R : forall j, j < nrun c -> get RnDone (repeat RnNot (nrun c)) j = RnNot)
    by (intros; now apply nth_repeat_lt').
  assert (Z0 : forall n, length (filter (fun p => match p with RnNot => false | _ => true end) (repeat RnNot n)) = 0)
    by (induction n; cbn; auto).
  assert (Z : launched (init c) = 0) by (unfold launched; cbn; apply Z0).
  constructor.
  - cbn. apply repeat_length.
  - rewrite Z. cbn. repeat split; [lia|intros; lia|]. intros j _ L. rewrite repeat_length in L. now apply R.
  - cbn. intros i H. discriminate H.
  - cbn. intros i [H|H]; discriminate H.
  - intros _. exact Z.
Qed.

Lemma after_launch_idx c i m :
  after_launch c i = m -> (forall j, m = MLaunch j -> j = S i) /\
  (forall j, m <> MGate j /\ m <> MGateCheck j).
Proof.
  intros H. apply after_launch_cases in H as [[H _]|H]; subst m; split; intros; try split; try discriminate.
  now injection H.
Qed.

Lemma InvPre_step c s l s' : InvPre c s -> step c s l = Some s' -> InvPre c s'.
Proof.
  intros [Hlen Hpre HL HG HN] H. pose proof (step_su_effect _ _ _ _ H) as E.
  rewrite launched_cnt in Hpre.
  assert (HN' : pre_run s -> cnt (rn s) = 0) by (intros X; rewrite <- launched_cnt; auto).
  clear HN. unfold pre_run in *.
  assert (HL' : forall i, main s = MLaunch i -> cnt (rn s) = i) by (intros i Hi; rewrite <- launched_cnt; auto).
  assert (HG' : forall i, main s = MGate i \/ main s = MGateCheck i -> cnt (rn s) = S i)
    by (intros i Hi; rewrite <- launched_cnt; auto).
  clear HL HG.
  destruct E as [i Em Es Li Er Em' _ | i Em Em' Er _ | i Em Em' Er _ | Em Er | Hm Hm1 Hm2 Er | Em Er].
  - (* launch *)
    pose proof (HL' i Em) as Hk.
    assert (Hp' : is_prefix_k (rn s') (S i)).
    { rewrite Er. rewrite Hk in Hpre. apply prefix_launch; [exact Hpre|]. rewrite Hlen. exact Li. }
    assert (Hc : cnt (rn s') = S i) by (now apply prefix_cnt).
    constructor; rewrite ?launched_cnt, ?Hc.
    + rewrite Er, upd_length. exact Hlen.
    + exact Hp'.
    + intros j Hj. destruct Em' as [E|E]; rewrite E in Hj; [discriminate Hj|].
      symmetry. eapply after_launch_idx; [reflexivity|exact Hj].
    + intros j Hj. destruct Em' as [E|E]; rewrite E in Hj.
      * destruct Hj as [Hj|Hj]; [now injection Hj as <-|discriminate Hj].
      * exfalso. destruct (after_launch_idx c i _ eq_refl) as [_ X]. destruct (X j) as [X1 X2].
        destruct Hj; contradiction.
    + intros [X|X]; destruct Em' as [E|E]; rewrite E in X; try discriminate X;
        apply after_launch_cases in X as [[X _]|X]; discriminate X.
  - (* gate opens *)
    constructor; rewrite ?launched_cnt, ?Er; auto.
    + intros j Hj. rewrite Em' in Hj. rewrite (HG' i Em). symmetry.
      eapply after_launch_idx; [reflexivity|exact Hj].
    + intros j Hj. rewrite Em' in Hj. exfalso.
      destruct (after_launch_idx c i _ eq_refl) as [_ X]. destruct (X j) as [X1 X2]. destruct Hj; contradiction.
    + intros [X|X]; rewrite Em' in X; apply after_launch_cases in X as [[X _]|X]; discriminate X.
  - (* poll true *)
    constructor; rewrite ?launched_cnt, ?Er; auto.
    + intros j Hj. rewrite Em' in Hj. discriminate Hj.
    + intros j Hj. rewrite Em' in Hj. rewrite (HG' i (or_introl Em)).
      destruct Hj as [Hj|Hj]; [discriminate Hj|now injection Hj as <-].
    + intros [X|X]; rewrite Em' in X; discriminate X.
  - (* Run() called / entered *)
    assert (Z : cnt (rn s) = 0) by (apply HN'; destruct Em as [[E _]|[E _]]; auto).
    constructor; rewrite ?launched_cnt, ?Er; auto.
    + intros j Hj. destruct Em as [[_ E]|[_ E]]; rewrite E in Hj; [discriminate Hj|]. injection Hj as <-. exact Z.
    + intros j Hj. destruct Em as [[_ E]|[_ E]]; rewrite E in Hj; destruct Hj as [Hj|Hj]; discriminate Hj.
  - (* left the start-up loop *)
    constructor; rewrite ?launched_cnt, ?Er; auto.
    + intros j Hj. exfalso. destruct (Hm j) as (X0 & _). contradiction.
    + intros j Hj. exfalso. destruct (Hm j) as (_ & X1 & X2). destruct Hj; contradiction.
    + intros [X|X]; contradiction.
  - (* main unchanged *)
    destruct Er as [Er|(i & p & Er & Hi & Hp)].
    + constructor; unfold pre_run; rewrite ?launched_cnt, ?Er, ?Em; auto.
    + assert (Hc : cnt (rn s') = cnt (rn s)).
      { rewrite Er. unfold cnt. apply (launched_upd_started (rn s) i p Hi Hp). }
      constructor; unfold pre_run; rewrite ?launched_cnt, ?Em, ?Hc; auto.
      * rewrite Er, upd_length. exact Hlen.
      * rewrite Er. now apply prefix_upd_started.
Qed.

Lemma InvPre_reachable c s : reachable_sup c s -> InvPre c s.
Proof. apply sup_inv; [apply InvPre_init|apply InvPre_step]. Qed.

(* ---- nothing is started once shutdown has begun; the shutdown body stops exactly the prefix ---- *)

Lemma launched_step c s l s' :
  InvPre c s -> step c s l = Some s' ->
  launched s' = launched s \/ (sd s = SdNot /\ sd s' = SdNot).
Proof.
  intros I H. destruct (step_su_effect _ _ _ _ H) as [i Em Es Li Er Em' Es' | i Em Em' Er _ | i Em Em' Er _ | Em Er | Hm _ _ Er | Em Er].
  - right. split; [exact Es|congruence].
  - left. unfold launched. now rewrite Er.
  - left. unfold launched. now rewrite Er.
  - left. unfold launched. now rewrite Er.
  - left. unfold launched. now rewrite Er.
  - left. destruct Er as [Er|(i & p & Er & Hi & Hp)]; unfold launched; rewrite Er; [reflexivity|].
    now apply launched_upd_started.
Qed.

(* the range Shutdown stops: every registered runnable when it closed the launch gate before Run() was
   entered (ghost flag sd_all), otherwise what Run() had started *)
Definition stop_k (c : config) (s : state) : nat := if sd_all (aux s) then nrun c else launched s.

(* how one step treats the flag sd_all: it is set exactly when shutdown starts before Run() was entered *)
Lemma step_sd_all c s l s' :
  step c s l = Some s' ->
  (sd_all (aux s') = sd_all (aux s) /\ (sd s = SdNot -> sd s' = SdNot)) \/
  (sd s = SdNot /\ sd s' = sd_next (stop_count c s) /\ rn s' = rn s /\
   sd_all (aux s') = negb (run_entered (aux s)) || sd_all (aux s)).
Proof.
  intros H. unfold step in H.
  destruct l; cbn [step0] in H; unfold start_shutdown, store_state in H;
    step_cases H; inversion H; subst; clear H; simp_st.
  all: try (left; split; [reflexivity|intros X; first [exact X|congruence]]; fail).
  all: try (right; split; [assumption|]; split; [reflexivity|]; split; [reflexivity|];
            match goal with E : run_entered _ = _ |- _ => rewrite E end; reflexivity).
  all: try (right; repeat split; reflexivity).
Qed.

Definition InvK (c : config) (s : state) : Prop :=
  match sd s with
  | SdNot => stops s = [] /\ sd_all (aux s) = false
  | SdNext k => 0 < k /\ stops_fr (stop_k c s) k (stops s)
  | SdIn i => exists l, stops_fr (stop_k c s) (S i) l /\ stops s = l ++ [EStopCall i]
  | SdCancel | SdWait | SdDone => stops_fr (stop_k c s) 0 (stops s)
  end.

Lemma sd_next_K K k l :
  stops_fr K k l ->
  match sd_next k with
  | SdNext k' => 0 < k' /\ stops_fr K k' l
  | SdCancel => stops_fr K 0 l
  | _ => False
  end.
Proof. destruct k; cbn [sd_next]; auto. intros; split; [lia|assumption]. Qed.

Lemma InvK_step c s l s' : InvPre c s -> InvK c s -> step c s l = Some s' -> InvK c s'.
Proof.
  intros IP IK H. unfold InvK in *.
  destruct (step_sd_effect _ _ _ _ H) as [_ Heff].
  pose proof (launched_step _ _ _ _ IP H) as HL.
  pose proof (step_sd_all _ _ _ _ H) as HA.
  (* once the shutdown body has started the stop range is fixed *)
  assert (HK : sd s <> SdNot -> stop_k c s' = stop_k c s).
  { intros N. unfold stop_k. destruct HA as [[A _]|[X _]]; [|contradiction]. rewrite A.
    destruct HL as [HL|[X _]]; [now rewrite HL|contradiction]. }
  destruct Heff as [i Es Es' Eh | i Es Es' Eh | Est Esd].
  - rewrite Es in IK. destruct IK as [_ Hfr]. rewrite Es'.
    rewrite HK by (rewrite Es; discriminate).
    exists (stops s). split; [exact Hfr|].
    eapply eq_trans; [eapply stops_cons_stop; [exact Eh|reflexivity]|reflexivity].
  - rewrite Es in IK. destruct IK as (l0 & Hfr & Est).
    assert (Est' : stops s' = l0 ++ [EStopCall i; EStopRet i]).
    { eapply eq_trans; [eapply stops_cons_stop; [exact Eh|reflexivity]|].
      fold (stops s). rewrite Est, <- app_assoc. reflexivity. }
    pose proof (sd_next_K _ _ _ (sf_snoc _ i l0 Hfr)) as Hn.
    rewrite Es', HK, Est' by (rewrite Es; discriminate). destruct (sd_next i); try contradiction; exact Hn.
  - rewrite Est. destruct Esd as [E | [[E E'] | [[E E'] | [E E']]]].
    + rewrite E. destruct (sd s) eqn:Es.
      * destruct IK as [IK1 IK2]. split; [exact IK1|].
        destruct HA as [[A _]|(_ & X & _)]; [now rewrite A|].
        rewrite E in X. destruct (stop_count c s); discriminate X.
      * rewrite HK by discriminate. exact IK.
      * rewrite HK by discriminate. exact IK.
      * rewrite HK by discriminate. exact IK.
      * rewrite HK by discriminate. exact IK.
      * rewrite HK by discriminate. exact IK.
    + rewrite E in IK. destruct IK as [IK1 IK2]. rewrite E', IK1.
      assert (HK' : stop_k c s' = stop_count c s).
      { destruct HA as [[_ A]|(_ & _ & Er & A)].
        - specialize (A E). rewrite E' in A. destruct (stop_count c s); discriminate A.
        - unfold stop_k, stop_count. rewrite A, IK2, orb_false_r. unfold launched. rewrite Er.
          destruct (run_entered (aux s)); reflexivity. }
      rewrite HK'. pose proof (sd_next_K (stop_count c s) (stop_count c s) [] (sf_nil _)) as Hn.
      destruct (sd_next (stop_count c s)); try contradiction; exact Hn.
    + rewrite E in IK. rewrite E', HK by (rewrite E; discriminate). exact IK.
    + rewrite E in IK. rewrite E', HK by (rewrite E; discriminate). exact IK.
Qed.

Lemma InvK_reachable c s : reachable_sup c s -> InvK c s.
Proof.
  intros Hr.
  assert (G : InvPre c s /\ InvK c s).
  { revert s Hr. apply sup_inv.
    - split; [apply InvPre_init|split; reflexivity].
    - intros s0 l s1 [IP IK] Hs. split; [eapply InvPre_step; eassumption|eapply InvK_step; eassumption]. }
  apply G.
Qed.

(* Shutdown before Run(): nothing is ever started *)
Lemma sd_all_launched c s : reachable_sup c s -> sd_all (aux s) = true -> launched s = 0.
Proof.
  intros Hr.
  assert (G : InvNew c s /\ InvPre c s /\ InvK c s /\ (sd_all (aux s) = true -> launched s = 0)).
  { revert s Hr. apply sup_inv.
    - split; [apply InvNew_init|]. split; [apply InvPre_init|]. split; [split; reflexivity|]. intros X; discriminate X.
    - intros s0 l s1 (IN & IP & IK & IA) Hs.
      split; [eapply InvNew_step; eassumption|].
      split; [eapply InvPre_step; eassumption|]. split; [eapply InvK_step; eassumption|].
      intros A. pose proof (launched_step _ _ _ _ IP Hs) as HL.
      destruct (step_sd_all _ _ _ _ Hs) as [[E F]|(E0 & E1 & Er & E)].
      + rewrite E in A. specialize (IA A). destruct HL as [HL|[X _]]; [congruence|].
        unfold InvK in IK. rewrite X in IK. destruct IK as [_ IK]. congruence.
      + unfold InvK in IK. rewrite E0 in IK. destruct IK as [_ IK]. rewrite E, IK, orb_false_r in A.
        apply negb_true_iff in A. unfold launched. rewrite Er. apply (ip_new _ _ IP).
        exact (proj2 (proj2 IN) A). }
  apply G.
Qed.

(* ---- Run() returns only after the shutdown body has finished, and stays returned ---- *)

Definition InvRet (s : state) : Prop :=
  (forall r, main s = MReturned r -> sd s = SdDone) /\
  (existsb (fun e => match e with ERunReturn _ => true | _ => false end) (hist s) = true ->
   exists r, main s = MReturned r).

Lemma InvRet_step c s l s' : InvRet s -> step c s l = Some s' -> InvRet s'.
Proof.
  intros IR H. unfold step in H.
  destruct l; cbn [step0] in H; unfold start_shutdown, store_state in H;
    step_cases H; inversion H; subst; clear H; split; simp_st.
  all: try exact (proj1 IR).
  all: try exact (proj2 IR).
  all: try (intros r0 Hr; discriminate Hr).
  all: try (intros _; assumption).
  all: try (intros r0 Hr; apply after_launch_cases in Hr as [[Hr _]|Hr]; discriminate Hr).
  all: try (intros r0 Hr; pose proof (proj1 IR r0 Hr); congruence).
  all: try (cbn [existsb orb]; exact (proj2 IR)).
  all: try (intros Hx; destruct (proj2 IR Hx) as [r0 Hr0]; congruence).
  all: try (intros _; eexists; reflexivity).
  all: try (intros r0 _; assumption).
Qed.

Lemma InvRet_reachable c s : reachable_sup c s -> InvRet s.
Proof.
  apply sup_inv; [|apply InvRet_step]. split; [intros r H; discriminate H|intros H; discriminate H].
Qed.

(* ---- counting ---- *)

Lemma count_ev_app e a b : count_ev e (a ++ b) = count_ev e a + count_ev e b.
Proof. induction a as [|x a IH]; cbn [app count_ev]; [reflexivity|rewrite IH; lia]. Qed.

Lemma count_stop_filter i t : count_ev (EStopCall i) (stop_evs t) = count_ev (EStopCall i) t.
Proof.
  unfold stop_evs. induction t as [|x t IH]; [reflexivity|]. cbn [filter count_ev].
  destruct (is_stop_ev x) eqn:E; cbn [count_ev]; rewrite IH; [reflexivity|].
  destruct x; try discriminate E; reflexivity.
Qed.

Lemma count_canon i K : count_ev (EStopCall i) (canon_stops K) = if Nat.ltb i K then 1 else 0.
Proof.
  induction K as [|K IH]; [reflexivity|]. cbn [canon_stops count_ev event_eqb]. rewrite IH.
  destruct (Nat.eqb i K) eqn:E.
  - apply Nat.eqb_eq in E; subst. rewrite Nat.ltb_irrefl.
    replace (K <? S K) with true by (symmetry; apply Nat.ltb_lt; lia). reflexivity.
  - apply Nat.eqb_neq in E. destruct (Nat.ltb i K) eqn:L.
    + apply Nat.ltb_lt in L. replace (i <? S K) with true by (symmetry; apply Nat.ltb_lt; lia). reflexivity.
    + apply Nat.ltb_ge in L. replace (i <? S K) with false by (symmetry; apply Nat.ltb_ge; lia). reflexivity.
Qed.

Lemma run_returned_rev h :
  run_returned (rev h) = existsb (fun e => match e with ERunReturn _ => true | _ => false end) h.
Proof.
  unfold run_returned.
  destruct (existsb _ h) eqn:E.
  - apply existsb_exists in E as (x & Hin & Hx). apply existsb_exists. exists x. split; [now apply in_rev in Hin|exact Hx].
  - destruct (existsb _ (rev h)) eqn:E'; [|reflexivity].
    apply existsb_exists in E' as (x & Hin & Hx). apply in_rev in Hin.
    assert (existsb (fun e => match e with ERunReturn _ => true | _ => false end) h = true)
      by (apply existsb_exists; now exists x). congruence.
Qed.

(* C01: once Run() has returned, every runnable whose Run was invoked has been stopped exactly once *)
Theorem sup_c01_exactly_once c ls s :
  run (step c) (init c) ls = Some s -> c01_exactly_once c (obs_trace obs ls) = true.
Proof.
  intros H. rewrite (trace_is_history _ _ _ H).
  assert (Hre : reachable_sup c s) by (now exists ls).
  unfold c01_exactly_once. rewrite run_returned_rev.
  destruct (existsb _ (hist s)) eqn:Eret; [|reflexivity]. cbn [negb orb].
  destruct (InvRet_reachable _ _ Hre) as [R1 R2]. destruct (R2 Eret) as [r Hr].
  pose proof (R1 r Hr) as Hsd.
  pose proof (InvK_reachable _ _ Hre) as IK. unfold InvK in IK. rewrite Hsd in IK.
  pose proof (stops_fr_canon _ _ _ IK) as Hc. cbn [canon_stops] in Hc. rewrite app_nil_r in Hc.
  pose proof (InvPre_reachable _ _ Hre) as IP. pose proof (InvGate_reachable _ _ Hre) as IG.
  apply forallb_forall. intros i Hi. apply in_seq in Hi.
  rewrite mem_ev_rev. destruct (mem_ev (ERunCall i) (hist s)) eqn:M; [|reflexivity]. cbn [negb orb].
  rewrite <- count_stop_filter. fold (stops s). rewrite <- Hc, count_canon.
  replace (i <? stop_k c s) with true; [reflexivity|]. symmetry. apply Nat.ltb_lt.
  pose proof (ig_called _ _ IG i M) as Hran. apply ran_not_started in Hran.
  destruct (ip_prefix _ _ IP) as (_ & _ & B).
  unfold stop_k. destruct (sd_all (aux s)); [lia|].
  destruct (Nat.lt_ge_cases i (launched s)) as [L|L]; [exact L|].
  exfalso. apply Hran. unfold rn_at. apply B; [exact L|]. rewrite (ip_len _ _ IP). lia.
Qed.

(* C01: the supervisor cancels the runnables' contexts only after every Stop() has returned: in
   every reachable state in which its own cancel() has been called, the full canonical stop
   sequence over all started runnables is in the history *)
Theorem sup_c01_cancel_after c s :
  reachable_sup c s -> own_cancel s = true ->
  stop_evs (rev (hist s)) = canon_stops (stop_k c s).
Proof.
  intros Hre Ho. pose proof (InvGate_reachable _ _ Hre) as IG. pose proof (ig_own _ _ IG Ho) as Hsd.
  pose proof (InvK_reachable _ _ Hre) as IK. unfold InvK in IK.
  destruct (sd s); try contradiction; (pose proof (stops_fr_canon _ _ _ IK) as Hc; cbn [canon_stops] in Hc;
    rewrite app_nil_r in Hc; symmetry; exact Hc).
Qed.

(* C01: the range of runnables Shutdown stops *)
Theorem sup_c01_stop_range c s :
  reachable_sup c s ->
  (sd s <> SdNot -> run_entered (aux s) = false -> sd_all (aux s) = true) /\
  (sd_all (aux s) = false -> stop_k c s = launched s) /\
  (sd_all (aux s) = true -> stop_k c s = nrun c /\ launched s = 0) /\
  (own_cancel s = true -> stop_evs (rev (hist s)) = canon_stops (stop_k c s)).
Proof.
  intros Hre. split; [exact (InvSdAll_reachable _ _ Hre)|]. unfold stop_k. split; [intros ->; reflexivity|].
  split; [intros E; rewrite E; split; [reflexivity|exact (sd_all_launched _ _ Hre E)]|].
  exact (sup_c01_cancel_after c s Hre).
Qed.
