(* C09: none survive Run(); the deadlock of the unrepaired code (witness schedule) and the
   mutual exclusion that the candidate repair establishes. *)
From Coq Require Import List NArith Bool Arith Lia.
From GS Require Import Errs LTS Composite CompositeMon CompositeBase CompositeC10.
Import ListNotations.

(* ------------------------------------------------------------------ none survive Run() *)

Definition returned (p : tpc) : bool := match p with TOut _ | TDone _ => true | _ => false end.

(* once Run has executed its deferred calls, its context is cancelled (every child context derives
   from it) and Stop() callers are released *)
Definition I_ret (s : state) : Prop := returned (runt s) = true -> rctx s = true /\ lc_done s = true.

Lemma I_ret_step P s l s' : I_ret s -> step P s l = Some s' -> I_ret s'.
Proof.
  intros H Hst. unfold I_ret in *.
  destruct l; try destruct o; cbn [step] in Hst; step_inv Hst; use_transition;
    try (destruct (realloc_cases s) as [->|(Hb & Hlt & ->)]);
    cbn; intros Hp; try discriminate Hp; auto.
  all: try (unfold tear_pc in Hp; destruct (fix_c09 P); discriminate Hp).
  all: try (rewrite E in H; cbn in H; auto).
  all: goal_cases; intuition.
Qed.

Lemma none_survive P s : reach P s -> I_ret s.
Proof.
  apply reach_inv; [intros H; discriminate H|]. intros; eapply I_ret_step; eassumption.
Qed.

(* a child that exits on signal can always return once Run's context is cancelled *)
Lemma ctx_cancelled_child_can_exit P s i k :
  kctx P k s = true -> nth_error (kids s) i = Some k -> k_pc k = KInRun ->
  c_exit (spec_of P (k_child k)) = OnSignal ->
  exists s', step P s (LKExit i (k_child k) None) = Some s'.
Proof.
  intros Hc Hk Hp Hs. cbn [step]. rewrite Hk, Hp, N.eqb_refl. unfold exit_ok. rewrite Hs, Hc.
  rewrite orb_true_r. cbn. eauto.
Qed.

Lemma cancelled_child_can_exit P s i k :
  rctx s = true -> nth_error (kids s) i = Some k -> k_pc k = KInRun ->
  c_exit (spec_of P (k_child k)) = OnSignal ->
  exists s', step P s (LKExit i (k_child k) None) = Some s'.
Proof.
  intros Hc. apply ctx_cancelled_child_can_exit. unfold kctx. now rewrite Hc.
Qed.

(* a child whose Run returns when asked to: on the stop signal / cancellation (the bundled
   runnables), or possibly earlier and with any result (Free); Never is excluded *)
Definition good_child (c : cspec) : Prop := c_exit c = OnSignal \/ c_exit c = Free.

Lemma cancelled_good_child_can_exit P s i k :
  rctx s = true -> nth_error (kids s) i = Some k -> k_pc k = KInRun ->
  good_child (spec_of P (k_child k)) ->
  exists s', step P s (LKExit i (k_child k) None) = Some s'.
Proof.
  intros Hc Hk Hp [Hs|Hs]; [eapply cancelled_child_can_exit; eassumption|].
  cbn [step]. rewrite Hk, Hp, N.eqb_refl. unfold exit_ok. rewrite Hs. cbn. eauto.
Qed.

(* a launched child goroutine can always call Run *)
Lemma launched_child_can_run P s i k :
  nth_error (kids s) i = Some k -> k_pc k = KLaunched ->
  exists s', step P s (LKRun i (k_child k)) = Some s'.
Proof. intros Hk Hp. cbn [step]. rewrite Hk, Hp, N.eqb_refl. eauto. Qed.

(* ------------------------------------------------------------------ the deadlock (unrepaired code) *)

Definition f8_params : params :=
  mkParams [mkSpec 0 UntilRunDone OnSignal RWC; mkSpec 1 UntilRunDone OnSignal RWC] false false false false false.

(* Run boots [c0]; Reload(new = [c0;c1]) stops c0, stores the new configuration (setConfig) and is
   about to boot; Stop() arrives; Run leaves its select and starts stopAllRunnables on the NEW
   configuration: c0's Stop returns, c1 (never started) blocks; boot waits for runnablesMu. *)
Definition f8_sched : list label :=
  [LRunCall; LRunBegin; LBootLock ORun; LCb ORun (CbSome [(0, 0)]%N); LBootLaunch ORun; LToRunning;
   LKRun 0 0%N;
   LReloadCall 0; LRlLock 0; LCb (ORel 0) (CbSome [(0, 1); (1, 1)]%N);
   LStopBegin (ORel 0); LWCall 0 0%N; LKExit 0 0%N None; LWUnblock 0; LWRet 0 0%N;
   LStopJoin (ORel 0); LRlSetCfg 0;
   LStopApi 0; LSSignal 0; LSelStop; LTransIf; LStopBegin ORun;
   LWCall 1 1%N; LWCall 2 0%N; LWUnblock 2; LWRet 2 0%N].

Definition f8_state : option state := Eval vm_compute in run (step f8_params) init f8_sched.

Definition f8_st : state := match f8_state with Some s => s | None => init end.

Lemma f8_reach : reach f8_params f8_st.
Proof. exists f8_sched. vm_compute. reflexivity. Qed.

(* labels that only the environment can take: new API calls, cancellation, observations *)
Definition env_label (l : label) : bool :=
  match l with LRunCall | LReloadCall _ | LStopApi _ | LCancel | LState _ => true | _ => false end.

Lemma f8_stuck : forall l s', step f8_params f8_st l = Some s' -> env_label l = true.
Proof.
  intros l s' H.
  destruct l; try reflexivity; exfalso; try destruct o as [|[|k]]; cbn in H; try discriminate H.
  all: try (destruct i as [|[|i]]; cbn in H; try discriminate H; destruct i; discriminate H).
  all: try (destruct j as [|[|[|j]]]; cbn in H; try discriminate H;
            try (destruct (N.eqb 0 c); discriminate H); try (destruct (N.eqb 1 c); discriminate H);
            destruct j; discriminate H).
  all: try (destruct k as [|[|k]]; cbn in H; try discriminate H; destruct k; discriminate H).
  destruct j as [|[|[|j]]]; cbn in H.
  - destruct c as [|[p|p|]]; cbn in H; discriminate H.
  - destruct c as [|[p|p|]]; cbn in H; discriminate H.
  - destruct c as [|[p|p|]]; cbn in H; discriminate H.
  - destruct j; discriminate H.
Qed.

Lemma f8_parked :
  nth_error (stoppers f8_st) 0 = Some SWaiting /\
  option_map r_pc (nth_error (reloaders f8_st) 0) = Some RBootLock /\
  runt f8_st = TStopWait.
Proof. vm_compute. auto. Qed.

