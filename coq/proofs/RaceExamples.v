(* C17 - frozen miniature tables (independent of coq/gen): the shape of the httpcluster
   currentEntries defect (shutdown writing under RLock) and of its repair.  They show that
   table_ok separates the two, that the model really exhibits the race for the defective shape
   even though every annotation is truthful, and that the hypotheses of the soundness theorem are
   satisfiable. *)
From Coq Require Import String List Bool.
From GS Require Import Race RaceSound.
Import ListNotations.
Open Scope string_scope.
Open Scope list_scope.

Definition mu := "httpcluster.Runner.mu".

Definition site_ctor : site :=
  mkSite "httpcluster.Runner" "currentEntries" "httpcluster.NewRunner" Wr [] false PreCtor 1 [] "" "frozen".
Definition site_wr (m : lmode) : site :=
  mkSite "httpcluster.Runner" "currentEntries" "httpcluster.Runner.shutdown" Wr [(mu, m)] true PreNone 1 [] "" "frozen".
Definition site_rd : site :=
  mkSite "httpcluster.Runner" "currentEntries" "httpcluster.Runner.GetServerCount" Rd [(mu, Sh)] true PreNone 1 [] "" "frozen".
Definition site_once_reassign : site :=
  mkSite "httpcluster.Runner" "mu" "httpcluster.Runner.shutdown" Wr [] true PreNone 1 [] "" "frozen".

Definition mini_fields : list field_decl :=
  [mkField "httpcluster.Runner" "mu" TSync; mkField "httpcluster.Runner" "currentEntries" TPlain].
Definition mini_funcs : list func_decl :=
  [mkFunc "httpcluster.NewRunner" true false true [];
   mkFunc "httpcluster.Runner.GetServerCount" true false false [];
   mkFunc "httpcluster.Runner.shutdown" false false false []].

Definition mini (sites : list site) : access_table := mkTable mini_fields mini_funcs [] sites [].
Definition mini_fixed := mini [site_ctor; site_wr Ex; site_rd].
Definition mini_broken := mini [site_ctor; site_wr Sh; site_rd].

Definition mini_pol : policy :=
  [(("httpcluster.Runner", "mu"), SyncTyped);
   (("httpcluster.Runner", "currentEntries"), GuardedBy mu)].

Lemma ex_fixed_ok : table_ok mini_pol [] mini_fixed = true.
Proof. vm_compute. reflexivity. Qed.

Lemma ex_rlock_writer_rejected : table_ok mini_pol [] mini_broken = false.
Proof. vm_compute. reflexivity. Qed.

Lemma ex_exception_masks_exactly_that_field :
  table_ok mini_pol [("httpcluster.Runner", "currentEntries")] mini_broken = true /\
  table_ok mini_pol [("httpcluster.Runner", "mu")] mini_broken = false.
Proof. vm_compute. auto. Qed.

Lemma ex_unknown_field_rejected :
  table_ok [(("httpcluster.Runner", "mu"), SyncTyped)] [] mini_fixed = false.
Proof. vm_compute. reflexivity. Qed.

Lemma ex_sync_reassign_rejected :
  table_ok mini_pol [] (mini [site_ctor; site_wr Ex; site_rd; site_once_reassign]) = false.
Proof. vm_compute. reflexivity. Qed.

Lemma ex_extra_lock_accepted :
  table_ok mini_pol []
    (mini [site_ctor;
           mkSite "httpcluster.Runner" "currentEntries" "httpcluster.Runner.shutdown" Wr
                  [("httpcluster.Runner.other", Ex); (mu, Ex)] true PreNone 1 [] "" "frozen";
           site_rd]) = true.
Proof. vm_compute. reflexivity. Qed.

(* HBVia: a conflicting pair without a common lock must be listed *)
Definition hb_wr : site := mkSite "c.R" "ch" "c.R.boot" Wr [("c.R.mu", Ex)] true PreNone 1 [] "" "frozen".
Definition hb_rd : site := mkSite "c.R" "ch" "c.R.Run" Rd [] true PreNone 1 [] "" "frozen".
Definition hb_tbl := mkTable [mkField "c.R" "ch" TChan] [] [] [hb_wr; hb_rd] [].
Lemma ex_hbvia_listed_or_rejected :
  table_ok [(("c.R", "ch"), HBVia "p" [HB "c.R.boot" "c.R.Run"])] [] hb_tbl = true /\
  table_ok [(("c.R", "ch"), HBVia "p" [])] [] hb_tbl = false.
Proof. vm_compute. auto. Qed.

(* the entry-lock certificate: a claimed entry set that a caller does not provide is rejected *)
Definition ent_tbl (caller_locks : lockset) := mkTable []
  [mkFunc "p.T.helper" false false false [("p.T.mu", Ex)]; mkFunc "p.T.Pub" true false false []]
  [mkCall "p.T.helper" "p.T.Pub" caller_locks true false "frozen"] [] [].
(* inferred policies (Race.v 3b): the policy names only the mutex.  The repaired shape's data field gets GuardedBy mu
   by inference and the table is accepted; the defective shape (writer under RLock) admits no discipline and stays
   rejected; a DECLARED policy that does not hold is not rescued by a discipline that could have been inferred. *)
Definition only_mu : policy := [(("httpcluster.Runner", "mu"), SyncTyped)].
Lemma ex_inferred_guarded :
  inferred only_mu mini_fixed = [(("httpcluster.Runner", "currentEntries"), GuardedBy mu)] /\
  table_ok (effective only_mu mini_fixed) [] mini_fixed = true.
Proof. vm_compute. auto. Qed.
Lemma ex_no_discipline_no_inference :
  inferred only_mu mini_broken = [] /\ table_ok (effective only_mu mini_broken) [] mini_broken = false.
Proof. vm_compute. auto. Qed.
Lemma ex_declared_is_authoritative :
  table_ok (effective ((("httpcluster.Runner", "currentEntries"), CtorOnly) :: only_mu) mini_fixed) [] mini_fixed = false.
Proof. vm_compute. auto. Qed.
(* a renamed / new constructor-only field and a new mutex: CtorOnly and SyncTyped are inferred; the same field with a
   write through a shared reference and no lock is not *)
Definition ren_tbl (late_write : bool) := mkTable
  [mkField "p.T" "lifecycle" TPlain; mkField "p.T" "extraMu" TSync]
  [mkFunc "p.New" true false true []; mkFunc "p.T.Run" true false false []] []
  ([mkSite "p.T" "lifecycle" "p.New" Wr [] false PreCtor 1 [] "" "frozen";
    mkSite "p.T" "lifecycle" "p.T.Run" Rd [] true PreNone 1 [] "" "frozen";
    mkSite "p.T" "extraMu" "p.T.Run" Use [] true PreNone 1 [] "Lock" "frozen";
    mkSite "p.T" "extraMu" "p.T.Run" Use [("p.T.extraMu", Ex)] true PreNone 2 [] "Unlock" "frozen"] ++
   (if late_write then [mkSite "p.T" "lifecycle" "p.T.Run" Wr [] true PreNone 2 [] "" "frozen"] else [])) [].
Lemma ex_renamed_fields_inferred :
  inferred [] (ren_tbl false) = [(("p.T", "lifecycle"), CtorOnly); (("p.T", "extraMu"), SyncTyped)] /\
  table_ok (effective [] (ren_tbl false)) [] (ren_tbl false) = true /\
  inferred [] (ren_tbl true) = [(("p.T", "extraMu"), SyncTyped)] /\
  table_ok (effective [] (ren_tbl true)) [] (ren_tbl true) = false.
Proof. vm_compute. auto. Qed.

(* a helper that releases a lock its caller took (audit M11): the extractor cannot follow it, so the table is rejected.
   The same table with the Unlock inside the function that locked is accepted. *)
Definition unl_tbl (helper_unlocks : bool) := mkTable
  [mkField "p.T" "mu" TSync; mkField "p.T" "x" TPlain]
  [mkFunc "p.T.Pub" true false false []; mkFunc "p.T.helper" false false false [("p.T.mu", Ex)]]
  [mkCall "p.T.helper" "p.T.Pub" [("p.T.mu", Ex)] true false "frozen"]
  [mkSite "p.T" "mu" "p.T.Pub" Use [] true PreNone 1 [] "Lock" "frozen";
   (if helper_unlocks
    then mkSite "p.T" "mu" "p.T.helper" Use [] true PreNone 1 [] "Unlock" "frozen"
    else mkSite "p.T" "mu" "p.T.Pub" Use [("p.T.mu", Ex)] true PreNone 2 [] "Unlock" "frozen");
   (* the access the caller makes AFTER the helper returned: recorded as still under the lock *)
   mkSite "p.T" "x" "p.T.Pub" Wr [("p.T.mu", Ex)] true PreNone 1 [] "" "frozen"] [].
Lemma ex_unlock_in_helper_rejected :
  table_ok [(("p.T", "mu"), SyncTyped); (("p.T", "x"), GuardedBy "p.T.mu")] [] (unl_tbl false) = true /\
  table_ok [(("p.T", "mu"), SyncTyped); (("p.T", "x"), GuardedBy "p.T.mu")] [] (unl_tbl true) = false.
Proof. vm_compute. auto. Qed.

Lemma ex_entry_certificate :
  table_ok [] [] (ent_tbl [("p.T.mu", Ex)]) = true /\ table_ok [] [] (ent_tbl [("p.T.mu", Sh)]) = false
  /\ table_ok [] [] (ent_tbl []) = false.
Proof. vm_compute. auto. Qed.

(* ---- the model exhibits the race of the defective shape, with truthful annotations ---- *)

Definition writer (m : lmode) : list op := [Acq mu m; Acc (site_wr m); Rel mu].
Definition reader : list op := [Acq mu Sh; Acc site_rd; Rel mu].
Definition init2 (m : lmode) : state := [mkThread [] (writer m); mkThread [] reader].

Lemma ex_init_hypotheses : forall m,
  initial (init2 m) /\ progs_in (mini [site_ctor; site_wr m; site_rd]) (init2 m) /\
  forall t, In t (init2 m) -> check_prog (eff_locks (mini [site_ctor; site_wr m; site_rd])) [] (prog t) = true.
Proof.
  intros m. split; [|split].
  - intros t [<-|[<-|[]]]; reflexivity.
  - intros t [<-|[<-|[]]] s Hs; cbn in Hs; destruct Hs as [<-|[]]; cbn; auto.
  - intros t [<-|[<-|[]]]; destruct m; vm_compute; reflexivity.
Qed.

(* both under RLock: after each thread took the shared lock both are about to access *)
Lemma ex_rlock_writer_races :
  exists st ti tj, run (init2 Sh) [0; 1] = Some st /\
    nth_error st 0 = Some ti /\ nth_error st 1 = Some tj /\
    next_acc ti = Some (site_wr Sh) /\ next_acc tj = Some site_rd /\
    conflict (site_wr Sh) site_rd = true /\ excused mini_pol [] mini_broken (site_wr Sh) site_rd = false.
Proof. vm_compute. eexists. eexists. eexists. repeat split; reflexivity. Qed.

(* repaired shape: the program is not stuck (it can run to completion) and is race free by the theorem *)
Lemma ex_fixed_runs_to_completion :
  exists st, run (init2 Ex) [0; 0; 0; 1; 1; 1] = Some st /\ forall t, In t st -> prog t = [].
Proof. vm_compute. eexists. split; [reflexivity|]. intros t [<-|[<-|[]]]; reflexivity. Qed.

Lemma ex_fixed_blocks_reader_while_writing : step [mkThread [(mu, Ex)] [Acc (site_wr Ex); Rel mu]; mkThread [] reader] 1 = None.
Proof. vm_compute. reflexivity. Qed.
