(* A termination measure for the composite model (in the style of SupMeasure.v).

   [mu] is a natural number computed from a state.  Every SYSTEM step (CompositeProgress.is_system:
   a step of the library, or a step a child owes under its contract) strictly decreases it in every
   reachable state - not only during the teardown; every ENVIRONMENT step (a new Run/Reload/Stop
   call, a cancellation, an observation, the RESULT of the configuration callback, a child's Run
   failing) raises it by at most [ecost B], B a bound on the size of the configurations the callback
   returns.  Consequences: the number of system steps of any execution is bounded by
   mu + ecost B * #environment steps, and (repaired composite and lifecycle, children that behave like the
   bundled runnables) an execution of system steps that cannot be extended, taken after Stop() was
   called / the context was cancelled / Run() took a child failure, ends with Run() returned and no
   Stop()/Reload() caller blocked - unless a configuration callback has not returned. *)
From Coq Require Import List NArith Bool Arith Lia.
From GS Require Import Errs LTS Composite CompositeMon CompositeBase CompositeC10 CompositeC11
     CompositeLocks CompositeLive CompositeC09 CompositeProgress CompositeProto.
Import ListNotations.

(* ------------------------------------------------------------------ sums over thread lists *)

Fixpoint sum_by {A} (f : A -> nat) (l : list A) : nat :=
  match l with [] => 0 | x :: t => f x + sum_by f t end.

Lemma sum_upd {A} (f : A -> nat) k g l x :
  nth_error l k = Some x -> sum_by f (upd k g l) + f x = sum_by f l + f (g x).
Proof.
  revert k; induction l as [|y l IH]; intros [|k] H; cbn in *; try discriminate.
  - injection H as ->. lia.
  - specialize (IH _ H). lia.
Qed.

Lemma sum_app {A} (f : A -> nat) l1 l2 : sum_by f (l1 ++ l2) = sum_by f l1 + sum_by f l2.
Proof. induction l1 as [|y l IH]; cbn; [reflexivity|]. rewrite IH. lia. Qed.

Lemma sum_const_map {A B} (f : B -> nat) (g : A -> B) c l :
  (forall a, f (g a) = c) -> sum_by f (map g l) = c * length l.
Proof. intros H. induction l as [|y l IH]; cbn; [lia|]. rewrite IH, H. lia. Qed.

Lemma sum_map_le {A} (f : A -> nat) (g : A -> A) l :
  (forall a, f (g a) <= f a) -> sum_by f (map g l) <= sum_by f l.
Proof. intros H. induction l as [|y l IH]; cbn; [lia|]. specialize (H y). lia. Qed.

(* ------------------------------------------------------------------ ranks *)

Definition krank (k : kid) : nat :=
  match k_pc k with KLaunched => 3 | KInRun => 2 | KExited _ => 1 | KDone => 0 end.
Definition wrank (w : worker) : nat :=
  match w_pc w with WNew => 3 | WCalled => 2 | WUnblocked => 1 | WDone => 0 end.
Definition srank (p : spc) : nat := match p with SCalled => 2 | SWaiting => 1 | SDone => 0 end.

(* a Reload() in progress: what it still has to do, including the Stop workers (3 per old entry) and
   the goroutines (3 per new entry) it will create, and what storing its configuration adds to the
   work Run()'s teardown has to do (6 per new entry) *)
Definition rrank (r : reloader) : nat :=
  let a := length (r_old r) in
  let b := length (r_new r) in
  match r_pc r with
  | RCalled => 3
  | RCb => 2
  | RInPlaceSet => 3 + 7 * b
  | RInPlace i => 2 + (b - i)
  | RStopBegin => 8 + 9 * b + 3 * a
  | RStopWait => 7 + 9 * b
  | RStopDrain => 6 + 9 * b
  | RSetCfg => 5 + 9 * b
  | RBootLock => 4 + 3 * b
  | RBootLaunch => 3 + 3 * b
  | RFinish => 2
  | RRet => 1
  | RDone => 0
  end.

(* Run(): its program point, plus the goroutines its boot will create and the Stop workers its
   teardown will create (n = entries of the current configuration) *)
Definition trank (n : nat) (p : tpc) : nat :=
  match p with
  | TIdle => 15 + 6 * n
  | TCalled => 14 + 6 * n
  | TBootLock => 13 + 6 * n
  | TBootCb => 12 + 6 * n
  | TBootLaunch => 11 + 6 * n
  | TToRunning => 10 + 3 * n
  | TSelect => 9 + 3 * n
  | TTransIf => 8 + 3 * n
  | TTearLock => 7 + 3 * n
  | TStopBegin => 6 + 3 * n
  | TStopWait => 5
  | TStopDrain => 4
  | TToStopped => 3
  | TRet _ => 2
  | TOut _ => 1
  | TDone _ => 0
  end.

Definition csize (c : option config) : nat := match c with Some x => length x | None => 0 end.

Lemma csize_entries s : length (entries_of s) = csize (cfg s).
Proof. unfold entries_of, csize. destruct (cfg s); reflexivity. Qed.

Definition mu (s : state) : nat :=
  trank (csize (cfg s)) (runt s)
  + sum_by krank (kids s) + sum_by wrank (workers s)
  + sum_by srank (stoppers s) + sum_by rrank (reloaders s).

Arguments trank : simpl never.
Arguments krank : simpl never.
Arguments wrank : simpl never.
Arguments srank : simpl never.
Arguments rrank : simpl never.
Arguments csize : simpl never.

Lemma trank_cfg n b p : trank b p <= trank n p + 6 * b.
Proof. destruct p; unfold trank; lia. Qed.

Lemma sum_spawn_workers o es : sum_by wrank (spawn_workers o es) = 3 * length es.
Proof. unfold spawn_workers. rewrite (sum_const_map wrank _ 3); [now rewrite rev_length|reflexivity]. Qed.

Lemma sum_spawn_kids o g es : sum_by krank (spawn_kids o g es) = 3 * length es.
Proof. unfold spawn_kids. now rewrite (sum_const_map krank _ 3). Qed.

Lemma sum_release c ws : sum_by wrank (map (release_worker c) ws) <= sum_by wrank ws.
Proof.
  apply sum_map_le. intros w. unfold release_worker, wrank.
  destruct (w_pc w) eqn:E; rewrite ?E; try lia.
  destruct (N.eqb (w_child w) c); cbn; rewrite ?E; lia.
Qed.

(* turn every thread-pc fact into an equation between sums *)
Ltac sum_facts :=
  repeat match goal with
         | E : rel_pc ?k ?s = Some ?p |- _ =>
           let x := fresh "x" in let Hx := fresh "Hx" in let Hp := fresh "Hp" in
           destruct (rel_pc_nth _ _ _ E) as (x & Hx & Hp); clear E
         end;
  unfold upd_rel; cbn;
  repeat match goal with
         | Hx : nth_error ?l ?k = Some ?x |- context [sum_by ?f (upd ?k ?g ?l)] =>
           let Hc := fresh "Hc" in
           pose proof (sum_upd f k g l x Hx) as Hc;
           generalize dependent (sum_by f (upd k g l)); intros
         end;
  repeat match goal with
         | |- context [sum_by wrank (map (release_worker ?c) ?ws)] =>
           let Hc := fresh "Hc" in
           pose proof (sum_release c ws) as Hc;
           generalize dependent (sum_by wrank (map (release_worker c) ws)); intros
         end;
  rewrite ?sum_app, ?sum_spawn_workers, ?sum_spawn_kids; cbn.

Ltac rank_fin :=
  unfold krank, wrank, srank, rrank, trank, csize in *; cbn in *;
  repeat match goal with
         | Hp : r_pc ?x = _ |- _ => rewrite Hp in *; clear Hp
         | Hp : k_pc ?x = _ |- _ => rewrite Hp in *; clear Hp
         | Hp : w_pc ?x = _ |- _ => rewrite Hp in *; clear Hp
         | Hp : runt ?x = _ |- _ => rewrite Hp in *; clear Hp
         end;
  cbn in *; try lia.

(* ------------------------------------------------------------------ system steps decrease the measure *)

Lemma mu_system_step P s l s' :
  I_cfg s -> G_old P s -> G_new s ->
  step P s l = Some s' -> is_system l = true -> mu s' < mu s.
Proof.
  intros Hcfg Hold Hnew Hst Hsys.
  open_step Hst; try discriminate Hsys; unfold mu, tear_pc; cbn; goal_cases; sum_facts.
  all: try (rank_fin; fail).
  all: try (exfalso; destruct (Hcfg ltac:(assumption)) as (Ho & _); outside_contra).
  all: rewrite ?csize_entries.
  all: repeat match goal with
              | Hx : nth_error (reloaders ?s0) ?k = Some ?x, Hp : r_pc ?x = _ |- _ =>
                first [ destruct (Hold _ _ Hx ltac:(rewrite Hp; reflexivity)) as [Ho _];
                        apply (f_equal (@length _)) in Ho; rewrite csize_entries in Ho
                      | pose proof (Hnew _ _ Hx ltac:(rewrite Hp; reflexivity)) as Hn;
                        apply (f_equal (@length _)) in Hn; rewrite csize_entries in Hn
                      | idtac ];
                revert Hx
              end; intros.
  all: repeat match goal with
              | E : nth_error (r_new ?x) ?i = Some _ |- _ =>
                assert (i < length (r_new x)) by (apply nth_error_Some; congruence); clear E
              end.
  all: try match goal with
           | |- context [trank (csize (Some (r_new ?r))) (runt ?s)] => let c := constr:(r_new r) in
             pose proof (trank_cfg (csize (cfg s)) (length c) (runt s));
             change (csize (Some c)) with (length c);
             generalize dependent (trank (length c) (runt s)); intros
           end.
  all: repeat match goal with E : cfg ?s = _ |- _ => rewrite E in *; clear E end.
  all: try (rank_fin; fail).
  cbn in Hsys. rewrite Hsys in Hc. rank_fin.
Qed.

(* ------------------------------------------------------------------ environment steps raise it by a bounded amount *)

(* B bounds the number of entries of every configuration in play *)
Definition sizes_le (B : nat) (s : state) : Prop :=
  csize (cfg s) <= B /\ Forall (fun r => length (r_new r) <= B) (reloaders s).
Definition label_le (B : nat) (l : label) : Prop :=
  match l with LCb _ (CbSome c) => length c <= B | _ => True end.

Definition ecost (B : nat) : nat := 8 + 12 * B.

Lemma sizes_le_step P B s l s' :
  sizes_le B s -> label_le B l -> step P s l = Some s' -> sizes_le B s'.
Proof.
  intros (V1 & V2) Hl Hst. unfold sizes_le.
  open_step Hst; cbn; goal_cases; cbn.
  all: try (split; [assumption|]); try assumption.
  all: unfold upd_rel; cbn.
  all: try (apply Forall_upd; [assumption|]; intros y Hy Hv; cbn; assumption).
  all: repeat match goal with E : cfg ?s = _ |- _ => rewrite E in *; clear E end.
  all: try (split; [assumption|]); try assumption.
  all: try (apply Forall_upd; [assumption|]; intros y Hy Hv; cbn; assumption).
  - apply Forall_app. split; [assumption|]. constructor; [cbn; lia|constructor].
  - split.
    + rewrite Forall_forall in V2. apply V2. eapply nth_error_In; eassumption.
    + apply Forall_upd; [assumption|]. intros y Hy Hv; cbn; assumption.
  - split.
    + rewrite Forall_forall in V2. apply V2. eapply nth_error_In; eassumption.
    + apply Forall_upd; [assumption|]. intros y Hy Hv; cbn; assumption.
Qed.

Lemma mu_env_step P B s l s' :
  sizes_le B s -> label_le B l ->
  step P s l = Some s' -> is_system l = false -> mu s' <= mu s + ecost B.
Proof.
  intros (V1 & V2) Hl Hst Hsys.
  open_step Hst; try discriminate Hsys; unfold mu, ecost; cbn; goal_cases; sum_facts.
  all: rewrite ?csize_entries.
  all: try (rank_fin; fail).
  - cbn in Hl. pose proof (csize_entries s) as Hce. destruct (membership_changed P (entries_of s) c); rank_fin.
  - cbn in Hsys. rewrite Hsys in Hc. rank_fin.
Qed.

(* ------------------------------------------------------------------ bounded executions *)

Fixpoint count_sys (ls : list label) : nat :=
  match ls with [] => 0 | l :: t => b2n (is_system l) + count_sys t end.
Fixpoint count_env (ls : list label) : nat :=
  match ls with [] => 0 | l :: t => b2n (negb (is_system l)) + count_env t end.

Lemma reach_step P s l s' : reach P s -> step P s l = Some s' -> reach P s'.
Proof. intros [ls Hl] Hst. exists (ls ++ [l]). rewrite run_app, Hl. cbn. now rewrite Hst. Qed.

Lemma mu_decreases P s l s' :
  reach P s -> step P s l = Some s' -> is_system l = true -> mu s' < mu s.
Proof.
  intros Hr. destruct (base_reach P s Hr) as (_ & _ & _ & Hold & Hnew).
  destruct (base_reach_locks P s Hr) as (_ & _ & _ & Hcfg & _).
  now apply mu_system_step.
Qed.

(* the number of system steps of an execution from a reachable state is bounded by the measure of
   its first state plus a constant for every environment step in it *)
Theorem system_steps_bounded P B ls : forall s s',
  reach P s -> sizes_le B s -> Forall (label_le B) ls ->
  run (step P) s ls = Some s' ->
  count_sys ls + mu s' <= mu s + ecost B * count_env ls.
Proof.
  induction ls as [|l ls IH]; intros s s' Hr Hsz Hl Hrun.
  - injection Hrun as <-. cbn. lia.
  - inversion Hl as [|? ? Hl1 Hl2]; subst.
    cbn [run] in Hrun. destruct (step P s l) as [s1|] eqn:E; [|discriminate].
    specialize (IH s1 s' (reach_step _ _ _ _ Hr E) (sizes_le_step _ _ _ _ _ Hsz Hl1 E) Hl2 Hrun).
    cbn [count_sys count_env]. destruct (is_system l) eqn:Es; cbn [b2n negb].
    + pose proof (mu_decreases _ _ _ _ Hr E Es). lia.
    + pose proof (mu_env_step _ _ _ _ _ Hsz Hl1 E Es). lia.
Qed.

Lemma sys_label_le B l : is_system l = true -> label_le B l.
Proof. destruct l; cbn; auto; discriminate. Qed.

Lemma count_env_sys ls : Forall (fun l => is_system l = true) ls -> count_env ls = 0 /\ count_sys ls = length ls.
Proof.
  induction 1 as [|l ls Hl _ [IH1 IH2]]; cbn; [auto|]. rewrite Hl, IH1, IH2. cbn. auto.
Qed.

(* an execution of system steps only is no longer than the measure of its first state *)
Theorem system_run_bounded P ls s s' :
  reach P s -> Forall (fun l => is_system l = true) ls ->
  run (step P) s ls = Some s' -> length ls + mu s' <= mu s.
Proof.
  intros Hr Hl Hrun.
  assert (Hsz : sizes_le (csize (cfg s) + sum_by (fun r => length (r_new r)) (reloaders s)) s).
  { split; [lia|]. generalize (csize (cfg s)). induction (reloaders s) as [|r t IH]; intros n; constructor.
    - cbn. lia.
    - eapply Forall_impl; [|apply (IH (n + length (r_new r)))]. cbn. intros; lia. }
  pose proof (system_steps_bounded P _ ls s s' Hr Hsz) as H.
  destruct (count_env_sys ls Hl) as [He Hs]. rewrite He, Hs in H.
  rewrite Nat.mul_0_r, Nat.add_0_r in H. apply H; [|exact Hrun].
  eapply Forall_impl; [|exact Hl]. intros l. apply sys_label_le.
Qed.


(* ------------------------------------------------------------------ where maximal executions end *)

(* the teardown has been requested: Stop() was called, the parent context was cancelled, or Run()
   took a child failure *)
Definition teardown (s : state) : Prop := stoppers s <> [] \/ pctx s = true \/ took s <> None.

Lemma upd_nil {A} k (f : A -> A) l : upd k f l = [] -> l = [].
Proof. destruct l, k; cbn; auto; discriminate. Qed.

Lemma teardown_step P s l s' : teardown s -> step P s l = Some s' -> teardown s'.
Proof.
  intros H Hst. unfold teardown in *.
  open_step Hst; cbn; goal_cases; try exact H.
  all: try (right; left; reflexivity); try (right; right; discriminate).
  all: try (destruct H as [H|H]; [left|right; exact H]).
  all: try (intros Hn; apply upd_nil in Hn; contradiction).
  all: try (match goal with E : took _ = _ |- _ => rewrite E; exact H end).
  intros Hn. apply app_eq_nil in Hn as [_ Hn]. discriminate Hn.
Qed.

Lemma started_step P s l s' : runt s <> TIdle -> step P s l = Some s' -> runt s' <> TIdle.
Proof.
  intros H Hst.
  open_step Hst; cbn; goal_cases; unfold tear_pc; try exact H; try discriminate.
  all: try (destruct (fix_c09 P); discriminate).
Qed.

(* once Run() has derived its context, a cancelled parent context means a cancelled Run context *)
Definition J_ctx (s : state) : Prop :=
  match runt s with TIdle | TCalled => True | _ => pctx s = true -> rctx s = true end.

Lemma J_ctx_step P s l s' : J_ctx s -> step P s l = Some s' -> J_ctx s'.
Proof.
  intros H Hst. unfold J_ctx in *.
  open_step Hst; cbn; goal_cases; unfold tear_pc; auto.
  all: try (destruct (fix_c09 P); auto).
  all: try (match goal with E : runt ?s = _ |- _ => rewrite E in H end; auto).
  all: try (destruct (runt s); auto).
Qed.

Lemma J_ctx_reach P s : reach P s -> J_ctx s.
Proof. apply reach_inv; [exact I|]. intros; eapply J_ctx_step; eassumption. Qed.

(* Run() has returned, and so has every Stop() and Reload() call *)
Definition all_returned (s : state) : Prop :=
  (exists r, runt s = TDone r) /\
  (forall k p, nth_error (stoppers s) k = Some p -> p = SDone) /\
  (forall k r, nth_error (reloaders s) k = Some r -> r_pc r = RDone).

(* a state in which neither a system step nor the return of a callback is possible *)
Theorem stuck_returned P s :
  fix_c09 P = true -> fix_lc P = true -> good_pool P -> good_children P ->
  greach P s -> runt s <> TIdle -> teardown s -> ~ prog P s -> all_returned s.
Proof.
  intros Hf Hlc Hp Hg Hr Hidle Htd Hstuck.
  assert (Hnp : ~ pending s) by (intros Hpe; apply Hstuck; apply no_stuck_state_lc; auto).
  pose proof (Gall_greach P s Hf Hp Hr) as G.
  split; [|split].
  - destruct (busy (runt s)) eqn:Eb; [exfalso; apply Hnp; now left|].
    destruct (runt s) eqn:Et; try discriminate Eb; [now elim Hidle| |eauto].
    exfalso. destruct Htd as [Hs|[Hc|Ht]].
    + destruct (stoppers s) as [|p t] eqn:Es; [now elim Hs|].
      assert (Hn : nth_error (stoppers s) 0 = Some p) by (rewrite Es; reflexivity).
      destruct p.
      * apply Hnp. right; left. exists 0, SCalled. split; [exact Hn|discriminate].
      * apply Hnp. right; left. exists 0, SWaiting. split; [exact Hn|discriminate].
      * assert (Hst : lc_stopped s = true) by (eapply (g_sig P s G 0 SDone); [exact Hn|discriminate]).
        apply Hstuck. exists LSelStop. cbn [step]. rewrite Et, Hst. eauto.
    + pose proof (J_ctx_reach P s (greach_reach _ _ Hr)) as HJ. unfold J_ctx in HJ. rewrite Et in HJ.
      apply Hstuck. exists LSelCtx. cbn [step]. rewrite Et, (HJ Hc). eauto.
    + destruct (took s) as [e|] eqn:Ek; [|now elim Ht].
      destruct (g_c10 P s G) as (_ & _ & _ & H3 & _). destruct (H3 _ Ek) as (_ & _ & Hl).
      rewrite Et in Hl. discriminate Hl.
  - intros k p Hn. destruct p; [| |reflexivity]; exfalso; apply Hnp; right; left.
    + exists k, SCalled. split; [exact Hn|discriminate].
    + exists k, SWaiting. split; [exact Hn|discriminate].
  - intros k r Hn. destruct (r_pc r) eqn:E; try reflexivity; exfalso; apply Hnp; right; right;
      exists k, r; (split; [exact Hn|rewrite E; discriminate]).
Qed.

(* a configuration callback has been called and has not returned *)
Definition cb_out (s : state) : bool :=
  match runt s with TBootCb => true | _ => false end
  || existsb (fun r => rpc_is (r_pc r) RCb) (reloaders s).

Lemma cb_step_out P s o r s' : step P s (LCb o r) = Some s' -> cb_out s = true.
Proof.
  intros Hst. unfold cb_out. destruct o as [|k]; cbn [step] in Hst.
  - destruct (runt s); try discriminate Hst. reflexivity.
  - destruct (rel_pc k s) as [p|] eqn:E; [|discriminate Hst].
    destruct (rel_pc_nth _ _ _ E) as (x & Hx & Hq).
    destruct p; try discriminate Hst.
    apply orb_true_iff. right. apply existsb_exists. exists x. split; [eapply nth_error_In; eassumption|].
    now rewrite Hq.
Qed.

(* a state in which no system step is possible: a callback is outstanding, or everything returned *)
Theorem sys_stuck_returned P s :
  fix_c09 P = true -> fix_lc P = true -> good_pool P -> good_children P ->
  greach P s -> runt s <> TIdle -> teardown s ->
  (forall l s', step P s l = Some s' -> is_system l = false) ->
  cb_out s = true \/ all_returned s.
Proof.
  intros Hf Hlc Hp Hg Hr Hidle Htd Hstuck.
  destruct (cb_out s) eqn:Ec; [now left|right].
  apply (stuck_returned P s); auto.
  intros (l & s' & Hl & Hst). apply orb_true_iff in Hl as [Hl|Hl].
  - rewrite (Hstuck _ _ Hst) in Hl. discriminate Hl.
  - destruct l; try discriminate Hl. rewrite (cb_step_out _ _ _ _ _ Hst) in Ec. discriminate Ec.
Qed.

(* a state of measure 0 in which no callback is outstanding cannot move *)
Lemma mu_zero_stuck P s : reach P s -> mu s = 0 -> cb_out s = false -> ~ prog P s.
Proof.
  intros Hr Hm Hc (l & s' & Hl & Hst). apply orb_true_iff in Hl as [Hl|Hl].
  - pose proof (mu_decreases P s l s' Hr Hst Hl). lia.
  - destruct l; try discriminate Hl. rewrite (cb_step_out _ _ _ _ _ Hst) in Hc. discriminate Hc.
Qed.

Lemma sys_is_good P l : is_system l = true -> good_label P l.
Proof. destruct l; cbn; auto; discriminate. Qed.

Lemma run_greach P ls : forall s s',
  greach P s -> Forall (good_label P) ls -> run (step P) s ls = Some s' -> greach P s'.
Proof.
  induction ls as [|l ls IH]; intros s s' Hr Hl Hrun.
  - injection Hrun as <-. exact Hr.
  - inversion Hl as [|? ? Hl1 Hl2]; subst.
    cbn [run] in Hrun. destruct (step P s l) as [s1|] eqn:E; [|discriminate].
    eapply IH; [eapply greach_step; eassumption|exact Hl2|exact Hrun].
Qed.

(* C09_maximal_execution_returns: after the teardown has been requested, an execution of system
   steps that cannot be extended by a system step has at most [mu s] steps and ends with Run() and every
   Stop()/Reload() call returned - unless a configuration callback has not returned *)
Theorem maximal_execution_returns P s ls s' :
  fix_c09 P = true -> fix_lc P = true -> good_pool P -> good_children P ->
  greach P s -> runt s <> TIdle -> teardown s ->
  Forall (fun l => is_system l = true) ls ->
  run (step P) s ls = Some s' ->
  (forall l s'', step P s' l = Some s'' -> is_system l = false) ->
  length ls <= mu s /\ (cb_out s' = true \/ all_returned s').
Proof.
  intros Hf Hlc Hp Hg Hr Hidle Htd Hl Hrun Hstuck. split.
  - pose proof (system_run_bounded P ls s s' (greach_reach _ _ Hr) Hl Hrun). lia.
  - apply (sys_stuck_returned P s'); auto.
    + eapply run_greach; [exact Hr| |exact Hrun].
      eapply Forall_impl; [|exact Hl]. intros l. apply sys_is_good.
    + eapply (run_inv _ _ (step P) (fun x => runt x <> TIdle)); [|exact Hidle|exact Hrun].
      intros; eapply started_step; eassumption.
    + eapply (run_inv _ _ (step P) teardown); [|exact Htd|exact Hrun].
      intros; eapply teardown_step; eassumption.
Qed.

(* the same with the callbacks returning (values over the pool): an execution of system steps and
   callback returns that cannot be extended by either ends with everything returned *)
Theorem maximal_execution_returns_cb P s ls s' :
  fix_c09 P = true -> fix_lc P = true -> good_pool P -> good_children P ->
  greach P s -> runt s <> TIdle -> teardown s ->
  Forall (good_label P) ls ->
  run (step P) s ls = Some s' ->
  (forall l s'', step P s' l = Some s'' -> is_system l || is_cb l = false) ->
  all_returned s'.
Proof.
  intros Hf Hlc Hp Hg Hr Hidle Htd Hl Hrun Hstuck.
  apply (stuck_returned P s'); auto.
  - eapply run_greach; eassumption.
  - eapply (run_inv _ _ (step P) (fun x => runt x <> TIdle)); [|exact Hidle|exact Hrun].
    intros; eapply started_step; eassumption.
  - eapply (run_inv _ _ (step P) teardown); [|exact Htd|exact Hrun].
    intros; eapply teardown_step; eassumption.
  - intros (l & s'' & Hl' & Hst). rewrite (Hstuck _ _ Hst) in Hl'. discriminate Hl'.
Qed.

(* ------------------------------------------------------------------ the failure path (C10) *)

Lemma took_step P s l s' e :
  took s = Some e -> late (runt s) = true -> step P s l = Some s' -> took s' = Some e.
Proof.
  intros Ht Hl Hst.
  open_step Hst; cbn; goal_cases; try exact Ht; try late_contra; try congruence.
  discriminate Hl.
Qed.

Lemma took_run P ls : forall s s' e,
  reach P s -> took s = Some e -> run (step P) s ls = Some s' -> took s' = Some e.
Proof.
  induction ls as [|l ls IH]; intros s s' e Hr Ht Hrun.
  - injection Hrun as <-. exact Ht.
  - cbn [run] in Hrun. destruct (step P s l) as [s1|] eqn:E; [|discriminate].
    destruct (base_reach_locks P s Hr) as ((_ & _ & _ & H3 & _) & _).
    destruct (H3 _ Ht) as (_ & _ & Hl).
    eapply IH; [eapply reach_step; eassumption|eapply took_step; eassumption|exact Hrun].
Qed.

(* C10_run_returns_measure: after Run() took the failure e, an execution of system steps that cannot
   be extended has at most [mu s] steps and - unless a Reload()'s callback has not returned - ends
   with Run() returned with the ErrRunnableFailed wrapping of e and every Stop()/Reload() returned *)
Theorem run_returns_measure P s e ls s' :
  fix_c09 P = true -> fix_lc P = true -> good_pool P -> good_children P ->
  greach P s -> took s = Some e ->
  Forall (fun l => is_system l = true) ls ->
  run (step P) s ls = Some s' ->
  (forall l s'', step P s' l = Some s'' -> is_system l = false) ->
  length ls <= mu s /\
  (cb_out s' = true \/
   (runt s' = TDone (Some (fail_result e)) /\ wraps (fail_result e) id_runnable_failed = true /\
    all_returned s')).
Proof.
  intros Hf Hlc Hp Hg Hr Ht Hl Hrun Hstuck.
  pose proof (Gall_greach P s Hf Hp Hr) as G.
  destruct (g_c10 P s G) as (_ & _ & _ & H3 & _). destruct (H3 _ Ht) as (_ & _ & Hlate).
  assert (Hidle : runt s <> TIdle) by (intros E; rewrite E in Hlate; discriminate Hlate).
  assert (Htd : teardown s) by (right; right; rewrite Ht; discriminate).
  destruct (maximal_execution_returns P s ls s' Hf Hlc Hp Hg Hr Hidle Htd Hl Hrun Hstuck) as [Hlen [Hc|Ha]].
  - split; [exact Hlen|now left].
  - split; [exact Hlen|right].
    assert (Hr' : reach P s').
    { apply greach_reach. eapply run_greach; [exact Hr| |exact Hrun].
      eapply Forall_impl; [|exact Hl]. intros l. apply sys_is_good. }
    pose proof (took_run P ls s s' e (greach_reach _ _ Hr) Ht Hrun) as Ht'.
    destruct (propagates P s' e Hr' Ht') as (_ & _ & _ & Hres).
    destruct Ha as ((r & Hd) & Hs & Hrl).
    destruct (Hres r ltac:(rewrite Hd; reflexivity)) as (-> & Hw & _).
    split; [exact Hd|]. split; [exact Hw|]. split; [eauto|auto].
Qed.
