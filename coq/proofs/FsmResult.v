(* C08_result: Run()'s result against the state at its return, for every schedule of each runner
   model.  The control of a runner together with the machine's current state is a finite-state
   system ([astep]); the set of its reachable states is computed inside Coq, checked to be closed
   under every label (a kernel computation), and every product run is shown to stay inside it. *)
From Coq Require Import List NArith Bool Lia.
From GS Require Import LTS Fsm FsmTable FsmRunners FsmBase.
Import ListNotations.

(* ------------------------------------------------------------------ *)
(* finite reachability by reflection                                    *)
Section Reach.
  Variables X L : Type.
  Variable f : X -> L -> option X.
  Variable eq_dec : forall a b : X, {a = b} + {a <> b}.
  Variable labels : list L.
  Hypothesis labels_all : forall l, In l labels.

  Definition memb (x : X) (set : list X) : bool :=
    existsb (fun y => if eq_dec x y then true else false) set.

  Lemma memb_in x set : memb x set = true -> In x set.
  Proof.
    unfold memb. rewrite existsb_exists. intros (y & Hy & E).
    destruct (eq_dec x y); [subst; exact Hy|discriminate].
  Qed.

  Definition succs (x : X) : list X :=
    flat_map (fun l => match f x l with Some y => [y] | None => [] end) labels.

  Definition closedb (set : list X) : bool :=
    forallb (fun x => forallb (fun y => memb y set) (succs x)) set.

  Fixpoint add_all (ys seen new : list X) : list X * list X :=
    match ys with
    | [] => (seen, new)
    | y :: t => if memb y seen then add_all t seen new else add_all t (y :: seen) (y :: new)
    end.

  Fixpoint bfs (fuel : nat) (work seen : list X) : list X :=
    match fuel with
    | O => seen
    | S k =>
      match work with
      | [] => seen
      | x :: w => let (seen', new) := add_all (succs x) seen [] in bfs k (w ++ new) seen'
      end
    end.

  Lemma closed_step set x l y :
    closedb set = true -> memb x set = true -> f x l = Some y -> memb y set = true.
  Proof.
    intros Hc Hx Hf. apply memb_in in Hx.
    unfold closedb in Hc. rewrite forallb_forall in Hc. specialize (Hc x Hx).
    rewrite forallb_forall in Hc. apply Hc. unfold succs. apply in_flat_map.
    exists l. split; [apply labels_all|]. rewrite Hf. now left.
  Qed.

  Lemma memb_forallb (P : X -> bool) set x : forallb P set = true -> memb x set = true -> P x = true.
  Proof. intros HP Hx. apply memb_in in Hx. rewrite forallb_forall in HP. now apply HP. Qed.
End Reach.

(* ------------------------------------------------------------------ *)
(* every product step is an abstract step (or leaves control and current state alone) *)
Section Sim.
  Variable cfg : tcfg.
  Variables ctl cl : Type.
  Variable cstep : ctl -> cl -> st -> option (option op * (bool -> ctl)).
  Variable ctok : cl -> tokact.

  Notation rstep := (rstep cfg ctl cl cstep ctok).
  Notation astep := (astep cfg ctl cl cstep).

  Lemma rstep_abs (s s' : rstate ctl) (l : rlabel cl) :
    rstep s l = Some s' ->
    (exists c, l = RC c /\ astep (rc s, cur (rm s)) c = Some (rc s', cur (rm s')))
    \/ (rc s' = rc s /\ cur (rm s') = cur (rm s)).
  Proof.
    intros H. destruct l as [ml|c]; cbn [FsmRunners.rstep] in H.
    - right. destruct ml; try discriminate;
        match type of H with
        | context [step cfg (rm s) ?lab] =>
          destruct (step cfg (rm s) lab) as [m'|] eqn:E; [|discriminate];
          inversion H; subst; cbn; split; [reflexivity|];
          apply (step_nonop_cur cfg (rm s) m' lab); [intros; discriminate|exact E]
        end.
    - left. exists c. split; [reflexivity|].
      unfold FsmRunners.astep; cbn [fst snd].
      destruct (cstep (rc s) c (cur (rm s))) as [[oo k]|]; [|discriminate].
      destruct (tok_apply (ctok c) (rtokA s) (rtokB s)) as [[ta tb]|]; [|discriminate].
      destruct oo as [o|].
      + unfold op_okb in H. unfold step in H. cbn [stepx] in H.
        destruct (is_nil (pend (rm s))); [|discriminate].
        destruct (op_result cfg (cur (rm s)) o) as [to|]; inversion H; subst; cbn; reflexivity.
      + inversion H; subst; cbn; reflexivity.
  Qed.

  Variable eq_dec : forall a b : ctl * st, {a = b} + {a <> b}.
  Variable labels : list cl.
  Hypothesis labels_all : forall l, In l labels.

  Lemma product_in_set (set : list (ctl * st)) (c0 : ctl) :
    memb _ eq_dec (c0, New) set = true ->
    closedb _ _ astep eq_dec labels set = true ->
    forall ls s, run rstep (rinit ctl c0) ls = Some s ->
                 memb _ eq_dec (rc s, cur (rm s)) set = true.
  Proof.
    intros H0 Hc ls s Hr.
    apply (run_inv _ _ rstep (fun s => memb _ eq_dec (rc s, cur (rm s)) set = true)) with (ls := ls) (s := rinit ctl c0);
      [|exact H0|exact Hr].
    intros a l b Ha Hs. destruct (rstep_abs a b l Hs) as [(c & -> & Habs)|[E1 E2]].
    - eapply closed_step; eauto.
    - rewrite E1, E2. exact Ha.
  Qed.
End Sim.

(* ------------------------------------------------------------------ *)
(* decidable equality of the three controls                            *)
Definition st_eq_dec : forall a b : st, {a = b} + {a <> b}.
Proof. decide equality. Defined.

Definition cctl_st_eq_dec : forall a b : cctl * st, {a = b} + {a <> b}.
Proof. repeat decide equality. Defined.
Definition hctl_st_eq_dec : forall a b : hctl * st, {a = b} + {a <> b}.
Proof. repeat decide equality. Defined.
Definition kctl_st_eq_dec : forall a b : kctl * st, {a = b} + {a <> b}.
Proof. repeat decide equality. Defined.

Lemma composite_labels_all : forall l, In l composite_labels.
Proof. intros l; destruct l; try destruct nil; try destruct ok; vm_compute; tauto. Qed.
Lemma http_labels_all : forall l, In l http_labels.
Proof. intros l; destruct l; try destruct nil; try destruct ok; vm_compute; tauto. Qed.
Lemma cluster_labels_all : forall l, In l cluster_labels.
Proof. intros l; destruct l; try destruct nil; vm_compute; tauto. Qed.

Definition composite_astep := astep fsm_cfg cctl ccl composite_step.
Definition http_astep := astep fsm_cfg hctl hcl http_step.
Definition cluster_astep := astep fsm_cfg kctl kcl cluster_step.

Definition composite_set : list (cctl * st) :=
  Eval vm_compute in bfs _ _ composite_astep cctl_st_eq_dec composite_labels (400 * 250)
                         [(composite_init, New)] [(composite_init, New)].
Definition http_set : list (hctl * st) :=
  Eval vm_compute in bfs _ _ http_astep hctl_st_eq_dec http_labels (400 * 250)
                         [(http_init, New)] [(http_init, New)].
Definition cluster_set : list (kctl * st) :=
  Eval vm_compute in bfs _ _ cluster_astep kctl_st_eq_dec cluster_labels (400 * 250)
                         [(cluster_init, New)] [(cluster_init, New)].

Lemma composite_closed : closedb _ _ composite_astep cctl_st_eq_dec composite_labels composite_set = true.
Proof. vm_compute; reflexivity. Qed.
Lemma http_closed : closedb _ _ http_astep hctl_st_eq_dec http_labels http_set = true.
Proof. vm_compute; reflexivity. Qed.
Lemma cluster_closed : closedb _ _ cluster_astep kctl_st_eq_dec cluster_labels cluster_set = true.
Proof. vm_compute; reflexivity. Qed.

(* ------------------------------------------------------------------ *)
(* the property on abstract states                                      *)

(* composite: an error result always comes with Error; a nil result with Stopped unless a Reload's
   failure handler (setStateError after a refused Reloading transition) ran after Run's Stopped
   transition ([c_late]) *)
Definition composite_okb (x : cctl * st) : bool :=
  match c_run (fst x) with
  | CPDone b a => (if b then c_late (fst x) || st_eqb a Stopped else st_eqb a Error)
  | CPRet true => c_late (fst x) || st_eqb (snd x) Stopped
  | CPRet false => st_eqb (snd x) Error
  | _ => true
  end.

Definition http_okb (x : hctl * st) : bool :=
  match h_run (fst x) with
  | HPDone b a => result_okb b a
  | HPRet b => result_okb b (snd x)
  | _ => true
  end.

Definition cluster_okb (x : kctl * st) : bool :=
  match k_run (fst x) with
  | KPDone b a => result_okb b a
  | KPRet b => result_okb b (snd x)
  | _ => true
  end.

Lemma composite_set_ok : forallb composite_okb composite_set = true.
Proof. vm_compute; reflexivity. Qed.
Lemma http_set_ok : forallb http_okb http_set = true.
Proof. vm_compute; reflexivity. Qed.
Lemma cluster_set_ok : forallb cluster_okb cluster_set = true.
Proof. vm_compute; reflexivity. Qed.

Lemma composite_reach_ok ls s :
  run composite_rstep (rinit cctl composite_init) ls = Some s -> composite_okb (rc s, cur (rm s)) = true.
Proof.
  intros H. eapply memb_forallb; [exact composite_set_ok|].
  eapply product_in_set; [exact composite_labels_all| |exact composite_closed|exact H].
  vm_compute; reflexivity.
Qed.

Lemma http_reach_ok ls s :
  run http_rstep (rinit hctl http_init) ls = Some s -> http_okb (rc s, cur (rm s)) = true.
Proof.
  intros H. eapply memb_forallb; [exact http_set_ok|].
  eapply product_in_set; [exact http_labels_all| |exact http_closed|exact H].
  vm_compute; reflexivity.
Qed.

Lemma cluster_reach_ok ls s :
  run cluster_rstep (rinit kctl cluster_init) ls = Some s -> cluster_okb (rc s, cur (rm s)) = true.
Proof.
  intros H. eapply memb_forallb; [exact cluster_set_ok|].
  eapply product_in_set; [exact cluster_labels_all| |exact cluster_closed|exact H].
  vm_compute; reflexivity.
Qed.

Lemma result_okb_spec b a :
  result_okb b a = true <-> ((a = Stopped <-> b = true) /\ (b = false -> a = Error)).
Proof.
  unfold result_okb. destruct b.
  - rewrite st_eqb_eq. split; [intros ->; split; [tauto|discriminate]|intros [[_ H] _]; now apply H].
  - rewrite st_eqb_eq. split.
    + intros ->. split; [split; discriminate|reflexivity].
    + intros [_ H]. now apply H.
Qed.

(* httpserver and httpcluster: the property as stated *)
Lemma http_result ls s b a :
  run http_rstep (rinit hctl http_init) ls = Some s -> h_run (rc s) = HPDone b a ->
  (a = Stopped <-> b = true) /\ (b = false -> a = Error).
Proof.
  intros H E. apply http_reach_ok in H. unfold http_okb in H. cbn [fst] in H. rewrite E in H.
  now apply result_okb_spec.
Qed.

Lemma cluster_result ls s b a :
  run cluster_rstep (rinit kctl cluster_init) ls = Some s -> k_run (rc s) = KPDone b a ->
  (a = Stopped <-> b = true) /\ (b = false -> a = Error).
Proof.
  intros H E. apply cluster_reach_ok in H. unfold cluster_okb in H. cbn [fst] in H. rewrite E in H.
  now apply result_okb_spec.
Qed.

(* composite: what holds on the unchanged code *)
Lemma composite_result_partial ls s b a :
  run composite_rstep (rinit cctl composite_init) ls = Some s -> c_run (rc s) = CPDone b a ->
  (b = false -> a = Error) /\
  (c_late (rc s) = false -> (a = Stopped <-> b = true)).
Proof.
  intros H E. apply composite_reach_ok in H. unfold composite_okb in H. cbn [fst] in H. rewrite E in H.
  destruct b.
  - split; [discriminate|]. intros L. rewrite L in H. cbn in H. apply st_eqb_eq in H. subst. tauto.
  - apply st_eqb_eq in H. subst. split; [reflexivity|]. intros _. split; discriminate.
Qed.

(* ... and the refutation of the full statement: Run returns nil, the state at return is Error *)
Definition composite_witness : list (rlabel ccl) :=
  map RC [CRunCall; CTBooting; CCb true; CTRunning; CStopCall; CSelStop; CTStopping; CStopAllOk;
          CTStopped; CReloadCall; CRlBegin; CRlT; CRlSetErr; CRunRet true].

Lemma composite_result_refuted :
  exists s, run composite_rstep (rinit cctl composite_init) composite_witness = Some s /\
            c_run (rc s) = CPDone true Error.
Proof. eexists. split; vm_compute; reflexivity. Qed.
