(* C01: the stop events of every schedule form the canonical reverse-order sequential sequence. *)
From Coq Require Import List NArith Bool Arith Lia.
From GS Require Import LTS Supervisor SupAccept SupProps SupInv.
Import ListNotations.

(* stops for indices K-1 down to k, oldest first *)
Inductive stops_fr (K : nat) : nat -> list event -> Prop :=
| sf_nil : stops_fr K K []
| sf_snoc k l : stops_fr K (S k) l -> stops_fr K k (l ++ [EStopCall k; EStopRet k]).

Lemma stops_fr_le K k l : stops_fr K k l -> k <= K.
Proof. induction 1; lia. Qed.

Definition stops (s : state) : list event := stop_evs (rev (hist s)).

Lemma stops_cons_other s e h :
  hist s = e :: h -> is_stop_ev e = false -> stops s = stop_evs (rev h).
Proof.
  intros E He. unfold stops, stop_evs. rewrite E. cbn [rev]. rewrite filter_app. cbn [filter].
  rewrite He. apply app_nil_r.
Qed.

Lemma stops_cons_stop s e h :
  hist s = e :: h -> is_stop_ev e = true -> stops s = stop_evs (rev h) ++ [e].
Proof.
  intros E He. unfold stops, stop_evs. rewrite E. cbn [rev]. rewrite filter_app. cbn [filter].
  now rewrite He.
Qed.

Lemma launched_le s : launched s <= length (rn s).
Proof.
  unfold launched. induction (rn s) as [|p l IH]; cbn; [lia|].
  destruct p; cbn; lia.
Qed.

(* how one step changes the shutdown body and the stop events *)
Inductive sd_effect (c : config) (s s' : state) : Prop :=
| eff_call i : sd s = SdNext (S i) -> sd s' = SdIn i -> hist s' = EStopCall i :: hist s -> sd_effect c s s'
| eff_ret i : sd s = SdIn i -> sd s' = sd_next i -> hist s' = EStopRet i :: hist s -> sd_effect c s s'
| eff_other :
    stops s' = stops s ->
    (sd s' = sd s \/ (sd s = SdNot /\ sd s' = sd_next (stop_count c s)) \/
     (sd s = SdCancel /\ sd s' = SdWait) \/ (sd s = SdWait /\ sd s' = SdDone)) ->
    sd_effect c s s'.

Lemma stop_count_le c s : length (rn s) = nrun c -> stop_count c s <= nrun c.
Proof.
  intros H. unfold stop_count. destruct (run_entered (aux s)); [|lia].
  pose proof (launched_le s). lia.
Qed.

Ltac other_tac :=
  apply eff_other;
  [ first [ reflexivity
          | (eapply eq_trans; [eapply stops_cons_other; [cbn; reflexivity|reflexivity]|]; reflexivity) ]
  | cbn; auto ].

Lemma step_sd_effect c s l s' :
  step c s l = Some s' -> length (rn s') = length (rn s) /\ sd_effect c s s'.
Proof.
  intros H. unfold step in H.
  destruct l; cbn [step0] in H; unfold start_shutdown, store_state in H;
    step_cases H; inversion H; subst; clear H;
    (split; [cbn; rewrite ?upd_length; reflexivity|]).
  all: try (other_tac; fail).
  all: try (match goal with E : _ && _ = true |- _ => apply andb_true_iff in E as [E ?] end).
  all: try (match goal with E : (_ =? _) = true |- _ => apply Nat.eqb_eq in E; subst end).
  all: try (eapply eff_call; [eassumption|cbn; reflexivity|cbn; reflexivity]; fail).
  all: try (eapply eff_ret; [eassumption|cbn; reflexivity|cbn; reflexivity]; fail).
Qed.

Definition InvStop (c : config) (s : state) : Prop :=
  length (rn s) = nrun c /\
  match sd s with
  | SdNot => stops s = []
  | SdNext k => exists K, K <= nrun c /\ 0 < k /\ stops_fr K k (stops s)
  | SdIn i => exists K l, K <= nrun c /\ stops_fr K (S i) l /\ stops s = l ++ [EStopCall i]
  | SdCancel | SdWait | SdDone => exists K, K <= nrun c /\ stops_fr K 0 (stops s)
  end.

Lemma repeat_length' {A} (x : A) n : length (repeat x n) = n.
Proof. induction n; cbn; auto. Qed.

Lemma InvStop_init c : InvStop c (init c).
Proof. split; [cbn; apply repeat_length'|reflexivity]. Qed.

Lemma sd_next_inv c K k (l : list event) :
  K <= nrun c -> stops_fr K k l ->
  match sd_next k with
  | SdNext k' => exists K, K <= nrun c /\ 0 < k' /\ stops_fr K k' l
  | SdCancel => exists K, K <= nrun c /\ stops_fr K 0 l
  | _ => False
  end.
Proof.
  intros HK H. destruct k as [|k]; cbn [sd_next].
  - now exists K.
  - exists K. repeat split; auto. lia.
Qed.

Lemma InvStop_step c s l s' : InvStop c s -> step c s l = Some s' -> InvStop c s'.
Proof.
  intros [Hlen Hsd] H. destruct (step_sd_effect _ _ _ _ H) as [Hl Heff].
  split; [congruence|].
  destruct Heff as [i Es Es' Eh | i Es Es' Eh | Est Esd].
  - rewrite Es in Hsd. destruct Hsd as (K & HK & _ & Hfr). rewrite Es'.
    exists K, (stops s). repeat split; auto.
    eapply eq_trans; [eapply stops_cons_stop; [exact Eh|reflexivity]|reflexivity].
  - rewrite Es in Hsd. destruct Hsd as (K & l0 & HK & Hfr & Est).
    assert (Est' : stops s' = l0 ++ [EStopCall i; EStopRet i]).
    { eapply eq_trans; [eapply stops_cons_stop; [exact Eh|reflexivity]|].
      fold (stops s). rewrite Est, <- app_assoc. reflexivity. }
    pose proof (sd_next_inv c K i _ HK (sf_snoc K i l0 Hfr)) as Hn.
    rewrite Es'. rewrite <- Est' in Hn. destruct (sd_next i); try contradiction; exact Hn.
  - rewrite Est. destruct Esd as [E | [[E E'] | [[E E'] | [E E']]]].
    + now rewrite E.
    + rewrite E in Hsd. rewrite E', Hsd.
      pose proof (stop_count_le c s Hlen) as Hle.
      pose proof (sd_next_inv c (stop_count c s) (stop_count c s) [] Hle (sf_nil _)) as Hn.
      destruct (sd_next (stop_count c s)); try contradiction; exact Hn.
    + rewrite E in Hsd. now rewrite E'.
    + rewrite E in Hsd. now rewrite E'.
Qed.

Lemma InvStop_reachable c s : reachable_sup c s -> InvStop c s.
Proof. apply sup_inv; [apply InvStop_init|apply InvStop_step]. Qed.

(* from the inductive shape to the executable statement *)
Lemma stops_fr_canon K k l : stops_fr K k l -> canon_stops K = l ++ canon_stops k.
Proof.
  induction 1 as [|k l H IH]; [reflexivity|].
  rewrite IH, <- app_assoc. reflexivity.
Qed.

Lemma prefixb_app a b : prefixb a (a ++ b) = true.
Proof. induction a as [|x a IH]; cbn; [reflexivity|now rewrite event_eqb_refl, IH]. Qed.

Lemma InvStop_order c s : InvStop c s -> c01_order c (rev (hist s)) = true.
Proof.
  intros [_ H]. unfold c01_order. fold (stops s).
  assert (G : forall K l k, K <= nrun c -> stops_fr K k l -> forall p, stops s = p -> (exists q, l = p ++ q) ->
              existsb (fun k0 => prefixb (stops s) (canon_stops k0)) (seq 0 (S (nrun c))) = true).
  { intros K l k HK Hfr p Hp (q & ->). apply existsb_exists. exists K. split.
    - apply in_seq. lia.
    - rewrite (stops_fr_canon _ _ _ Hfr), Hp, <- app_assoc. apply prefixb_app. }
  destruct (sd s).
  - rewrite H. apply existsb_exists. exists 0. split; [apply in_seq; lia|reflexivity].
  - destruct H as (K & HK & _ & Hfr). eapply G; eauto. exists []. now rewrite app_nil_r.
  - destruct H as (K & l & HK & Hfr & E).
    eapply (G K _ i HK (sf_snoc K i l Hfr) _ E). exists [EStopRet i]. now rewrite <- app_assoc.
  - destruct H as (K & HK & Hfr). eapply G; eauto. exists []. now rewrite app_nil_r.
  - destruct H as (K & HK & Hfr). eapply G; eauto. exists []. now rewrite app_nil_r.
  - destruct H as (K & HK & Hfr). eapply G; eauto. exists []. now rewrite app_nil_r.
Qed.

(* C01, first clause: for every schedule, the Stop calls and returns are a prefix of
   Stop(k-1) ret, Stop(k-2) ret, ..., Stop(0) ret for some k <= n *)
Theorem sup_c01_order c ls s :
  run (step c) (init c) ls = Some s -> c01_order c (obs_trace obs ls) = true.
Proof.
  intros H. rewrite (trace_is_history _ _ _ H). apply InvStop_order, InvStop_reachable. now exists ls.
Qed.
