(* The timed drain model (model/HttpDrain.v): invariant, its preservation by every step, the lift to
   all schedules, and the four C14 statements. *)
From Coq Require Import List NArith Bool Lia.
From GS Require Import LTS HttpDrain.
Import ListNotations.
Open Scope N_scope.

Definition req_ok (nw t0 : N) (r : req) : Prop :=
  (q_done r = false -> nw + q_rem r = t0 + q_stop r) /\ (q_done r = true -> t0 + q_stop r <= nw).

Definition maxstop (l : list req) : N := maxl (map q_stop l).

(* a request that needed less than the drain timeout when Shutdown was called has completed *)
Definition short_done (drain : N) (r : req) : Prop := q_stop r < drain -> q_done r = true.

Lemma maxl_ge x l : In x l -> x <= maxl l.
Proof.
  induction l as [|y l IH]; [contradiction|]. cbn [maxl]. intros [->|H]; [lia|]. specialize (IH H). lia.
Qed.

Lemma stop_le_max r l : In r l -> q_stop r <= maxstop l.
Proof. intros H. apply maxl_ge. now apply in_map. Qed.

Lemma stops_age d l : map q_stop (age d l) = map q_stop l.
Proof.
  unfold age. rewrite map_map. apply map_ext. intros r. destruct (q_done r); reflexivity.
Qed.

Lemma all_done_age d l : all_done (age d l) = all_done l.
Proof.
  unfold all_done, age. induction l as [|r l IH]; [reflexivity|]. cbn [map forallb].
  rewrite IH. destruct (q_done r) eqn:E; cbn; rewrite ?E; reflexivity.
Qed.

Lemma age_ok d nw t0 l :
  can_wait d l = true -> Forall (req_ok nw t0) l -> Forall (req_ok (nw + d) t0) (age d l).
Proof.
  unfold can_wait, age. intros Hc Hf. induction Hf as [|r l Hr Hf IH]; [constructor|].
  cbn [forallb] in Hc. apply andb_true_iff in Hc as [Hc1 Hc2]. cbn [map].
  constructor; [|apply IH; exact Hc2].
  destruct Hr as [H1 H2]. destruct (q_done r) eqn:E.
  - split; [congruence|]. intros _. specialize (H2 eq_refl). lia.
  - cbn in Hc1. apply N.leb_le in Hc1. split; cbn; [intros _; specialize (H1 eq_refl); lia|discriminate].
Qed.

Lemma age_short drain d l : Forall (short_done drain) l -> Forall (short_done drain) (age d l).
Proof.
  unfold age. intros H. induction H as [|r l Hr H IH]; [constructor|]. cbn [map]. constructor; [|exact IH].
  unfold short_done in *. destruct (q_done r) eqn:E; [intros _; exact E|]. cbn. intros Hs. specialize (Hr Hs). congruence.
Qed.

Lemma finish_spec i l l' :
  finish i l = Some l' ->
  map q_stop l' = map q_stop l /\
  (exists r, In r l /\ q_done r = false /\ q_rem r = 0) /\
  (forall (P : req -> Prop),
     (forall r, P r -> q_done r = false -> q_rem r = 0 ->
                P {| q_id := i; q_rem := 0; q_done := true; q_stop := q_stop r |}) ->
     Forall P l -> Forall P l').
Proof.
  revert l'; induction l as [|r l IH]; intros l' H; [discriminate|]. cbn [finish] in H.
  destruct (Nat.eqb (q_id r) i) eqn:Ei.
  - destruct (negb (q_done r) && (q_rem r =? 0)) eqn:Eg; [|discriminate]. injection H as <-.
    apply andb_true_iff in Eg as [E1 E2]. apply negb_true_iff in E1. apply N.eqb_eq in E2.
    split; [reflexivity|]. split; [exists r; split; [now left|auto]|].
    intros P HP Hf. inversion Hf; subst. constructor; auto.
  - destruct (finish i l) as [t'|] eqn:Ef; [|discriminate]. injection H as <-.
    destruct (IH t' eq_refl) as (Hm & (r0 & Hin & Hd & Hr) & HF).
    split; [cbn [map]; now rewrite Hm|]. split; [exists r0; split; [now right|auto]|].
    intros P HP Hf. inversion Hf; subst. constructor; auto.
Qed.

Lemma finish_all_done i l l' : finish i l = Some l' -> all_done l = true -> all_done l' = true.
Proof.
  intros H Ha. destruct (finish_spec i l l' H) as (_ & (r & Hin & Hd & _) & _).
  unfold all_done in Ha. rewrite forallb_forall in Ha. rewrite (Ha r Hin) in Hd. discriminate.
Qed.

Lemma mark_ok nw l : Forall (req_ok nw nw) (mark l).
Proof.
  unfold mark. induction l as [|r l IH]; [constructor|]. cbn [map]. constructor; [|exact IH].
  unfold req_ok. cbn. destruct (q_done r); split; intros; try discriminate; lia.
Qed.

Lemma all_done_mark l : all_done (mark l) = all_done l.
Proof. unfold all_done, mark. induction l as [|r l IH]; [reflexivity|]. cbn. now rewrite IH. Qed.

Section Drain.
  Variables drain gap : N.
  Notation dstep := (dstep drain gap).

  Record DInv (s : dstate) : Prop := {
    d_last : last_done s <= now s;
    d_none : sd_start s = None -> sd_ret s = None;
    d_bound : forall t0, sd_start s = Some t0 -> bound s = false;
    d_start : forall t0, sd_start s = Some t0 ->
              t0 <= now s /\ Forall (req_ok (now s) t0) (reqs s) /\ last_done s <= t0 + maxstop (reqs s);
    d_pending : forall t0, sd_start s = Some t0 -> sd_ret s = None ->
                now s <= t0 + drain /\ (all_done (reqs s) = true -> now s <= N.max t0 (last_done s) + gap);
    d_ret : forall t0 t ok, sd_start s = Some t0 -> sd_ret s = Some (t, ok) ->
            t0 <= t /\ t <= t0 + drain /\ t <= now s /\ Forall (short_done drain) (reqs s) /\
            (ok = true -> all_done (reqs s) = true /\ t <= t0 + maxstop (reqs s) + gap /\ maxstop (reqs s) <= drain) /\
            (ok = false -> t = t0 + drain /\ drain <= maxstop (reqs s) + gap)
  }.

  Lemma dinv_init : DInv dinit.
  Proof. constructor; cbn; intros; try discriminate; try lia; auto. Qed.

  Lemma stops_le_drain l nw t0 :
    Forall (req_ok nw t0) l -> all_done l = true -> nw <= t0 + drain -> maxstop l <= drain.
  Proof.
    unfold maxstop, all_done. induction 1 as [|r l Hr Hf IH]; cbn [map maxl forallb]; intros Ha Hn; [lia|].
    apply andb_true_iff in Ha as [Ha1 Ha2]. destruct Hr as [_ H2]. specialize (H2 Ha1). specialize (IH Ha2 Hn). lia.
  Qed.

  Lemma dinv_step s l s' : DInv s -> dstep s l = Some s' -> DInv s'.
  Proof.
    intros I H. destruct I as [Dl Dn Db Ds Dp Dr]. destruct l; cbn [HttpDrain.dstep] in H.
    - (* DNewReq *)
      destruct (bound s && negb (has_id i (reqs s))) eqn:Eg; [|discriminate]. injection H as <-.
      apply andb_true_iff in Eg as [Eb _].
      assert (Hs : sd_start s = None) by (destruct (sd_start s) as [t0|] eqn:E; [rewrite (Db t0 eq_refl) in Eb; discriminate|reflexivity]).
      constructor; cbn; auto; intros; congruence.
    - (* DTick *)
      destruct (_ && _) eqn:Eg; [|discriminate]. injection H as <-.
      apply andb_true_iff in Eg as [Eg Eguard]. apply andb_true_iff in Eg as [Epos Ecw]. apply N.ltb_lt in Epos.
      constructor; cbn; auto.
      + lia.
      + intros t0 Hs. destruct (Ds t0 Hs) as (A & B & C). split; [lia|]. split; [now apply age_ok|].
        unfold maxstop. rewrite stops_age. exact C.
      + intros t0 Hs Hr. rewrite Hs, Hr in Eguard. apply andb_true_iff in Eguard as [E1 E2]. apply N.leb_le in E1.
        split; [exact E1|]. rewrite all_done_age. intros Ha. rewrite Ha in E2. apply N.leb_le in E2.
        unfold idle_since in E2. exact E2.
      + intros t0 t ok Hs Hr. destruct (Dr t0 t ok Hs Hr) as (A & B & C & D & E & F).
        unfold maxstop in *. rewrite stops_age, all_done_age.
        split; [exact A|]. split; [exact B|]. split; [lia|]. split; [now apply age_short|]. split; [exact E|exact F].
    - (* DFinish *)
      destruct (finish i (reqs s)) as [rs|] eqn:Ef; [|discriminate]. injection H as <-.
      destruct (finish_spec i (reqs s) rs Ef) as (Hm & (r & Hin & Hd & Hrem) & HF).
      constructor; cbn; auto.
      + lia.
      + intros t0 Hs. destruct (Ds t0 Hs) as (A & B & C). split; [exact A|]. split.
        * apply (HF (req_ok (now s) t0)); [|exact B]. intros r0 [H1 _] Hd0 Hr0. specialize (H1 Hd0).
          split; cbn; [discriminate|intros _; lia].
        * unfold maxstop. rewrite Hm. rewrite Forall_forall in B. destruct (B r Hin) as [H1 _]. specialize (H1 Hd).
          pose proof (stop_le_max r (reqs s) Hin). unfold maxstop in *. lia.
      + intros t0 Hs Hr. destruct (Dp t0 Hs Hr) as (A & _). split; [exact A|]. intros _. lia.
      + intros t0 t ok Hs Hr. destruct (Dr t0 t ok Hs Hr) as (A & B & C & D & E & F).
        unfold maxstop in *. rewrite Hm.
        split; [exact A|]. split; [exact B|]. split; [exact C|]. split.
        { apply (HF (short_done drain)); [|exact D]. intros r0 _ _ _. unfold short_done. cbn. auto. }
        split; [|exact F].
        intros Hok. destruct (E Hok) as (E1 & E2 & E3). split; [eapply finish_all_done; eauto|]. split; assumption.
    - (* DShutStart *)
      destruct (sd_start s) eqn:Es; [discriminate|]. injection H as <-.
      constructor; cbn; auto; try discriminate.
      + intros t0 Ht. injection Ht as <-. split; [lia|]. split; [apply mark_ok|]. lia.
      + intros t0 Ht _. injection Ht as <-. split; lia.
    - (* DShutRetOk *)
      destruct (sd_start s) as [t0|] eqn:Es; [|discriminate]. destruct (sd_ret s) eqn:Er; [discriminate|].
      destruct (_ && _) eqn:Eg; [|discriminate]. injection H as <-.
      apply andb_true_iff in Eg as [Ea Ele]. apply N.leb_le in Ele.
      destruct (Ds t0 eq_refl) as (A & B & C). destruct (Dp t0 eq_refl eq_refl) as (P1 & P2). specialize (P2 Ea).
      assert (P3 : now s <= t0 + maxstop (reqs s) + gap)
        by (destruct (N.max_spec t0 (last_done s)) as [[_ E]|[_ E]]; rewrite E in P2; lia).
      constructor; cbn; auto; try discriminate.
      intros t1 t ok Ht Hr. injection Ht as <-. injection Hr as <- <-.
      split; [exact A|]. split; [exact Ele|]. split; [lia|]. split.
      { rewrite Forall_forall. intros r Hin _. unfold all_done in Ea. rewrite forallb_forall in Ea. auto. }
      split; [|discriminate]. intros _. split; [exact Ea|]. split; [exact P3|]. eapply stops_le_drain; eauto.
    - (* DShutRetTimeout *)
      destruct (sd_start s) as [t0|] eqn:Es; [|discriminate]. destruct (sd_ret s) eqn:Er; [discriminate|].
      destruct (now s =? t0 + drain) eqn:Eg; [|discriminate]. injection H as <-. apply N.eqb_eq in Eg.
      destruct (Ds t0 eq_refl) as (A & B & C). destruct (Dp t0 eq_refl eq_refl) as (P1 & P2).
      assert (Hshort : Forall (short_done drain) (reqs s)).
      { rewrite Forall_forall in *. intros r Hin Hlt. destruct (B r Hin) as [H1 _].
        destruct (q_done r) eqn:Ed; [reflexivity|]. specialize (H1 eq_refl). lia. }
      constructor; cbn; auto; try discriminate.
      intros t1 t ok Ht Hr. injection Ht as <-. injection Hr as <- <-.
      split; [lia|]. split; [lia|]. split; [lia|]. split; [exact Hshort|]. split; [discriminate|].
      intros _. split; [exact Eg|].
      destruct (N.le_gt_cases drain (maxstop (reqs s) + gap)) as [Hle|Hgt]; [exact Hle|exfalso].
      assert (Ha : all_done (reqs s) = true).
      { unfold all_done. apply forallb_forall. intros r Hin. rewrite Forall_forall in Hshort.
        apply Hshort; [exact Hin|]. pose proof (stop_le_max r (reqs s) Hin). lia. }
      specialize (P2 Ha). destruct (N.max_spec t0 (last_done s)) as [[_ E]|[_ E]]; rewrite E in P2; lia.
    - (* DDial *)
      destruct (Bool.eqb ok (bound s)); [|discriminate]. injection H as <-.
      constructor; cbn; auto.
  Qed.

  Theorem dinv_run ls : forall s s', DInv s -> run dstep s ls = Some s' -> DInv s'.
  Proof. intros s s'. apply (run_inv dstate dlabel dstep DInv). intros; eapply dinv_step; eauto. Qed.

  Corollary dinv_reachable ls s : run dstep dinit ls = Some s -> DInv s.
  Proof. apply dinv_run, dinv_init. Qed.

  (* ---- the four statements ---- *)

  (* from the instant Shutdown starts every dial is refused *)
  Theorem no_new ls s t0 ok s' :
    run dstep dinit ls = Some s -> sd_start s = Some t0 -> dstep s (DDial ok) = Some s' -> ok = false.
  Proof.
    intros Hr Hs H. pose proof (d_bound _ (dinv_reachable ls s Hr) t0 Hs) as Hb.
    cbn in H. rewrite Hb in H. destruct ok; [discriminate|reflexivity].
  Qed.

  Theorem no_new_requests ls s t0 i d :
    run dstep dinit ls = Some s -> sd_start s = Some t0 -> dstep s (DNewReq i d) = None.
  Proof.
    intros Hr Hs. pose proof (d_bound _ (dinv_reachable ls s Hr) t0 Hs) as Hb. cbn. now rewrite Hb.
  Qed.

  (* when Shutdown has returned, every request that needed less than the drain timeout has completed *)
  Theorem complete ls s t0 t ok r :
    run dstep dinit ls = Some s -> sd_start s = Some t0 -> sd_ret s = Some (t, ok) ->
    In r (reqs s) -> q_stop r < drain -> q_done r = true.
  Proof.
    intros Hr Hs Hret Hin Hlt. destruct (d_ret _ (dinv_reachable ls s Hr) t0 t ok Hs Hret) as (_ & _ & _ & D & _).
    rewrite Forall_forall in D. now apply D.
  Qed.

  (* ... and a completed request's handler ran to its end: its remaining time is 0 *)

  (* if every request needs at most D and D + gap < drain, Shutdown returns nil, no later than D + gap after
     it was called (not at the deadline) *)
  Theorem prompt ls s t0 t ok :
    run dstep dinit ls = Some s -> sd_start s = Some t0 -> sd_ret s = Some (t, ok) ->
    maxstop (reqs s) + gap < drain ->
    ok = true /\ t <= t0 + maxstop (reqs s) + gap.
  Proof.
    intros Hr Hs Hret Hlt. destruct (d_ret _ (dinv_reachable ls s Hr) t0 t ok Hs Hret) as (_ & _ & _ & _ & E & F).
    destruct ok.
    - split; [reflexivity|]. apply (E eq_refl).
    - destruct (F eq_refl) as (_ & Hge). lia.
  Qed.

  (* always: Shutdown returns by the deadline; and it reports the deadline whenever some request needed
     more than the drain timeout *)
  Theorem bounded ls s t0 t ok :
    run dstep dinit ls = Some s -> sd_start s = Some t0 -> sd_ret s = Some (t, ok) ->
    t0 <= t /\ t <= t0 + drain /\ (drain < maxstop (reqs s) -> ok = false).
  Proof.
    intros Hr Hs Hret. destruct (d_ret _ (dinv_reachable ls s Hr) t0 t ok Hs Hret) as (A & B & _ & _ & E & _).
    split; [exact A|]. split; [exact B|]. intros Hgt. destruct ok; [|reflexivity].
    destruct (E eq_refl) as (_ & _ & Hle). lia.
  Qed.

  (* while Shutdown has not returned, time cannot pass its deadline (so it does return: the only steps
     enabled at the deadline are finishing requests and the return itself) *)
  Theorem deadline_not_passed ls s t0 :
    run dstep dinit ls = Some s -> sd_start s = Some t0 -> sd_ret s = None -> now s <= t0 + drain.
  Proof. intros Hr Hs Hn. apply (d_pending _ (dinv_reachable ls s Hr) t0 Hs Hn). Qed.

  Theorem return_enabled_at_deadline ls s t0 :
    run dstep dinit ls = Some s -> sd_start s = Some t0 -> sd_ret s = None -> now s = t0 + drain ->
    dstep s DShutRetTimeout <> None.
  Proof. intros _ Hs Hn He. cbn. rewrite Hs, Hn, He, N.eqb_refl. discriminate. Qed.
End Drain.


(* ---- the outcome predicate of the correspondence check accepts every outcome of the model ----
   (zero tolerance: band = slack = 0; the tolerances only widen it) *)

Lemma done_stops_le l nw t0 :
  Forall (req_ok nw t0) l -> all_done l = true -> t0 + maxstop l <= N.max nw t0.
Proof.
  unfold maxstop, all_done. induction 1 as [|r l Hr Hf IH]; cbn [map maxl forallb]; intros Ha; [lia|].
  apply andb_true_iff in Ha as [Ha1 Ha2]. destruct Hr as [_ H2]. specialize (H2 Ha1). specialize (IH Ha2). lia.
Qed.

Lemma flags_ok_true drain t l :
  all_done l = true -> flags_ok drain 0 t 0 true (map q_stop l) (map q_done l) = true.
Proof.
  unfold all_done. induction l as [|r l IH]; cbn [map flags_ok forallb]; [reflexivity|].
  intros Ha. apply andb_true_iff in Ha as [Ha1 Ha2]. rewrite Ha1, (IH Ha2). reflexivity.
Qed.

Lemma flags_ok_timeout drain t0 l :
  Forall (req_ok (t0 + drain) t0) l -> Forall (short_done drain) l ->
  flags_ok drain 0 drain 0 false (map q_stop l) (map q_done l) = true.
Proof.
  intros Hf Hs. induction l as [|r l IH]; cbn [map flags_ok]; [reflexivity|].
  inversion Hf as [|? ? Hr Hf']; subst. inversion Hs as [|? ? Hsr Hs']; subst.
  rewrite (IH Hf' Hs'), andb_true_r. rewrite !N.add_0_r. apply andb_true_iff. split.
  - destruct (q_stop r <? drain) eqn:E; [|reflexivity]. apply N.ltb_lt in E. exact (Hsr E).
  - destruct (drain <? q_stop r) eqn:E; [|reflexivity]. apply N.ltb_lt in E.
    destruct Hr as [_ H2]. destruct (q_done r) eqn:Ed; [|reflexivity]. specialize (H2 eq_refl). lia.
Qed.

Theorem drain_check_sound drain gap ls s l s' t0 :
  run (dstep drain gap) dinit ls = Some s -> sd_start s = Some t0 ->
  dstep drain gap s l = Some s' -> (l = DShutRetOk \/ l = DShutRetTimeout) ->
  drain_check drain gap 0 0 (map q_stop (reqs s'))
              (match l with DShutRetOk => true | _ => false end) (now s' - t0) (map q_done (reqs s')) = true.
Proof.
  intros Hr Hs Hstep Hl.
  pose proof (dinv_reachable drain gap ls s Hr) as I.
  pose proof (dinv_step drain gap s l s' I Hstep) as I'.
  destruct (d_start _ _ _ I t0 Hs) as (A & B & C).
  unfold drain_check. fold (maxstop (reqs s')). rewrite !N.add_0_r.
  destruct Hl as [-> | ->]; cbn [HttpDrain.dstep] in Hstep; rewrite Hs in Hstep;
    destruct (sd_ret s) eqn:Er; try discriminate.
  - destruct (all_done (reqs s) && (now s <=? t0 + drain)) eqn:Eg; [|discriminate]. injection Hstep as <-.
    cbn [reqs now]. apply andb_true_iff in Eg as [Ea Ele]. apply N.leb_le in Ele.
    destruct (d_pending _ _ _ I t0 Hs Er) as (_ & P2). specialize (P2 Ea).
    pose proof (done_stops_le _ _ _ B Ea) as Hd. rewrite N.max_l in Hd by lia.
    assert (P3 : now s <= t0 + maxstop (reqs s) + gap)
      by (destruct (N.max_spec t0 (last_done s)) as [[_ E]|[_ E]]; rewrite E in P2; lia).
    rewrite (flags_ok_true drain _ _ Ea), andb_true_r.
    apply andb_true_iff. split; [apply andb_true_iff; split|]; apply N.leb_le.
    + lia.
    + destruct (N.min_spec (maxstop (reqs s) + gap) drain) as [[_ E]|[_ E]]; rewrite E; lia.
    + lia.
  - destruct (now s =? t0 + drain) eqn:Eg; [|discriminate]. injection Hstep as <-. apply N.eqb_eq in Eg.
    cbn [reqs now]. rewrite Eg. replace (t0 + drain - t0) with drain by lia.
    destruct (d_ret _ _ _ I' t0 (now s) false) as (_ & _ & _ & D & _ & F); [reflexivity|reflexivity|].
    destruct (F eq_refl) as (_ & Hge). cbn [reqs] in D, Hge.
    rewrite Eg in B. rewrite (flags_ok_timeout drain t0 _ B D), andb_true_r.
    apply andb_true_iff. split; [apply andb_true_iff; split|]; apply N.leb_le; lia.
Qed.
