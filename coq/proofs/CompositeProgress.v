(* Deadlock freedom of the repaired composite (no stuck state): in every reachable state of a
   guarded schedule in which Run() has been called and a Stop()/Reload() caller has not returned
   (or Run() is past its select), some label other than a new API call / cancellation /
   observation is enabled — unless a child's Stop() was overtaken by a new Run of the same child
   (the lifecycle cycle-reset shape, C07). *)
From Coq Require Import List NArith Bool Arith Lia.
From GS Require Import Errs LTS Composite CompositeMon CompositeBase CompositeC10 CompositeC11
     CompositeLocks CompositeLive CompositeC09.
Import ListNotations.

(* SYSTEM labels: the library's own steps and the steps a child owes under its contract (Run
   returning nil / a cancellation error, Stop returning, ReloadWithConfig returning).
   ENVIRONMENT labels: new API calls (Run/Reload/Stop), cancellation of the parent context,
   observations, the RESULT of the configuration callback (its value is the environment's choice and
   of unbounded size), and a child's Run returning a non-cancellation error (a failure is never
   owed). *)
Definition is_system (l : label) : bool :=
  match l with
  | LRunCall | LReloadCall _ | LStopApi _ | LCancel | LState _ | LCb _ _ => false
  | LKExit _ _ e => benign e
  | _ => true
  end.
Definition is_cb (l : label) : bool := match l with LCb _ _ => true | _ => false end.

(* some step of the system, or the return of an outstanding callback, is enabled *)
Definition prog (P : params) (s : state) : Prop :=
  exists l s', is_system l || is_cb l = true /\ step P s l = Some s'.

Lemma sys_not_env l : is_system l || is_cb l = true -> env_label l = false.
Proof. destruct l; cbn; auto; discriminate. Qed.

Lemma prog_env P s : prog P s -> exists l s', env_label l = false /\ step P s l = Some s'.
Proof. intros (l & s' & Hl & Hs). exists l, s'. split; [now apply sys_not_env|exact Hs]. Qed.

(* every child's Run returns once signalled or cancelled: like the bundled runnables (OnSignal), or
   possibly earlier and with any result, e.g. a failure (Free) *)
Definition good_children (P : params) : Prop := forall c, In c (pool P) -> good_child c.

Lemma good_children_spec P c : good_children P -> good_child (spec_of P c).
Proof.
  intros H. unfold spec_of.
  destruct (nth_in_or_default (N.to_nat c) (pool P) default_spec) as [Hin| ->]; [now apply H|now left].
Qed.

(* the excluded shape: a blocking Stop() on child c is waiting, a Run of c started after that
   Stop() was issued (clearing the signal), and its context is not cancelled *)
Definition overtaken (P : params) (s : state) : Prop :=
  exists j w i k,
    nth_error (workers s) j = Some w /\ w_pc w = WCalled /\ is_nonblocking P (w_child w) = false /\
    nth_error (kids s) i = Some k /\ k_child k = w_child w /\ k_pc k = KInRun /\
    mem_N (k_child k) (sigs s) = false /\ kctx P k s = false.

(* ------------------------------------------------------------------ witnesses out of boolean folds *)

Lemma existsb_nth {A} (f : A -> bool) l : existsb f l = true -> exists i x, nth_error l i = Some x /\ f x = true.
Proof.
  intros H. apply existsb_exists in H as (x & Hin & Hf).
  apply In_nth_error in Hin as (i & Hi). eauto.
Qed.

Lemma forallb_false_nth {A} (f : A -> bool) l : forallb f l = false -> exists i x, nth_error l i = Some x /\ f x = false.
Proof.
  induction l as [|y l IH]; cbn; [discriminate|].
  destruct (f y) eqn:E; cbn.
  - intros H. destruct (IH H) as (i & x & Hi & Hx). exists (S i), x. auto.
  - intros _. exists 0, y. auto.
Qed.

(* ------------------------------------------------------------------ kids and workers *)

Lemma kid_launched_prog P s i k :
  nth_error (kids s) i = Some k -> k_pc k = KLaunched -> prog P s.
Proof.
  intros Hk Hp. destruct (launched_child_can_run P s i k Hk Hp) as (s' & Hs).
  exists (LKRun i (k_child k)), s'. auto.
Qed.

Lemma kid_exited_prog P s i k e :
  nth_error (kids s) i = Some k -> k_pc k = KExited e -> prog P s.
Proof.
  intros Hk Hp. exists (LKSend i). cbn [step]. rewrite Hk, Hp.
  destruct e as [x|]; [destruct (is_cancel x); [eauto|]|eauto].
  destruct (Nat.ltb (length (errq s)) (errcap s)); eauto.
Qed.

Lemma kid_inrun_prog P s i k :
  good_children P -> nth_error (kids s) i = Some k -> k_pc k = KInRun ->
  mem_N (k_child k) (sigs s) || kctx P k s = true -> prog P s.
Proof.
  intros Hg Hk Hp Hc. exists (LKExit i (k_child k) None). cbn [step].
  rewrite Hk, Hp, N.eqb_refl. unfold exit_ok.
  destruct (good_children_spec P (k_child k) Hg) as [E|E]; rewrite E, ?Hc; cbn; eauto.
Qed.

Lemma worker_prog P s j w :
  good_children P -> G_kids s -> ~ overtaken P s ->
  nth_error (workers s) j = Some w -> wdone w = false -> prog P s.
Proof.
  intros Hg (_ & K2) Hno Hw Hd. unfold wdone in Hd.
  destruct (w_pc w) eqn:Ep; try discriminate Hd.
  - (* WNew *) exists (LWCall j (w_child w)). cbn [step]. rewrite Hw, Ep, N.eqb_refl. eauto.
  - (* WCalled *)
    destruct (is_nonblocking P (w_child w)) eqn:Enb.
    + exists (LWRet j (w_child w)). cbn [step]. rewrite Hw, N.eqb_refl, Ep, Enb. eauto.
    + destruct (active (w_child w) s) eqn:Ea.
      * (* a Run of the child is in progress: it exits, being signalled or cancelled *)
        unfold active in Ea. apply existsb_nth in Ea as (i & k & Hk & Hf).
        apply andb_true_iff in Hf as [Hc Hp]. apply N.eqb_eq in Hc.
        assert (Hpc : k_pc k = KInRun) by (destruct (k_pc k); try discriminate Hp; reflexivity).
        destruct (mem_N (k_child k) (sigs s) || kctx P k s) eqn:Es.
        -- eapply kid_inrun_prog; eassumption.
        -- exfalso. apply Hno. apply orb_false_iff in Es as [Es1 Es2].
           exists j, w, i, k. repeat split; auto.
      * destruct (ever (w_child w) s) eqn:Ee.
        -- exists (LWUnblock j). cbn [step]. rewrite Hw, Ep, Enb, Ee, Ea. cbn. eauto.
        -- (* never begun: its goroutine exists (launched by the last boot) and can call Run *)
           pose proof (K2 w (nth_error_In _ _ Hw)) as Hk. unfold has_kid in Hk.
           apply existsb_nth in Hk as (i & k & Hk & Hc). apply N.eqb_eq in Hc.
           destruct (k_pc k) eqn:Epk; [eapply kid_launched_prog; eassumption| | |];
             exfalso; unfold ever in Ee;
             assert (existsb (fun k0 => N.eqb (k_child k0) (w_child w) && kpc_begun (k_pc k0)) (kids s) = true)
               by (apply existsb_exists; exists k; split; [eapply nth_error_In; eassumption|];
                   rewrite Hc, N.eqb_refl, Epk; reflexivity);
             congruence.
  - (* WUnblocked *) exists (LWRet j (w_child w)). cbn [step]. rewrite Hw, N.eqb_refl, Ep. eauto.
Qed.

(* ------------------------------------------------------------------ stopAllRunnables always advances *)

Lemma all_done_false o s :
  all_done o s = false -> exists j w, nth_error (workers s) j = Some w /\ wdone w = false.
Proof.
  unfold all_done. intros H. apply forallb_false_nth in H as (j & w & Hw & Hf).
  apply orb_false_iff in Hf as [_ Hf]. eauto.
Qed.

Lemma set_opc_some o tp rp s : exists s', set_opc o tp rp s = s'.
Proof. eauto. Qed.

Lemma stopwait_prog P s o :
  good_children P -> G_kids s -> ~ overtaken P s -> at_stop_wait o s = true -> prog P s.
Proof.
  intros Hg Hk Hno Hat.
  destruct (all_done o s) eqn:Ed.
  - destruct (fix_stale P) eqn:Efs.
    + exists (LStopCancel o). cbn [step]. rewrite Efs, Hat, Ed. cbn. eauto.
    + exists (LStopJoin o). cbn [step]. rewrite Efs, Hat, Ed. cbn.
      destruct o; [destruct (took s)|]; eauto.
  - destruct (all_done_false _ _ Ed) as (j & w & Hw & Hd). eapply worker_prog; eassumption.
Qed.

Lemma drain_prog P s o :
  good_children P -> fix_stale P = true -> at_stop_drain o s = true -> prog P s.
Proof.
  intros Hg Hfs Hat.
  destruct (drained s) eqn:Ed.
  - exists (LStopJoin o). cbn [step]. rewrite Hfs, Hat, Ed. cbn.
    destruct o; [destruct (took s)|]; eauto.
  - unfold drained in Ed. apply forallb_false_nth in Ed as (i & k & Hk & Hf).
    apply orb_false_iff in Hf as [Hgen Hd]. apply negb_false_iff in Hgen.
    unfold kdone in Hd. destruct (k_pc k) eqn:Ep; try discriminate Hd.
    + eapply kid_launched_prog; eassumption.
    + eapply kid_inrun_prog; try eassumption. unfold kctx. rewrite Hfs, Hgen. cbn.
      now rewrite !orb_true_r.
    + eapply kid_exited_prog; eassumption.
Qed.

(* ------------------------------------------------------------------ runnablesMu is free when needed *)

Lemma all_outside_count f s :
  all_outside s -> (forall p, f p = true -> inside p = true) -> count_r f (reloaders s) = 0.
Proof.
  intros Ho Hf. destruct (count_r f (reloaders s)) eqn:E; [reflexivity|exfalso].
  destruct (count_pos_nth f (reloaders s) ltac:(lia)) as (k & r & Hk & Hr).
  pose proof (outside_nth _ _ _ Ho Hk) as Hout. apply Hf in Hr. unfold inside in Hr.
  rewrite Hout in Hr. discriminate Hr.
Qed.

Lemma rel_holds_inside p : rel_holds p = true -> inside p = true.
Proof. destruct p; cbn; auto; discriminate. Qed.

Lemma run_mu_free_of_count s :
  L_run s -> count_r rel_holds (reloaders s) = 0 -> run_holds (runt s) = false -> mu_free (run_mu s) = true.
Proof.
  unfold L_run. intros H Hc Hr. rewrite Hc, Hr in H. cbn in H.
  destruct (mu_free (run_mu s)); [reflexivity|discriminate H].
Qed.

(* a reloader inside its critical section that is not itself holding runnablesMu finds it free *)
Lemma run_mu_free_for_reloader P s k x :
  fix_c09 P = true -> Gall P s ->
  nth_error (reloaders s) k = Some x -> inside (r_pc x) = true -> rel_holds (r_pc x) = false ->
  mu_free (run_mu s) = true.
Proof.
  intros Hf G Hx Hi Hh. destruct (g_c10 P s G) as (_ & H1 & _).
  pose proof (g_mu P s G) as Hmu. pose proof (g_run P s G) as Hrun.
  apply run_mu_free_of_count; [exact Hrun| |].
  - eapply (count_one_other inside rel_holds); eauto using L_mu_inside_le, rel_holds_inside.
  - destruct (run_holds (runt s)) eqn:Er; [exfalso|reflexivity].
    pose proof (count_nth_le inside _ _ _ Hx Hi) as Hge.
    destruct (runt s) eqn:Et; try discriminate Er.
    + (* TBootCb *) assert (Hpre : pre_launch (runt s) = true) by (rewrite Et; reflexivity).
      destruct (H1 Hpre) as (_ & _ & _ & _ & Ho & _).
      pose proof (all_outside_count inside s Ho (fun p H => H)). lia.
    + assert (Hpre : pre_launch (runt s) = true) by (rewrite Et; reflexivity).
      destruct (H1 Hpre) as (_ & _ & _ & _ & Ho & _).
      pose proof (all_outside_count inside s Ho (fun p H => H)). lia.
    + destruct Hmu as [Hm _]. rewrite Hf, Et in Hm. cbn in Hm.
      destruct (negb (mu_free (reload_mu s))); cbn in Hm; lia.
    + destruct Hmu as [Hm _]. rewrite Hf, Et in Hm. cbn in Hm.
      destruct (negb (mu_free (reload_mu s))); cbn in Hm; lia.
Qed.

(* ------------------------------------------------------------------ a reloader inside always advances *)

Lemma inside_prog P s k x :
  fix_c09 P = true -> good_children P -> Gall P s -> ~ overtaken P s ->
  nth_error (reloaders s) k = Some x -> inside (r_pc x) = true -> prog P s.
Proof.
  intros Hf Hg G Hno Hx Hi.
  assert (Hrp : rel_pc k s = Some (r_pc x)) by (unfold rel_pc; now rewrite Hx).
  destruct (r_pc x) eqn:Ep; try discriminate Hi.
  - (* RCb: the callback returns *)
    exists (LCb (ORel k) CbNil). cbn [step]. rewrite Hrp. eauto.
  - exists (LRlSetInPlace k). cbn [step]. rewrite Hx, Ep. eauto.
  - (* RInPlace i *)
    destruct (nth_error (r_new x) i) as [[c v]|] eqn:En.
    + destruct (c_rk (spec_of P c)) eqn:Erk.
      * exists (LRlCfg k c v). cbn [step]. rewrite Hx, Ep, En, Erk, !N.eqb_refl. cbn. eauto.
      * exists (LRlPlain k c). cbn [step]. rewrite Hx, Ep, En, Erk, N.eqb_refl. eauto.
      * exists (LRlSkip k). cbn [step]. rewrite Hx, Ep, En, Erk. eauto.
    + exists (LRlFinish k). cbn [step]. rewrite Hx, Ep, En. eauto.
  - (* RStopBegin *)
    assert (Hfree : mu_free (run_mu s) = true)
      by (eapply run_mu_free_for_reloader; eauto; rewrite Ep; reflexivity).
    exists (LStopBegin (ORel k)). cbn [step]. unfold at_stop_begin. rewrite Hrp, Hfree. cbn. eauto.
  - eapply (stopwait_prog P s (ORel k)); eauto using g_kids. unfold at_stop_wait. now rewrite Hrp.
  - (* RStopDrain is only reached in the fix_stale variant *)
    destruct (fix_stale P) eqn:Efs.
    + eapply (drain_prog P s (ORel k)); eauto. unfold at_stop_drain. now rewrite Hrp.
    + exfalso. destruct (g_drain P s G Efs) as [Hc _].
      assert (Hd : is_drain (r_pc x) = true) by (rewrite Ep; reflexivity).
      pose proof (count_nth_le is_drain _ _ _ Hx Hd). lia.
  - exists (LRlSetCfg k). cbn [step]. rewrite Hx, Ep. eauto.
  - (* RBootLock *)
    assert (Hfree : mu_free (run_mu s) = true)
      by (eapply run_mu_free_for_reloader; eauto; rewrite Ep; reflexivity).
    exists (LBootLock (ORel k)). cbn [step]. unfold at_boot_lock. rewrite Hrp, Hfree. cbn.
    destruct (cfg s); eauto.
  - exists (LBootLaunch (ORel k)). cbn [step]. unfold at_boot_launch. rewrite Hrp. eauto.
  - exists (LRlFinish k). cbn [step]. rewrite Hx, Ep. eauto.
Qed.

(* ------------------------------------------------------------------ Run always advances once past its select *)

Definition busy (p : tpc) : bool :=
  match p with TIdle | TSelect | TDone _ => false | _ => true end.

Lemma holder_prog P s :
  fix_c09 P = true -> good_children P -> Gall P s -> ~ overtaken P s ->
  0 < count_r inside (reloaders s) -> prog P s.
Proof.
  intros Hf Hg G Hno Hc. destruct (count_pos_nth inside _ Hc) as (k & x & Hx & Hi).
  eapply inside_prog; eassumption.
Qed.

Lemma runt_prog P s :
  fix_c09 P = true -> good_children P -> Gall P s -> ~ overtaken P s ->
  busy (runt s) = true -> prog P s.
Proof.
  intros Hf Hg G Hno Hb.
  destruct (g_c10 P s G) as (_ & H1 & _).
  pose proof (g_mu P s G) as Hmu. pose proof (g_run P s G) as Hrun.
  destruct (runt s) eqn:Et; try discriminate Hb.
  - (* TCalled *) exists LRunBegin. cbn [step]. rewrite Et.
    destruct (transition FBooting (set_rctx (pctx s) s)); eauto.
  - (* TBootLock *)
    assert (Hpre : pre_launch (runt s) = true) by (rewrite Et; reflexivity).
    destruct (H1 Hpre) as (_ & _ & _ & _ & Ho & _).
    assert (Hfree : mu_free (run_mu s) = true).
    { apply run_mu_free_of_count; [exact Hrun| |rewrite Et; reflexivity].
      apply all_outside_count; [exact Ho|apply rel_holds_inside]. }
    exists (LBootLock ORun). cbn [step]. unfold at_boot_lock. rewrite Et, Hfree. cbn.
    destruct (cfg s); eauto.
  - exists (LCb ORun CbNil). cbn [step]. rewrite Et. eauto.
  - exists (LBootLaunch ORun). cbn [step]. unfold at_boot_launch. rewrite Et. eauto.
  - exists LToRunning. cbn [step]. rewrite Et. destruct (transition FRunning s); eauto.
  - exists LTransIf. cbn [step]. rewrite Et. eauto.
  - (* TTearLock: reloadMu is free, or its holder advances *)
    destruct (mu_free (reload_mu s)) eqn:Em.
    + exists LTearLock. cbn [step]. rewrite Et, Em. eauto.
    + destruct Hmu as [Hm _]. rewrite Et, Em in Hm. cbn in Hm. rewrite andb_false_r in Hm. cbn in Hm.
      eapply holder_prog; eauto. lia.
  - (* TStopBegin *)
    assert (Hfree : mu_free (run_mu s) = true).
    { apply run_mu_free_of_count; [exact Hrun| |rewrite Et; reflexivity].
      destruct Hmu as [Hm _]. rewrite Hf, Et in Hm. cbn in Hm.
      pose proof (count_le rel_holds inside (reloaders s) rel_holds_inside).
      destruct (negb (mu_free (reload_mu s))); cbn in Hm; lia. }
    exists (LStopBegin ORun). cbn [step]. unfold at_stop_begin. rewrite Et, Hfree. cbn. eauto.
  - eapply (stopwait_prog P s ORun); eauto using g_kids. unfold at_stop_wait. now rewrite Et.
  - destruct (fix_stale P) eqn:Efs.
    + eapply (drain_prog P s ORun); eauto. unfold at_stop_drain. now rewrite Et.
    + exfalso. destruct (g_drain P s G Efs) as [_ Hr]. now elim Hr.
  - exists LToStopped. cbn [step]. rewrite Et. destruct (transition FStopped s); eauto.
  - exists LRunExit. cbn [step]. rewrite Et. eauto.
  - exists (LRunRet r). cbn [step]. rewrite Et, oerr_eqb_refl. eauto.
Qed.

(* ------------------------------------------------------------------ no stuck state *)

Definition pending (s : state) : Prop :=
  busy (runt s) = true
  \/ (exists k p, nth_error (stoppers s) k = Some p /\ p <> SDone)
  \/ (exists k r, nth_error (reloaders s) k = Some r /\ r_pc r <> RDone).

Theorem no_stuck_state P s :
  fix_c09 P = true -> good_pool P -> good_children P ->
  greach P s -> ~ overtaken P s -> runt s <> TIdle -> pending s -> prog P s.
Proof.
  intros Hf Hp Hg Hr Hno Hidle Hpend.
  pose proof (Gall_greach P s Hf Hp Hr) as G.
  destruct (busy (runt s)) eqn:Eb; [eapply runt_prog; eassumption|].
  destruct Hpend as [Hb|[(k & p & Hk & Hp')|(k & r & Hk & Hp')]]; [congruence| |].
  - (* a Stop() caller *)
    destruct p; [| |now elim Hp'].
    + exists (LSSignal k). cbn [step]. rewrite Hk. eauto.
    + assert (Hs : lc_stopped s = true) by (eapply (g_sig P s G k SWaiting); [exact Hk|discriminate]).
      pose proof (g_ret P s G) as Hret. unfold I_ret2 in Hret.
      destruct (runt s) eqn:Et; try discriminate Eb; [now elim Hidle| |].
      * exists LSelStop. cbn [step]. rewrite Et, Hs. eauto.
      * exists (LSRet k). cbn [step]. rewrite Hk, Hret. eauto.
  - (* a Reload() caller *)
    destruct (inside (r_pc r)) eqn:Ei; [eapply inside_prog; eassumption|].
    assert (Hrp : rel_pc k s = Some (r_pc r)) by (unfold rel_pc; now rewrite Hk).
    destruct (r_pc r) eqn:Ep; try discriminate Ei; [| |now elim Hp'].
    + (* RCalled: reloadMu is free, or its holder advances *)
      destruct (mu_free (reload_mu s)) eqn:Em.
      * exists (LRlLock k). cbn [step]. rewrite Hrp, Em. destruct (transition FReloading s); eauto.
      * destruct (g_mu P s G) as [Hm _]. rewrite Em, Hf in Hm. cbn in Hm.
        destruct (tear_hold (runt s)) eqn:Eth.
        -- exfalso. destruct (runt s); discriminate.
        -- cbn in Hm. eapply holder_prog; eauto. lia.
    + exists (LRlRet k). cbn [step]. rewrite Hrp. eauto.
Qed.

(* ------------------------------------------------------------------ the excluded shape is real (in the model) *)

Definition ov_params : params :=
  mkParams [mkSpec 0 UntilRunDone OnSignal RWC; mkSpec 1 UntilRunDone OnSignal RWC] true true false false true.

(* boot [c0]; Reload -> [c0;c1] (restart: c0 is re-launched, its goroutine has not entered Run);
   Reload -> [c0] (restart): Stop() is called on c0, then c0's pending Run begins and clears the
   signal (cycle reset), so the Stop() waits for a Run nobody will signal *)
Definition ov_sched : list label :=
  [LRunCall; LRunBegin; LBootLock ORun; LCb ORun (CbSome [(0, 0)]%N); LBootLaunch ORun; LToRunning;
   LKRun 0 0%N;
   LReloadCall 0; LRlLock 0; LCb (ORel 0) (CbSome [(0, 1); (1, 1)]%N);
   LStopBegin (ORel 0); LWCall 0 0%N; LKExit 0 0%N None; LWUnblock 0; LWRet 0 0%N;
   LStopJoin (ORel 0); LRlSetCfg 0; LBootLock (ORel 0); LBootLaunch (ORel 0); LRlFinish 0; LRlRet 0;
   LKRun 2 1%N;
   LReloadCall 1; LRlLock 1; LCb (ORel 1) (CbSome [(0, 2)]%N); LStopBegin (ORel 1);
   LWCall 2 0%N; LKRun 1 0%N;
   LWCall 1 1%N; LKExit 2 1%N None; LWUnblock 1; LWRet 1 1%N].

Definition ov_state : option state := Eval vm_compute in run (step ov_params) init ov_sched.
Definition ov_st : state := match ov_state with Some s => s | None => init end.

Lemma ov_reach : greach ov_params ov_st.
Proof. exists ov_sched. split; [repeat constructor|vm_compute; reflexivity]. Qed.

Lemma ov_overtaken : overtaken ov_params ov_st.
Proof.
  exists 2, (mkWorker (ORel 1) 0%N WCalled), 1, (mkKid 2 0%N KInRun (ORel 0)).
  vm_compute. repeat split.
Qed.

Lemma ov_stuck : forall l s', step ov_params ov_st l = Some s' -> env_label l = true.
Proof.
  intros l s' H.
  destruct l; try reflexivity; exfalso; try destruct o as [|[|[|k]]]; cbn in H; try discriminate H.
  all: try (destruct i as [|[|[|i]]]; cbn in H; try discriminate H;
            try (destruct c as [|[p|p|]]; cbn in H; try discriminate H;
                 destruct e as [[]|]; cbn in H; discriminate H);
            destruct i; discriminate H).
  all: try (destruct j as [|[|[|j]]]; cbn in H; try discriminate H;
            try (destruct c as [|[p|p|]]; cbn in H; discriminate H);
            destruct j; discriminate H).
  all: try (destruct k as [|[|[|k]]]; cbn in H; try discriminate H; destruct k; discriminate H).
Qed.

(* ------------------------------------------------------------------ repaired lifecycle: no Stop() is overtaken *)

(* a blocking Stop() that is still waiting has its signal in place *)
Definition I_sigw (P : params) (s : state) : Prop :=
  forall w, In w (workers s) -> w_pc w = WCalled -> is_nonblocking P (w_child w) = false ->
            mem_N (w_child w) (sigs s) = true.

Lemma mem_N_add c x l : mem_N x l = true -> mem_N x (add_N c l) = true.
Proof. unfold add_N. destruct (mem_N c l); cbn; intros H; rewrite ?H; auto using orb_true_r. Qed.

Lemma mem_N_add_same c l : mem_N c (add_N c l) = true.
Proof. unfold add_N. destruct (mem_N c l) eqn:E; cbn; auto. now rewrite N.eqb_refl. Qed.

Lemma mem_N_remove_other c x l : x <> c -> mem_N x (remove_N c l) = mem_N x l.
Proof.
  intros Hne. unfold remove_N. induction l as [|y l IH]; cbn; [reflexivity|].
  destruct (N.eqb y c) eqn:E; cbn.
  - apply N.eqb_eq in E. subst y. rewrite IH.
    destruct (N.eqb x c) eqn:E2; [apply N.eqb_eq in E2; contradiction|reflexivity].
  - now rewrite IH.
Qed.

Lemma I_sigw_step P s l s' : fix_lc P = true -> I_sigw P s -> step P s l = Some s' -> I_sigw P s'.
Proof.
  intros Hlc H Hst. unfold I_sigw in *.
  open_step Hst; cbn; goal_cases; intros w' Hin Hpc Hnb; try (apply H; assumption).
  all: try (apply in_app_or in Hin as [Hin|Hin]; [apply H; assumption|];
            unfold spawn_workers in Hin; apply in_map_iff in Hin as (e0 & <- & _); discriminate Hpc).
  - (* a new Run cycle resets the child: the waiting Stop() callers are released *)
    apply in_map_iff in Hin as (w0 & <- & Hw0).
    apply andb_true_iff in Erl as [Er _]. rewrite Er.
    unfold release_worker in *. destruct (w_pc w0) eqn:Ep; try (rewrite Ep in Hpc; discriminate Hpc).
    destruct (N.eqb (w_child w0) c) eqn:Ec; [cbn in Hpc; discriminate Hpc|].
    rewrite mem_N_remove_other; [apply H; auto|].
    intros Heq. rewrite Heq, N.eqb_refl in Ec. discriminate Ec.
  - (* no reset (fix_lc is on, so the condition itself is false) *)
    rewrite Hlc, andb_true_r in Erl. rewrite Erl. apply H; assumption.
  - (* StopCall sets the signal *)
    apply in_upd in Hin as [Hin|(x & Hx & ->)].
    + apply mem_N_add. apply H; assumption.
    + assert (x = w) by congruence. subst x. cbn. apply N.eqb_eq in E1. rewrite E1. apply mem_N_add_same.
  - apply in_upd in Hin as [Hin|(x & Hx & ->)]; [apply H; assumption|discriminate Hpc].
  - apply in_upd in Hin as [Hin|(x & Hx & ->)]; [apply H; assumption|discriminate Hpc].
  - apply in_upd in Hin as [Hin|(x & Hx & ->)]; [apply H; assumption|discriminate Hpc].
Qed.

Lemma I_sigw_reach P s : fix_lc P = true -> reach P s -> I_sigw P s.
Proof.
  intros Hlc. apply reach_inv; [intros w []|]. intros; eapply I_sigw_step; eassumption.
Qed.

Lemma not_overtaken P s : fix_lc P = true -> reach P s -> ~ overtaken P s.
Proof.
  intros Hlc Hr (j & w & i & k & Hw & Hpc & Hnb & Hk & Hc & Hkp & Hs & _).
  pose proof (I_sigw_reach P s Hlc Hr w (nth_error_In _ _ Hw) Hpc Hnb) as Hm.
  rewrite Hc in Hs. congruence.
Qed.

(* C09_live for the fully repaired code: no exclusion left *)
Theorem no_stuck_state_lc P s :
  fix_c09 P = true -> fix_lc P = true -> good_pool P -> good_children P ->
  greach P s -> runt s <> TIdle -> pending s -> prog P s.
Proof.
  intros Hf Hlc Hp Hg Hr Hidle Hpend.
  eapply no_stuck_state; eauto. apply not_overtaken; auto using greach_reach.
Qed.

(* the same two theorems in terms of "a label other than a new API call / cancellation / observation" *)
Theorem no_stuck_state_env P s :
  fix_c09 P = true -> good_pool P -> good_children P ->
  greach P s -> ~ overtaken P s -> runt s <> TIdle -> pending s ->
  exists l s', env_label l = false /\ step P s l = Some s'.
Proof. intros. apply prog_env. apply no_stuck_state; assumption. Qed.

Theorem no_stuck_state_lc_env P s :
  fix_c09 P = true -> fix_lc P = true -> good_pool P -> good_children P ->
  greach P s -> runt s <> TIdle -> pending s ->
  exists l s', env_label l = false /\ step P s l = Some s'.
Proof. intros. apply prog_env. apply no_stuck_state_lc; assumption. Qed.
