(* Schedules whose callback values range over the pool ("guarded" schedules), the invariants that
   tie the configuration to the launched children, and deadlock freedom of the repaired code
   (no stuck state). *)
From Coq Require Import List NArith Bool Arith Lia.
From GS Require Import Errs LTS Composite CompositeMon CompositeBase CompositeC10 CompositeC11 CompositeLocks.
Import ListNotations.

(* ------------------------------------------------------------------ guarded schedules *)

(* the callback only returns configurations over the pool of runnables *)
Definition valid_cfg (P : params) (c : config) : bool :=
  forallb (fun e => Nat.ltb (N.to_nat (fst e)) (length (pool P))) c.

Definition good_label (P : params) (l : label) : Prop :=
  match l with LCb _ (CbSome c) => valid_cfg P c = true | _ => True end.

(* String() identifies a runnable: distinct pool members have distinct names *)
Definition good_pool (P : params) : Prop := NoDup (map c_name (pool P)).

Definition greach (P : params) (s : state) : Prop :=
  exists ls, Forall (good_label P) ls /\ run (step P) init ls = Some s.

Lemma greach_reach P s : greach P s -> reach P s.
Proof. intros (ls & _ & H). now exists ls. Qed.

Lemma greach_init P : greach P init.
Proof. exists []. split; [constructor|reflexivity]. Qed.

Lemma greach_step P s l s' : greach P s -> good_label P l -> step P s l = Some s' -> greach P s'.
Proof.
  intros (ls & Hg & Hr) Hl Hst. exists (ls ++ [l]). split.
  - apply Forall_app. split; [exact Hg|constructor; [exact Hl|constructor]].
  - rewrite run_app, Hr. cbn. now rewrite Hst.
Qed.

Lemma greach_inv P (Inv : state -> Prop) :
  Inv init ->
  (forall s l s', greach P s -> Inv s -> good_label P l -> step P s l = Some s' -> Inv s') ->
  forall s, greach P s -> Inv s.
Proof.
  intros H0 Hs s (ls & Hg & Hr). revert s Hg Hr.
  induction ls as [|l ls IH] using rev_ind; intros s Hg Hr.
  - injection Hr as <-. exact H0.
  - apply Forall_app in Hg as [Hg Hl]. inversion Hl as [|? ? Hl1 _]; subst.
    rewrite run_app in Hr. destruct (run (step P) init ls) as [s1|] eqn:E; [|discriminate].
    cbn in Hr. destruct (step P s1 l) as [s2|] eqn:E2; [|discriminate]. injection Hr as <-.
    eapply Hs; [exists ls; split; eassumption|apply IH; auto|exact Hl1|exact E2].
Qed.

(* ------------------------------------------------------------------ names and ids *)

Lemma name_inj P c c' :
  good_pool P -> N.to_nat c < length (pool P) -> N.to_nat c' < length (pool P) ->
  name_of P c = name_of P c' -> c = c'.
Proof.
  intros Hp Hc Hc' Hn. unfold name_of, spec_of in Hn.
  apply N2Nat.inj.
  apply (proj1 (NoDup_nth (map c_name (pool P)) 0%N) Hp); rewrite ?map_length; auto.
  change 0%N with (c_name default_spec). rewrite !map_nth. exact Hn.
Qed.

Definition ids (c : config) : list N := map fst c.

Lemma valid_cfg_in P c x : valid_cfg P c = true -> In x (ids c) -> N.to_nat x < length (pool P).
Proof.
  unfold valid_cfg, ids. rewrite forallb_forall. intros H Hin.
  apply in_map_iff in Hin as (e & <- & He). apply Nat.ltb_lt. now apply H.
Qed.

Lemma names_in P c n : In n (names P c) <-> exists x, In x (ids c) /\ name_of P x = n.
Proof.
  unfold names, ids. rewrite in_map_iff. split.
  - intros (e & <- & He). exists (fst e). split; [now apply in_map|reflexivity].
  - intros (x & Hx & <-). apply in_map_iff in Hx as (e & <- & He). exists e. auto.
Qed.

(* same name sets over valid configurations = same id sets *)
Lemma same_names_same_ids P a b :
  good_pool P -> valid_cfg P a = true -> valid_cfg P b = true ->
  incl (names P b) (names P a) -> incl (ids b) (ids a).
Proof.
  intros Hp Ha Hb Hi x Hx.
  assert (Hn : In (name_of P x) (names P a)).
  { apply Hi. apply names_in. exists x. auto. }
  apply names_in in Hn as (y & Hy & Hyn).
  assert (y = x); [|subst; exact Hy].
  eapply name_inj; eauto using valid_cfg_in.
Qed.

(* ------------------------------------------------------------------ list-update helpers *)

Lemma nth_upd_inv {A} k (f : A -> A) l k0 r :
  nth_error (upd k f l) k0 = Some r ->
  (k0 = k /\ exists x, nth_error l k = Some x /\ r = f x) \/ (k0 <> k /\ nth_error l k0 = Some r).
Proof.
  destruct (Nat.eq_dec k0 k) as [->|Hne].
  - intros H. left. split; [reflexivity|].
    destruct (nth_error l k) as [x|] eqn:E.
    + rewrite (nth_error_upd_same _ _ _ _ E) in H. injection H as <-. eauto.
    + exfalso. apply nth_error_None in E.
      assert (nth_error (upd k f l) k = None) by (apply nth_error_None; now rewrite upd_length).
      congruence.
  - intros H. right. split; [exact Hne|]. rewrite nth_error_upd_other in H; auto.
Qed.

Lemma nth_app_one_inv {A} (l : list A) x k r :
  nth_error (l ++ [x]) k = Some r -> nth_error l k = Some r \/ (k = length l /\ r = x).
Proof.
  intros H. destruct (Nat.lt_ge_cases k (length l)) as [Hlt|Hge].
  - left. now rewrite nth_error_app1 in H.
  - right. rewrite nth_error_app2 in H by exact Hge.
    destruct (k - length l) as [|n] eqn:E; cbn in H.
    + injection H as <-. split; [lia|reflexivity].
    + destruct n; discriminate.
Qed.

Lemma Forall_upd {A} (Q : A -> Prop) k f l :
  Forall Q l -> (forall x, nth_error l k = Some x -> Q x -> Q (f x)) -> Forall Q (upd k f l).
Proof.
  intros H Hf. apply Forall_forall. intros y Hy. rewrite Forall_forall in H.
  apply in_upd in Hy as [Hy|(x & Hx & ->)]; [now apply H|].
  apply Hf; [exact Hx|]. apply H. eapply nth_error_In; eassumption.
Qed.

(* two reloaders inside the critical section contradict the counting invariant *)
Lemma inside_unique f l k k' x y :
  count_r f l <= 1 -> nth_error l k = Some x -> f (r_pc x) = true ->
  nth_error l k' = Some y -> f (r_pc y) = true -> k = k'.
Proof.
  revert k k'; induction l as [|z l IH]; intros [|k] [|k'] Hc Hx Hfx Hy Hfy; cbn in *;
    try discriminate; auto.
  - injection Hx as ->. rewrite Hfx in Hc. cbn in Hc.
    pose proof (count_nth_le f l k' y Hy Hfy). lia.
  - injection Hy as ->. rewrite Hfy in Hc. cbn in Hc.
    pose proof (count_nth_le f l k x Hx Hfx). lia.
  - f_equal. eapply IH; eauto. destruct (f (r_pc z)); cbn in Hc; lia.
Qed.

Lemma L_mu_inside_le P s : L_mu P s -> count_r inside (reloaders s) <= 1.
Proof.
  intros [H _]. destruct (negb (mu_free (reload_mu s))); cbn in H; lia.
Qed.

(* ------------------------------------------------------------------ configurations are over the pool *)

Arguments valid_cfg : simpl never.

Definition G_valid (P : params) (s : state) : Prop :=
  valid_cfg P (entries_of s) = true /\
  Forall (fun r => valid_cfg P (r_new r) = true) (reloaders s).

Lemma G_valid_step P s l s' :
  G_valid P s -> good_label P l -> step P s l = Some s' -> G_valid P s'.
Proof.
  intros (V1 & V2) Hl Hst. unfold G_valid.
  open_step Hst; cbn; goal_cases; unfold entries_of in *; cbn.
  all: try (split; [assumption|]); try assumption.
  all: unfold upd_rel; cbn.
  all: try (apply Forall_upd; [assumption|]; intros y Hy Hv; cbn; assumption).
  - apply Forall_app. split; [assumption|]. constructor; [reflexivity|constructor].
  - split.
    + rewrite Forall_forall in V2. apply V2. eapply nth_error_In; eassumption.
    + apply Forall_upd; [assumption|]. intros y Hy Hv; cbn; assumption.
  - split.
    + rewrite Forall_forall in V2. apply V2. eapply nth_error_In; eassumption.
    + apply Forall_upd; [assumption|]. intros y Hy Hv; cbn; assumption.
Qed.

(* ------------------------------------------------------------------ the reload in progress remembers the old configuration *)

Definition pending_old (p : rpc) : bool :=
  match p with RInPlaceSet | RStopBegin | RStopWait | RStopDrain | RSetCfg => true | _ => false end.

Lemma pending_old_inside p : pending_old p = true -> inside p = true.
Proof. destruct p; cbn; auto; discriminate. Qed.

Definition G_old (P : params) (s : state) : Prop :=
  forall k r, nth_error (reloaders s) k = Some r -> pending_old (r_pc r) = true ->
    r_old r = entries_of s /\
    membership_changed P (r_old r) (r_new r) = negb (rpc_is (r_pc r) RInPlaceSet).

Lemma G_old_step P s l s' :
  I1 s -> L_mu P s -> G_old P s -> step P s l = Some s' -> G_old P s'.
Proof.
  intros H1 Hmu H Hst. pose proof (L_mu_inside_le P s Hmu) as Hle. unfold G_old in *.
  open_step Hst; cbn; goal_cases; unfold entries_of in *; cbn; intros kk rr Hn Hp.
  all: try (eapply H; eassumption).
  all: unfold upd_rel in *; cbn in *.
  all: try (apply nth_upd_inv in Hn as [(-> & x0 & Hx0 & ->)|(Hne & Hn)]).
  all: try (eapply H; eassumption).
  all: repeat match goal with
              | E : rel_pc ?k ?s = Some ?p |- _ =>
                let x := fresh "x" in let Hx := fresh "Hx" in let Hq := fresh "Hq" in
                destruct (rel_pc_nth _ _ _ E) as (x & Hx & Hq); clear E
              end.
  all: try (match goal with
            | Hx : nth_error (reloaders ?s) ?k = Some ?x, Hx0 : nth_error (reloaders ?s) ?k = Some ?x0 |- _ =>
              assert (x0 = x) by congruence; subst x0
            end).
  all: try (cbn in Hp; discriminate Hp).
  all: try (match goal with
            | Hx : nth_error (reloaders ?s) ?k = Some ?x, Hq : r_pc ?x = _ |- _ =>
              let Ha := fresh "Ha" in let Hb := fresh "Hb" in
              destruct (H _ _ Hx ltac:(rewrite Hq; reflexivity)) as [Ha Hb]; rewrite Hq in Hb;
              cbn in *; split; auto; fail
            end).
  - apply nth_app_one_inv in Hn as [Hn|[_ ->]]; [eapply H; eassumption|discriminate Hp].
  - (* the initial load happens before any reload can be in progress *)
    exfalso. assert (Hpre : pre_launch (runt s) = true)
      by (match goal with E : runt s = _ |- _ => rewrite E; reflexivity end).
    destruct (H1 Hpre) as (_ & _ & _ & _ & Ho & _).
    pose proof (outside_nth _ _ _ Ho Hn) as Hout.
    apply pending_old_inside in Hp. unfold inside in Hp. rewrite Hout in Hp. discriminate Hp.
  - cbn. split; [reflexivity|].
    destruct (membership_changed P match cfg s with Some c0 => c0 | None => [] end c); reflexivity.
  - (* another reloader cannot be pending while this one stores the configuration *)
    exfalso. apply Hne. symmetry.
    eapply (inside_unique inside (reloaders s) k kk); eauto.
    + rewrite E0. reflexivity.
    + now apply pending_old_inside.
  - exfalso. apply Hne. symmetry.
    eapply (inside_unique inside (reloaders s) k kk); eauto.
    + rewrite E0. reflexivity.
    + now apply pending_old_inside.
Qed.

(* ------------------------------------------------------------------ configured children have goroutines *)

Definition has_kid (c : N) (s : state) : bool := existsb (fun k => N.eqb (k_child k) c) (kids s).

Definition booting (p : rpc) : bool := match p with RBootLock | RBootLaunch => true | _ => false end.

(* the configuration has been stored but its children are not launched yet *)
Definition in_window (s : state) : bool :=
  match runt s with TBootLaunch => true | _ => false end
  || negb (Nat.eqb (count_r booting (reloaders s)) 0).

Lemma count_le f g l : (forall p, f p = true -> g p = true) -> count_r f l <= count_r g l.
Proof.
  intros H. induction l as [|y l IH]; cbn; [lia|].
  destruct (f (r_pc y)) eqn:E; cbn; [rewrite (H _ E); cbn; lia|].
  destruct (g (r_pc y)); cbn; lia.
Qed.

Lemma booting_inside p : booting p = true -> inside p = true.
Proof. destruct p; cbn; auto; discriminate. Qed.

Lemma count_one_other f g l k x :
  count_r f l <= 1 -> nth_error l k = Some x -> f (r_pc x) = true -> g (r_pc x) = false ->
  (forall p, g p = true -> f p = true) -> count_r g l = 0.
Proof.
  intros Hle Hx Hf Hg Hgf.
  destruct (count_r g l) as [|n] eqn:E; [reflexivity|exfalso].
  destruct (count_pos_nth g l ltac:(lia)) as (k' & y & Hy & Hgy).
  assert (k = k') by (eapply (inside_unique f l); eauto). subst k'.
  assert (x = y) by congruence. subst y. congruence.
Qed.

Lemma has_kid_upd c i p s :
  existsb (fun k => N.eqb (k_child k) c) (upd i (set_kpc p) (kids s)) = has_kid c s.
Proof.
  unfold has_kid. generalize (kids s). intros l. revert i; induction l as [|y l IH]; intros [|i]; cbn; auto.
  now rewrite IH.
Qed.

Lemma existsb_upd_kpc c i p l :
  existsb (fun k => N.eqb (k_child k) c) (upd i (set_kpc p) l) = existsb (fun k => N.eqb (k_child k) c) l.
Proof. revert i; induction l as [|y l IH]; intros [|i]; cbn; auto. now rewrite IH. Qed.

Lemma has_kid_app c s new :
  existsb (fun k => N.eqb (k_child k) c) (kids s ++ new) = has_kid c s || existsb (fun k => N.eqb (k_child k) c) new.
Proof. unfold has_kid. apply existsb_app. Qed.

Lemma spawn_has_kid o g es c : In c (ids es) -> existsb (fun k => N.eqb (k_child k) c) (spawn_kids o g es) = true.
Proof.
  unfold ids, spawn_kids. intros Hin. apply existsb_exists.
  apply in_map_iff in Hin as (e & <- & He).
  exists (mkKid g (fst e) KLaunched o). split; [apply in_map_iff; eauto|cbn; apply N.eqb_refl].
Qed.

Lemma spawn_workers_child o es w : In w (spawn_workers o es) -> In (w_child w) (map fst es).
Proof.
  unfold spawn_workers. intros H. apply in_map_iff in H as (e & <- & He). cbn.
  apply in_rev in He. now apply in_map.
Qed.

Lemma existsb_false {A} (f : A -> bool) (l : list A) :
  existsb f l = false -> forall x, In x l -> f x = false.
Proof.
  induction l as [|y l IH]; cbn; intros H x []; subst.
  - now apply orb_false_iff in H as [H _].
  - apply orb_false_iff in H as [_ H]. now apply IH.
Qed.

Lemma membership_false_incl P old new :
  membership_changed P old new = false -> incl (names P new) (names P old).
Proof.
  destruct (fix_ms P) eqn:Hms.
  { intros H. apply (CompositeC11.membership_multiset P old new Hms) in H. intros n Hn.
    eapply Permutation.Permutation_in; [apply Permutation.Permutation_sym; exact H|exact Hn]. }
  unfold membership_changed. rewrite Hms. destruct (negb (Nat.eqb (length old) (length new))); [discriminate|].
  destruct (existsb (fun e => negb (mem_N (name_of P (fst e)) (names P old))) new) eqn:E; [discriminate|]. intros _.
  intros n Hn. apply names_in in Hn as (x & Hx & <-).
  unfold ids in Hx. apply in_map_iff in Hx as (e & <- & He).
  pose proof (existsb_false _ _ E e He) as E'. cbn in E'. apply negb_false_iff in E'. now apply CompositeC11.mem_N_In in E'.
Qed.


(* outside the window between "configuration stored" and "children launched", every configured
   child has a goroutine; every Stop worker addresses a child that has a goroutine *)
Definition G_kids (s : state) : Prop :=
  (runt s <> TBootLaunch -> count_r booting (reloaders s) = 0 ->
   forall c, In c (ids (entries_of s)) -> has_kid c s = true)
  /\ (forall w, In w (workers s) -> has_kid (w_child w) s = true).

(* while Run tears down (repaired code) nobody is in the window *)
Lemma teardown_not_window P s :
  fix_c09 P = true -> L_mu P s -> tear_hold (runt s) = true ->
  runt s <> TBootLaunch /\ count_r booting (reloaders s) = 0.
Proof.
  intros Hf [Hm _] Ht. rewrite Hf, Ht in Hm. cbn in Hm.
  assert (Hi : count_r inside (reloaders s) = 0) by (destruct (negb (mu_free (reload_mu s))); cbn in Hm; lia).
  split.
  - intros E. rewrite E in Ht. discriminate Ht.
  - pose proof (count_le booting inside (reloaders s) booting_inside). lia.
Qed.

(* nor while a reloader is inside its critical section but not yet booting *)
Lemma reloader_not_window P s k x :
  I1 s -> L_mu P s -> nth_error (reloaders s) k = Some x -> inside (r_pc x) = true ->
  booting (r_pc x) = false ->
  runt s <> TBootLaunch /\ count_r booting (reloaders s) = 0.
Proof.
  intros H1 Hmu Hx Hi Hb. split.
  - intros E. assert (Hpre : pre_launch (runt s) = true) by (rewrite E; reflexivity).
    destruct (H1 Hpre) as (_ & _ & _ & _ & Ho & _).
    pose proof (outside_nth _ _ _ Ho Hx) as Hout. unfold inside in Hi. rewrite Hout in Hi. discriminate Hi.
  - eapply (count_one_other inside booting); eauto using L_mu_inside_le, booting_inside.
Qed.

Lemma G_kids_step P s l s' :
  fix_c09 P = true -> good_pool P ->
  I1 s -> L_mu P s -> G_valid P s -> G_old P s -> G_kids s ->
  step P s l = Some s' -> G_kids s'.
Proof.
  intros Hfix Hpool H1 Hmu (V1 & V2) Hold (K1 & K2) Hst.
  assert (K1' := K1). assert (Hmu' := Hmu). assert (Hold' := Hold).
  unfold G_kids, entries_of, has_kid in *.
  open_step Hst; cbn; goal_cases; cbn in K1; rewrite ?existsb_upd_kpc;
    unfold tear_pc, entries_of; rewrite ?Hfix; cbn; count_facts booting;
    repeat match goal with Hq : r_pc ?x = _ |- _ => rewrite Hq in * end; cbn in *.
  all: try (match goal with E : Some _ = None |- _ => discriminate E | E : None = Some _ |- _ => discriminate E end).
  all: repeat match goal with
              | Ea : cfg ?s = Some ?a, Eb : cfg ?s = Some ?b |- _ => rewrite Ea in Eb; injection Eb as <-
              | Ea : cfg ?s = Some ?a, Eb : cfg ?s = None |- _ => rewrite Ea in Eb; discriminate Eb
              | Ea : cfg ?s = None, Eb : cfg ?s = Some _ |- _ => rewrite Ea in Eb; discriminate Eb
              end.
  all: try (match goal with Ec : cfg ?s = _ |- _ => rewrite Ec in K1; cbn in K1 end).
  all: repeat match goal with E : Some _ = Some _ |- _ => injection E as <- end.
  all: unfold ids in *.
  all: try (match goal with Ec : cfg ?s = _ |- _ => rewrite ?Ec end).
  all: try (split; [intros Hr Hn c' Hc'; rewrite ?existsb_upd_kpc; apply K1; try assumption; try congruence; try lia
                   | intros w' Hw'; rewrite ?existsb_upd_kpc; apply K2; assumption]; fail).
  all: try (split; [intros Hr Hn c' [] | intros w' Hw'; rewrite ?existsb_upd_kpc; apply K2; assumption]; fail).
  all: try (split; [intros Hr Hn c' Hc'; rewrite ?existsb_upd_kpc; apply K1; try assumption; try congruence; try lia
                   | intros w' Hw'; apply in_map_iff in Hw' as (w0 & <- & Hw0);
                     rewrite release_child, ?existsb_upd_kpc; apply K2; assumption]; fail).
  all: try (split; [intros Hr Hn c' []
                   | intros w' Hw'; apply in_map_iff in Hw' as (w0 & <- & Hw0);
                     rewrite release_child, ?existsb_upd_kpc; apply K2; assumption]; fail).
  all: try (split; [intros Hr Hn c' Hc'; rewrite existsb_app; apply orb_true_iff; right;
                    apply spawn_has_kid; exact Hc'
                   | intros w' Hw'; rewrite existsb_app, (K2 _ Hw'); reflexivity]; fail).
  all: try (split; [intros Hr Hn c' []
                   | intros w' Hw'; rewrite existsb_app, (K2 _ Hw'); reflexivity]; fail).
  all: try (split; [intros Hr Hn c' Hc'; apply K1; try assumption; try congruence; try lia
                   | intros w' Hw'; apply in_upd in Hw' as [Hw'|(xw & Hxw & ->)];
                     [apply K2; assumption|cbn; apply K2; eapply nth_error_In; eassumption]]; fail).
  all: try (split; [intros Hr Hn c' []
                   | intros w' Hw'; apply in_upd in Hw' as [Hw'|(xw & Hxw & ->)];
                     [apply K2; assumption|cbn; apply K2; eapply nth_error_In; eassumption]]; fail).
  - (* Run's stopAllRunnables: with the repair no reload is between setConfig and boot *)
    destruct (teardown_not_window P s Hfix Hmu') as [Hw1 Hw2]; [rewrite En; reflexivity|].
    split; [intros Hr Hn c' Hc'; apply K1; try assumption; congruence|].
    intros w' Hw'. apply in_app_or in Hw' as [Hw'|Hw']; [now apply K2|].
    apply spawn_workers_child in Hw'. apply K1; auto. congruence.
  - split; [intros Hr Hn c' []|].
    intros w' Hw'. apply in_app_or in Hw' as [Hw'|Hw']; [now apply K2|]. destruct Hw'.
  - (* a reloader's stopAllRunnables *)
    destruct (reloader_not_window P s k x H1 Hmu' Hx) as [Hw1 Hw2]; [rewrite Hp; reflexivity|rewrite Hp; reflexivity|].
    split; [intros Hr Hn c' Hc'; apply K1; assumption|].
    intros w' Hw'. apply in_app_or in Hw' as [Hw'|Hw']; [now apply K2|].
    apply spawn_workers_child in Hw'. apply K1; auto.
  - split; [intros Hr Hn c' []|].
    intros w' Hw'. apply in_app_or in Hw' as [Hw'|Hw']; [now apply K2|]. destruct Hw'.
  - (* in-place reload: the new configuration names the same runnables *)
    split; [|intros w' Hw'; now apply K2].
    intros Hr Hn c' Hc'.
    destruct (reloader_not_window P s k r H1 Hmu' E) as [Hw1 Hw2]; [rewrite E0; reflexivity|rewrite E0; reflexivity|].
    destruct (Hold' k r E) as [Ho Hm]; [rewrite E0; reflexivity|].
    rewrite E0 in Hm. cbn in Hm.
    assert (Hv : valid_cfg P (r_new r) = true).
    { rewrite Forall_forall in V2. apply V2. eapply nth_error_In; eassumption. }
    unfold entries_of in Ho.
    assert (Hinc : incl (ids (r_new r)) (ids (r_old r))).
    { apply (same_names_same_ids P); auto; [rewrite Ho; exact V1|now apply membership_false_incl]. }
    apply K1'; auto. rewrite <- Ho. apply Hinc. exact Hc'.
Qed.

(* ------------------------------------------------------------------ the guarded invariant, all together *)

Definition I_sig (s : state) : Prop :=
  forall k p, nth_error (stoppers s) k = Some p -> p <> SCalled -> lc_stopped s = true.

Lemma I_sig_step P s l s' : I_sig s -> step P s l = Some s' -> I_sig s'.
Proof.
  intros H Hst. unfold I_sig in *.
  open_step Hst; cbn; goal_cases; intros kk pp Hn Hp; try (eapply H; eassumption); auto.
  all: try reflexivity.
  - apply nth_app_one_inv in Hn as [Hn|[_ ->]]; [eapply H; eassumption|now elim Hp].
  - apply nth_upd_inv in Hn as [(-> & x0 & Hx0 & ->)|(Hne & Hn)]; [|eapply H; eassumption].
    match goal with E : nth_error (stoppers s) k = Some SWaiting |- _ => apply (H k SWaiting E); discriminate end.
Qed.

Definition I_ret2 (s : state) : Prop :=
  match runt s with TOut _ | TDone _ => lc_done s = true | _ => True end.

Lemma I_ret2_step P s l s' : I_ret2 s -> step P s l = Some s' -> I_ret2 s'.
Proof.
  intros H Hst. unfold I_ret2 in *.
  open_step Hst; cbn; goal_cases; auto.
  all: try (unfold tear_pc; destruct (fix_c09 P); exact I).
  all: try (rewrite E in H; exact H).
  all: try (destruct (runt s); auto; fail).
Qed.

(* the drain step of stopAllRunnables exists only in the fix_stale variant *)
Definition is_drain (p : rpc) : bool := match p with RStopDrain => true | _ => false end.
Definition I_drain (P : params) (s : state) : Prop :=
  fix_stale P = false -> count_r is_drain (reloaders s) = 0 /\ runt s <> TStopDrain.

Lemma I_drain_step P s l s' : I_drain P s -> step P s l = Some s' -> I_drain P s'.
Proof.
  intros H Hst. unfold I_drain in *.
  open_step Hst; cbn; goal_cases; intros Hfs; try congruence;
    destruct (H Hfs) as [Hc Hr]; count_facts is_drain;
    repeat match goal with Hq : r_pc ?x = _ |- _ => rewrite Hq in * end; cbn in *;
    unfold tear_pc; try (destruct (fix_c09 P));
    (split; [try lia|try discriminate; try congruence]).
  all: destruct (membership_changed P (entries_of s) c); cbn in *; lia.
Qed.

Record Gall (P : params) (s : state) : Prop := {
  g_c10 : InvC10 s; g_cfg : I_cfg s; g_oops : I_oops s; g_mu : L_mu P s; g_run : L_run s;
  g_valid : G_valid P s; g_old : G_old P s; g_kids : G_kids s; g_sig : I_sig s; g_ret : I_ret2 s;
  g_drain : I_drain P s }.

Lemma Gall_init P : Gall P init.
Proof.
  constructor.
  - apply InvC10_init.
  - intros _. unfold all_outside. cbn. split_all; auto; try discriminate; try (intros r []).
  - reflexivity.
  - unfold L_mu. cbn. split; [now rewrite andb_false_r|discriminate].
  - reflexivity.
  - split; [reflexivity|constructor].
  - intros k r Hn. destruct k; discriminate Hn.
  - split; [intros _ _ c []|intros w []].
  - intros k p Hn. destruct k; discriminate Hn.
  - exact I.
  - intros _. split; [reflexivity|discriminate].
Qed.

Lemma Gall_step P s l s' :
  fix_c09 P = true -> good_pool P ->
  Gall P s -> good_label P l -> step P s l = Some s' -> Gall P s'.
Proof.
  intros Hf Hp [(H0 & H1 & H2 & H3 & H4) Hcfg Ho Hmu Hrun Hv Hold Hk Hs Hr Hd] Hl Hst.
  constructor.
  - eapply InvC10_step; [|eassumption]. unfold InvC10. auto.
  - eapply I_cfg_step; eassumption.
  - eapply I_oops_step; eassumption.
  - eapply L_mu_step; eassumption.
  - eapply L_run_step; eassumption.
  - eapply G_valid_step; eassumption.
  - eapply G_old_step; eassumption.
  - eapply (G_kids_step P s l s'); eassumption.
  - eapply I_sig_step; eassumption.
  - eapply I_ret2_step; eassumption.
  - eapply I_drain_step; eassumption.
Qed.

Lemma Gall_greach P s : fix_c09 P = true -> good_pool P -> greach P s -> Gall P s.
Proof.
  intros Hf Hp. apply greach_inv; [apply Gall_init|].
  intros s0 l s1 _ Hg Hl Hst. eapply Gall_step; eassumption.
Qed.
