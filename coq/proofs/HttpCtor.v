(* The public construction paths of a *Config (model/HttpCfg.v: new_config, apply_opt, boot_config):
   whatever options are passed - every With* option in any order, copies of ANY earlier configuration
   (validated or not, hand-built or a product of NewConfig), chains of copies - the address and the routes of
   the product are the arguments of NewConfig, and acceptance is decided by those routes alone. *)
From Coq Require Import List NArith ZArith Bool.
From GS Require Import HttpCfg HttpCfgProofs.
Import ListNotations.

Lemma apply_opt_keeps c o : addr (apply_opt c o) = addr c /\ routes (apply_opt c o) = routes c.
Proof. destruct o as [z|z|z|z|[src|]|]; cbn; auto. Qed.

Lemma fold_opts_keeps opts : forall c,
  addr (fold_left apply_opt opts c) = addr c /\ routes (fold_left apply_opt opts c) = routes c.
Proof.
  induction opts as [|o opts IH]; intros c; cbn [fold_left]; [auto|].
  destruct (IH (apply_opt c o)) as [A B]. destruct (apply_opt_keeps c o) as [A' B']. split; congruence.
Qed.

(* acceptance depends on the routes only: not on the options, not on what a copied configuration went through *)
Theorem new_config_accept_iff validated mux_ok a rs opts :
  (exists c, new_config validated mux_ok a rs opts = Some c) <-> new_config_ok validated mux_ok rs = true.
Proof.
  unfold new_config. destruct (fold_opts_keeps opts (default_config a rs)) as [_ B]. rewrite B. cbn [routes default_config].
  destruct (new_config_ok validated mux_ok rs); split; intros H; eauto; try discriminate.
  destruct H as [c H]. discriminate.
Qed.

(* with the validating constructor (the code as it is), an accepted configuration carries exactly the given address
   and routes, the route list is not empty, and the ServeMux accepts its patterns in that order *)
Theorem new_config_validated mux_ok a rs opts c :
  new_config true mux_ok a rs opts = Some c ->
  addr c = a /\ routes c = rs /\ rs <> [] /\ mux_ok (map rpath rs) = true.
Proof.
  unfold new_config. destruct (fold_opts_keeps opts (default_config a rs)) as [A B]. rewrite B. cbn [routes default_config].
  destruct (new_config_ok true mux_ok rs) eqn:E; [|discriminate]. intros H. injection H as <-.
  split; [exact A|]. split; [exact B|]. unfold new_config_ok in E. destruct rs; [discriminate|]. split; [discriminate|exact E].
Qed.

(* the timeouts: a later option wins; a copy overwrites all four *)
Lemma new_config_last_copy validated mux_ok a rs opts src c :
  new_config validated mux_ok a rs (opts ++ [OCopy (Some src)]) = Some c ->
  drain c = drain src /\ read_to c = read_to src /\ write_to c = write_to src /\ idle_to c = idle_to src.
Proof.
  unfold new_config. rewrite fold_left_app. cbn [fold_left apply_opt].
  destruct (new_config_ok _ _ _); [|discriminate]. intros H. injection H as <-. cbn. auto.
Qed.

(* boot() rebuilds the configuration it holds: the product is that very configuration, and it exists iff the
   constructor's test accepts its routes - so the guard of LBootReject / LBootCreate / LBootCrash in
   model/HttpServer.v IS the constructor's test *)
Theorem boot_config_spec validated mux_ok c :
  boot_config validated mux_ok c = if new_config_ok validated mux_ok (routes c) then Some c else None.
Proof.
  unfold boot_config, new_config. cbn [fold_left apply_opt default_config routes addr drain read_to write_to idle_to].
  destruct c; reflexivity.
Qed.

(* Equal looks at every field of the model's records (the drift guard model/HttpCfgFieldsPolicy.v maps the Go
   struct's fields onto these) *)
Lemma config_equal_fields key a b : config_equal key a b = true ->
  addr a = addr b /\ drain a = drain b /\ read_to a = read_to b /\ write_to a = write_to b /\ idle_to a = idle_to b /\
  routes_equal key (routes a) (routes b) = true.
Proof.
  unfold config_equal. intros H.
  destruct (str_eqb (addr a) (addr b)) eqn:E1; cbn [negb] in H; [|discriminate].
  destruct (Z.eqb (drain a) (drain b)) eqn:E2; cbn [negb] in H; [|discriminate].
  destruct (routes_equal key (routes a) (routes b)) eqn:E3; cbn [negb] in H; [|discriminate].
  destruct (Z.eqb (read_to a) (read_to b)) eqn:E4; cbn [negb] in H; [|discriminate].
  destruct (Z.eqb (write_to a) (write_to b)) eqn:E5; cbn [negb] in H; [|discriminate].
  destruct (Z.eqb (idle_to a) (idle_to b)) eqn:E6; cbn [negb] in H; [|discriminate].
  apply str_eqb_eq in E1. apply Z.eqb_eq in E2, E4, E5, E6. repeat split; assumption.
Qed.
