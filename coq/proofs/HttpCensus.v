(* C18, HTTP-server leg: the goroutines the runner creates on its own behalf (the serve goroutine started by
   every boot()) do not outlive Run() and do not accumulate, whatever the number of reloads, restarts and
   failed boots.  [census] (model/HttpServer.v) counts them; the harness compares it with the real census
   (goroutines whose creator is a function of runnables/httpserver, runtime.Stack) at quiescent points. *)
From Coq Require Import List NArith ZArith Bool Lia.
From GS Require Import LTS HttpCfg HttpServer HttpCfgProofs HttpInv HttpInvStep HttpInvStep2 HttpProps.
Import ListNotations.

Lemma filter_le_one {A} (alive : A -> bool) (l : list A) : forall j,
  (forall i x, nth_error l i = Some x -> alive x = true -> i = j) -> length (filter alive l) <= 1.
Proof.
  induction l as [|y l IH]; intros j H; cbn [filter length]; [lia|].
  destruct (alive y) eqn:E.
  - assert (j = 0) by (symmetry; apply (H 0 y); auto). subst j.
    assert (filter alive l = []) as ->; [|cbn; lia].
    destruct (filter alive l) as [|z r] eqn:Ef; [reflexivity|exfalso].
    assert (In z (filter alive l)) by (rewrite Ef; now left).
    apply filter_In in H0 as [Hin Hz]. apply In_nth_error in Hin as [i Hi].
    specialize (H (S i) z Hi Hz). discriminate.
  - apply (IH (pred j)). intros i x Hi Hx. specialize (H (S i) x Hi Hx). lia.
Qed.

Lemma filter_nil_all {A} (alive : A -> bool) (l : list A) :
  (forall x, In x l -> alive x = false) -> filter alive l = [].
Proof.
  induction l as [|y l IH]; intros H; cbn [filter]; [reflexivity|].
  rewrite (H y) by now left. apply IH. intros x Hx. apply H. now right.
Qed.

(* the serve goroutines have run as far as they can: none of a shut-down server is still inside ListenAndServe *)
Definition serve_settled (s : state) : Prop :=
  forall sid sv, nth_error (servers s) sid = Some sv -> s_shut sv = true -> s_pc sv = SvExited.

Section Census.
  Variable stop_locked : bool.
  Variable validated : bool.
  Variable mux_ok : list str -> bool.
  Notation step := (step stop_locked validated mux_ok).
  Notation Inv := (Inv stop_locked mux_ok).

  (* "settled" is what the absence of an enabled serve-goroutine exit means *)
  Lemma settled_of_no_exit s :
    Inv s -> crashed s = false -> (forall sid, step s (LLasClosed sid) = None) -> serve_settled s.
  Proof.
    intros I Hc H sid sv Hn Hs. specialize (H sid). unfold HttpServer.step, step_core, srv_at in H.
    rewrite Hc, Hn, Hs in H. cbn [andb] in H.
    destruct (i_pc _ _ _ I sid sv Hn) as [E|[E|[E _]]]; rewrite E in *; cbn in H; try discriminate. reflexivity.
  Qed.

  (* no blocked leftover: the goroutine of a server that has been shut down can always exit *)
  Lemma shut_goroutine_exits s sid sv :
    Inv s -> crashed s = false -> nth_error (servers s) sid = Some sv -> s_shut sv = true ->
    serve_alive sv = true -> step s (LLasClosed sid) <> None.
  Proof.
    intros I Hc Hn Hs Ha. unfold HttpServer.step, step_core, srv_at. rewrite Hc, Hn, Hs. cbn [andb].
    unfold serve_alive in Ha.
    destruct (i_pc _ _ _ I sid sv Hn) as [E|[E|[E _]]]; rewrite E in *; cbn in *; discriminate.
  Qed.

  Lemma census_bounded_inv s : Inv s -> serve_settled s -> census s <= 1.
  Proof.
    intros I Hq. unfold census.
    destruct (server s) as [j|] eqn:Es.
    - apply (filter_le_one serve_alive (servers s) j). intros i x Hi Hx.
      destruct (s_shut x) eqn:Esh.
      + unfold serve_alive in Hx. rewrite (Hq i x Hi Esh) in Hx. discriminate.
      + destruct (i_live _ _ _ I i) as [E _]; [exists x; auto|]. congruence.
    - rewrite filter_nil_all; [cbn; lia|]. intros x Hin. apply In_nth_error in Hin as [i Hi].
      destruct (s_shut x) eqn:Esh.
      + unfold serve_alive. now rewrite (Hq i x Hi Esh).
      + destruct (i_live _ _ _ I i) as [E _]; [exists x; auto|]. congruence.
  Qed.

  Lemma census_clean_inv s :
    Inv s -> (exists r, rpc s = RRet r) \/ rpc s = RDone -> serve_settled s -> census s = 0.
  Proof.
    intros I Hr Hq. destruct (i_ret _ _ _ I Hr) as (_ & _ & Hall).
    unfold census. rewrite filter_nil_all; [reflexivity|]. intros x Hin. apply In_nth_error in Hin as [i Hi].
    unfold serve_alive. now rewrite (Hq i x Hi (Hall i x Hi)).
  Qed.

  (* ---- every schedule ---- *)

  (* bounded by a constant while running, whatever the number of reloads, restarts and failed boots *)
  Theorem http_census_bounded c0 ls s :
    no_foreign ls -> run step (init c0) ls = Some s -> crashed s = false ->
    (forall sid, step s (LLasClosed sid) = None) -> census s <= 1.
  Proof.
    intros Hn Hr Hc Hq. pose proof (inv_reachable stop_locked validated mux_ok c0 ls s Hn Hr) as I.
    apply census_bounded_inv; [exact I|]. now apply settled_of_no_exit.
  Qed.

  (* zero once Run() has returned - from a clean stop, from a failed boot, from a boot whose context was cancelled *)
  Theorem http_census_clean c0 ls s :
    no_foreign ls -> run step (init c0) ls = Some s -> crashed s = false ->
    (exists r, rpc s = RRet r) \/ rpc s = RDone ->
    (forall sid, step s (LLasClosed sid) = None) -> census s = 0.
  Proof.
    intros Hn Hr Hc Hret Hq. pose proof (inv_reachable stop_locked validated mux_ok c0 ls s Hn Hr) as I.
    apply census_clean_inv; auto. now apply settled_of_no_exit.
  Qed.

  (* nothing is left blocked: a serve goroutine that is still alive after Run() returned can exit *)
  Theorem http_no_blocked_leftover c0 ls s sid sv :
    no_foreign ls -> run step (init c0) ls = Some s -> crashed s = false ->
    (exists r, rpc s = RRet r) \/ rpc s = RDone ->
    nth_error (servers s) sid = Some sv -> serve_alive sv = true -> step s (LLasClosed sid) <> None.
  Proof.
    intros Hn Hr Hc Hret Hsv Ha. pose proof (inv_reachable stop_locked validated mux_ok c0 ls s Hn Hr) as I.
    destruct (i_ret _ _ _ I Hret) as (_ & _ & Hall). eapply shut_goroutine_exits; eauto.
  Qed.

  (* what the harness observes at a settled state is the model's census *)
  Theorem http_census_observable c0 ls s :
    run step (init c0) ls = Some s -> crashed s = false -> step s (LObsCensus (census s)) = Some s.
  Proof. intros _ Hc. unfold HttpServer.step, step_core. now rewrite Hc, Nat.eqb_refl. Qed.
End Census.
