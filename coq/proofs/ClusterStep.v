(* Every step of the cluster protocol with the REPAIRED planner (fx = true) preserves the accounting
   invariant, for arbitrary ids; lifted to all schedules. *)
From Coq Require Import List Arith NArith Bool Lia Permutation.
From GS Require Import LTS Cluster ClusterLTS ClusterPlan ClusterFix ClusterRun ClusterInv.
Import ListNotations.
Open Scope N_scope.

(* ---------------------------------------------------------------- helpers *)
Lemma at_key_in_keep pend k i : NoDup (keys pend) -> at_key pend k i -> In i (keep pend).
Proof.
  intros Hnd (e & Hl & Hr & Ha).
  assert (Hne : e_act e <> AStop) by (rewrite Ha; discriminate).
  pose proof (keep_remove k pend e Hnd Hl Hne) as Hp. rewrite Hr in Hp.
  eapply Permutation_in; [apply Permutation_sym; exact Hp|]. now left.
Qed.

Lemma start_ok_remove pend ts k :
  start_ok pend ts -> start_ok (remove_entry k pend) (remove_id k ts).
Proof.
  intros H k' Hk'. apply in_remove_id in Hk' as [Hk' Hne]. destruct (H k' Hk') as (e & Hl & Hr).
  exists e. split; [now rewrite lookup_remove_other|exact Hr].
Qed.

Lemma start_ok_remove' pend ts k :
  ~ In k ts -> start_ok pend ts -> start_ok (remove_entry k pend) ts.
Proof.
  intros Hn H k' Hk'. destruct (H k' Hk') as (e & Hl & Hr).
  exists e. split; [|exact Hr]. rewrite lookup_remove_other; [exact Hl|]. intros ->. contradiction.
Qed.

Lemma nodup_removeN i l : NoDup l -> NoDup (removeN i l).
Proof. apply NoDup_filter. Qed.

Lemma in_removeN j i l : In j (removeN i l) -> In j l.
Proof. intros H. now apply filter_In in H as [H _]. Qed.

(* ---------------------------------------------------------------- the step lemma *)
Ltac frame Hs Hnd Hlt Hpc :=
  injection Hs as <-; unfold acct, acct_pc, lv, sp in *; psimpl; exact (conj Hnd (conj Hlt Hpc)).

Lemma acct_step s l s' : acct s -> step true s l = Some s' -> acct s'.
Proof.
  intros (Hnd & Hlt & Hpc) Hs. destruct l; unfold step in Hs.
  - (* LOffer *) destruct (s_offer s); [discriminate|]. destruct (s_closed s); [discriminate|]. frame Hs Hnd Hlt Hpc.
  - (* LStopApi *) frame Hs Hnd Hlt Hpc.
  - (* LStopApiRet *) destruct (s_stopreq s); [|discriminate].
    destruct (s_pc s) eqn:Epc; try discriminate; injection Hs as <-; exact (conj Hnd (conj Hlt Hpc)).
  - (* LCancel *) frame Hs Hnd Hlt Hpc.
  - (* LClose *) destruct (s_offer s); [discriminate|]. frame Hs Hnd Hlt Hpc.
  - (* LRecv *)
    destruct (s_pc s) eqn:Epc; try discriminate. destruct (s_offer s) as [m|]; [|discriminate].
    destruct (cstate_eqb (s_fsm s) CRunning && fsm_allowed (s_fsm s) CReloading);
      [|injection Hs as <-; exact (conj Hnd (conj Hlt Hpc))].
    destruct (is_perm ord (keys (s_entries s))) eqn:Ep; [|discriminate]. injection Hs as <-.
    unfold acct_pc in Hpc. rewrite Epc in Hpc. destruct Hpc as (Hk & Hp & Hsp & Hsh).
    set (cur := s_entries s) in *. set (des := new_entries m) in *.
    pose proof (is_perm_spec ord (keys cur) Hk Ep) as Hperm.
    destruct (true_plan_good ord cur des Hk (new_entries_nodup m) Hperm) as (G1 & G2 & G3 & _).
    apply acct_begin; unfold lv, sp in *; psimpl; try assumption.
    + eapply Permutation_trans; [exact Hp|]. now apply Permutation_sym.
    + discriminate.
  - (* LShut *)
    destruct (s_pc s) eqn:Epc; try discriminate.
    destruct (s_cancel s || s_stopreq s || s_closed s); [|discriminate]. injection Hs as <-.
    unfold acct_pc in Hpc. rewrite Epc in Hpc. destruct Hpc as (Hk & Hp & Hsp & Hsh).
    set (cur := s_entries s) in *.
    destruct (true_plan_good (keys cur) cur [] Hk (NoDup_nil _) (Permutation_refl _)) as (G1 & G2 & G3 & G4).
    apply acct_begin; unfold lv, sp in *; psimpl; try assumption.
    + eapply Permutation_trans; [exact Hp|]. now apply Permutation_sym.
    + intros _. now apply G4.
  - (* LStopCall *)
    destruct (s_pc s) eqn:Epc; try discriminate; unfold acct_pc in Hpc; rewrite Epc in Hpc.
    + destruct (memN i tocall) eqn:Em; [|discriminate]. injection Hs as <-. apply memN_in in Em.
      destruct Hpc as (Hk & Hp & Hsp & Htp & Hok & Hsh).
      assert (Hin : In i (lv s)) by (eapply Permutation_in; [apply Permutation_sym; exact Hp|apply in_or_app; now right]).
      unfold move_to_stopping, set_pc. psimpl. destruct (find_inst i (s_live s)) as [x|] eqn:Ef;
        [|apply find_inst_none in Ef; contradiction].
      apply find_inst_some in Ef as [Ex _].
      unfold acct, acct_pc, lv, sp in *. psimpl. rewrite map_fst_remove_inst. cbn [map]. rewrite Ex.
      split; [now apply nodup_removeN|]. split; [intros j Hj; apply Hlt; now apply in_removeN in Hj|].
      repeat split; try assumption.
      * pose proof (removeN_perm i _ _ Hp) as Hp'. rewrite removeN_app in Hp'.
        rewrite (removeN_notin i (keep pend)) in Hp'; [exact Hp'|].
        assert (Hn : NoDup (keep pend ++ tocall)) by (eapply Permutation_NoDup; eassumption).
        apply nodup_app_inv in Hn as (_ & _ & Hd). intros Hi. exact (Hd i Hi Em).
      * now apply perm_skip.
      * now apply Hsh.
      * now apply Hsh.
    + destruct ((i =? i0) && (negb (beh_eqb b BReady) || s_cancel s)) eqn:Ec; [|discriminate]. injection Hs as <-.
      apply andb_prop in Ec as [Ei _]. apply N.eqb_eq in Ei. subst i0.
      destruct Hpc as (Hk & Hp & Hsp & Hok & Hsh & Hat & Hnk).
      assert (Hin : In i (lv s)) by (eapply Permutation_in; [apply Permutation_sym; exact Hp|now apply (at_key_in_keep pend k)]).
      unfold move_to_stopping, set_pc. psimpl. destruct (find_inst i (s_live s)) as [x|] eqn:Ef;
        [|apply find_inst_none in Ef; contradiction].
      apply find_inst_some in Ef as [Ex _].
      unfold acct, acct_pc, lv, sp in *. psimpl. rewrite map_fst_remove_inst. cbn [map]. rewrite Ex, Hsp.
      split; [now apply nodup_removeN|]. split; [intros j Hj; apply Hlt; now apply in_removeN in Hj|].
      repeat split; try assumption.
      eapply Permutation_trans; [apply Permutation_sym, removeN_nodup_cons; assumption|exact Hp].
  - (* LStopRet *)
    destruct (s_pc s) eqn:Epc; try discriminate; unfold acct_pc in Hpc; rewrite Epc in Hpc.
    + destruct (memN i called) eqn:Em; [|discriminate].
      destruct Hpc as (Hk & Hp & Hsp & Htp & Hok & Hsh).
      pose proof (removeN_perm i _ _ Hsp) as Hsp'.
      assert (Hl : lv (drop_stopping i s) = lv s) by reflexivity.
      assert (Hs' : sp (drop_stopping i s) = removeN i (sp s)) by (unfold sp, drop_stopping; psimpl; apply map_fst_remove_inst).
      destruct tocall as [|c tocall]; [destruct (removeN i called) as [|c' called'] eqn:Er|]; injection Hs as <-.
      * apply acct_after_stops; rewrite ?Hl; try assumption.
        -- now rewrite app_nil_r in Hp.
        -- rewrite Hs'. now apply Permutation_sym, Permutation_nil in Hsp'.
      * unfold acct, acct_pc, lv, sp, set_pc, drop_stopping in *. psimpl. rewrite map_fst_remove_inst.
        repeat split; try assumption; now apply Hsh.
      * unfold acct, acct_pc, lv, sp, set_pc, drop_stopping in *. psimpl. rewrite map_fst_remove_inst.
        repeat split; try assumption; now apply Hsh.
    + destruct (i =? i0) eqn:Ei; [|discriminate]. injection Hs as <-. apply N.eqb_eq in Ei. subst i0.
      destruct Hpc as (Hk & Hp & Hsp & Hok & Hsh & (e & Hle & Hre & Hae) & Hnk).
      assert (Hne : e_act e <> AStop) by (rewrite Hae; discriminate).
      pose proof (keep_remove k pend e Hk Hle Hne) as Hkr. rewrite Hre in Hkr. cbn [app] in Hkr.
      apply acct_next_start; unfold lv, sp, add_failed, drop_stopping in *; psimpl; try assumption.
      * now apply nodup_keys_remove.
      * apply (Permutation_cons_inv (a := i)). eapply Permutation_trans; eassumption.
      * rewrite map_fst_remove_inst, Hsp. cbn. now rewrite N.eqb_refl.
      * now apply start_ok_remove'.
      * rewrite Hsh. discriminate.
  - (* LDelayFire *)
    destruct (s_pc s) eqn:Epc; try discriminate. injection Hs as <-.
    unfold acct, acct_pc in *. rewrite Epc in Hpc. psimpl. auto.
  - (* LDelayCancel *)
    destruct (s_pc s) eqn:Epc; try discriminate. destruct (s_cancel s); [|discriminate]. injection Hs as <-.
    unfold acct_pc in Hpc. rewrite Epc in Hpc. destruct Hpc as (Hk & Hp & Hsp & Hok & Hsh).
    apply acct_finish; try assumption. rewrite Hsh. discriminate.
  - (* LFactory *)
    destruct (s_pc s) eqn:Epc; try discriminate. destruct (lookup k pend) as [e|] eqn:El; [|discriminate].
    destruct (mem_id k ts && id_eqb (e_id e) k && (e_cfg e =? c) && (i =? s_next s)) eqn:Ec; [|discriminate].
    injection Hs as <-. apply andb_prop in Ec as [Ec Ei]. apply andb_prop in Ec as [Ec _]. apply andb_prop in Ec as [Ek _].
    apply N.eqb_eq in Ei. apply mem_id_in in Ek.
    unfold acct_pc in Hpc. rewrite Epc in Hpc. destruct Hpc as (Hkk & Hp & Hsp & Hok & Hsh).
    destruct (Hok k Ek) as (e' & Hle & Hre & Hae). rewrite El in Hle. injection Hle as <-.
    assert (Hne : e_act e <> AStop) by (rewrite Hae; discriminate).
    unfold acct, acct_pc, lv, sp in *. psimpl. cbn [map fst].
    split; [constructor; [intros Hin; apply Hlt in Hin; lia|exact Hnd]|].
    split; [intros j [<-|Hj]; [lia|apply Hlt in Hj; lia]|].
    repeat split; try assumption.
    + now rewrite keys_update_rt.
    + eapply Permutation_trans; [apply perm_skip; exact Hp|]. apply Permutation_sym. now apply (keep_update_start k i pend e).
    + intros k' Hk'. apply in_remove_id in Hk' as [Hk' Hn]. destruct (Hok k' Hk') as (e2 & Hl2 & Hr2).
      exists e2. rewrite lookup_update_rt, Hl2. apply id_eqb_neq in Hn. now rewrite Hn.
    + exists (set_rt (Some i) e). rewrite lookup_update_rt, El, id_eqb_refl. now repeat split.
    + intros Hin. apply in_remove_id in Hin as [_ Hin]. congruence.
  - (* LFactoryErr *)
    destruct (s_pc s) eqn:Epc; try discriminate. destruct (lookup k pend) as [e|] eqn:El; [|discriminate].
    destruct (mem_id k ts && id_eqb (e_id e) k && (e_cfg e =? c)) eqn:Ec; [|discriminate].
    injection Hs as <-. apply andb_prop in Ec as [Ec _]. apply andb_prop in Ec as [Ek _]. apply mem_id_in in Ek.
    unfold acct_pc in Hpc. rewrite Epc in Hpc. destruct Hpc as (Hkk & Hp & Hsp & Hok & Hsh).
    destruct (Hok k Ek) as (e' & Hle & Hre & Hae). rewrite El in Hle. injection Hle as <-.
    assert (Hne : e_act e <> AStop) by (rewrite Hae; discriminate).
    pose proof (keep_remove k pend e Hkk El Hne) as Hkr. rewrite Hre in Hkr. cbn [app] in Hkr.
    apply acct_next_start; unfold lv, sp, add_failed in *; psimpl; try assumption.
    + now apply nodup_keys_remove.
    + eapply Permutation_trans; eassumption.
    + now apply start_ok_remove.
    + rewrite Hsh. discriminate.
  - (* LRunCall *) destruct (memN i (s_unrun s)); [|discriminate]. frame Hs Hnd Hlt Hpc.
  - (* LReady *)
    destruct (s_pc s) eqn:Epc; try discriminate. destruct (beh_eqb b BReady); [|discriminate]. injection Hs as <-.
    unfold acct_pc in Hpc. rewrite Epc in Hpc. destruct Hpc as (Hk & Hp & Hsp & Hok & Hsh & _).
    apply acct_next_start; try assumption. rewrite Hsh. discriminate.
  - (* LCount *)
    destruct (s_pc s) eqn:Epc; try discriminate; destruct (n =? N.of_nat (count (s_entries s))); try discriminate;
      injection Hs as <-; exact (conj Hnd (conj Hlt Hpc)).
  - (* LState *) destruct (cstate_eqb c (s_fsm s)); [|discriminate]. injection Hs as <-.
    exact (conj Hnd (conj Hlt Hpc)).
  - (* LRunReturn *)
    destruct (s_pc s) eqn:Epc; try discriminate. injection Hs as <-.
    unfold acct, acct_pc in *. rewrite Epc in Hpc. psimpl. auto.
Qed.

Lemma acct_init d : acct (init d).
Proof.
  unfold acct, acct_pc, lv, sp, init. psimpl. cbn [map keys rts flat_map].
  repeat split; try constructor. intros j [].
Qed.

(* the invariant holds after every schedule, whatever the ids *)
Theorem acct_reachable d ls s : run (step true) (init d) ls = Some s -> acct s.
Proof. intros H. eapply (run_inv _ _ (step true) acct); [apply acct_step|apply acct_init|exact H]. Qed.
