(* C18, finitestate leg: after a subscription's context is cancelled its forwarder and its cleanup
   goroutine are gone in every quiescent state of the (repaired) machine model - whatever the consumer
   does - and the forwarders are exactly the open subscriptions; the unchanged forwarder is refuted. *)
From Coq Require Import List Arith NArith Bool Lia.
From GS Require Import LTS Fsm FsmTable FsmBase FsmStream FsmGo.
Import ListNotations.

(* ---------------------------------------------------------------- small facts *)
Lemma in_range a n i : In i (range a n) <-> a <= i < a + n.
Proof.
  revert a; induction n as [|n IH]; intros a; cbn [range].
  - split; [intros []|lia].
  - cbn [In]. rewrite IH. lia.
Qed.

Lemma noneb_spec labels fx c s i l :
  noneb labels fx c s = true -> i < length (subs s) -> In l (labels i) -> stepx fx c s l = None.
Proof.
  unfold noneb. rewrite forallb_forall. intros H Hi Hl. specialize (H i).
  rewrite in_range in H. specialize (H ltac:(lia)). rewrite forallb_forall in H. specialize (H l Hl).
  unfold enabledb in H. destruct (stepx fx c s l); [discriminate|reflexivity].
Qed.

Lemma countb_ext {A} (f g : A -> bool) l : (forall x, In x l -> f x = g x) -> countb f l = countb g l.
Proof.
  unfold countb. induction l as [|a t IH]; intros H; [reflexivity|]. cbn [filter].
  rewrite (H a (or_introl eq_refl)). destruct (g a); cbn [length]; rewrite IH; auto; intros; apply H; now right.
Qed.

(* ---------------------------------------------------------------- the broadcast only serves existing subscribers *)
Definition pend_ok (s : state) : Prop := forall j, memn j (pend s) = true -> j < length (subs s).

Lemma memn_live_from_lt k l j : memn j (live_from k l) = true -> k <= j < k + length l.
Proof.
  revert k; induction l as [|a t IH]; intros k; cbn [live_from memn length]; [discriminate|].
  destruct (unsub a).
  - intros H. apply IH in H. lia.
  - cbn [memn]. intros H. apply orb_true_iff in H as [H|H].
    + apply Nat.eqb_eq in H. lia.
    + apply IH in H. lia.
Qed.

Lemma memn_remn_sub i j p : memn j (remn i p) = true -> memn j p = true.
Proof.
  induction p as [|a t IH]; cbn [remn memn]; [auto|]. destruct (Nat.eqb a i) eqn:E.
  - intros H. rewrite (IH H). apply orb_true_r.
  - cbn [memn]. intros H. apply orb_true_iff in H as [H|H]; [rewrite H; reflexivity|].
    rewrite (IH H). apply orb_true_r.
Qed.

Lemma with_sub_len s i g s' :
  with_sub s i g = Some s' -> length (subs s') = length (subs s) /\ pend s' = pend s.
Proof. intros H. apply with_sub_inv in H as (x & y & _ & _ & ->). cbn. rewrite length_upd. auto. Qed.

Ltac ws_case P H :=
  let L := fresh "L" in let Pd := fresh "Pd" in
  apply with_sub_len in H as [L Pd]; intros j Hj; rewrite Pd in Hj; rewrite L; exact (P j Hj).

Lemma pend_ok_step fx c s l s' : pend_ok s -> stepx fx c s l = Some s' -> pend_ok s'.
Proof.
  intros P H. destruct l; cbn [stepx] in H.
  - (* LOp *)
    destruct (is_nil (pend s)); [|discriminate].
    destruct (op_result c (cur s) o); destruct ok; try discriminate; inversion H; subst; try exact P.
    intros j Hj. cbn [pend subs] in *. apply memn_live_from_lt in Hj. lia.
  - (* LSub *)
    destruct (pend s) as [|a p] eqn:E; [|discriminate]. cbn [is_nil] in H. inversion H; subst.
    intros j Hj. cbn [set_subs pend] in Hj. rewrite E in Hj. discriminate.
  - ws_case P H.
  - (* LDeliver *)
    destruct (memn i (pend s)); [|discriminate].
    match type of H with context [with_sub s i ?g] => destruct (with_sub s i g) as [s1|] eqn:E end; [|discriminate].
    apply with_sub_len in E as [L Pd]. inversion H; subst. intros j Hj. cbn [pend subs] in *.
    apply memn_remn_sub in Hj. rewrite L. exact (P j Hj).
  - (* LDrop *)
    destruct (memn i (pend s)); [|discriminate].
    match type of H with context [with_sub s i ?g] => destruct (with_sub s i g) as [s1|] eqn:E end; [|discriminate].
    apply with_sub_len in E as [L Pd]. inversion H; subst. intros j Hj. cbn [pend subs] in *.
    apply memn_remn_sub in Hj. rewrite L. exact (P j Hj).
  - ws_case P H.
  - ws_case P H.
  - ws_case P H.
  - ws_case P H.
  - destruct (is_nil (pend s)); [|discriminate]. ws_case P H.
  - ws_case P H.
  - ws_case P H.
  - destruct (st_eqb (cur s) v); inversion H; subst; exact P.
  - destruct (Bool.eqb (st_eqb (cur s) Running) b); inversion H; subst; exact P.
  - destruct fx; [|discriminate]. ws_case P H.
Qed.

Lemma pend_ok_reach fx c ls s : run (stepx fx c) init ls = Some s -> pend_ok s.
Proof.
  intros H. eapply (run_inv _ _ (stepx fx c) pend_ok); [apply pend_ok_step| |exact H].
  intros j Hj. discriminate.
Qed.

(* ---------------------------------------------------------------- what a quiescent state looks like *)
Lemma quiet_facts cfg ls s :
  run (step cfg) init ls = Some s -> quietb fix_fwd cfg s = true ->
  pend s = [] /\
  forall i x, nth_error (subs s) i = Some x ->
    sg x = SLive /\ (cancelled x = true -> unsub x = true /\ wclosed x = true).
Proof.
  intros Hr Hq. pose proof (inv_reach cfg ls s Hr) as [_ Hs].
  pose proof (pend_ok_reach fix_fwd cfg ls s Hr) as P. unfold quietb in Hq.
  assert (Hp : pend s = []).
  { destruct (pend s) as [|j p] eqn:Ep; [reflexivity|exfalso].
    assert (Hm : memn j (pend s) = true) by (rewrite Ep; cbn [memn]; now rewrite Nat.eqb_refl).
    pose proof (P j Hm) as Hlt.
    destruct (nth_error (subs s) j) as [y|] eqn:Ey; [|apply nth_error_None in Ey; lia].
    destruct (bch y) eqn:Eb.
    - pose proof (noneb_spec _ _ _ _ j (LDeliver j) Hq Hlt ltac:(cbn; tauto)) as N.
      cbn [stepx] in N. rewrite Hm in N. unfold with_sub in N. rewrite Ey, Eb in N. cbn in N. discriminate.
    - pose proof (noneb_spec _ _ _ _ j (LDrop j) Hq Hlt ltac:(cbn; tauto)) as N.
      cbn [stepx] in N. rewrite Hm in N. unfold with_sub in N. rewrite Ey, Eb in N. cbn in N. discriminate. }
  split; [exact Hp|]. intros i x Hx.
  assert (Hlt : i < length (subs s)) by (apply nth_error_Some; congruence).
  specialize (Hs i x Hx). unfold sub_ok in Hs. destruct Hs as (K1 & K2 & K3 & K4 & K5 & K6 & _).
  assert (Hl : sg x = SLive).
  { destruct (sg x) eqn:E; [exfalso|reflexivity].
    pose proof (noneb_spec _ _ _ _ i (LRead i) Hq Hlt ltac:(cbn; tauto)) as N.
    cbn [stepx] in N. unfold with_sub in N. rewrite Hx, E in N. discriminate. }
  split; [exact Hl|]. intros Hc.
  assert (Hu : unsub x = true).
  { destruct (unsub x) eqn:E; [reflexivity|exfalso].
    pose proof (noneb_spec _ _ _ _ i (LUnsub i) Hq Hlt ltac:(cbn; tauto)) as N.
    cbn [stepx] in N. rewrite Hp in N. cbn [is_nil] in N. unfold with_sub in N. rewrite Hx, Hc, E in N.
    cbn in N. discriminate. }
  split; [exact Hu|].
  destruct (wclosed x) eqn:Ew; [reflexivity|exfalso].
  destruct (hand x) as [v|] eqn:Eh.
  - destruct (wch x) as [|w r] eqn:Ewc.
    + (* room in the wrapped channel: the forwarder can put *)
      pose proof (noneb_spec _ _ _ _ i (LFwdPut i) Hq Hlt ltac:(cbn; tauto)) as N.
      cbn [stepx] in N. unfold with_sub in N. rewrite Hx, Eh, Ewc in N. discriminate.
    + (* full, and the consumer may never read: the repaired forwarder discards *)
      pose proof (noneb_spec _ _ _ _ i (LFwdAbort i) Hq Hlt ltac:(cbn; tauto)) as N.
      cbn [stepx fix_fwd] in N. unfold with_sub in N. rewrite Hx, Hl, Eh, Ewc, Hc in N. discriminate.
  - destruct (bch x) as [|v r] eqn:Eb.
    + pose proof (noneb_spec _ _ _ _ i (LFwdClose i) Hq Hlt ltac:(cbn; tauto)) as N.
      cbn [stepx] in N. unfold with_sub in N. rewrite Hx, Hl, Eh, Eb, K2, Hu, Ew in N. cbn in N. discriminate.
    + pose proof (noneb_spec _ _ _ _ i (LFwdTake i) Hq Hlt ltac:(cbn; tauto)) as N.
      cbn [stepx] in N. unfold with_sub in N. rewrite Hx, Hl, Eh, Eb in N. discriminate.
Qed.

(* ---------------------------------------------------------------- the theorems (repaired model) *)

(* after the cancel, in every quiescent state, the subscription's goroutines are gone - nothing is
   assumed about the consumer (it may never read, read slowly, stop reading mid-way) *)
Theorem fsm_cancelled_gone cfg ls s i x :
  run (step cfg) init ls = Some s -> quietb fix_fwd cfg s = true ->
  nth_error (subs s) i = Some x -> cancelled x = true ->
  fwd_alive x = false /\ cln_alive x = false.
Proof.
  intros Hr Hq Hx Hc. destruct (quiet_facts cfg ls s Hr Hq) as [_ F].
  destruct (F i x Hx) as [Hl G]. destruct (G Hc) as [Hu Hw].
  unfold fwd_alive, cln_alive. now rewrite Hl, Hu, Hw.
Qed.

(* an open subscription always has its two goroutines: none ends before the context does *)
Theorem fsm_open_alive cfg ls s i x :
  run (step cfg) init ls = Some s -> nth_error (subs s) i = Some x -> cancelled x = false ->
  cln_alive x = true /\ (sg x = SLive -> fwd_alive x = true).
Proof.
  intros Hr Hx Hc. pose proof (inv_reach cfg ls s Hr) as [_ Hs]. specialize (Hs i x Hx).
  unfold sub_ok in Hs. destruct Hs as (K1 & K2 & K3 & K4 & _). unfold cln_alive, fwd_alive. split.
  - destruct (unsub x); [specialize (K3 eq_refl); congruence|reflexivity].
  - intros ->. destruct (wclosed x); [destruct (K4 eq_refl) as [K _]; specialize (K3 K); congruence|reflexivity].
Qed.

(* hence, in every quiescent state, forwarders = cleanup goroutines = open subscriptions and no
   sender is left: the census does not depend on how many subscriptions were ever made *)
Theorem fsm_census_exact cfg ls s :
  run (step cfg) init ls = Some s -> quietb fix_fwd cfg s = true ->
  forwarders s = open_subs s /\ cleaners s = open_subs s /\ senders s = 0 /\
  census s = 2 * open_subs s.
Proof.
  intros Hr Hq. destruct (quiet_facts cfg ls s Hr Hq) as [Hp F].
  assert (A : forall x, In x (subs s) -> fwd_alive x = open_sub x /\ cln_alive x = open_sub x).
  { intros x Hin. apply In_nth_error in Hin as [i Hx]. destruct (F i x Hx) as [Hl G].
    unfold open_sub. destruct (cancelled x) eqn:Hc.
    - destruct (fsm_cancelled_gone cfg ls s i x Hr Hq Hx Hc) as [-> ->]. auto.
    - destruct (fsm_open_alive cfg ls s i x Hr Hx Hc) as [-> B]. rewrite (B Hl). auto. }
  assert (E1 : forwarders s = open_subs s) by (apply countb_ext; intros x Hin; apply A, Hin).
  assert (E2 : cleaners s = open_subs s) by (apply countb_ext; intros x Hin; apply A, Hin).
  assert (E3 : senders s = 0) by (unfold senders; now rewrite Hp).
  unfold census. rewrite E1, E2, E3. repeat split; lia.
Qed.

Lemma forallb_nth {A} (f : A -> bool) l : (forall x, In x l -> f x = true) -> forallb f l = true.
Proof. intros H. apply forallb_forall. exact H. Qed.

(* the executable predicate the driver evaluates on accepted states *)
Theorem fsm_c18_okb cfg ls s :
  run (step cfg) init ls = Some s -> quietb fix_fwd cfg s = true -> c18_okb s = true.
Proof.
  intros Hr Hq. destruct (fsm_census_exact cfg ls s Hr Hq) as (E1 & E2 & E3 & _).
  unfold c18_okb. rewrite E1, E2, E3, !Nat.eqb_refl, !andb_true_r.
  apply forallb_nth. intros x Hin. apply In_nth_error in Hin as [i Hx]. unfold clean_subb.
  destruct (cancelled x) eqn:Hc; [|reflexivity].
  destruct (fsm_cancelled_gone cfg ls s i x Hr Hq Hx Hc) as [-> ->]. reflexivity.
Qed.

(* ---------------------------------------------------------------- the wrapper LTS *)
Lemma grun_erase fx c : forall ls g g',
  run (gstep fx c) g ls = Some g' -> run (stepx fx c) (gm g) (erase ls) = Some (gm g').
Proof.
  induction ls as [|l ls IH]; intros g g' H.
  - injection H as <-. reflexivity.
  - cbn [run] in H. destruct (gstep fx c g l) as [g1|] eqn:E; [|discriminate].
    destruct l as [ml|ok|f cl b|f cl b]; cbn [erase run].
    + assert (Hs : stepx fx c (gm g) ml = Some (gm g1)).
      { unfold gstep, lift in E. destruct ml;
          try (destruct (gcall g); [discriminate|]);
          match type of E with context [stepx fx c (gm g) ?lab] =>
            destruct (stepx fx c (gm g) lab) eqn:Es; [|discriminate] end;
          injection E as <-; reflexivity. }
      rewrite Hs. exact (IH _ _ H).
    + unfold gstep in E. destruct (gcall g) as [b|]; [|discriminate].
      destruct (Bool.eqb b ok && is_nil (pend (gm g))); [|discriminate]. injection E as <-. exact (IH _ _ H).
    + unfold gstep in E. match type of E with (if ?c then _ else _) = _ => destruct c end; [|discriminate].
      injection E as <-. exact (IH _ _ H).
    + unfold gstep in E. match type of E with (if ?c then _ else _) = _ => destruct c end; [|discriminate].
      injection E as <-. exact (IH _ _ H).
Qed.

(* a dump taken after all timers is accepted only in a quiescent state, with the model's numbers -
   which by fsm_census_exact are then the open subscriptions *)
Theorem gquiet_label_sound fx c g f cl b g' :
  gstep fx c g (GQuiet f cl b) = Some g' ->
  g' = g /\ quietb fx c (gm g) = true /\
  f = forwarders (gm g) /\ cl = cleaners (gm g) /\ b = senders (gm g).
Proof.
  unfold gstep. intros H.
  match type of H with (if ?c then _ else _) = _ => destruct c eqn:E end; [|discriminate].
  injection H as <-. repeat (apply andb_prop in E as [E ?]).
  repeat match goal with X : Nat.eqb _ _ = true |- _ => apply Nat.eqb_eq in X end. auto.
Qed.

Theorem gsnap_label_sound fx c g f cl b g' :
  gstep fx c g (GSnap f cl b) = Some g' ->
  g' = g /\ stableb fx c (gm g) = true /\
  f = forwarders (gm g) /\ cl = cleaners (gm g) /\ b = senders (gm g).
Proof.
  unfold gstep. intros H.
  match type of H with (if ?c then _ else _) = _ => destruct c eqn:E end; [|discriminate].
  injection H as <-. repeat (apply andb_prop in E as [E ?]).
  repeat match goal with X : Nat.eqb _ _ = true |- _ => apply Nat.eqb_eq in X end. auto.
Qed.

(* ---------------------------------------------------------------- the unchanged forwarder: refuted *)
(* one subscription, the consumer never reads, one state change, cancel: the system is quiescent,
   the subscription is cancelled and un-registered, and its forwarder is still there (blocked in its
   send) - for good: only a read by the consumer could free it *)
Definition leak_witness : list label :=
  [LSub; LRead 0; LOp (OTrans Booting) true; LDeliver 0; LFwdTake 0; LCancel 0; LUnsub 0].

Lemma leak_legacy :
  exists s x, run (stepx false fsm_cfg) init leak_witness = Some s /\
              quietb false fsm_cfg s = true /\ nth_error (subs s) 0 = Some x /\
              cancelled x = true /\ unsub x = true /\ got x = [] /\
              fwd_alive x = true /\ forwarders s = 1 /\ open_subs s = 0.
Proof. eexists. eexists. split; [vm_compute; reflexivity|]. repeat split; vm_compute; reflexivity. Qed.

(* and they accumulate: three subscribe / change / cancel cycles with absent consumers leave three *)
Definition leak_cycle (k : nat) : list label :=
  [LSub; LRead k; LOp (OSet Error) true; LDeliver k; LFwdTake k; LCancel k; LUnsub k].

Lemma leak_legacy_accumulates :
  exists s, run (stepx false fsm_cfg) init (leak_cycle 0 ++ leak_cycle 1 ++ leak_cycle 2) = Some s /\
            quietb false fsm_cfg s = true /\ open_subs s = 0 /\ forwarders s = 3.
Proof. eexists. split; [vm_compute; reflexivity|]. repeat split; vm_compute; reflexivity. Qed.

(* the same history on the repaired model: the forwarder can discard the value and then ends on the
   closed manager channel; nothing is left *)
Lemma leak_repaired :
  run (step fsm_cfg) init leak_witness <> None /\
  (forall s, run (step fsm_cfg) init leak_witness = Some s -> quietb fix_fwd fsm_cfg s = false) /\
  exists s, run (step fsm_cfg) init (leak_witness ++ [LFwdAbort 0; LFwdClose 0]) = Some s /\
            quietb fix_fwd fsm_cfg s = true /\ forwarders s = 0 /\ census s = 0.
Proof.
  split; [vm_compute; discriminate|]. split.
  - intros s H. vm_compute in H. injection H as <-. vm_compute. reflexivity.
  - eexists. split; [vm_compute; reflexivity|]. repeat split; vm_compute; reflexivity.
Qed.

(* non-vacuity of the census theorems: three subscribe / cancel cycles during a transition burst -
   an absent consumer (the forwarder discards two values), a consumer that reads one value and stops,
   a consumer that drains - then one subscription stays open: quiescent, census 2 (its forwarder +
   cleanup) *)
Definition census_run : list label :=
  [LSub; LRead 0; LOp (OTrans Booting) true; LDeliver 0; LFwdTake 0;
   LSub; LRead 1; LRecv 1 Booting;
   LOp (OTrans Running) true; LDeliver 0; LDeliver 1; LFwdTake 1; LFwdPut 1;
   LCancel 0; LFwdAbort 0; LFwdTake 0; LFwdAbort 0; LUnsub 0; LFwdClose 0;
   LSub; LRead 2; LRecv 2 Running;
   LOp (OTrans Stopping) true; LDeliver 1; LDeliver 2; LFwdTake 1; LFwdTake 2; LFwdPut 2; LRecv 2 Stopping;
   LCancel 1; LFwdAbort 1; LUnsub 1; LFwdClose 1;
   LCancel 2; LUnsub 2; LFwdClose 2; LRecvClosed 2;
   LSub; LRead 3].

Lemma census_run_ok :
  exists s, run (step fsm_cfg) init census_run = Some s /\ quietb fix_fwd fsm_cfg s = true /\
            length (subs s) = 4 /\ open_subs s = 1 /\ forwarders s = 1 /\ census s = 2.
Proof. eexists. split; [vm_compute; reflexivity|]. repeat split; vm_compute; reflexivity. Qed.
