(* Invariant of the StartStop model (coq/model/Lifecycle.v), for both step functions
   (fx = false: code as it is; fx = true: candidate repair), and its preservation by every
   label.  Lifted to all schedules in LifecycleMain.v. *)
From Coq Require Import List Arith Bool Lia.
From GS Require Import Lifecycle.
Import ListNotations.

(* ---------- generic list facts ---------- *)
Lemma chan_in_In : forall c l, chan_in c l = true <-> In c l.
Proof.
  intros c l. unfold chan_in. rewrite existsb_exists. split.
  - intros [x [Hin He]]. apply Nat.eqb_eq in He. subst. exact Hin.
  - intros H. exists c. split; [exact H | apply Nat.eqb_refl].
Qed.

Lemma chan_in_nIn : forall c l, chan_in c l = false <-> ~ In c l.
Proof.
  intros c l. rewrite <- chan_in_In. destruct (chan_in c l); split; intro H; try discriminate; auto.
  exfalso; apply H; reflexivity.
Qed.

Lemma upd_nth_same : forall A (l : list A) k x c,
  nth_error l k = Some c -> nth_error (upd l k x) k = Some x.
Proof.
  induction l as [|a l IH]; intros [|k] x c H; cbn in *; try discriminate; auto.
  eapply IH; eauto.
Qed.

Lemma upd_nth_other : forall A (l : list A) k j x,
  j <> k -> nth_error (upd l k x) j = nth_error l j.
Proof.
  induction l as [|a l IH]; intros [|k] [|j] x H; cbn; auto; try congruence.
Qed.

Lemma upd_length : forall A (l : list A) k x, length (upd l k x) = length l.
Proof. induction l as [|a l IH]; intros [|k] x; cbn; auto. Qed.

Lemma Forall_upd : forall A (P : A -> Prop) l k x, Forall P l -> P x -> Forall P (upd l k x).
Proof.
  induction l as [|a l IH]; intros [|k] x HF Hx; cbn; auto; inversion HF; subst; constructor; auto.
Qed.

Lemma Forall_nth : forall A (P : A -> Prop) l k c, Forall P l -> nth_error l k = Some c -> P c.
Proof.
  intros A P l k c HF Hn. rewrite Forall_forall in HF. apply HF. eapply nth_error_In; eauto.
Qed.

(* ---------- cycle table ---------- *)
Lemma cyc_at_lt : forall l g cy, cyc_at l g = Some cy -> g < length l.
Proof.
  induction l as [|c t IH]; cbn; intros g cy H; [discriminate|].
  destruct (g =? length t) eqn:E.
  - apply Nat.eqb_eq in E. lia.
  - apply IH in H. lia.
Qed.

Lemma cyc_at_In : forall l g cy, cyc_at l g = Some cy -> In cy l.
Proof.
  induction l as [|c t IH]; cbn; intros g cy H; [discriminate|].
  destruct (g =? length t); [inversion H; auto | right; eauto].
Qed.

Lemma cyc_at_cons : forall l x g cy, cyc_at l g = Some cy -> cyc_at (x :: l) g = Some cy.
Proof.
  intros l x g cy H. cbn. pose proof (cyc_at_lt _ _ _ H) as Hlt.
  destruct (g =? length l) eqn:E; [apply Nat.eqb_eq in E; lia | exact H].
Qed.

Lemma cyc_at_head : forall t c, cyc_at (c :: t) (length t) = Some c.
Proof. intros. cbn. rewrite Nat.eqb_refl. reflexivity. Qed.

Lemma cyc_at_cons_inv : forall t c g cy,
  cyc_at (c :: t) g = Some cy -> (g = length t /\ cy = c) \/ (g < length t /\ cyc_at t g = Some cy).
Proof.
  intros t c g cy H. cbn in H. destruct (g =? length t) eqn:E.
  - apply Nat.eqb_eq in E. inversion H. auto.
  - right. split; [eapply cyc_at_lt; eauto | exact H].
Qed.

(* ---------- the invariant ---------- *)
Definition Cl (s : state) (c : chan) : Prop := In c (closed s).

Lemma is_closed_Cl : forall s c, is_closed s c = true <-> Cl s c.
Proof. intros. apply chan_in_In. Qed.
Lemma is_closed_nCl : forall s c, is_closed s c = false <-> ~ Cl s c.
Proof. intros. apply chan_in_nIn. Qed.

(* the Run of generation g has been signalled: *)
Definition tgt_sig (s : state) (g : nat) : Prop :=
  g <= gen s /\ (g = gen s -> stopped s = true) /\
  (g < gen s -> exists cy, cyc_at (cycles s) g = Some cy /\ Cl s (cy_stop cy)).

Definition caller_ok (fx : bool) (s : state) (c : caller) : Prop :=
  match c_pc c with
  | Enter => c_span c = false
  | AfterSec1 ch =>
      c_span c = false /\ tgt_sig s (c_tgt c) /\
      (c_tgt c = gen s -> ch = startedCh s) /\ (c_tgt c < gen s -> Cl s ch)
  | PastStarted =>
      c_span c = false /\ tgt_sig s (c_tgt c) /\ (c_tgt c = gen s -> cycles s <> [])
  | AfterSec2 d =>
      if c_span c then fx = false /\ In d (map cy_done (cycles s))
      else exists cy, cyc_at (cycles s) (c_tgt c) = Some cy /\ cy_done cy = d /\ Cl s (cy_stop cy)
  | Returned =>
      if c_span c then fx = false
      else exists cy, cyc_at (cycles s) (c_tgt c) = Some cy /\ cy_pc cy = Finished
  end.

Definition head_ok (s : state) : Prop :=
  match cycles s with
  | [] => gen s = 0 /\ doneCh s = 0
  | c :: t =>
      gen s = length t /\ doneCh s = cy_done c /\ stopCh s = cy_stop c /\ cy_done c <> 0 /\
      (cy_pc c = Finished <-> Cl s (cy_done c)) /\
      Forall (fun c' => cy_pc c' = Finished /\ Cl s (cy_done c')) t
  end.

Definition bounds_ok (s : state) : Prop :=
  stopCh s < next s /\ startedCh s < next s /\ doneCh s < next s /\
  (forall x, Cl s x -> x < next s) /\ stopCh s <> doneCh s /\ stopCh s <> startedCh s.

Definition Inv (fx : bool) (s : state) : Prop :=
  bounds_ok s /\ head_ok s /\ (stopped s = true -> Cl s (stopCh s)) /\
  (Cl s (startedCh s) <-> cycles s <> []) /\ Forall (caller_ok fx s) (callers s).

Lemma inv_init : forall fx, Inv fx init.
Proof.
  intro fx. unfold Inv, bounds_ok, head_ok, Cl, init; cbn.
  split; [|split; [|split; [|split]]].
  - repeat split; try lia; intros x [] || idtac.
  - auto.
  - discriminate.
  - split; [intros [] | intro H; exfalso; apply H; reflexivity].
  - constructor.
Qed.

(* ---------- monotonicity of the per-caller invariant ---------- *)
Definition cyc_le (cy cy' : cyc) : Prop :=
  cy_done cy' = cy_done cy /\ cy_stop cy' = cy_stop cy /\ (cy_pc cy = Finished -> cy_pc cy' = Finished).

Definition ext (s s' : state) : Prop :=
  gen s' = gen s /\ startedCh s' = startedCh s /\
  (stopped s = true -> stopped s' = true) /\ (forall x, Cl s x -> Cl s' x) /\
  (forall g cy, cyc_at (cycles s) g = Some cy ->
                exists cy', cyc_at (cycles s') g = Some cy' /\ cyc_le cy cy') /\
  (cycles s <> [] -> cycles s' <> []) /\
  (forall d, In d (map cy_done (cycles s)) -> In d (map cy_done (cycles s'))).

Lemma tgt_sig_ext : forall s s' g, ext s s' -> tgt_sig s g -> tgt_sig s' g.
Proof.
  intros s s' g (Hg & _ & Hst & Hcl & Hcy & _ & _) (H1 & H2 & H3).
  unfold tgt_sig. rewrite Hg. repeat split; auto.
  intro Hlt. destruct (H3 Hlt) as (cy & Hat & Hc).
  destruct (Hcy _ _ Hat) as (cy' & Hat' & _ & Hs & _).
  exists cy'. split; auto. rewrite Hs. auto.
Qed.

Lemma caller_ok_ext : forall fx s s' c, ext s s' -> caller_ok fx s c -> caller_ok fx s' c.
Proof.
  intros fx s s' c He H. pose proof He as (Hg & Hsc & Hst & Hcl & Hcy & Hne & Hmap).
  unfold caller_ok in *. destruct (c_pc c) as [|ch| |d|].
  - exact H.
  - destruct H as (Hsp & Hts & Ha & Hb). rewrite Hg, Hsc.
    split; [exact Hsp|]. split; [eapply tgt_sig_ext; eauto|]. split; [exact Ha|].
    intro Hlt. apply Hcl. apply Hb. exact Hlt.
  - destruct H as (Hsp & Hts & Ha). rewrite Hg.
    split; [exact Hsp|]. split; [eapply tgt_sig_ext; eauto|]. intro E. apply Hne. apply Ha. exact E.
  - destruct (c_span c).
    + destruct H as [Hf Hin]. split; auto.
    + destruct H as (cy & Hat & Hd & Hc). destruct (Hcy _ _ Hat) as (cy' & Hat' & Hd' & Hs' & _).
      exists cy'. rewrite Hd', Hs'. auto.
  - destruct (c_span c); auto.
    destruct H as (cy & Hat & Hp). destruct (Hcy _ _ Hat) as (cy' & Hat' & _ & _ & Hf).
    exists cy'. auto.
Qed.

Lemma ext_refl_cycles : forall s s',
  gen s' = gen s -> startedCh s' = startedCh s -> cycles s' = cycles s ->
  (stopped s = true -> stopped s' = true) -> (forall x, Cl s x -> Cl s' x) -> ext s s'.
Proof.
  intros s s' Hg Hs Hc Hst Hcl. unfold ext. rewrite Hc. repeat split; auto.
  intros g cy H. exists cy. unfold cyc_le. auto.
Qed.

(* changing only the pc of the newest cycle (never away from Finished), closing more channels *)
Lemma ext_headpc : forall s s' d st p p' t,
  cycles s = mkCyc d st p :: t -> cycles s' = mkCyc d st p' :: t ->
  (p = Finished -> p' = Finished) ->
  gen s' = gen s -> startedCh s' = startedCh s -> stopped s' = stopped s ->
  (forall x, Cl s x -> Cl s' x) -> ext s s'.
Proof.
  intros s s' d st p p' t Hc Hc' Hp Hg Hs Hst Hcl. unfold ext. rewrite Hc, Hc', Hst.
  repeat split; auto; try discriminate.
  intros g cy H. cbn in *. destruct (g =? length t).
  - inversion H; subst. exists (mkCyc d st p'). unfold cyc_le; cbn. auto.
  - exists cy. unfold cyc_le. auto.
Qed.

(* ---------- the Started() critical section, computed ---------- *)
Lemma started_first : forall s,
  cycles s = [] -> doneCh s = 0 -> ~ Cl s (startedCh s) ->
  started s = mkState (S (next s)) (startedCh s :: closed s) (stopCh s) (startedCh s) (next s)
                      (stopped s) (gen s) (callers s) [mkCyc (next s) (stopCh s) Body].
Proof.
  intros s Hc Hd Hn. unfold started. rewrite Hd, Hc. cbn.
  apply chan_in_nIn in Hn. unfold Cl in Hn. rewrite Hn. reflexivity.
Qed.

Lemma started_reset : forall s,
  doneCh s <> 0 -> Cl s (doneCh s) -> (forall x, Cl s x -> x < next s) ->
  started s = mkState (S (S (S (next s)))) (S (S (next s)) :: closed s) (S (next s)) (S (S (next s)))
                      (next s) false (S (gen s)) (callers s)
                      (mkCyc (next s) (S (next s)) Body :: cycles s).
Proof.
  intros s Hd Hc Hb. unfold started.
  assert (E1 : (doneCh s =? 0) = false) by (apply Nat.eqb_neq; exact Hd).
  assert (E2 : is_closed s (doneCh s) = true) by (apply is_closed_Cl; exact Hc).
  rewrite E1, E2. cbn.
  assert (E3 : chan_in (S (S (next s))) (closed s) = false).
  { apply chan_in_nIn. intro H. apply Hb in H. lia. }
  rewrite E3. reflexivity.
Qed.
