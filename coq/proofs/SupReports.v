(* C04 ("reports" clause): Run() returns nil only after a shutdown trigger that is not a runnable
   failure (INT/TERM, parent cancel, Shutdown(), ShutdownSender).  Hence, when a runnable fails and
   no such trigger has occurred by the time Main fixes its result, Run() returns a runnable's error. *)
From Coq Require Import List NArith Bool Arith Lia.
From GS Require Import LTS Supervisor SupAccept SupProps SupInv SupTrig SupResult.
Import ListNotations.

Definition nft (c : config) (s : state) : Prop := existsb (is_nonfail_trigger c) (hist s) = true.

Definition main_waits (s : state) : Prop :=
  match main s with MWaitSd _ | MReturned _ => True | _ => False end.

(* no non-failure trigger so far: nothing but Main itself (after it fixed a non-nil result) can
   have started the shutdown or cancelled the context *)
Record quiet (c : config) (s : state) : Prop := {
  qt_sigq : forall g, In g (sigq s) -> benign_sig g;
  qt_parent : parent_cancel s = false;
  qt_own : own_cancel s = false \/ main_waits s;
  qt_sd : sd s = SdNot \/ main_waits s;
  qt_main : main_res (main s) <> Some ResNil;
  qt_strig : forall i, ssender (spec c i) = true -> get 0 (strig (aux s)) i = 0;
  qt_sls : forall i, get LsAbsent (sls s) i = LsIdle -> ssender (spec c i) = true;
  qt_callers : forall k o cs, In (k, o, cs) (callers s) -> benign_op o;
}.

Definition InvRep (c : config) (s : state) : Prop := nft c s \/ quiet c s.

Lemma quiet_init c : quiet c (init c).
Proof.
  constructor; cbn; auto.
  - intros g [].
  - discriminate.
  - intros i _. unfold get. destruct (nth_repeat' 0 0 (nrun c) i) as [-> | ->]; reflexivity.
  - intros i H. change (get LsAbsent (map (fun _ => LsAbsent) (specs c)) i = LsIdle) in H.
    rewrite get_const_absent in H. discriminate H.
  - intros k o cs [].
Qed.

Lemma nft_step c s l s' : nft c s -> step c s l = Some s' -> nft c s'.
Proof.
  unfold nft. intros H Hs. rewrite (step_hist _ _ _ _ Hs).
  destruct (obs l); [cbn [existsb]; rewrite H; apply orb_true_r|exact H].
Qed.

Lemma quiet_step c s l s' : quiet c s -> step c s l = Some s' -> nft c s' \/ quiet c s'.
Proof.
  intros [Cs Cp Co Cd Cm Ct Cl Cc] H. unfold step in H. unfold benign_sig, benign_op, main_waits in *.
  assert (Cx : ctx_done s = false \/ match main s with MWaitSd _ | MReturned _ => True | _ => False end).
  { destruct Co as [Co|Co]; [left; unfold ctx_done; now rewrite Co, Cp|now right]. }
  destruct l; cbn [step0] in H; unfold start_shutdown, store_state in H;
    step_cases H; inversion H; subst; clear H.
  all: try match goal with s0 : sig |- _ => destruct s0 end.
  (* impossible without a non-failure trigger *)
  all: try (exfalso; destruct Cx as [Cx|Cx]; [discriminate Cx|exact Cx]).
  all: try (match goal with E : context [_ && false] |- _ =>
              rewrite ?andb_false_r in E; discriminate E end).
  all: try (exfalso; destruct Cx as [Cx|Cx]; [|exact Cx];
            match goal with E : context [ctx_done _] |- _ =>
              rewrite Cx in E; rewrite ?andb_false_r in E; cbn [andb negb] in E; discriminate E end).
  all: try (exfalso; destruct Cd as [Cd|Cd]; [discriminate Cd|exact Cd]).
  all: try (exfalso; match goal with E : sigq _ = ?g :: _ |- _ =>
              destruct (Cs g) as [X|X]; first [discriminate X|now left|rewrite E; now left] end).
  all: try (exfalso; match goal with E : find_caller ?k (callers _) = Some (OpSignal ?g, _) |- _ =>
              destruct (Cc _ _ _ (find_caller_In _ _ _ _ E)) as [X|[X|X]]; discriminate X end).
  all: try (exfalso; match goal with E : find_caller ?k (callers _) = Some (OpShutdown, _) |- _ =>
              destruct (Cc _ _ _ (find_caller_In _ _ _ _ E)) as [X|[X|X]]; discriminate X end).
  all: try (exfalso; match goal with E : get 0 (strig (aux _)) ?i = S _, F : get LsAbsent (sls _) ?i = LsIdle |- _ =>
              rewrite (Ct i (Cl i F)) in E; discriminate E end).
  all: try match goal with s0 : sig |- _ => destruct s0 end.
  (* a trigger offered by runnable i: a trigger event iff i is a ShutdownSender *)
  all: try (match goal with |- nft _ (with_hist _ (ETrigS ?i)) \/ _ =>
              destruct (ssender (spec c i)) eqn:Si;
              [left; unfold nft; cbn [hist with_hist existsb is_nonfail_trigger]; rewrite Si; reflexivity|] end).
  (* the event is a non-failure trigger *)
  all: try (left; unfold nft; cbn; reflexivity).
  (* still quiet *)
  all: right; constructor; unfold main_waits, benign_sig, benign_op; simp_st; cbn [main_res] in *.
  all: try assumption.
  all: try discriminate.
  all: try tauto.
  all: try (unfold after_launch; match goal with |- context [if ?b then _ else _] => destruct b end;
            cbn [main_res]; first [discriminate|tauto]).
  all: try (calm_fields; eauto; fail).
  all: try (match goal with E : main _ = _ |- _ => rewrite E end; cbn [main_res]; first [discriminate|tauto]).
  all: try (destruct Cd as [Cd|Cd]; [discriminate Cd|right; exact Cd]).
  all: try (match goal with E : sigq _ = _ :: _ |- _ =>
              intros gg Hgg; apply Cs; first [right; exact Hgg|rewrite E; right; exact Hgg] end).
  all: try (intros gg [<-|[]]; auto; fail).
  (* the listeners *)
  all: try (intros j Hj; apply Cl; exact Hj).
  all: try exact (fresh_sls_idle c).
  all: try (intros j Hj; apply Cl; eapply sls_upd_idle; exact Hj).
  all: try (intros j Hj; exfalso; exact (sls_mark_idle _ _ Hj)).
  all: try (intros j Sj;
            match goal with |- nth ?jj (upd ?l ?i ?x) 0 = 0 =>
              assert (N : i <> jj) by (intros ->; congruence);
              change (get 0 (upd l i x) jj = 0); rewrite (get_upd_other 0 l i jj x N); apply Ct; exact Sj end).
  all: try (intros j Sj;
            match goal with |- get 0 (upd ?l ?i ?x) ?jj = 0 =>
              assert (N : i <> jj) by (intros ->; congruence);
              rewrite (get_upd_other 0 l i jj x N); apply Ct; exact Sj end).
Qed.

Lemma InvRep_init c : InvRep c (init c).
Proof. right. apply quiet_init. Qed.

Lemma InvRep_step c s l s' : InvRep c s -> step c s l = Some s' -> InvRep c s'.
Proof.
  intros [Ht|Hq] H; [left; eapply nft_step; eassumption|eapply quiet_step; eassumption].
Qed.

Lemma InvRep_reachable c s : reachable_sup c s -> InvRep c s.
Proof. apply sup_inv; [apply InvRep_init|apply InvRep_step]. Qed.

Lemma nft_rev c s : nft c s -> existsb (is_nonfail_trigger c) (rev (hist s)) = true.
Proof.
  unfold nft. intros H. apply existsb_exists in H as (e & Hin & He).
  apply existsb_exists. exists e. split; [now apply in_rev in Hin|exact He].
Qed.

(* at the moment Main fixes a nil result (and ever after) a non-failure trigger is in the history *)
Lemma nil_decided c s :
  reachable_sup c s -> main_res (main s) = Some ResNil -> nft c s.
Proof.
  intros Hre Hm. destruct (InvRep_reachable _ _ Hre) as [X|X]; [exact X|].
  exfalso. exact (qt_main _ _ X Hm).
Qed.

(* C04 (reports): Run() returns nil only after a non-failure trigger *)
Theorem sup_c04_reports c ls s :
  run (step c) (init c) ls = Some s -> c04_reports c (obs_trace obs ls) = true.
Proof.
  intros H. eapply all_check_reachable; [|exact H].
  intros s0 l s1 e Hre Hs Ho. destruct e; try reflexivity. destruct r; try reflexivity.
  cbn [chk_reports]. apply nft_rev. apply (nil_decided c _ Hre).
  destruct l; try discriminate Ho. injection Ho as ->.
  unfold step in Hs. cbn [step0] in Hs.
  destruct (main s0) eqn:Em; try discriminate Hs. destruct (sd s0); try discriminate Hs.
  match goal with x : result |- _ => destruct x end; try discriminate Hs. reflexivity.
Qed.

(* ---- the positive reading, at the moment Main reacts ---- *)

(* once fixed, Main's result never changes *)
Lemma main_res_step c s l s' r :
  main_res (main s) = Some r -> step c s l = Some s' -> main_res (main s') = Some r.
Proof.
  intros Hm H. unfold step in H.
  destruct l; cbn [step0] in H; unfold start_shutdown, store_state in H;
    step_cases H; inversion H; subst; clear H; simp_st; try exact Hm.
  all: try (match goal with E : main _ = _ |- _ => rewrite E in Hm; try discriminate Hm; try exact Hm end).
  all: try (match goal with E : (_ =? _) = true |- _ => apply Nat.eqb_eq in E; subst end; exact Hm).
  all: try discriminate Hm.
  all: try (match goal with E : main _ = _ |- _ => rewrite E end; exact Hm).
Qed.

Lemma main_res_run c ls : forall s s' r,
  main_res (main s) = Some r -> run (step c) s ls = Some s' -> main_res (main s') = Some r.
Proof.
  induction ls as [|l ls IH]; intros s s' r Hm H.
  - now injection H as <-.
  - cbn [run] in H. destruct (step c s l) as [s1|] eqn:E; [|discriminate].
    eapply IH; [eapply main_res_step; eassumption|exact H].
Qed.

(* what a result that is "a runnable's error" means: an error value some runnable's Run really
   returned (not a cancellation); the start-up timeout is the only other non-nil result and needs a
   deadline that can fire *)
Definition reports_err (c : config) (t : list event) (r : result) : Prop :=
  match r with
  | ResErr id => In id (real_error_ids t)
  | ResTimeout => startup_may_fire c = true
  | ResNil => False
  end.

Lemma existsb_rev_false {A} (f : A -> bool) l : existsb f (rev l) = false -> existsb f l = false.
Proof.
  intros H. destruct (existsb f l) eqn:E; [|reflexivity].
  apply existsb_exists in E as (x & Hin & Hx).
  assert (existsb f (rev l) = true)
    by (apply existsb_exists; exists x; split; [now apply in_rev in Hin|exact Hx]).
  congruence.
Qed.

(* if no non-failure trigger has occurred when Main fixes its result, that result is a runnable's
   error ... *)
Theorem sup_c04_reports_decided c ls s r :
  run (step c) (init c) ls = Some s -> main_res (main s) = Some r ->
  existsb (is_nonfail_trigger c) (obs_trace obs ls) = false ->
  reports_err c (obs_trace obs ls) r.
Proof.
  intros H Hm Hn. assert (Hre : reachable_sup c s) by (now exists ls).
  rewrite (trace_is_history _ _ _ H) in *.
  pose proof (ie_main _ _ (InvErr_reachable _ _ Hre) r Hm) as Hr.
  destruct r; cbn [reports_err res_ok] in *.
  - pose proof (nil_decided _ _ Hre Hm) as X. unfold nft in X.
    apply existsb_rev_false in Hn. congruence.
  - apply real_ids_rev. exact Hr.
  - exact Hr.
Qed.

(* ... and Run() returns exactly it, whatever happens afterwards (later triggers included) *)
Theorem sup_c04_reports_final c ls1 s1 r ls2 s2 r' :
  run (step c) (init c) ls1 = Some s1 -> main_res (main s1) = Some r ->
  existsb (is_nonfail_trigger c) (obs_trace obs ls1) = false ->
  run (step c) s1 ls2 = Some s2 -> main s2 = MReturned r' ->
  r' = r /\ reports_err c (obs_trace obs ls1) r.
Proof.
  intros H1 Hm Hn H2 Hret. split; [|eapply sup_c04_reports_decided; eassumption].
  pose proof (main_res_run _ _ _ _ _ Hm H2) as X. rewrite Hret in X. cbn in X. congruence.
Qed.
