(* Every label of the StartStop model preserves the invariant (both step functions). *)
From Coq Require Import List Arith Bool Lia.
From GS Require Import Lifecycle LifecycleInv.
Import ListNotations.

Lemma inv_with_callers : forall fx s cs,
  Inv fx s -> Forall (caller_ok fx s) cs -> Inv fx (with_callers s cs).
Proof.
  intros fx s cs (HB & HH & HS & HST & HC) HF.
  exact (conj HB (conj HH (conj HS (conj HST HF)))).
Qed.

(* ---------- if !stopped { stopped = true; close(stopCh) } ---------- *)
Lemma signal_inv : forall fx s,
  Inv fx s ->
  Inv fx (signal s) /\ ext s (signal s) /\ stopped (signal s) = true /\
  gen (signal s) = gen s /\ startedCh (signal s) = startedCh s /\ callers (signal s) = callers s /\
  cycles (signal s) = cycles s.
Proof.
  intros fx s HI. pose proof HI as (HB & HH & HS & HST & HC).
  unfold signal. destruct (stopped s) eqn:E.
  - split; [exact HI|]. split; [apply ext_refl_cycles; auto|]. repeat split; auto.
  - set (s1 := mkState (next s) (stopCh s :: closed s) (stopCh s) (startedCh s) (doneCh s) true (gen s)
                       (callers s) (cycles s)).
    assert (Hmono : forall x, Cl s x -> Cl s1 x) by (intros x Hx; right; exact Hx).
    assert (He : ext s s1) by (apply ext_refl_cycles; auto).
    destruct HB as (B1 & B2 & B3 & B4 & B5 & B6).
    split; [|split; [exact He | repeat split; reflexivity]].
    split; [|split; [|split; [|split]]].
    + (* bounds *) unfold bounds_ok; cbn. repeat split; auto.
      intros x [Hx|Hx]; [subst; exact B1 | apply B4; exact Hx].
    + (* head *)
      unfold head_ok in *. change (cycles s1) with (cycles s).
      destruct (cycles s) as [|c t]; [exact HH|].
      destruct HH as (H1 & H2 & H3 & H4 & H5 & H6).
      repeat split; auto.
      * intro Hf. apply Hmono. apply H5. exact Hf.
      * intros [Hx|Hx]; [exfalso; apply B5; cbn in Hx; congruence | apply H5; exact Hx].
      * eapply Forall_impl; [|exact H6]. cbn. intros a [Ha Hb]. split; auto.
    + (* stopped -> closed *) intros _. left. reflexivity.
    + (* started *)
      split.
      * intros [Hx|Hx]; [exfalso; apply B6; exact Hx | apply HST; exact Hx].
      * intro Hne. apply Hmono. apply HST. exact Hne.
    + (* callers *)
      eapply Forall_impl; [|exact HC]. intros a Ha. eapply caller_ok_ext; eauto.
Qed.

(* ---------- Started(), first cycle ---------- *)
Lemma started_first_inv : forall fx s,
  Inv fx s -> cycles s = [] -> Inv fx (started s).
Proof.
  intros fx s (HB & HH & HS & HST & HC) Hc.
  pose proof HH as HH'. unfold head_ok in HH'. rewrite Hc in HH'. destruct HH' as [Hg Hd].
  assert (Hn : ~ Cl s (startedCh s)).
  { intro H. apply HST in H. apply H. exact Hc. }
  rewrite (started_first s Hc Hd Hn).
  set (s' := mkState _ _ _ _ _ _ _ _ _).
  destruct HB as (B1 & B2 & B3 & B4 & B5 & B6).
  assert (Hmono : forall x, Cl s x -> Cl s' x) by (intros x Hx; right; exact Hx).
  assert (He : ext s s').
  { unfold ext. rewrite Hc. cbn [cyc_at map].
    split; [reflexivity|]. split; [reflexivity|]. split; [auto|]. split; [exact Hmono|].
    split; [intros g cy H; discriminate|].
    split; [intro H; exfalso; apply H; reflexivity | intros d []]. }
  split; [|split; [|split; [|split]]].
  - unfold bounds_ok; cbn. repeat split; try lia.
    intros x [Hx|Hx]; [subst; lia | apply B4 in Hx; lia].
  - unfold head_ok; cbn. repeat split; auto; try lia.
    + intro H; discriminate.
    + intros [Hx|Hx]; [exfalso; lia | exfalso; apply B4 in Hx; lia].
  - cbn. intro Hst. right. apply HS. exact Hst.
  - cbn. split; [intros _; discriminate | intros _; left; reflexivity].
  - change (callers s') with (callers s).
    eapply Forall_impl; [|exact HC]. intros a Ha. eapply caller_ok_ext; eauto.
Qed.

(* ---------- Started(), later cycles: the reset ---------- *)
Lemma tgt_sig_reset : forall s s' c0 t g,
  cycles s = c0 :: t -> gen s = length t -> stopCh s = cy_stop c0 ->
  (stopped s = true -> Cl s (stopCh s)) ->
  gen s' = S (gen s) -> (exists x, cycles s' = x :: cycles s) -> (forall x, Cl s x -> Cl s' x) ->
  tgt_sig s g -> tgt_sig s' g /\ g <= gen s.
Proof.
  intros s s' c0 t g Hc Hg Hst HS Hg' [x Hc'] Hmono (H1 & H2 & H3).
  split; [|exact H1]. unfold tgt_sig. rewrite Hg'. split; [lia|]. split; [intro; lia|].
  intros _. rewrite Hc'. destruct (Nat.eq_dec g (gen s)) as [E|NE].
  - exists c0. split.
    + apply cyc_at_cons. rewrite Hc, E, Hg. apply cyc_at_head.
    + apply Hmono. rewrite <- Hst. apply HS. apply H2. exact E.
  - destruct H3 as (cy & Hat & Hcl); [lia|]. exists cy. split; [apply cyc_at_cons; exact Hat | auto].
Qed.

Lemma caller_ok_reset : forall fx s s' c0 t c,
  cycles s = c0 :: t -> gen s = length t -> stopCh s = cy_stop c0 ->
  (stopped s = true -> Cl s (stopCh s)) -> Cl s (startedCh s) ->
  gen s' = S (gen s) -> (exists x, cycles s' = x :: cycles s) -> (forall x, Cl s x -> Cl s' x) ->
  caller_ok fx s c -> caller_ok fx s' c.
Proof.
  intros fx s s' c0 t c Hc Hg Hst HS Hsc Hg' Hc' Hmono H.
  pose proof (tgt_sig_reset s s' c0 t) as TS.
  unfold caller_ok in *. destruct (c_pc c) as [|ch| |d|].
  - exact H.
  - destruct H as (Hsp & Hts & Ha & Hb).
    destruct (TS (c_tgt c) Hc Hg Hst HS Hg' Hc' Hmono Hts) as [Hts' Hle].
    split; [exact Hsp|]. split; [exact Hts'|]. split; [intro E; lia|].
    intros _. destruct (Nat.eq_dec (c_tgt c) (gen s)) as [E|NE].
    + rewrite (Ha E). apply Hmono. exact Hsc.
    + apply Hmono. apply Hb. lia.
  - destruct H as (Hsp & Hts & Ha).
    destruct (TS (c_tgt c) Hc Hg Hst HS Hg' Hc' Hmono Hts) as [Hts' Hle].
    split; [exact Hsp|]. split; [exact Hts'|]. intro E; lia.
  - destruct Hc' as [x Hc']. rewrite Hc'. destruct (c_span c).
    + destruct H as [Hf Hin]. split; [exact Hf | right; exact Hin].
    + destruct H as (cy & Hat & Hd & Hcl). exists cy. split; [apply cyc_at_cons; exact Hat | auto].
  - destruct Hc' as [x Hc']. rewrite Hc'. destruct (c_span c); [exact H|].
    destruct H as (cy & Hat & Hp). exists cy. split; [apply cyc_at_cons; exact Hat | exact Hp].
Qed.

Lemma started_reset_inv : forall fx s c0 t,
  Inv fx s -> cycles s = c0 :: t -> cy_pc c0 = Finished -> Inv fx (started s).
Proof.
  intros fx s c0 t (HB & HH & HS & HST & HC) Hc Hf.
  pose proof HH as HH'. unfold head_ok in HH'. rewrite Hc in HH'.
  destruct HH' as (H1 & H2 & H3 & H4 & H5 & H6).
  destruct HB as (B1 & B2 & B3 & B4 & B5 & B6).
  assert (Hdn : doneCh s <> 0) by congruence.
  assert (Hdc : Cl s (doneCh s)) by (rewrite H2; apply H5; exact Hf).
  rewrite (started_reset s Hdn Hdc B4).
  set (s' := mkState _ _ _ _ _ _ _ _ _).
  assert (Hmono : forall x, Cl s x -> Cl s' x) by (intros x Hx; right; exact Hx).
  assert (Hsc : Cl s (startedCh s)) by (apply HST; rewrite Hc; discriminate).
  split; [|split; [|split; [|split]]].
  - unfold bounds_ok; cbn. repeat split; try lia.
    intros x [Hx|Hx]; [subst; lia | apply B4 in Hx; lia].
  - unfold head_ok; cbn. rewrite Hc. cbn. repeat split; auto; try lia.
    + intro H; discriminate.
    + intros [Hx|Hx]; [exfalso; lia | exfalso; apply B4 in Hx; lia].
    + constructor.
      * split; [exact Hf | right; rewrite <- H2; exact Hdc].
      * eapply Forall_impl; [|exact H6]. cbn. intros a [Ha Hb]. split; [exact Ha | right; exact Hb].
  - cbn. discriminate.
  - cbn. split; [intros _; discriminate | intros _; left; reflexivity].
  - change (callers s') with (callers s).
    eapply Forall_impl; [|exact HC]. intros a Ha.
    eapply (caller_ok_reset fx s s' c0 t a); eauto.
    cbn. eexists. reflexivity.
Qed.

(* ---------- the Run goroutine leaving its select / calling done() ---------- *)
Lemma headpc_inv : forall fx s d st p p' t,
  Inv fx s -> cycles s = mkCyc d st p :: t -> p <> Finished -> p' <> Finished ->
  Inv fx (with_cycles s (mkCyc d st p' :: t)).
Proof.
  intros fx s d st p p' t (HB & HH & HS & HST & HC) Hc Hp Hp'.
  set (s' := with_cycles s (mkCyc d st p' :: t)).
  assert (He : ext s s').
  { eapply ext_headpc with (p := p) (p' := p'); eauto; try reflexivity.
    intro; contradiction. }
  unfold head_ok in HH. rewrite Hc in HH. cbn in HH. destruct HH as (H1 & H2 & H3 & H4 & H5 & H6).
  split; [exact HB|]. split; [|split; [exact HS|split]].
  - unfold head_ok; cbn.
    split; [exact H1|]. split; [exact H2|]. split; [exact H3|]. split; [exact H4|]. split; [|exact H6].
    split; [intro; contradiction|].
    intro Hx. exfalso. apply Hp. apply H5. exact Hx.
  - cbn. split; [intros _; discriminate|]. intros _. apply HST. rewrite Hc. discriminate.
  - change (callers s') with (callers s).
    eapply Forall_impl; [|exact HC]. intros a Ha. eapply caller_ok_ext; eauto.
Qed.

Lemma done_inv : forall fx s d st t,
  Inv fx s -> cycles s = mkCyc d st Exiting :: t ->
  Inv fx (with_cycles (with_closed s (d :: closed s)) (mkCyc d st Finished :: t)).
Proof.
  intros fx s d st t (HB & HH & HS & HST & HC) Hc.
  set (s' := with_cycles _ _).
  assert (Hmono : forall x, Cl s x -> Cl s' x) by (intros x Hx; right; exact Hx).
  assert (He : ext s s').
  { eapply ext_headpc with (p := Exiting) (p' := Finished); eauto; try reflexivity. }
  unfold head_ok in HH. rewrite Hc in HH. cbn in HH. destruct HH as (H1 & H2 & H3 & H4 & H5 & H6).
  destruct HB as (B1 & B2 & B3 & B4 & B5 & B6).
  split; [|split; [|split; [|split]]].
  - unfold bounds_ok; cbn. repeat split; auto.
    intros x [Hx|Hx]; [subst; lia | apply B4; exact Hx].
  - unfold head_ok; cbn.
    split; [exact H1|]. split; [exact H2|]. split; [exact H3|]. split; [exact H4|]. split.
    + split; [intros _; left; reflexivity | intros _; reflexivity].
    + eapply Forall_impl; [|exact H6]. cbn. intros a [Ha Hb]. split; [exact Ha | right; exact Hb].
  - cbn. intro Hst. right. apply HS. exact Hst.
  - cbn. split; [intros _; discriminate|]. intros _. right. apply HST. rewrite Hc. discriminate.
  - change (callers s') with (callers s).
    eapply Forall_impl; [|exact HC]. intros a Ha. eapply caller_ok_ext; eauto.
Qed.

(* ---------- one step ---------- *)
Lemma step_inv : forall fx s l s', Inv fx s -> step fx s l = Some s' -> Inv fx s'.
Proof.
  intros fx s l s' HI Hs. pose proof HI as (HB & HH & HS & HST & HC).
  destruct l as [|k|k|k|k| | | |]; cbn [step] in Hs.
  - (* LSpawn *)
    inversion Hs; subst. apply inv_with_callers; [exact HI|].
    apply Forall_app. split; [exact HC|]. constructor; [|constructor]. reflexivity.
  - (* LSec1 *)
    destruct (nth_error (callers s) k) as [[pc g sp]|] eqn:En; [|discriminate].
    destruct pc; try discriminate. inversion Hs; subst.
    destruct (signal_inv fx s HI) as (HI1 & He & Hst1 & Hg1 & Hsc1 & Hcs1 & Hcy1).
    apply inv_with_callers; [exact HI1|].
    apply Forall_upd.
    + eapply Forall_impl; [|exact HC]. intros a Ha. eapply caller_ok_ext; eauto.
    + unfold caller_ok, tgt_sig; cbn. rewrite Hg1, Hsc1.
      repeat split; auto; intro; lia.
  - (* LWaitStarted *)
    destruct (nth_error (callers s) k) as [[pc g sp]|] eqn:En; [|discriminate].
    destruct pc as [|ch| | |]; try discriminate.
    destruct (is_closed s ch) eqn:Ecl; [|discriminate]. inversion Hs; subst.
    apply inv_with_callers; [exact HI|]. apply Forall_upd; [exact HC|].
    pose proof (Forall_nth _ _ _ _ _ HC En) as Hk. unfold caller_ok in *; cbn in *.
    destruct Hk as (Hsp & Hts & Ha & Hb). split; [exact Hsp|]. split; [exact Hts|].
    intro E. apply HST. rewrite <- (Ha E). apply is_closed_Cl. exact Ecl.
  - (* LSec2 *)
    destruct (nth_error (callers s) k) as [[pc g sp]|] eqn:En; [|discriminate].
    destruct pc; try discriminate.
    pose proof (Forall_nth _ _ _ _ _ HC En) as Hk. unfold caller_ok in Hk; cbn in Hk.
    destruct Hk as (Hsp & (Hle & Hst & Hlt) & Hne).
    destruct (gen s =? g) eqn:Eg.
    + apply Nat.eqb_eq in Eg. inversion Hs; subst.
      apply inv_with_callers; [exact HI|]. apply Forall_upd; [exact HC|].
      unfold caller_ok; cbn.
      unfold head_ok in HH. destruct (cycles s) as [|c t] eqn:Ec; [exfalso; apply Hne; reflexivity|].
      destruct HH as (H1 & H2 & H3 & H4 & H5 & H6).
      exists c. rewrite H1. split; [apply cyc_at_head|]. split; [symmetry; exact H2|].
      rewrite <- H3. apply HS. apply Hst. reflexivity.
    + apply Nat.eqb_neq in Eg.
      assert (Hg : g < gen s) by lia.
      destruct (Hlt Hg) as (cy & Hat & Hcl).
      unfold head_ok in HH. destruct (cycles s) as [|c t] eqn:Ec; [discriminate|].
      destruct HH as (H1 & H2 & H3 & H4 & H5 & H6).
      destruct fx; inversion Hs; subst; (apply inv_with_callers; [exact HI|]);
        (apply Forall_upd; [exact HC|]); unfold caller_ok; cbn.
      * exists cy. rewrite Ec. split; [exact Hat|].
        destruct (cyc_at_cons_inv _ _ _ _ Hat) as [[E _]|[_ Hat']]; [lia|].
        apply cyc_at_In in Hat'. rewrite Forall_forall in H6. apply H6. exact Hat'.
      * split; [reflexivity|]. rewrite Ec. left. symmetry. exact H2.
  - (* LWaitDone *)
    destruct (nth_error (callers s) k) as [[pc g sp]|] eqn:En; [|discriminate].
    destruct pc as [| | |d|]; try discriminate.
    destruct (is_closed s d) eqn:Ecl; [|discriminate]. inversion Hs; subst.
    apply is_closed_Cl in Ecl.
    apply inv_with_callers; [exact HI|]. apply Forall_upd; [exact HC|].
    pose proof (Forall_nth _ _ _ _ _ HC En) as Hk. unfold caller_ok in *; cbn in *.
    destruct sp; [destruct Hk; assumption|].
    destruct Hk as (cy & Hat & Hd & Hcl). exists cy. split; [exact Hat|].
    unfold head_ok in HH. destruct (cycles s) as [|c t] eqn:Ec; [discriminate|].
    destruct HH as (H1 & H2 & H3 & H4 & H5 & H6).
    destruct (cyc_at_cons_inv _ _ _ _ Hat) as [[_ E]|[_ Hat']].
    + subst cy. apply H5. rewrite Hd. exact Ecl.
    + apply cyc_at_In in Hat'. rewrite Forall_forall in H6. apply H6. exact Hat'.
  - (* LRunStart *)
    destruct (run_idle (cycles s)) eqn:Ei; [|discriminate]. inversion Hs; subst.
    unfold run_idle in Ei. destruct (cycles s) as [|c t] eqn:Ec.
    + apply started_first_inv; assumption.
    + destruct (cy_pc c) eqn:Ep; try discriminate.
      eapply started_reset_inv; eauto.
  - (* LRunSeeStop *)
    destruct (cycles s) as [|[d st p] t] eqn:Ec; [discriminate|].
    destruct p; try discriminate.
    destruct (is_closed s st); [|discriminate]. inversion Hs; subst.
    eapply headpc_inv with (p := Body); eauto; discriminate.
  - (* LRunExitOther *)
    destruct (cycles s) as [|[d st p] t] eqn:Ec; [discriminate|].
    destruct p; try discriminate. inversion Hs; subst.
    eapply headpc_inv with (p := Body); eauto; discriminate.
  - (* LDone *)
    destruct (cycles s) as [|[d st p] t] eqn:Ec; [discriminate|].
    destruct p; try discriminate. inversion Hs; subst.
    apply done_inv; assumption.
Qed.

Lemma run_inv : forall fx ls s s', Inv fx s -> run fx s ls = Some s' -> Inv fx s'.
Proof.
  induction ls as [|l ls IH]; cbn; intros s s' HI Hr.
  - inversion Hr; subst; exact HI.
  - destruct (step fx s l) as [s1|] eqn:Es; [|discriminate].
    eapply IH; [|exact Hr]. eapply step_inv; eauto.
Qed.

Theorem reachable_inv : forall fx ls s, run fx init ls = Some s -> Inv fx s.
Proof. intros fx ls s H. eapply run_inv; [apply inv_init | exact H]. Qed.
