(* C17 - soundness of the lock discipline checked by [table_ok]:
   in every reachable state of the thread/lock model (any number of threads, any programs over the
   sites of the table, any schedule) in which the site annotations are truthful, two different
   threads are never both about to perform conflicting accesses - except on explicitly excepted
   fields and explicitly listed HBVia function pairs. *)
From Coq Require Import String List Bool Arith Lia.
From GS Require Import Race.
Import ListNotations.
Open Scope string_scope.
Open Scope list_scope.

(* ------------------------------------------------------------------ lists *)

Lemma nth_set_nth_eq : forall A (l : list A) i x t,
  nth_error l i = Some t -> nth_error (set_nth l i x) i = Some x.
Proof.
  induction l as [|h r IH]; intros [|i] x t H; cbn in *; try discriminate; auto.
  eapply IH; eauto.
Qed.

Lemma nth_set_nth_neq : forall A (l : list A) i j x,
  i <> j -> nth_error (set_nth l i x) j = nth_error l j.
Proof.
  induction l as [|h r IH]; intros [|i] [|j] x H; cbn; auto; try congruence.
Qed.

Lemma nth_set_nth_inv : forall A (l : list A) i j x t',
  nth_error (set_nth l i x) j = Some t' ->
  (i = j /\ t' = x) \/ (i <> j /\ nth_error l j = Some t').
Proof.
  intros A l i j x t' H.
  destruct (Nat.eq_dec i j) as [E|N].
  - subst j. left. split; auto.
    destruct (nth_error l i) as [t|] eqn:Hl.
    + rewrite (nth_set_nth_eq _ _ _ _ _ Hl) in H. congruence.
    + exfalso. revert i H Hl. induction l as [|h r IH]; intros [|i] H Hl; cbn in *; try discriminate.
      eapply IH; eauto.
  - right. split; auto. rewrite nth_set_nth_neq in H; auto.
Qed.

Lemma in_set_nth : forall A (l : list A) i x y, In y (set_nth l i x) -> y = x \/ In y l.
Proof.
  induction l as [|h r IH]; intros [|i] x y H; cbn in *; auto.
  - destruct H; auto.
  - destruct H as [H|H]; auto. destruct (IH _ _ _ H); auto.
Qed.

Lemma flat_map_nil : forall A B (f : A -> list B) l x, flat_map f l = [] -> In x l -> f x = [].
Proof.
  induction l as [|h r IH]; intros x H Hin; cbn in *; [contradiction|].
  apply app_eq_nil in H. destruct H as [H1 H2]. destruct Hin as [->|Hin]; auto.
Qed.

(* ------------------------------------------------------------------ lock sets *)

Lemma holds_ex_any : forall h l, holds_ex h l = true -> holds_any h l = true.
Proof.
  intros h l H. unfold holds_ex, holds_any in *. rewrite existsb_exists in *.
  destruct H as [p [Hin Hp]]. exists p. split; auto. apply andb_prop in Hp. tauto.
Qed.

Lemma holds_any_cons : forall p r l, holds_any (p :: r) l = String.eqb (fst p) l || holds_any r l.
Proof. reflexivity. Qed.

Lemma holds_ex_cons : forall p r l,
  holds_ex (p :: r) l = (String.eqb (fst p) l && is_ex (snd p)) || holds_ex r l.
Proof. reflexivity. Qed.

Lemma holds_any_drop : forall l h l', holds_any (drop_lock l h) l' = true -> holds_any h l' = true.
Proof.
  induction h as [|p r IH]; intros l' H; cbn [drop_lock] in H; auto.
  rewrite holds_any_cons. destruct (String.eqb (fst p) l) eqn:E.
  - rewrite H. apply orb_true_r.
  - rewrite holds_any_cons in H. apply orb_prop in H. destruct H as [H|H]; [rewrite H; auto|].
    rewrite (IH _ H). apply orb_true_r.
Qed.

Lemma holds_ex_drop : forall l h l', holds_ex (drop_lock l h) l' = true -> holds_ex h l' = true.
Proof.
  induction h as [|p r IH]; intros l' H; cbn [drop_lock] in H; auto.
  rewrite holds_ex_cons. destruct (String.eqb (fst p) l) eqn:E.
  - rewrite H. apply orb_true_r.
  - rewrite holds_ex_cons in H. apply orb_prop in H. destruct H as [H|H]; [rewrite H; auto|].
    rewrite (IH _ H). apply orb_true_r.
Qed.

Lemma holds_any_app : forall a b l, holds_any (a ++ b) l = holds_any a l || holds_any b l.
Proof. intros. unfold holds_any. apply existsb_app. Qed.

Lemma holds_ex_app : forall a b l, holds_ex (a ++ b) l = holds_ex a l || holds_ex b l.
Proof. intros. unfold holds_ex. apply existsb_app. Qed.

(* what a lock set that covers [a] holds, given what [a] holds *)
Lemma covers_any : forall h a l, covers h a = true -> holds_any a l = true -> holds_any h l = true.
Proof.
  intros h a l Hc Ha. unfold covers in Hc. rewrite forallb_forall in Hc.
  unfold holds_any in Ha. rewrite existsb_exists in Ha. destruct Ha as [p [Hin Hp]].
  apply String.eqb_eq in Hp. specialize (Hc p Hin). unfold covers1 in Hc. rewrite Hp in Hc.
  destruct (is_ex (snd p)); auto using holds_ex_any.
Qed.

Lemma covers_ex : forall h a l, covers h a = true -> holds_ex a l = true -> holds_ex h l = true.
Proof.
  intros h a l Hc Ha. unfold covers in Hc. rewrite forallb_forall in Hc.
  unfold holds_ex in Ha. rewrite existsb_exists in Ha. destruct Ha as [p [Hin Hp]].
  apply andb_prop in Hp. destruct Hp as [Hp Hx]. apply String.eqb_eq in Hp.
  specialize (Hc p Hin). unfold covers1 in Hc. rewrite Hp, Hx in Hc. exact Hc.
Qed.

(* ------------------------------------------------------------------ the lock invariant *)

Definition lock_inv (st : state) : Prop :=
  forall i j ti tj l, i <> j -> nth_error st i = Some ti -> nth_error st j = Some tj ->
    holds_ex (held ti) l = true -> holds_any (held tj) l = false.

Lemma initial_lock_inv : forall st, initial st -> lock_inv st.
Proof.
  intros st Hi i j ti tj l _ Hti _ Hex. apply nth_error_In in Hti. rewrite (Hi _ Hti) in Hex.
  discriminate.
Qed.

Lemma step_lock_inv : forall st i st', lock_inv st -> step st i = Some st' -> lock_inv st'.
Proof.
  intros st i st' Inv Hs. unfold step in Hs.
  destruct (nth_error st i) as [t|] eqn:Ht; [|discriminate].
  destruct (prog t) as [|o k] eqn:Hp; [discriminate|].
  destruct o as [l m|l|s].
  - (* Acq *)
    destruct (can_acq st l m) eqn:Hc; [|discriminate]. inversion Hs; subst st'; clear Hs.
    intros a b ta tb l' Hab Ha Hb Hex.
    apply nth_set_nth_inv in Ha. apply nth_set_nth_inv in Hb.
    destruct Ha as [[Ea Ta]|[Na Ha]]; destruct Hb as [[Eb Tb]|[Nb Hb]]; try (subst; congruence).
    + (* the acquiring thread is the exclusive holder *)
      subst a ta. cbn [held] in Hex. rewrite holds_ex_cons in Hex. cbn [fst snd] in Hex.
      apply orb_prop in Hex. destruct Hex as [Hex|Hex].
      * apply andb_prop in Hex. destruct Hex as [El Em]. apply String.eqb_eq in El. subst l'.
        destruct m; [discriminate|]. cbn in Hc. rewrite forallb_forall in Hc.
        specialize (Hc tb (nth_error_In _ _ Hb)). destruct (holds_any (held tb) l); auto; discriminate.
      * exact (Inv i b t tb l' Hab Ht Hb Hex).
    + (* the acquiring thread is the other one *)
      subst b tb. cbn [held]. rewrite holds_any_cons. cbn [fst].
      rewrite (Inv a i ta t l' Hab Ha Ht Hex). rewrite orb_false_r.
      destruct (String.eqb l l') eqn:El; auto. apply String.eqb_eq in El. subst l'. exfalso.
      destruct m; cbn in Hc; rewrite forallb_forall in Hc; specialize (Hc ta (nth_error_In _ _ Ha)).
      * rewrite Hex in Hc. discriminate.
      * rewrite (holds_ex_any _ _ Hex) in Hc. discriminate.
    + exact (Inv a b ta tb l' Hab Ha Hb Hex).
  - (* Rel *)
    destruct (holds_any (held t) l) eqn:Hh; [|discriminate]. inversion Hs; subst st'; clear Hs.
    intros a b ta tb l' Hab Ha Hb Hex.
    apply nth_set_nth_inv in Ha. apply nth_set_nth_inv in Hb.
    destruct Ha as [[Ea Ta]|[Na Ha]]; destruct Hb as [[Eb Tb]|[Nb Hb]]; try (subst; congruence).
    + subst a ta. cbn [held] in Hex. apply holds_ex_drop in Hex. exact (Inv i b t tb l' Hab Ht Hb Hex).
    + subst b tb. cbn [held].
      destruct (holds_any (drop_lock l (held t)) l') eqn:Hd; auto.
      apply holds_any_drop in Hd. rewrite (Inv a i ta t l' Hab Ha Ht Hex) in Hd. discriminate.
    + exact (Inv a b ta tb l' Hab Ha Hb Hex).
  - (* Acc *)
    inversion Hs; subst st'; clear Hs.
    intros a b ta tb l' Hab Ha Hb Hex.
    apply nth_set_nth_inv in Ha. apply nth_set_nth_inv in Hb.
    destruct Ha as [[Ea Ta]|[Na Ha]]; destruct Hb as [[Eb Tb]|[Nb Hb]]; try (subst; congruence).
    + subst a ta. cbn [held] in Hex. exact (Inv i b t tb l' Hab Ht Hb Hex).
    + subst b tb. cbn [held]. exact (Inv a i ta t l' Hab Ha Ht Hex).
    + exact (Inv a b ta tb l' Hab Ha Hb Hex).
Qed.

Lemma run_lock_inv : forall sched st st', lock_inv st -> run st sched = Some st' -> lock_inv st'.
Proof.
  induction sched as [|i r IH]; intros st st' Inv Hr; cbn in Hr.
  - inversion Hr; subst; auto.
  - destruct (step st i) as [st1|] eqn:Hs; [|discriminate].
    eapply IH; [eapply step_lock_inv; eauto|eauto].
Qed.

(* two annotations with a common lock, one of them exclusive, cannot both be honoured by two
   different threads of a state satisfying the lock invariant *)
Lemma common_lock_excl : forall st i j ti tj a1 a2,
  lock_inv st -> i <> j -> nth_error st i = Some ti -> nth_error st j = Some tj ->
  covers (held ti) a1 = true -> covers (held tj) a2 = true -> common_lock a1 a2 = true -> False.
Proof.
  intros st i j ti tj a1 a2 Inv Hij Hi Hj C1 C2 Hc.
  unfold common_lock in Hc. rewrite existsb_exists in Hc. destruct Hc as [p [Hin Hp]].
  assert (Hp1 : covers1 (held ti) p = true).
  { unfold covers in C1. rewrite forallb_forall in C1. auto. }
  unfold covers1 in Hp1. apply orb_prop in Hp. destruct Hp as [Hp|Hp].
  - apply andb_prop in Hp. destruct Hp as [Hx Ha]. rewrite Hx in Hp1.
    pose proof (covers_any _ _ _ C2 Ha) as H2.
    rewrite (Inv i j ti tj (fst p) Hij Hi Hj Hp1) in H2. discriminate.
  - pose proof (covers_ex _ _ _ C2 Hp) as H2.
    assert (H1 : holds_any (held ti) (fst p) = true).
    { destruct (is_ex (snd p)); auto using holds_ex_any. }
    assert (Hji : j <> i) by congruence.
    rewrite (Inv j i tj ti (fst p) Hji Hj Hi H2) in H1. discriminate.
Qed.

(* ------------------------------------------------------------------ what table_ok gives *)

Lemma fkey_eqb_eq : forall a b, fkey_eqb a b = true -> a = b.
Proof.
  intros [a1 a2] [b1 b2] H. unfold fkey_eqb in H. cbn in H. apply andb_prop in H.
  destruct H as [H1 H2]. apply String.eqb_eq in H1. apply String.eqb_eq in H2. congruence.
Qed.

Lemma same_field_key : forall a b, same_field a b = true -> site_key a = site_key b.
Proof.
  intros a b H. unfold same_field in H. apply andb_prop in H. destruct H as [H1 H2].
  apply String.eqb_eq in H1. apply String.eqb_eq in H2. unfold site_key. congruence.
Qed.

Lemma same_field_sym : forall a b, same_field a b = same_field b a.
Proof. intros. unfold same_field. rewrite (String.eqb_sym (s_struct a)), (String.eqb_sym (s_field a)). auto. Qed.

Lemma conflict_sym : forall a b, conflict a b = conflict b a.
Proof.
  intros. unfold conflict. rewrite same_field_sym, (orb_comm (is_wr a)).
  destruct (same_field b a), (is_wr b || is_wr a), (is_pre a), (is_pre b); auto.
Qed.

Lemma pair_listed_sym : forall tbl ps a b, pair_listed tbl ps a b = pair_listed tbl ps b a.
Proof.
  intros. unfold pair_listed. induction ps as [|p r IH]; cbn; auto. rewrite IH. f_equal. apply orb_comm.
Qed.

Lemma conflict_parts : forall a b, conflict a b = true ->
  same_field a b = true /\ (is_wr a = true \/ is_wr b = true) /\ is_pre a = false /\ is_pre b = false.
Proof.
  intros a b H. unfold conflict in H.
  destruct (same_field a b), (is_wr a), (is_wr b), (is_pre a), (is_pre b); cbn in H; try discriminate; auto.
Qed.

Lemma ex_in_any : forall a b l, holds_ex a l = true -> holds_any b l = true -> common_lock a b = true.
Proof.
  intros a b l Ha Hb. unfold common_lock. rewrite existsb_exists.
  unfold holds_ex in Ha. rewrite existsb_exists in Ha. destruct Ha as [p [Hin Hp]].
  apply andb_prop in Hp. destruct Hp as [Hp Hx]. apply String.eqb_eq in Hp.
  exists p. split; auto. rewrite Hx, Hp, Hb. auto.
Qed.

(* per-site consequences of an accepted site *)
Lemma sc_guarded_wr : forall tbl l s,
  site_check tbl (GuardedBy l) s = None -> is_pre s = false -> is_wr s = true ->
  holds_ex (eff_locks tbl s) l = true.
Proof.
  intros tbl l s H Hp Hw. unfold site_check in H. rewrite Hp in H. unfold is_wr in Hw.
  destruct (s_kind s); try discriminate.
  destruct (covers (eff_locks tbl s) [(l, Ex)]) eqn:C; [|discriminate].
  cbn in C. rewrite andb_true_r in C. exact C.
Qed.

Lemma sc_guarded_any : forall tbl l s,
  site_check tbl (GuardedBy l) s = None -> is_pre s = false ->
  holds_any (eff_locks tbl s) l = true.
Proof.
  intros tbl l s H Hp. unfold site_check in H. rewrite Hp in H.
  destruct (s_kind s).
  - destruct (covers (eff_locks tbl s) [(l, Sh)]) eqn:C; [|discriminate].
    cbn in C. rewrite andb_true_r in C. exact C.
  - destruct (covers (eff_locks tbl s) [(l, Ex)]) eqn:C; [|discriminate].
    cbn in C. rewrite andb_true_r in C. apply holds_ex_any. exact C.
  - destruct (covers (eff_locks tbl s) [(l, Sh)]) eqn:C; [|discriminate].
    cbn in C. rewrite andb_true_r in C. exact C.
Qed.

Lemma sc_mono_wr : forall tbl l s,
  site_check tbl (GuardedMono l) s = None -> is_pre s = false -> is_wr s = true ->
  holds_ex (eff_locks tbl s) l = true.
Proof.
  intros tbl l s H Hp Hw. unfold site_check in H. rewrite Hp in H. unfold is_wr in Hw.
  destruct (s_kind s); try discriminate.
  destruct (covers (eff_locks tbl s) [(l, Ex)]) eqn:C; [|discriminate].
  cbn in C. rewrite andb_true_r in C. exact C.
Qed.

Lemma sc_mono_any : forall tbl l s,
  site_check tbl (GuardedMono l) s = None -> is_pre s = false ->
  holds_any (eff_locks tbl s) l = true.
Proof.
  intros tbl l s H Hp. unfold site_check in H. rewrite Hp in H.
  destruct (s_kind s).
  - destruct (covers (eff_locks tbl s) [(l, Sh)]) eqn:C; [|discriminate].
    cbn in C. rewrite andb_true_r in C. exact C.
  - destruct (covers (eff_locks tbl s) [(l, Ex)]) eqn:C; [|discriminate].
    cbn in C. rewrite andb_true_r in C. apply holds_ex_any. exact C.
  - destruct (covers (eff_locks tbl s) [(l, Sh)]) eqn:C; [|discriminate].
    cbn in C. rewrite andb_true_r in C. exact C.
Qed.

Lemma sc_no_write : forall tbl p s,
  (p = SyncTyped \/ p = CtorOnly \/ p = Immutable) ->
  site_check tbl p s = None -> is_pre s = false -> is_wr s = false.
Proof.
  intros tbl p s Hp H Hpre. unfold site_check in H. rewrite Hpre in H. unfold is_wr.
  destruct Hp as [->|[->| ->]]; destruct (s_kind s); auto; discriminate.
Qed.

Lemma failures_parts : forall pol exc tbl, table_ok pol exc tbl = true ->
  field_failures pol exc tbl = [] /\ site_failures pol exc tbl = [] /\ pair_failures pol exc tbl = [] /\
  entry_failures tbl = [] /\ opt_failures tbl = [].
Proof.
  intros pol exc tbl H. unfold table_ok, failures in H.
  destruct (field_failures pol exc tbl ++ site_failures pol exc tbl ++ pair_failures pol exc tbl ++
            entry_failures tbl ++ opt_failures tbl ++ unlock_failures tbl ++ cond_entry_failures tbl) eqn:E; [|discriminate].
  apply app_eq_nil in E. destruct E as [E1 E]. apply app_eq_nil in E. destruct E as [E2 E].
  apply app_eq_nil in E. destruct E as [E3 E]. apply app_eq_nil in E. destruct E as [E4 E5].
  apply app_eq_nil in E5. destruct E5 as [E5 _]. auto.
Qed.

Lemma site_accepted : forall pol exc tbl s,
  site_failures pol exc tbl = [] -> In s (t_sites tbl) -> in_keys exc (site_key s) = false ->
  exists p, lookup pol (site_key s) = Some p /\ site_check tbl p s = None.
Proof.
  intros pol exc tbl s H Hin Hex. unfold site_failures in H.
  pose proof (flat_map_nil _ _ _ _ _ H Hin) as Hs. cbn beta in Hs. rewrite Hex in Hs.
  destruct (lookup pol (site_key s)) as [p|]; [|discriminate].
  exists p. split; auto. destruct (site_check tbl p s); auto; discriminate.
Qed.

(* the heart of the static side: an accepted table protects every conflicting pair that is
   not excused *)
Lemma table_ok_conflict : forall pol exc tbl a b,
  table_ok pol exc tbl = true -> In a (t_sites tbl) -> In b (t_sites tbl) ->
  conflict a b = true -> excused pol exc tbl a b = false ->
  common_lock (eff_locks tbl a) (eff_locks tbl b) = true \/
  common_lock (eff_locks tbl b) (eff_locks tbl a) = true.
Proof.
  intros pol exc tbl a b Hok Ha Hb Hc Hx.
  destruct (failures_parts _ _ _ Hok) as [_ [Hsf [Hpf _]]].
  destruct (conflict_parts _ _ Hc) as [Hsame [Hwr [Hpa Hpb]]].
  pose proof (same_field_key _ _ Hsame) as Hk.
  unfold excused in Hx. apply orb_false_elim in Hx. destruct Hx as [Hxa Hxl].
  assert (Hxb : in_keys exc (site_key b) = false) by (rewrite <- Hk; auto).
  destruct (site_accepted _ _ _ _ Hsf Ha Hxa) as [p [Hl Hca]].
  destruct (site_accepted _ _ _ _ Hsf Hb Hxb) as [p' [Hl' Hcb]].
  rewrite <- Hk, Hl in Hl'. inversion Hl'; subst p'; clear Hl'.
  rewrite Hl in Hxl.
  destruct p as [l|l| | | |n ps].
  - (* GuardedBy *)
    destruct Hwr as [Hw|Hw].
    + left. eapply ex_in_any; [eapply sc_guarded_wr|eapply sc_guarded_any]; eauto.
    + right. eapply ex_in_any; [eapply sc_guarded_wr|eapply sc_guarded_any]; eauto.
  - (* GuardedMono *)
    destruct Hwr as [Hw|Hw].
    + left. eapply ex_in_any; [eapply sc_mono_wr|eapply sc_mono_any]; eauto.
    + right. eapply ex_in_any; [eapply sc_mono_wr|eapply sc_mono_any]; eauto.
  - exfalso. destruct Hwr as [Hw|Hw];
      [rewrite (sc_no_write tbl SyncTyped a) in Hw|rewrite (sc_no_write tbl SyncTyped b) in Hw]; auto; discriminate.
  - exfalso. destruct Hwr as [Hw|Hw];
      [rewrite (sc_no_write tbl CtorOnly a) in Hw|rewrite (sc_no_write tbl CtorOnly b) in Hw]; auto; discriminate.
  - exfalso. destruct Hwr as [Hw|Hw];
      [rewrite (sc_no_write tbl Immutable a) in Hw|rewrite (sc_no_write tbl Immutable b) in Hw]; auto; discriminate.
  - (* HBVia *)
    unfold pair_failures in Hpf.
    destruct Hwr as [Hw|Hw].
    + pose proof (flat_map_nil _ _ _ _ _ Hpf Ha) as H1. cbn beta in H1. rewrite Hxa, Hl in H1.
      pose proof (flat_map_nil _ _ _ _ _ H1 Hb) as H2. cbn beta in H2.
      rewrite Hc, Hw, Hxl in H2. cbn in H2.
      destruct (common_lock (eff_locks tbl a) (eff_locks tbl b)); auto. discriminate.
    + pose proof (flat_map_nil _ _ _ _ _ Hpf Hb) as H1. cbn beta in H1.
      rewrite Hxb, <- Hk, Hl in H1.
      pose proof (flat_map_nil _ _ _ _ _ H1 Ha) as H2. cbn beta in H2.
      rewrite conflict_sym, Hc, Hw, pair_listed_sym, Hxl in H2. cbn in H2.
      destruct (common_lock (eff_locks tbl b) (eff_locks tbl a)); auto. discriminate.
Qed.

(* ------------------------------------------------------------------ programs stay inside the table *)

Definition progs_in (tbl : access_table) (st : state) : Prop :=
  forall t, In t st -> incl (prog_sites (prog t)) (t_sites tbl).

Lemma prog_sites_tail : forall o k, incl (prog_sites k) (prog_sites (o :: k)).
Proof. intros [l m|l|s] k x H; cbn; auto. Qed.

Lemma step_progs_in : forall tbl st i st', progs_in tbl st -> step st i = Some st' -> progs_in tbl st'.
Proof.
  intros tbl st i st' Hp Hs. unfold step in Hs.
  destruct (nth_error st i) as [t|] eqn:Ht; [|discriminate].
  pose proof (Hp t (nth_error_In _ _ Ht)) as Hpt.
  destruct (prog t) as [|o k] eqn:Hpr; [discriminate|].
  assert (Hk : incl (prog_sites k) (t_sites tbl)).
  { intros x Hx. apply Hpt. eapply prog_sites_tail; eauto. }
  destruct o as [l m|l|s];
    [destruct (can_acq st l m); [|discriminate]|destruct (holds_any (held t) l); [|discriminate]|];
    inversion Hs; subst st'; clear Hs; intros t' Hin; apply in_set_nth in Hin;
    (destruct Hin as [->|Hin]; [cbn [prog]; exact Hk|auto]).
Qed.

Lemma run_progs_in : forall tbl sched st st', progs_in tbl st -> run st sched = Some st' -> progs_in tbl st'.
Proof.
  induction sched as [|i r IH]; intros st st' Hp Hr; cbn in Hr.
  - inversion Hr; subst; auto.
  - destruct (step st i) as [st1|] eqn:Hs; [|discriminate].
    eapply IH; [eapply step_progs_in; eauto|eauto].
Qed.

Lemma next_acc_in : forall t s, next_acc t = Some s -> In s (prog_sites (prog t)).
Proof.
  intros t s H. unfold next_acc in H. destruct (prog t) as [|[l m|l|s'] k]; try discriminate.
  inversion H; subst. cbn. auto.
Qed.

(* ------------------------------------------------------------------ main theorem *)

Theorem discipline_sound : forall pol exc tbl init sched st,
  table_ok pol exc tbl = true ->
  initial init ->
  progs_in tbl init ->
  run init sched = Some st ->
  truthful (eff_locks tbl) st ->
  forall i j ti tj s1 s2,
    i <> j -> nth_error st i = Some ti -> nth_error st j = Some tj ->
    next_acc ti = Some s1 -> next_acc tj = Some s2 ->
    conflict s1 s2 = true ->
    excused pol exc tbl s1 s2 = true.
Proof.
  intros pol exc tbl init sched st Hok Hinit Hprogs Hrun Htr i j ti tj s1 s2 Hij Hi Hj N1 N2 Hc.
  destruct (excused pol exc tbl s1 s2) eqn:Hx; auto. exfalso.
  pose proof (run_lock_inv _ _ _ (initial_lock_inv _ Hinit) Hrun) as Inv.
  pose proof (run_progs_in _ _ _ _ Hprogs Hrun) as Hp.
  assert (In1 : In s1 (t_sites tbl)).
  { apply (Hp ti (nth_error_In _ _ Hi)). apply next_acc_in; auto. }
  assert (In2 : In s2 (t_sites tbl)).
  { apply (Hp tj (nth_error_In _ _ Hj)). apply next_acc_in; auto. }
  pose proof (Htr i ti s1 Hi N1) as C1. pose proof (Htr j tj s2 Hj N2) as C2.
  destruct (table_ok_conflict _ _ _ _ _ Hok In1 In2 Hc Hx) as [H|H].
  - eapply (common_lock_excl st i j); eauto.
  - eapply (common_lock_excl st j i); eauto.
Qed.

(* what "excused" can mean when there are no exceptions: a listed HBVia pair of that field *)
Lemma lookup_in : forall pol k p, lookup pol k = Some p -> In (k, p) pol.
Proof.
  induction pol as [|[k' v] r IH]; intros k p H; cbn in H; [discriminate|].
  destruct (fkey_eqb k' k) eqn:E.
  - inversion H; subst. apply fkey_eqb_eq in E. subst. left; auto.
  - right; auto.
Qed.

Lemma excused_cases : forall pol exc tbl a b, excused pol exc tbl a b = true ->
  in_keys exc (site_key a) = true \/
  exists n ps, In (site_key a, HBVia n ps) pol /\ pair_listed tbl ps a b = true.
Proof.
  intros pol exc tbl a b H. unfold excused in H. apply orb_prop in H. destruct H as [H|H]; auto.
  right. destruct (lookup pol (site_key a)) as [p|] eqn:L; [|discriminate].
  destruct p; try discriminate. eauto using lookup_in.
Qed.

(* mutual exclusion holds in every reachable state (the lock semantics are respected) *)
Theorem reachable_lock_inv : forall init sched st,
  initial init -> run init sched = Some st -> lock_inv st.
Proof. intros. eapply run_lock_inv; eauto using initial_lock_inv. Qed.

(* ------------------------------------------------------------------ a static sufficient condition *)

Definition progs_checked (ann : site -> lockset) (st : state) : Prop :=
  forall t, In t st -> check_prog ann (held t) (prog t) = true.

Lemma step_checked : forall ann st i st', progs_checked ann st -> step st i = Some st' -> progs_checked ann st'.
Proof.
  intros ann st i st' Hp Hs. unfold step in Hs.
  destruct (nth_error st i) as [t|] eqn:Ht; [|discriminate].
  pose proof (Hp t (nth_error_In _ _ Ht)) as Hpt.
  destruct (prog t) as [|o k] eqn:Hpr; [discriminate|].
  destruct o as [l m|l|s]; cbn [check_prog] in Hpt.
  - destruct (can_acq st l m); [|discriminate]. inversion Hs; subst st'.
    intros t' Hin. apply in_set_nth in Hin. destruct Hin as [->|Hin]; auto.
  - destruct (holds_any (held t) l); [|discriminate]. inversion Hs; subst st'.
    intros t' Hin. apply in_set_nth in Hin. destruct Hin as [->|Hin]; auto.
  - apply andb_prop in Hpt. destruct Hpt as [_ Hk]. inversion Hs; subst st'.
    intros t' Hin. apply in_set_nth in Hin. destruct Hin as [->|Hin]; auto.
Qed.

Lemma static_truthful : forall ann sched st st',
  progs_checked ann st -> run st sched = Some st' -> truthful ann st'.
Proof.
  induction sched as [|i r IH]; intros st st' Hp Hr; cbn in Hr.
  - inversion Hr; subst st'. intros k t s Hk Hn.
    pose proof (Hp t (nth_error_In _ _ Hk)) as Hc. unfold next_acc in Hn.
    destruct (prog t) as [|[l m|l|s'] q]; try discriminate. inversion Hn; subst s'.
    cbn [check_prog] in Hc. apply andb_prop in Hc. tauto.
  - destruct (step st i) as [st1|] eqn:Hs; [|discriminate].
    eapply IH; [eapply step_checked; eauto|eauto].
Qed.

(* initial threads hold nothing, so the static check starts from the empty lock set *)
Theorem discipline_sound_static : forall pol exc tbl init sched st,
  table_ok pol exc tbl = true ->
  initial init ->
  progs_in tbl init ->
  (forall t, In t init -> check_prog (eff_locks tbl) [] (prog t) = true) ->
  run init sched = Some st ->
  forall i j ti tj s1 s2,
    i <> j -> nth_error st i = Some ti -> nth_error st j = Some tj ->
    next_acc ti = Some s1 -> next_acc tj = Some s2 ->
    conflict s1 s2 = true ->
    excused pol exc tbl s1 s2 = true.
Proof.
  intros pol exc tbl init sched st Hok Hinit Hprogs Hchk Hrun.
  eapply discipline_sound; eauto.
  eapply static_truthful; [|eauto].
  intros t Hin. rewrite (Hinit t Hin). auto.
Qed.
