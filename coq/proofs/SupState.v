(* C06: at quiescence the state map shows the true state of every Stateable runnable. *)
From Coq Require Import List NArith Bool Arith Lia.
From GS Require Import LTS Supervisor SupAccept SupProps SupInv SupStop SupTrig SupGate SupOnce SupReload.
Import ListNotations.

Definition pend (s : state) (i : nat) : list st := get [] (mq s) i.
Definition smap_at (s : state) (i : nat) : option st := get None (smap s) i.

Definition subscribed (p : mon_pc) : Prop :=
  match p with MoFirst | MoLoop _ | MoBcast _ => True | _ => False end.
Definition loop_last (p : mon_pc) : option (option st) :=
  match p with MoLoop l | MoBcast l => Some l | _ => None end.

(* the per-runnable relation between monitor, pending values, cached value and true state *)
Record P (m : mon_pc) (q : list st) (v : option st) (cu : st) : Prop := {
  p_last : subscribed m -> q <> [] -> last q 0 = cu;
  p_first : m = MoFirst -> q <> [];
  p_caught : forall a, loop_last m = Some (Some a) -> q = [] -> a = cu;
  p_cache : forall a x, loop_last m = Some (Some a) -> v = Some x -> x = a \/ In x q;
  p_none : forall x, loop_last m = Some None -> q = [] -> v = Some x -> x = cu;
}.

Lemma last_in {A} (l : list A) d : l <> [] -> In (last l d) l.
Proof.
  induction l as [|x l IH]; [congruence|]. intros _. destruct l as [|y l]; [now left|].
  right. apply IH. discriminate.
Qed.

Lemma last_snoc {A} (l : list A) x d : last (l ++ [x]) d = x.
Proof. apply last_last. Qed.

(* somebody else stores the current true state *)
Lemma P_store m q v cu : P m q v cu -> P m q (Some cu) cu.
Proof.
  intros [A B C D E]. constructor; auto.
  - intros a x Hl Hx. injection Hx as <-. destruct q as [|y q].
    + left. symmetry. now apply C.
    + right. rewrite <- (A ltac:(destruct m; try discriminate Hl; exact Logic.I) ltac:(discriminate)).
      apply last_in. discriminate.
  - intros x _ _ Hx. now injection Hx as <-.
Qed.

Lemma P_emit_sub m q v cu y : P m q v cu -> subscribed m -> P m (q ++ [y]) v y.
Proof.
  intros [A B C D E] S. constructor.
  - intros _ _. apply last_snoc.
  - intros _. destruct q; discriminate.
  - intros a _ H. destruct q; discriminate H.
  - intros a x Hl Hx. destruct (D a x Hl Hx) as [->|H]; [now left|right; apply in_or_app; now left].
  - intros x _ H. destruct q; discriminate H.
Qed.

Lemma P_emit_unsub m q v cu y : P m q v cu -> ~ subscribed m -> P m q v y.
Proof.
  intros _ S. constructor; intros; exfalso; apply S; destruct m; try discriminate; try exact Logic.I;
    try contradiction; try congruence.
Qed.

Lemma P_sub v cu : P MoFirst [cu] v cu.
Proof. constructor; try discriminate; auto. Qed.

Lemma P_consume_tail m q v0 v cu m' v' :
  P m (v0 :: q) v cu -> subscribed m -> subscribed m' ->
  (* obligations about the new monitor state *)
  (m' <> MoFirst) ->
  (forall a, loop_last m' = Some (Some a) -> (q = [] -> a = v0) /\
             (forall x, v' = Some x -> x = a \/ In x q)) ->
  (forall x, loop_last m' = Some None -> q = [] -> v' = Some x -> x = v0) ->
  P m' q v' cu.
Proof.
  intros [A B C D E] S S' NF HL HN.
  assert (Hcu : q = [] -> v0 = cu) by (intros ->; apply (A S); discriminate).
  constructor.
  - intros _ Hq. rewrite <- (A S ltac:(discriminate)). destruct q; [congruence|reflexivity].
  - intros X; contradiction.
  - intros a Hl Hq. destruct (HL a Hl) as [X _]. rewrite (X Hq). auto.
  - intros a x Hl Hx. destruct (HL a Hl) as [_ X]. auto.
  - intros x Hl Hq Hx. rewrite (HN x Hl Hq Hx). auto.
Qed.

(* startRunnable has stored the runnable's initial state (it does so before calling Run) *)
Definition stored (p : rn_pc) : Prop :=
  match p with RnStored | RnRunning | RnSending _ | RnDone => True | _ => False end.
Lemma ran_stored p : ran p -> stored p.
Proof. destruct p; cbn; auto. Qed.

Definition allP (s : state) : Prop :=
  forall i, P (mon_at s i) (pend s i) (smap_at s i) (cur_at s i).

Record InvMon (c : config) (s : state) : Prop := {
  im_len : length (mq s) = nrun c /\ length (mon s) = nrun c /\ length (smap s) = nrun c /\
           length (cur s) = nrun c;
  im_P : allP s;
  im_done : forall i, mon_at s i = MoDone -> ctx_done s = true;
  im_entry : forall i, i < nrun c -> stateable (spec c i) = true -> stored (rn_at s i) -> smap_at s i <> None;
}.

Lemma get_upd_eq {A} (d : A) l i x j :
  get d (upd l i x) j = if Nat.eqb i j && Nat.ltb i (length l) then x else get d l j.
Proof.
  destruct (Nat.eqb i j) eqn:E.
  - apply Nat.eqb_eq in E; subst j. destruct (Nat.ltb i (length l)) eqn:L; cbn [andb].
    + apply Nat.ltb_lt in L. now apply get_upd_same.
    + apply Nat.ltb_ge in L. unfold get. rewrite !nth_overflow; auto. now rewrite upd_length.
  - apply Nat.eqb_neq in E. cbn [andb]. now apply get_upd_other.
Qed.

(* pointwise update at one index *)
Lemma allP_upd s s' i0 :
  allP s ->
  (forall j, j <> i0 -> mon_at s' j = mon_at s j /\ pend s' j = pend s j /\
                        smap_at s' j = smap_at s j /\ cur_at s' j = cur_at s j) ->
  P (mon_at s' i0) (pend s' i0) (smap_at s' i0) (cur_at s' i0) ->
  allP s'.
Proof.
  intros H Hj Hi j. destruct (Nat.eq_dec j i0) as [->|N]; [exact Hi|].
  destruct (Hj j N) as (-> & -> & -> & ->). apply H.
Qed.

Lemma nth_repeat_d {A} (d x : A) n i : nth i (repeat x n) d = x \/ nth i (repeat x n) d = d.
Proof. revert i; induction n as [|n IH]; intros [|i]; cbn; auto. Qed.

(* the monitors as Run() creates them *)
Definition fresh_mon (c : config) : list mon_pc := map (fun r => if stateable r then MoNot else MoAbsent) (specs c).

Lemma fresh_mon_cases c i : get MoAbsent (fresh_mon c) i = MoNot \/ get MoAbsent (fresh_mon c) i = MoAbsent.
Proof.
  unfold fresh_mon, get. generalize i. induction (specs c) as [|r l IH]; intros [|k]; cbn; auto.
  destruct (stateable r); auto.
Qed.

Lemma fresh_mon_absent c i : i < nrun c -> get MoAbsent (fresh_mon c) i = MoAbsent -> stateable (spec c i) = false.
Proof.
  unfold fresh_mon, get, spec, nrun. revert i. induction (specs c) as [|r l IH]; intros [|k] L; cbn in *; try lia.
  - destruct (stateable r); [discriminate|reflexivity].
  - intros H. apply IH; [lia|exact H].
Qed.

Lemma init_mon c i : mon_at (init c) i = MoAbsent.
Proof. unfold mon_at. cbn. now apply get_map_const. Qed.

Lemma InvMon_init c : InvMon c (init c).
Proof.
  constructor.
  - cbn. rewrite !repeat_length, !map_length. auto.
  - intros i. assert (Hq : pend (init c) i = []).
    { unfold pend, get. cbn. destruct (nth_repeat_d (@nil st) [] (nrun c) i); auto. }
    rewrite Hq, (init_mon c i). constructor; try (intros; congruence); try discriminate;
      intros H; contradiction.
  - intros i H. rewrite (init_mon c i) in H. discriminate H.
  - intros i L _ H. exfalso. unfold rn_at, get in H. cbn in H.
    rewrite nth_repeat_lt' in H by exact L. exact H.
Qed.

(* ---- preservation ---- *)

Lemma InvMon_frame c s s' :
  InvMon c s -> mon s' = mon s -> mq s' = mq s -> smap s' = smap s -> cur s' = cur s ->
  (ctx_done s = true -> ctx_done s' = true) ->
  (forall i, i < nrun c -> stateable (spec c i) = true -> stored (rn_at s' i) -> stored (rn_at s i)) ->
  InvMon c s'.
Proof.
  intros [L Hp Hd He] Em Eq Es Ec Hc Hr. constructor.
  - now rewrite Em, Eq, Es, Ec.
  - intros i. unfold mon_at, pend, smap_at, cur_at. rewrite Em, Eq, Es, Ec. apply Hp.
  - intros i H. unfold mon_at in H. rewrite Em in H. apply Hc, (Hd i H).
  - intros i Li Hs H. unfold smap_at. rewrite Es. apply (He i Li Hs). now apply Hr.
Qed.

(* one runnable's tuple changes *)
Lemma InvMon_point c s s' i0 :
  InvMon c s ->
  length (mq s') = length (mq s) -> length (mon s') = length (mon s) ->
  length (smap s') = length (smap s) -> length (cur s') = length (cur s) ->
  (forall j, j <> i0 -> mon_at s' j = mon_at s j /\ pend s' j = pend s j /\
                        smap_at s' j = smap_at s j /\ cur_at s' j = cur_at s j) ->
  P (mon_at s' i0) (pend s' i0) (smap_at s' i0) (cur_at s' i0) ->
  (ctx_done s = true -> ctx_done s' = true) ->
  (mon_at s' i0 = MoDone -> ctx_done s' = true) ->
  (mon_at s' i0 = MoAbsent -> mon_at s i0 = MoAbsent) ->
  (forall i, i < nrun c -> stateable (spec c i) = true -> stored (rn_at s' i) ->
             stored (rn_at s i) \/ (i = i0 /\ smap_at s' i0 <> None)) ->
  (smap_at s i0 <> None -> smap_at s' i0 <> None) ->
  InvMon c s'.
Proof.
  intros [L Hp Hd He] L1 L2 L3 L4 Hj Hi Hc Hd' Ha' Hr Hs. constructor.
  - rewrite L1, L2, L3, L4. exact L.
  - eapply allP_upd; eauto.
  - intros i H. destruct (Nat.eq_dec i i0) as [->|N]; [auto|].
    destruct (Hj i N) as (E & _). rewrite E in H. apply Hc, (Hd i H).
  - intros i Li Hst H. destruct (Hr i Li Hst H) as [H'|[-> H']]; [|exact H'].
    destruct (Nat.eq_dec i i0) as [->|N]; [apply Hs, (He _ Li Hst H')|].
    destruct (Hj i N) as (_ & _ & E & _). rewrite E. now apply He.
Qed.

Lemma ran_upd_keep (l : list rn_pc) i p j :
  stored p -> stored (get RnDone (upd l i p) j) -> get RnDone l i <> RnNot -> stored (get RnDone l j) \/ i = j.
Proof.
  intros Hp H _. destruct (Nat.eq_dec i j) as [->|N]; [now right|left]. now rewrite get_upd_other in H.
Qed.

Lemma ran_mono_upd (s : state) i p :
  (stored p -> stored (rn_at s i)) -> forall j, stored (get RnDone (upd (rn s) i p) j) -> stored (rn_at s j).
Proof.
  intros Hp j H. unfold rn_at. destruct (Nat.eq_dec i j) as [->|N].
  - destruct (Nat.lt_ge_cases j (length (rn s))) as [L|L].
    + rewrite get_upd_same in H by exact L. now apply Hp.
    + unfold get in *. rewrite nth_overflow in H by (now rewrite upd_length). now rewrite nth_overflow.
  - now rewrite get_upd_other in H.
Qed.

Lemma stateable_lt c i : stateable (spec c i) = true -> i < nrun c.
Proof.
  unfold spec, nrun. intros H. destruct (Nat.lt_ge_cases i (length (specs c))) as [L|L]; [exact L|].
  rewrite nth_overflow in H by exact L. discriminate H.
Qed.

(* somebody stores the current state of runnable i into the map *)
Lemma L_store c s s' i :
  InvMon c s -> i < nrun c ->
  mon s' = mon s -> mq s' = mq s -> cur s' = cur s -> smap s' = upd (smap s) i (Some (cur_at s i)) ->
  (ctx_done s = true -> ctx_done s' = true) ->
  (forall j, stored (rn_at s' j) -> stored (rn_at s j) \/ j = i) ->
  InvMon c s'.
Proof.
  intros I Li Em Eq Ec Es Hc Hr. pose proof (im_len _ _ I) as (L1 & L2 & L3 & L4).
  assert (Hsame : smap_at s' i = Some (cur_at s i)).
  { unfold smap_at. rewrite Es. apply get_upd_same. now rewrite L3. }
  eapply (InvMon_point c s s' i I).
  - now rewrite Eq.
  - now rewrite Em.
  - now rewrite Es, upd_length.
  - now rewrite Ec.
  - intros j N. unfold mon_at, pend, smap_at, cur_at. rewrite Em, Eq, Ec, Es.
    rewrite get_upd_other by congruence. auto.
  - rewrite Hsame. unfold mon_at, pend, cur_at. rewrite Em, Eq, Ec. apply P_store with (v := smap_at s i). apply (im_P _ _ I).
  - exact Hc.
  - unfold mon_at. rewrite Em. intros H. apply Hc, (im_done _ _ I i H).
  - unfold mon_at. now rewrite Em.
  - intros j _ _ H. destruct (Hr j H) as [H'|E]; [now left|right]. subst j. split; [reflexivity|]. rewrite Hsame. discriminate.
  - intros _. rewrite Hsame. discriminate.
Qed.

(* the tuple of runnable i changes in mon / mq / smap (not cur) *)
Lemma L_tuple c s s' i m' q' v' :
  InvMon c s -> i < nrun c ->
  mon s' = upd (mon s) i m' -> mq s' = upd (mq s) i q' -> smap s' = upd (smap s) i v' -> cur s' = cur s ->
  rn s' = rn s -> ctx_done s' = ctx_done s ->
  P m' q' v' (cur_at s i) ->
  (m' <> MoDone) -> (m' <> MoAbsent) -> (smap_at s i <> None -> v' <> None) ->
  InvMon c s'.
Proof.
  intros I Li Em Eq Es Ec Er Ex HP Hd Ha Hv. pose proof (im_len _ _ I) as (L1 & L2 & L3 & L4).
  eapply (InvMon_point c s s' i I).
  - now rewrite Eq, upd_length.
  - now rewrite Em, upd_length.
  - now rewrite Es, upd_length.
  - now rewrite Ec.
  - intros j N. unfold mon_at, pend, smap_at, cur_at. rewrite Em, Eq, Ec, Es.
    rewrite !get_upd_other by congruence. auto.
  - unfold mon_at, pend, smap_at, cur_at. rewrite Em, Eq, Ec, Es.
    rewrite !get_upd_same by (rewrite ?L1, ?L2, ?L3; exact Li). exact HP.
  - now rewrite Ex.
  - unfold mon_at. rewrite Em, get_upd_same by (rewrite L2; exact Li). intros H; contradiction.
  - unfold mon_at. rewrite Em, get_upd_same by (rewrite L2; exact Li). intros H; contradiction.
  - intros j _ _ H. left. unfold rn_at in *. now rewrite Er in H.
  - unfold smap_at. rewrite Es, get_upd_same by (rewrite L3; exact Li). exact Hv.
Qed.

Lemma get_nondefault_lt {A} (d : A) l i : get d l i <> d -> i < length l.
Proof.
  intros H. destruct (Nat.lt_ge_cases i (length l)) as [L|L]; [exact L|].
  exfalso. apply H. unfold get. now apply nth_overflow.
Qed.

Lemma upd_same {A} (d : A) l i : upd l i (get d l i) = l.
Proof.
  unfold get. revert i; induction l as [|x l IH]; intros [|i]; cbn; auto. now rewrite IH.
Qed.

(* generalisation of L_tuple: any of mon / mq / smap may be left as it is *)
Lemma L_tuple' c s s' i m' q' v' :
  InvMon c s -> i < nrun c ->
  mon s' = upd (mon s) i m' -> mq s' = upd (mq s) i q' -> smap s' = upd (smap s) i v' -> cur s' = cur s ->
  rn s' = rn s -> ctx_done s' = ctx_done s ->
  P m' q' v' (cur_at s i) ->
  (m' <> MoDone) -> (m' <> MoAbsent) -> (smap_at s i <> None -> v' <> None) ->
  InvMon c s'.
Proof. apply L_tuple. Qed.

(* one monitor leaves on ctx.Done *)
Lemma L_mon_exit c s i :
  InvMon c s -> mon_at s i <> MoAbsent -> ctx_done s = true ->
  InvMon c (set_mon s (upd (mon s) i MoDone) (upd (mq s) i [])).
Proof.
  intros I Hm Hc. pose proof (im_len _ _ I) as (L1 & L2 & L3 & L4).
  assert (Li : i < length (mon s)).
  { unfold mon_at, get in Hm. destruct (Nat.lt_ge_cases i (length (mon s))) as [L|L]; [exact L|].
    rewrite nth_overflow in Hm by exact L. congruence. }
  eapply (InvMon_point c s _ i I); simp_st; rewrite ?upd_length; try reflexivity.
  - intros j N. unfold mon_at, pend, smap_at, cur_at. simp_st.
    rewrite !get_upd_other by congruence. auto.
  - unfold mon_at, pend. simp_st. rewrite get_upd_same by exact Li.
    constructor; cbn; intros; try discriminate; try contradiction.
  - unfold ctx_done. simp_st. auto.
  - intros _. unfold ctx_done in *. simp_st. exact Hc.
  - unfold mon_at. simp_st. rewrite get_upd_same by exact Li. discriminate.
  - intros k _ _ H. left. exact H.
  - unfold smap_at. simp_st. auto.
Qed.

Lemma P_bcast l q v cu : P (MoBcast l) q v cu -> P (MoLoop l) q v cu.
Proof. intros [A B C D E]. constructor; auto. discriminate. Qed.

Lemma P_dead m v cu : ~ subscribed m -> P m [] v cu.
Proof.
  intros S. constructor; intros; try congruence; exfalso; apply S; destruct m; try discriminate; exact Logic.I.
Qed.

Lemma get_map_const {A B} (d : B) (f : A -> B) (l : list A) i (b : B) :
  (forall x, f x = b) -> d = b -> get d (map f l) i = b.
Proof.
  intros Hf Hd. unfold get. revert i; induction l as [|x l IH]; intros [|i]; cbn; auto.
Qed.

Lemma get_mark_mon l i :
  get MoAbsent (mark_mon_done l) i = MoAbsent \/ get MoAbsent (mark_mon_done l) i = MoDone.
Proof.
  unfold get, mark_mon_done. revert i; induction l as [|x l IH]; intros [|i]; cbn; auto.
  destruct x; auto.
Qed.

Lemma get_mark_mon_absent l i :
  get MoAbsent (mark_mon_done l) i = MoAbsent -> get MoAbsent l i = MoAbsent.
Proof.
  unfold get, mark_mon_done. revert i; induction l as [|x l IH]; intros [|i]; cbn; auto.
  destruct x; auto; discriminate.
Qed.

(* the runnable changes state *)
Lemma L_emit c s s' i x :
  InvMon c s -> i < nrun c ->
  mon s' = mon s -> smap s' = smap s -> rn s' = rn s -> ctx_done s' = ctx_done s ->
  cur s' = upd (cur s) i x ->
  (subscribed (mon_at s i) /\ mq s' = upd (mq s) i (pend s i ++ [x]) \/
   ~ subscribed (mon_at s i) /\ mq s' = mq s) ->
  InvMon c s'.
Proof.
  intros I Li Em Es Er Ex Ec Hq. pose proof (im_len _ _ I) as (L1 & L2 & L3 & L4).
  pose proof (im_P _ _ I i) as HP.
  eapply (InvMon_point c s s' i I).
  - destruct Hq as [[_ ->]|[_ ->]]; [apply upd_length|reflexivity].
  - now rewrite Em.
  - now rewrite Es.
  - rewrite Ec. apply upd_length.
  - intros j N. unfold mon_at, pend, smap_at, cur_at. rewrite Em, Es, Ec.
    rewrite get_upd_other by congruence. destruct Hq as [[_ ->]|[_ ->]]; rewrite ?get_upd_other by congruence; auto.
  - unfold mon_at, pend, smap_at, cur_at. rewrite Em, Es, Ec.
    assert (Hcu : get 0 (upd (cur s) i x) i = x) by (apply get_upd_same; exact (eq_ind_r (fun n => i < n) Li L4)). rewrite Hcu.
    destruct Hq as [[S ->]|[S ->]].
    + assert (Hq' : get [] (upd (mq s) i (pend s i ++ [x])) i = pend s i ++ [x]) by (apply get_upd_same; rewrite L1; exact Li).
      rewrite Hq'. apply (P_emit_sub _ _ _ _ x HP S).
    + apply (P_emit_unsub _ _ _ _ x HP S).
  - now rewrite Ex.
  - unfold mon_at. rewrite Em, Ex. apply (im_done _ _ I).
  - unfold mon_at. now rewrite Em.
  - intros j _ _ H. left. unfold rn_at in *. now rewrite Er in H.
  - unfold smap_at. now rewrite Es.
Qed.


(* ---- the final states stored again by Shutdown once the monitors are gone (repo fix for C06) ---- *)

Lemma overlay_length f m : length (overlay f m) = length m.
Proof. revert m; induction f as [|[v|] f IH]; intros [|x m]; cbn [overlay length]; auto. Qed.

Lemma overlay_get f m i :
  get None (overlay f m) i =
  match get None f i with Some v => if Nat.ltb i (length m) then Some v else None | None => get None m i end.
Proof.
  unfold get. revert m i; induction f as [|o f IH]; intros m i.
  - cbn [overlay]. destruct i; reflexivity.
  - destruct m as [|x m].
    + assert (E : overlay (o :: f) [] = []) by (destruct o; reflexivity). rewrite E.
      destruct (nth i (o :: f) None); destruct i; reflexivity.
    + destruct o as [v|]; cbn [overlay]; destruct i as [|i]; cbn [nth length]; try reflexivity.
      * change (S i <? S (length m)) with (i <? length m). apply IH.
      * change (S i <? S (length m)) with (i <? length m). apply IH.
Qed.

Lemma overlay_keeps_some f m i : get None m i <> None -> get None (overlay f m) i <> None.
Proof.
  intros H. rewrite overlay_get. destruct (get None f i); [|exact H].
  assert (L : i < length m) by (apply (get_nondefault_lt None); exact H).
  apply Nat.ltb_lt in L. rewrite L. discriminate.
Qed.

Definition dead (m : mon_pc) : Prop := m = MoDone \/ m = MoAbsent.

Lemma P_dead' m q v cu : dead m -> P m q v cu.
Proof. intros [-> | ->]; constructor; cbn; intros; try discriminate; try contradiction. Qed.

(* once the state-monitor manager has left, every monitor is gone for good *)
Definition InvStm (s : state) : Prop := stm_done s = true -> forall i, dead (mon_at s i).

Lemma fresh_mon_dead c : any_spec stateable c = false -> forall i, dead (get MoAbsent (fresh_mon c) i).
Proof.
  unfold any_spec, fresh_mon, get. intros H.
  induction (specs c) as [|r l IH]; intros i.
  - right. destruct i; reflexivity.
  - cbn [existsb] in H. apply orb_false_iff in H as [Hr Hl]. cbn [map]. rewrite Hr.
    destruct i as [|i]; [right; reflexivity|]. cbn [nth]. apply IH. exact Hl.
Qed.

Lemma InvStm_step c s l s' : InvStm s -> step c s l = Some s' -> InvStm s'.
Proof.
  intros IS H. unfold step in H.
  destruct l; cbn [step0] in H; unfold start_shutdown, store_state in H;
    step_cases H; inversion H; subst; clear H; unfold InvStm, mon_at in *; simp_st.
  all: try exact IS.
  all: try (intros T k; match goal with E : get MoAbsent (mon _) ?i = _ |- _ =>
              pose proof (IS T i) as D; rewrite E in D; destruct D as [D|D]; discriminate D end).
  all: try (intros _ k; destruct (get_mark_mon (mon s) k) as [E|E]; [right|left]; exact E).
  all: try (intros T; match goal with E : negb (stm_done _) && _ = true |- _ =>
              apply andb_true_iff in E as [E _]; apply negb_true_iff in E; congruence end).
  (* Run() creates the monitors *)
  all: try (intros T k; apply negb_true_iff in T; exact (fresh_mon_dead c T k)).
Qed.

Lemma InvStm_init c : InvStm (init c).
Proof. intros _ i. right. apply init_mon. Qed.

Lemma InvStm_reachable c s : reachable_sup c s -> InvStm s.
Proof. apply sup_inv; [apply InvStm_init|apply InvStm_step]. Qed.

Ltac frame_tac I :=
  eapply InvMon_frame; [exact I|reflexivity|reflexivity|reflexivity|reflexivity| |];
  [ unfold ctx_done; simp_st; first [exact (fun H => H) | intros _; reflexivity | intros H; rewrite ?H, ?orb_true_r; reflexivity]
  | intros ii Lii Hst; unfold rn_at; simp_st; first [exact (fun H => H) | revert ii Lii Hst; intros ii _ _; revert ii; apply ran_mono_upd; intros Hp; try contradiction;
                                  match goal with E : rn_at _ _ = _ |- _ => rewrite E; exact Logic.I end ] ].

Lemma InvMon_step c s l s' : InvStm s -> InvMon c s -> step c s l = Some s' -> InvMon c s'.
Proof.
  intros IS I H. unfold step in H. pose proof (im_len _ _ I) as (L1 & L2 & L3 & L4).
  destruct l; cbn [step0] in H; unfold start_shutdown, store_state in H;
    step_cases H; inversion H; subst; clear H.
  all: try (frame_tac I; fail).
  (* a monitor leaves on ctx.Done *)
  all: try (apply L_mon_exit; [exact I|match goal with E : mon_at _ _ = _ |- _ => rewrite E; discriminate end|assumption]; fail).
  (* Run() creates the monitors: none has subscribed *)
  all: try (match goal with |- InvMon _ (set_main (start_managers _ _) (MLaunch 0)) => idtac end;
            constructor; simp_st;
            [rewrite map_length; unfold nrun in *; auto
            |intros k; unfold mon_at, pend, smap_at, cur_at; simp_st;
             destruct (fresh_mon_cases c k) as [E|E]; unfold fresh_mon in E; rewrite E;
             constructor; cbn; intros; try discriminate; try contradiction
            |intros k Hk; unfold mon_at in Hk; simp_st;
             destruct (fresh_mon_cases c k) as [E|E]; unfold fresh_mon in E; rewrite E in Hk; discriminate Hk
            |exact (im_entry _ _ I)]; fail).
  all: repeat match goal with E : _ && _ = true |- _ => apply andb_true_iff in E as [? ?] end.
  all: repeat match goal with E : (_ =? _) = true |- _ => apply Nat.eqb_eq in E; subst end.
  all: repeat match goal with E : (_ <? _) = true |- _ => apply Nat.ltb_lt in E end.
  all: repeat match goal with E : negb _ = true |- _ => apply negb_true_iff in E end.
  (* stores by startRunnable / Shutdown / the reload pass *)
  all: try (match goal with |- InvMon _ (with_hist (set_smap _ (upd _ ?ii _) _) _) => eapply (L_store c s _ ii I) end;
            [first [assumption|apply stateable_lt; assumption]|reflexivity|reflexivity|reflexivity|reflexivity
            |unfold ctx_done; simp_st; exact (fun H => H)
            |unfold rn_at; simp_st;
             first [intros jj Hj; left; exact Hj
                   |match goal with |- forall j, stored (get RnDone (upd _ ?ii _) j) -> _ =>
                      intros jj Hj; destruct (Nat.eq_dec ii jj) as [Ej|Nj]; [right; now symmetry|left; now rewrite get_upd_other in Hj] end]]; fail).
  (* RunCall of a runnable that is not Stateable *)
  all: try (eapply InvMon_frame; [exact I|reflexivity|reflexivity|reflexivity|reflexivity
            |unfold ctx_done; simp_st; exact (fun H => H)
            |intros ii Lii Hst; unfold rn_at; simp_st; intros Hr;
             destruct (Nat.eq_dec i ii) as [Ei|Ni]; [subst; congruence|now rewrite get_upd_other in Hr]]; fail).
  (* ---- Emit ---- *)
  all: try (match goal with |- InvMon _ (with_hist (set_cur _ _ _) (EEmit ?i ?x)) =>
              match goal with H : mon_at _ _ = _ |- _ =>
                eapply (L_emit c s _ i x I); [assumption|reflexivity|reflexivity|reflexivity|reflexivity|reflexivity|];
                rewrite H;
                first [left; split; [exact Logic.I|reflexivity] | right; split; [intros X; exact X|reflexivity]] end end; fail).
  (* startRunnable's store and broadcast, before Run is entered *)
  all: try (match goal with |- InvMon _ (set_smap (set_rn _ ?ii RnStored) _ _) => eapply (L_store c s _ ii I) end;
            [assumption|reflexivity|reflexivity|reflexivity|reflexivity
            |unfold ctx_done; simp_st; exact (fun H => H)
            |unfold rn_at; simp_st;
             match goal with |- forall j, stored (get RnDone (upd _ ?ii _) j) -> _ =>
               intros jj Hj; destruct (Nat.eq_dec ii jj) as [Ej|Nj]; [right; now symmetry|left; now rewrite get_upd_other in Hj] end]; fail).
  (* RunCall after that store *)
  all: try (eapply InvMon_frame; [exact I|reflexivity|reflexivity|reflexivity|reflexivity
            |unfold ctx_done; simp_st; exact (fun H => H)
            |intros ii Lii Hst; unfold rn_at; simp_st; intros Hr;
             destruct (Nat.eq_dec i ii) as [Ei|Ni];
             [subst; match goal with E : rn_at _ _ = RnStored |- _ => unfold rn_at in E; rewrite E; exact Logic.I end
             |now rewrite get_upd_other in Hr]]; fail).
  (* ---- Shutdown stores the recorded final states again: wg is zero, so every monitor is gone ---- *)
  - match goal with E : wg_zero _ = true |- _ => rename E into W end.
    unfold wg_zero in W. apply andb_true_iff in W as [_ T].
    constructor; simp_st.
    + rewrite overlay_length. auto.
    + intros k. unfold mon_at, pend, smap_at, cur_at. simp_st. apply P_dead'. apply (IS T k).
    + intros k Hk. unfold ctx_done in *. simp_st. apply (im_done _ _ I k Hk).
    + intros k Lk Hs Hr. unfold smap_at. simp_st. apply overlay_keeps_some. apply (im_entry _ _ I k Lk Hs Hr).
  (* ---- the monitor ---- *)
  - (* MonSub *)
    try match goal with H : mon_at _ _ = _ |- _ => rename H into Heqm end;
    try match goal with H : get [] (mq _) _ = _ :: _ |- _ => rename H into Heql end;
    try match goal with H : get None (smap _) _ = _ |- _ => rename H into Heqo end.
    assert (Li : i < nrun c).
    { rewrite <- L2. apply (get_nondefault_lt MoAbsent). unfold mon_at in *. rewrite Heqm. discriminate. }
    eapply (L_tuple' c s _ i MoFirst [cur_at s i] (smap_at s i) I Li);
      [reflexivity|reflexivity|simp_st; symmetry; apply upd_same|reflexivity|reflexivity|reflexivity
      |apply P_sub|discriminate|discriminate|auto].
  - (* first value equals the cached one *)
    try match goal with H : mon_at _ _ = _ |- _ => rename H into Heqm end;
    try match goal with H : get [] (mq _) _ = _ :: _ |- _ => rename H into Heql end;
    try match goal with H : get None (smap _) _ = _ |- _ => rename H into Heqo end.
    assert (Li : i < nrun c).
    { rewrite <- L1. apply (get_nondefault_lt (@nil st)). rewrite Heql. discriminate. }
    pose proof (im_P _ _ I i) as HP. unfold pend, smap_at in HP. rewrite Heql, Heqm, Heqo in HP.
    eapply (L_tuple' c s _ i (MoLoop (Some s0)) l (Some s0) I Li);
      [reflexivity|reflexivity|simp_st; rewrite <- Heqo; symmetry; apply upd_same|reflexivity|reflexivity|reflexivity
      | |discriminate|discriminate|discriminate].
    eapply P_consume_tail; [exact HP|exact Logic.I|exact Logic.I|discriminate| |].
    + intros a Ha. injection Ha as <-. split; [reflexivity|]. intros x Hx. injection Hx as <-. now left.
    + intros x Hx. discriminate Hx.
  - (* first value differs: it is recorded *)
    try match goal with H : mon_at _ _ = _ |- _ => rename H into Heqm end;
    try match goal with H : get [] (mq _) _ = _ :: _ |- _ => rename H into Heql end;
    try match goal with H : get None (smap _) _ = _ |- _ => rename H into Heqo end.
    assert (Li : i < nrun c).
    { rewrite <- L1. apply (get_nondefault_lt (@nil st)). rewrite Heql. discriminate. }
    pose proof (im_P _ _ I i) as HP. unfold pend, smap_at in HP. rewrite Heql, Heqm, Heqo in HP.
    eapply (L_tuple' c s _ i (MoBcast (Some s0)) l (Some s0) I Li);
      [reflexivity|reflexivity|reflexivity|reflexivity|reflexivity|reflexivity
      | |discriminate|discriminate|discriminate].
    eapply P_consume_tail; [exact HP|exact Logic.I|exact Logic.I|discriminate| |].
    + intros a Ha. injection Ha as <-. split; [reflexivity|]. intros x Hx. injection Hx as <-. now left.
    + intros x Hx. discriminate Hx.
  - (* first value, no entry yet *)
    try match goal with H : mon_at _ _ = _ |- _ => rename H into Heqm end;
    try match goal with H : get [] (mq _) _ = _ :: _ |- _ => rename H into Heql end;
    try match goal with H : get None (smap _) _ = _ |- _ => rename H into Heqo end.
    assert (Li : i < nrun c).
    { rewrite <- L1. apply (get_nondefault_lt (@nil st)). rewrite Heql. discriminate. }
    pose proof (im_P _ _ I i) as HP. unfold pend, smap_at in HP. rewrite Heql, Heqm, Heqo in HP.
    eapply (L_tuple' c s _ i (MoLoop None) l None I Li);
      [reflexivity|reflexivity|simp_st; rewrite <- Heqo; symmetry; apply upd_same|reflexivity|reflexivity|reflexivity
      | |discriminate|discriminate|].
    + eapply P_consume_tail; [exact HP|exact Logic.I|exact Logic.I|discriminate| |].
      * intros a Ha. discriminate Ha.
      * intros x _ _ Hx. discriminate Hx.
    + unfold smap_at. rewrite Heqo. intros X; congruence.
  - (* duplicate: skipped *)
    try match goal with H : mon_at _ _ = _ |- _ => rename H into Heqm end;
    try match goal with H : get [] (mq _) _ = _ :: _ |- _ => rename H into Heql end;
    try match goal with H : get None (smap _) _ = _ |- _ => rename H into Heqo end.
    assert (Li : i < nrun c).
    { rewrite <- L1. apply (get_nondefault_lt (@nil st)). rewrite Heql. discriminate. }
    pose proof (im_P _ _ I i) as HP. unfold pend in HP. rewrite Heql, Heqm in HP.
    match goal with H : opt_st_eqb _ _ = true |- _ => rename H into Heqb end.
    destruct last as [a|]; cbn [opt_st_eqb] in Heqb; [|discriminate Heqb]. apply Nat.eqb_eq in Heqb. subst a.
    eapply (L_tuple' c s _ i (MoLoop (Some s0)) l (smap_at s i) I Li);
      [simp_st; rewrite <- Heqm; unfold mon_at; symmetry; apply upd_same|reflexivity
      |simp_st; symmetry; apply upd_same|reflexivity|reflexivity|reflexivity
      | |discriminate|discriminate|auto].
    eapply P_consume_tail; [exact HP|exact Logic.I|exact Logic.I|discriminate| |].
    + intros a Ha. injection Ha as <-. split; [reflexivity|]. intros x Hx.
      destruct (p_cache _ _ _ _ HP s0 x eq_refl Hx) as [->|[->|Hin]]; auto.
    + intros x Hx. discriminate Hx.
  - (* a new value: recorded *)
    try match goal with H : mon_at _ _ = _ |- _ => rename H into Heqm end;
    try match goal with H : get [] (mq _) _ = _ :: _ |- _ => rename H into Heql end;
    try match goal with H : get None (smap _) _ = _ |- _ => rename H into Heqo end.
    assert (Li : i < nrun c).
    { rewrite <- L1. apply (get_nondefault_lt (@nil st)). rewrite Heql. discriminate. }
    pose proof (im_P _ _ I i) as HP. unfold pend in HP. rewrite Heql, Heqm in HP.
    eapply (L_tuple' c s _ i (MoBcast (Some s0)) l (Some s0) I Li);
      [reflexivity|reflexivity|reflexivity|reflexivity|reflexivity|reflexivity
      | |discriminate|discriminate|discriminate].
    eapply P_consume_tail; [exact HP|exact Logic.I|exact Logic.I|discriminate| |].
    + intros a Ha. injection Ha as <-. split; [reflexivity|]. intros x Hx. injection Hx as <-. now left.
    + intros x Hx. discriminate Hx.
  - (* broadcast *)
    try match goal with H : mon_at _ _ = _ |- _ => rename H into Heqm end;
    try match goal with H : get [] (mq _) _ = _ :: _ |- _ => rename H into Heql end;
    try match goal with H : get None (smap _) _ = _ |- _ => rename H into Heqo end.
    assert (Li : i < nrun c).
    { rewrite <- L2. apply (get_nondefault_lt MoAbsent). unfold mon_at in *. rewrite Heqm. discriminate. }
    pose proof (im_P _ _ I i) as HP. rewrite Heqm in HP.
    eapply (L_tuple' c s _ i (MoLoop last) (pend s i) (smap_at s i) I Li);
      [reflexivity|simp_st; symmetry; apply upd_same|simp_st; symmetry; apply upd_same|reflexivity|reflexivity|reflexivity
      |now apply P_bcast|discriminate|discriminate|auto].
  - (* the state-monitor manager leaves: all monitors are gone *)
    match goal with H : ctx_done _ = true |- _ => rename H into Hc end.
    constructor; simp_st.
    + unfold mark_mon_done. rewrite !map_length. auto.
    + intros k. unfold mon_at, pend, smap_at, cur_at. simp_st.
      rewrite (get_map_const [] (fun _ => []) (mq s) k []) by reflexivity.
      apply P_dead. destruct (get_mark_mon (mon s) k) as [E|E]; rewrite E; intros X; exact X.
    + intros k _. unfold ctx_done in *. simp_st. exact Hc.
    + intros k Lk Hs Hr. apply (im_entry _ _ I k Lk Hs Hr).
Qed.

Lemma InvMon_reachable c s : reachable_sup c s -> InvMon c s.
Proof.
  intros H. enough (X : InvStm s /\ InvMon c s) by exact (proj2 X). revert s H.
  apply sup_inv.
  - split; [apply InvStm_init|apply InvMon_init].
  - intros s l s' [A B] St. split; [eapply InvStm_step; eassumption|eapply InvMon_step; eassumption].
Qed.

(* ---- once Run() has created the managers, a missing monitor means: not Stateable ---- *)
Definition InvMonAbs (c : config) (s : state) : Prop :=
  mgrs_on s -> forall i, i < nrun c -> mon_at s i = MoAbsent -> stateable (spec c i) = false.

Lemma InvMonAbs_step c s l s' :
  InvNew c s -> InvSdAll s -> InvMonAbs c s -> step c s l = Some s' -> InvMonAbs c s'.
Proof.
  intros (N1 & N2 & N3) ISA IA H. unfold step in H. unfold InvMonAbs, mgrs_on, mon_at, pre_run in *.
  destruct l; cbn [step0] in H; unfold start_shutdown, store_state in H;
    step_cases H; inversion H; subst; clear H; simp_st.
  all: try exact IA.
  all: try (intros [_ X]; discriminate X).
  (* a monitor moved: it is not absent afterwards, the others are as before *)
  all: try (intros Hon k0 Lk Hk; apply (IA Hon k0 Lk);
            first [ rewrite get_upd_eq in Hk;
                    match type of Hk with (if ?b then _ else _) = _ => destruct b; [discriminate Hk|exact Hk] end
                  | now apply get_mark_mon_absent ]; fail).
  (* Run() is entered *)
  all: try (intros _ k0 Lk Hk; exact (fresh_mon_absent c k0 Lk Hk)).
  all: try (intros [_ X]; apply IA; split; [reflexivity|exact X]).
  all: try (intros [_ X] ? ? ?; exfalso;
            assert (Y : sd_all (aux s) = true) by (apply ISA; [congruence|apply N2; right; reflexivity]);
            congruence).
Qed.

Lemma InvMonAbs_reachable c s : reachable_sup c s -> InvMonAbs c s.
Proof.
  intros Hr.
  assert (G : InvNew c s /\ InvSdAll s /\ InvMonAbs c s).
  { revert s Hr. apply sup_inv.
    - split; [apply InvNew_init|]. split; [intros X; contradiction|]. intros [X _]; discriminate X.
    - intros s0 l s1 (A & B & C) Hs. split; [eapply InvNew_step; eassumption|].
      split; [eapply InvSdAll_step; eassumption|eapply InvMonAbs_step; eassumption]. }
  apply G.
Qed.

(* ---- C06: convergence at quiescence ---- *)

Lemma quiescent_monsub c s i :
  quiescent c s = true -> i < nrun c -> get false (sub_ok (aux s)) i = true -> mon_at s i <> MoNot.
Proof.
  intros Q Li Hs Hm.
  assert (Hin : In (LMonSub i) (taus_nt c s))
    by (in_chain ltac:(apply in_map_iff; exists i; split; [reflexivity|apply in_seq; cbn; lia])).
  pose proof (quiescent_taus _ _ _ Q Hin) as H. cbn [step0] in H. rewrite Hm, Hs in H. discriminate H.
Qed.

Lemma quiescent_monrecv c s i :
  quiescent c s = true -> i < nrun c ->
  match mon_at s i with MoFirst | MoLoop _ => pend s i = [] | MoBcast _ => False | _ => True end.
Proof.
  intros Q Li.
  assert (Hin : In (LMonRecv i) (taus_nt c s))
    by (in_chain ltac:(apply in_map_iff; exists i; split; [reflexivity|apply in_seq; cbn; lia])).
  assert (Hin2 : In (LMonBcast i) (taus_nt c s))
    by (in_chain ltac:(apply in_map_iff; exists i; split; [reflexivity|apply in_seq; cbn; lia])).
  pose proof (quiescent_taus _ _ _ Q Hin) as H. pose proof (quiescent_taus _ _ _ Q Hin2) as H2.
  cbn [step0] in H, H2. unfold pend.
  destruct (mon_at s i) eqn:Em; auto.
  - destruct (get [] (mq s) i) eqn:Eq; [reflexivity|].
    destruct (get None (smap s) i); [destruct (Nat.eqb _ _)|]; discriminate H.
  - destruct (get [] (mq s) i) eqn:Eq; [reflexivity|].
    destruct (opt_st_eqb _ _); discriminate H.
  - discriminate H2.
Qed.

(* While the supervisor runs (its context is not cancelled), in every quiescent state the state
   map holds the true current state of every Stateable runnable whose Run has been invoked and whose
   monitor could subscribe - however late it subscribed, whatever the emission history. *)
Theorem sup_c06_converge c s i :
  reachable_sup c s -> quiescent c s = true -> ctx_done s = false ->
  i < nrun c -> stateable (spec c i) = true -> ran (rn_at s i) ->
  get false (sub_ok (aux s)) i = true ->
  smap_at s i = Some (cur_at s i).
Proof.
  intros Hre Q Hc Li Hst Hran Hok.
  pose proof (InvMon_reachable _ _ Hre) as I. pose proof (im_P _ _ I i) as HP.
  pose proof (quiescent_monsub _ _ _ Q Li Hok) as Hns.
  pose proof (quiescent_monrecv _ _ _ Q Li) as Hq.
  pose proof (im_entry _ _ I i Li Hst (ran_stored _ Hran)) as Hent.
  destruct (smap_at s i) as [x|] eqn:Ex; [|congruence]. f_equal.
  destruct (mon_at s i) eqn:Em; try contradiction; try congruence.
  - (* absent: not Stateable (Run() was entered with the launch gate open: a runnable has been started) *)
    assert (Hon : mgrs_on s).
    { split.
      - destruct (run_entered (aux s)) eqn:E; [reflexivity|]. exfalso.
        destruct (InvNew_reachable _ _ Hre) as (N1 & _ & N3).
        pose proof (InvGate_reachable _ _ Hre) as IG.
        apply (ran_not_started _ Hran). apply N1; [exact (N3 E)|]. rewrite (ig_len _ _ IG). exact Li.
      - destruct (sd_all (aux s)) eqn:E; [|reflexivity]. exfalso.
        pose proof (InvGate_reachable _ _ Hre) as IG.
        apply (ran_not_started _ Hran). apply launched_zero; [exact (sd_all_launched _ _ Hre E)|].
        rewrite (ig_len _ _ IG). exact Li. }
    pose proof (InvMonAbs_reachable _ _ Hre Hon i Li Em). congruence.
  - (* first value still pending: impossible when quiescent *)
    exfalso. apply (p_first _ _ _ _ HP eq_refl). exact Hq.
  - (* in its loop, nothing pending *)
    destruct last as [a|].
    + destruct (p_cache _ _ _ _ HP a x eq_refl eq_refl) as [->|Hin]; [|rewrite Hq in Hin; contradiction].
      apply (p_caught _ _ _ _ HP a eq_refl Hq).
    + apply (p_none _ _ _ _ HP x eq_refl Hq eq_refl).
  - (* done: only after cancellation *)
    pose proof (im_done _ _ I i Em). congruence.
Qed.

(* ---- subscribers ---- *)

(* a closed subscription channel is never registered any more: broadcasts (which only go to
   registered channels, under the subscriber mutex) can never send on a closed channel *)
Definition InvSubs (s : state) : Prop :=
  forall b, In b (subs s) -> sub_closed b = true -> sub_registered b = false.

Lemma In_set_sub b0 l b : In b (set_sub b0 l) -> b = b0 \/ In b l.
Proof.
  induction l as [|x l IH]; cbn; [tauto|]. destruct (Nat.eqb (sub_id b0) (sub_id x)).
  - intros [H|H]; [now left|right; now right].
  - intros [H|H]; [right; now left|]. destruct (IH H); [now left|right; now right].
Qed.

Lemma find_sub_In c0 l b : find_sub c0 l = Some b -> In b l.
Proof.
  induction l as [|x l IH]; cbn; [discriminate|]. destruct (Nat.eqb c0 (sub_id x)).
  - intros H; injection H as <-. now left.
  - intros H. right. auto.
Qed.

Lemma In_broadcast m l b :
  In b (broadcast m l) -> exists b0, In b0 l /\ sub_closed b = sub_closed b0 /\
                                     (sub_registered b0 = false -> b = b0) /\ sub_registered b = sub_registered b0.
Proof.
  unfold broadcast. intros H. apply in_map_iff in H as (b0 & Hb & Hin). exists b0. split; [exact Hin|].
  destruct (sub_registered b0) eqn:R; cbn [andb] in Hb.
  - destruct (_ && _) in Hb; subst b; cbn; auto. repeat split; auto. discriminate.
  - subst b. auto.
Qed.

Lemma InvSubs_step c s l s' : InvSubs s -> step c s l = Some s' -> InvSubs s'.
Proof.
  intros IS H. unfold step in H.
  destruct l; cbn [step0] in H; unfold start_shutdown, store_state in H;
    step_cases H; inversion H; subst; clear H; unfold InvSubs in *; simp_st.
  all: try exact IS.
  all: try (intros b Hb Hc; apply In_broadcast in Hb as (b0 & Hin & E1 & _ & E3); rewrite E3; apply IS; [exact Hin|congruence]).
  all: try (intros b Hb Hc; apply in_app_or in Hb as [Hb|[<-|[]]]; [now apply IS|discriminate Hc]).
  all: try (intros b Hb Hc; apply In_set_sub in Hb as [->|Hb]; [|now apply IS]; cbn in *;
            first [reflexivity | discriminate Hc
                  | match goal with E : find_sub _ _ = Some ?b1 |- _ => apply (IS b1 (find_sub_In _ _ _ E) Hc) end]).
Qed.

Lemma InvSubs_reachable c s : reachable_sup c s -> InvSubs s.
Proof. apply sup_inv; [intros b []|apply InvSubs_step]. Qed.

(* a channel is closed at most once: the closing step requires it to be open *)
Lemma close_once c s c0 s' b :
  step c s (LSubUnreg c0) = Some s' -> find_sub c0 (subs s) = Some b ->
  sub_closed b = false /\ sub_cancelled b = true.
Proof.
  unfold step. cbn [step0]. intros H Hf. rewrite Hf in H.
  destruct (sub_started b && sub_cancelled b && negb (sub_closed b)) eqn:E; [|discriminate H].
  apply andb_true_iff in E as [E1 E2]. apply andb_true_iff in E1 as [_ E1].
  apply negb_true_iff in E2. auto.
Qed.

(* identical consecutive states cause no additional snapshot: the duplicate is dropped without
   touching the map or the subscribers *)
Lemma dedupe_no_snapshot c s i v q s' :
  mon_at s i = MoLoop (Some v) -> pend s i = v :: q -> step c s (LMonRecv i) = Some s' ->
  subs s' = subs s /\ smap s' = smap s /\ mon s' = mon s.
Proof.
  unfold step, pend. cbn [step0]. intros Hm Hq H. rewrite Hq, Hm in H. cbn [opt_st_eqb] in H.
  rewrite Nat.eqb_refl in H. injection H as <-. auto.
Qed.
