(* Lemmas about model/Port.v.  Property theorems live in props/C20.v. *)
From Coq Require Import List NArith ZArith Bool Lia ZifyBool ZifyN.
From GS Require Import Port.
Import ListNotations.
Open Scope N_scope.

Definition nobyte (c : byte) (s : str) : Prop := has c s = false.

Lemma has_nil c : has c [] = false.
Proof. reflexivity. Qed.

Lemma has_cons c x t : has c (x :: t) = (N.eqb x c || has c t)%bool.
Proof.
  unfold has; cbn [index]. destruct (N.eqb x c); [reflexivity|].
  destruct (index c t); reflexivity.
Qed.

Lemma has_app c a b : has c (a ++ b) = (has c a || has c b)%bool.
Proof.
  induction a as [|x a IH]; [reflexivity|].
  cbn [app]. rewrite !has_cons, IH. now rewrite orb_assoc.
Qed.

Lemma index_none_has c s : index c s = None <-> has c s = false.
Proof. unfold has. destruct (index c s); split; congruence. Qed.

Lemma index_app_first c a b :
  has c a = false -> index c (a ++ c :: b) = Some (length a).
Proof.
  induction a as [|x a IH]; intros H.
  - cbn. now rewrite N.eqb_refl.
  - rewrite has_cons in H. apply orb_false_iff in H as [Hx Ha].
    cbn [app index length]. rewrite Hx, (IH Ha). reflexivity.
Qed.

Lemma index_spec c s i :
  index c s = Some i ->
  exists a b, s = a ++ c :: b /\ length a = i /\ has c a = false.
Proof.
  revert i; induction s as [|x s IH]; intros i H; [discriminate|].
  cbn [index] in H. destruct (N.eqb x c) eqn:E.
  - apply N.eqb_eq in E; subst x. injection H as <-. now exists [], s.
  - destruct (index c s) as [j|] eqn:Ej; [|discriminate]. injection H as <-.
    destruct (IH j eq_refl) as (a & b & -> & <- & Ha).
    exists (x :: a), b. repeat split. rewrite has_cons, E, Ha. reflexivity.
Qed.

Lemma last_index_none_has c s : last_index c s = None <-> has c s = false.
Proof.
  induction s as [|x s IH]; [now split|].
  cbn [last_index]. rewrite has_cons.
  destruct (last_index c s) as [i|].
  - split; [discriminate|]. intros H. apply orb_false_iff in H as [_ H].
    apply IH in H. discriminate.
  - destruct IH as [IH _]. rewrite (IH eq_refl), orb_false_r.
    destruct (N.eqb x c); split; congruence.
Qed.

Lemma last_index_app_last c a b :
  has c b = false -> last_index c (a ++ c :: b) = Some (length a).
Proof.
  intros Hb. induction a as [|x a IH].
  - cbn [app last_index length]. apply last_index_none_has in Hb. rewrite Hb.
    now rewrite N.eqb_refl.
  - cbn [app last_index length]. now rewrite IH.
Qed.

Lemma last_index_spec c s i :
  last_index c s = Some i ->
  exists a b, s = a ++ c :: b /\ length a = i /\ has c b = false.
Proof.
  revert i; induction s as [|x s IH]; intros i H; [discriminate|].
  cbn [last_index] in H. destruct (last_index c s) as [j|] eqn:Ej.
  - injection H as <-. destruct (IH j eq_refl) as (a & b & -> & <- & Hb).
    now exists (x :: a), b.
  - destruct (N.eqb x c) eqn:E; [|discriminate]. injection H as <-.
    apply N.eqb_eq in E; subst x. exists [], s. repeat split.
    now apply last_index_none_has.
Qed.

Lemma firstn_app_exact {A} (a b : list A) : firstn (length a) (a ++ b) = a.
Proof. induction a; cbn; [now destruct b | now f_equal]. Qed.

Lemma skipn_app_exact {A} (a b : list A) : skipn (length a) (a ++ b) = b.
Proof. induction a; cbn; auto. Qed.

Lemma skipn_S_app_cons {A} (a : list A) x b : skipn (S (length a)) (a ++ x :: b) = b.
Proof. induction a; cbn in *; auto. Qed.

(* ------------------------------------------------------------------ *)
(* Full characterisation of net.SplitHostPort                          *)

Definition split_shape (hp h p : str) : Prop :=
  nobyte c_lbr h /\ nobyte c_rbr h /\
  nobyte c_colon p /\ nobyte c_lbr p /\ nobyte c_rbr p /\
  ((hp = h ++ c_colon :: p /\ nobyte c_colon h) \/
   hp = c_lbr :: h ++ c_rbr :: c_colon :: p).

Lemma neq_lbr_colon : N.eqb c_colon c_lbr = false. Proof. reflexivity. Qed.

Lemma app_cons_align {A} (a b u v : list A) c d :
  a ++ c :: b = u ++ d :: v -> length a = S (length u) ->
  a = u ++ [d] /\ v = c :: b.
Proof.
  revert a; induction u as [|x u IH]; intros a E L.
  - destruct a as [|y [|z a]]; cbn in L; try lia. cbn in E. injection E as -> ->. now split.
  - destruct a as [|y a]; cbn in L; [lia|]. cbn [app] in E. injection E as -> E.
    destruct (IH a E) as [-> ->]; [lia|]. now split.
Qed.

(* facts about the bracketed form  "[" h "]" ":" p *)
Lemma br_facts h p :
  nobyte c_rbr h -> nobyte c_colon p ->
  let hp := c_lbr :: h ++ c_rbr :: c_colon :: p in
  last_index c_colon hp = Some (S (S (length h))) /\
  index c_rbr hp = Some (S (length h)) /\
  length hp = (length h + 3 + length p)%nat /\
  skipn 1 hp = h ++ c_rbr :: c_colon :: p /\
  skipn (S (S (length h))) hp = c_colon :: p /\
  skipn (S (S (S (length h)))) hp = p.
Proof.
  unfold nobyte; intros Hr Pc; cbv zeta. repeat split.
  - replace (c_lbr :: h ++ c_rbr :: c_colon :: p)
      with ((c_lbr :: h ++ [c_rbr]) ++ c_colon :: p)
      by (cbn [app]; now rewrite <- app_assoc).
    rewrite (last_index_app_last _ _ _ Pc). cbn [length]. rewrite app_length.
    cbn [length]. f_equal. lia.
  - change (c_lbr :: h ++ c_rbr :: c_colon :: p) with ((c_lbr :: h) ++ c_rbr :: c_colon :: p).
    rewrite index_app_first; [reflexivity|]. rewrite has_cons, Hr. reflexivity.
  - cbn [length]. rewrite app_length. cbn [length]. lia.
  - change (S (S (length h))) with (S (length (c_lbr :: h))).
    change (c_lbr :: h ++ c_rbr :: c_colon :: p) with ((c_lbr :: h) ++ c_rbr :: c_colon :: p).
    apply skipn_S_app_cons.
  - replace (c_lbr :: h ++ c_rbr :: c_colon :: p)
      with ((c_lbr :: h ++ [c_rbr]) ++ c_colon :: p)
      by (cbn [app]; now rewrite <- app_assoc).
    replace (S (S (S (length h)))) with (S (length (c_lbr :: h ++ [c_rbr]))).
    + apply skipn_S_app_cons.
    + cbn [length]. rewrite app_length. cbn [length]. lia.
Qed.

Lemma split_br_complete h p :
  nobyte c_lbr h -> nobyte c_rbr h ->
  nobyte c_colon p -> nobyte c_lbr p -> nobyte c_rbr p ->
  split_br (c_lbr :: h ++ c_rbr :: c_colon :: p) (S (S (length h))) = Some (h, p).
Proof.
  intros Hl Hr Pc Pl Pr.
  destruct (br_facts h p Hr Pc) as (_ & Hidx & Hlen & Hs1 & Hs2 & Hs3).
  unfold nobyte in *.
  set (hp := c_lbr :: h ++ c_rbr :: c_colon :: p) in *.
  unfold split_br. rewrite Hidx, Hlen, Hs1, Hs2, Hs3.
  replace (S (S (length h)) =? length h + 3 + length p)%nat with false
    by (symmetry; apply Nat.eqb_neq; lia).
  rewrite Nat.eqb_refl.
  replace (S (length h) - 1)%nat with (length h) by lia.
  rewrite firstn_app_exact.
  rewrite has_app, !has_cons, Hl, Pl, Pr.
  reflexivity.
Qed.

Lemma split_plain_complete h p :
  nobyte c_lbr h -> nobyte c_rbr h -> nobyte c_colon h ->
  nobyte c_colon p -> nobyte c_lbr p -> nobyte c_rbr p ->
  split_plain (h ++ c_colon :: p) (length h) = Some (h, p).
Proof.
  unfold nobyte; intros Hl Hr Hc Pc Pl Pr. unfold split_plain.
  rewrite firstn_app_exact, Hc, !has_app, !has_cons, Hl, Hr, Pl, Pr.
  change (c_colon =? c_lbr) with false. change (c_colon =? c_rbr) with false.
  cbn [orb]. now rewrite skipn_S_app_cons.
Qed.

Lemma split_complete hp h p : split_shape hp h p -> split_host_port hp = Some (h, p).
Proof.
  unfold split_shape.
  intros (Hl & Hr & Pc & Pl & Pr & [[-> Hc] | ->]).
  - unfold split_host_port. rewrite (last_index_app_last _ _ _ Pc).
    pose proof (split_plain_complete h p Hl Hr Hc Pc Pl Pr) as HP.
    destruct h as [|x h]; cbn [app] in *.
    + change (c_colon =? c_lbr) with false. exact HP.
    + unfold nobyte in Hl. rewrite has_cons in Hl. apply orb_false_iff in Hl as [-> _].
      exact HP.
  - destruct (br_facts h p Hr Pc) as (Hlast & _).
    unfold split_host_port. rewrite Hlast. rewrite N.eqb_refl.
    now apply split_br_complete.
Qed.

Lemma split_br_sound hp i h p :
  last_index c_colon hp = Some i -> (exists t, hp = c_lbr :: t) ->
  split_br hp i = Some (h, p) -> split_shape hp h p.
Proof.
  intros Ei (t & Et). unfold split_br.
  destruct (index c_rbr hp) as [e|] eqn:Ee; [|discriminate].
  destruct (Nat.eqb (S e) (length hp)); [discriminate|].
  destruct (Nat.eqb (S e) i) eqn:Eei; [|discriminate]. apply Nat.eqb_eq in Eei.
  destruct (has c_lbr (skipn 1 hp)) eqn:Hl; [discriminate|].
  destruct (has c_rbr (skipn (S e) hp)) eqn:Hr; [discriminate|].
  intros H; injection H as <- <-.
  destruct (last_index_spec _ _ _ Ei) as (a & b & Eab & La & Hb).
  destruct (index_spec _ _ _ Ee) as (u & v & Euv & Lu & Hu).
  assert (Hal : a = u ++ [c_rbr] /\ v = c_colon :: b).
  { apply app_cons_align; [congruence|lia]. }
  destruct Hal as [-> ->].
  destruct u as [|u0 h].
  { rewrite Euv in Et. cbn in Et. discriminate. }
  assert (u0 = c_lbr) by (rewrite Euv in Et; cbn in Et; congruence). subst u0.
  rewrite has_cons in Hu. apply orb_false_iff in Hu as [_ Hu].
  assert (Ehp : hp = c_lbr :: h ++ c_rbr :: c_colon :: b) by (rewrite Euv; reflexivity).
  cbn [length] in Lu. subst e. subst i.
  destruct (br_facts h b Hu Hb) as (_ & _ & _ & Hs1 & Hs2 & Hs3).
  rewrite <- Ehp in Hs1, Hs2, Hs3.
  change (match hp with [] => [] | _ :: l => l end) with (skipn 1 hp).
  change (match hp with [] => [] | _ :: l => skipn (S (S (length h))) l end)
    with (skipn (S (S (S (length h)))) hp).
  rewrite Hs1 in *. rewrite Hs2 in Hr. rewrite Hs3.
  replace (S (length h) - 1)%nat with (length h) by lia.
  rewrite firstn_app_exact.
  rewrite has_app, !has_cons in Hl. apply orb_false_iff in Hl as [Hlh Hl].
  change (c_rbr =? c_lbr) with false in Hl. change (c_colon =? c_lbr) with false in Hl.
  cbn [orb] in Hl.
  rewrite has_cons in Hr. change (c_colon =? c_rbr) with false in Hr. cbn [orb] in Hr.
  unfold split_shape, nobyte. repeat split; try assumption. now right.
Qed.

Lemma split_plain_sound hp i h p :
  last_index c_colon hp = Some i ->
  split_plain hp i = Some (h, p) -> split_shape hp h p.
Proof.
  intros Ei. unfold split_plain.
  destruct (last_index_spec _ _ _ Ei) as (a & b & -> & <- & Hb).
  rewrite firstn_app_exact.
  destruct (has c_colon a) eqn:Hc; [discriminate|].
  destruct (has c_lbr (a ++ c_colon :: b)) eqn:Hl; [discriminate|].
  destruct (has c_rbr (a ++ c_colon :: b)) eqn:Hr; [discriminate|].
  rewrite skipn_S_app_cons. intros H; injection H as <- <-.
  rewrite has_app, has_cons in Hl, Hr.
  apply orb_false_iff in Hl as [Hla Hlb]. apply orb_false_iff in Hr as [Hra Hrb].
  change (c_colon =? c_lbr) with false in Hlb. change (c_colon =? c_rbr) with false in Hrb.
  cbn [orb] in Hlb, Hrb.
  unfold split_shape, nobyte. repeat split; try assumption. now left.
Qed.

Lemma split_sound hp h p : split_host_port hp = Some (h, p) -> split_shape hp h p.
Proof.
  unfold split_host_port.
  destruct (last_index c_colon hp) as [i|] eqn:Ei; [|discriminate].
  destruct hp as [|h0 t] eqn:Ehp; [discriminate|]. rewrite <- Ehp in *.
  destruct (N.eqb h0 c_lbr) eqn:E0.
  - apply N.eqb_eq in E0; subst h0. apply split_br_sound; [assumption|now exists t].
  - now apply split_plain_sound.
Qed.

Theorem split_iff hp h p : split_host_port hp = Some (h, p) <-> split_shape hp h p.
Proof. split; [apply split_sound | apply split_complete]. Qed.

(* ------------------------------------------------------------------ *)
(* Join then split                                                     *)

Lemma split_join h p :
  nobyte c_lbr h -> nobyte c_rbr h ->
  nobyte c_colon p -> nobyte c_lbr p -> nobyte c_rbr p ->
  split_host_port (join_host_port h p) = Some (h, p).
Proof.
  intros. apply split_complete. unfold split_shape, join_host_port.
  repeat split; try assumption.
  destruct (has c_colon h) eqn:E; [right|left]; auto.
Qed.

(* ------------------------------------------------------------------ *)
(* contains / has_prefix                                               *)

Lemma has_prefix_app p s b : has_prefix p s = true -> has_prefix p (s ++ b) = true.
Proof.
  revert s; induction p as [|c p IH]; intros s H; [reflexivity|].
  destruct s as [|y s]; [discriminate|]. cbn [has_prefix app] in *.
  apply andb_true_iff in H as [-> H]. cbn [andb]. now apply IH.
Qed.

Lemma contains_app_l p a b : contains p a = true -> p <> [] -> contains p (a ++ b) = true.
Proof.
  intros H Hp. induction a as [|x a IH].
  - destruct p; [congruence|discriminate].
  - cbn [contains] in H. apply orb_true_iff in H as [H|H].
    + change ((x :: a) ++ b) with (x :: (a ++ b)). cbn [contains].
      apply orb_true_iff; left. change (x :: (a ++ b)) with ((x :: a) ++ b).
      now apply has_prefix_app.
    + cbn [app contains]. apply orb_true_iff; right. now apply IH.
Qed.

Lemma contains_app_r p a b : contains p b = true -> contains p (a ++ b) = true.
Proof.
  intros H. induction a as [|x a IH]; [assumption|].
  cbn [app contains]. rewrite IH. apply orb_true_r.
Qed.

Lemma contains_false_app p a b :
  contains p (a ++ b) = false -> p <> [] -> contains p a = false /\ contains p b = false.
Proof.
  intros H Hp. split.
  - destruct (contains p a) eqn:E; [|reflexivity].
    rewrite (contains_app_l _ _ b E Hp) in H. discriminate.
  - destruct (contains p b) eqn:E; [|reflexivity].
    rewrite (contains_app_r _ a _ E) in H. discriminate.
Qed.

(* "x:-" detection over a concatenation with a known junction *)
Lemma contains2_app c d a b :
  contains [c; d] (a ++ b) = true ->
  contains [c; d] a = true \/ contains [c; d] b = true \/
  (exists a', a = a' ++ [c]) /\ (exists b', b = d :: b').
Proof.
  induction a as [|x a IH]; intros H.
  - now right; left.
  - cbn [app contains] in H. apply orb_true_iff in H as [H|H].
    + destruct a as [|y a].
      * cbn [app] in H. destruct b as [|z b]; [cbn in H; now rewrite andb_false_r in H|].
        cbn [has_prefix] in H. apply andb_true_iff in H as [Hx H].
        apply andb_true_iff in H as [Hz _].
        apply N.eqb_eq in Hx, Hz. subst. right; right. split; [now exists []|now exists b].
      * left. cbn [contains]. apply orb_true_iff; left.
        cbn [app has_prefix] in *. apply andb_true_iff in H as [-> H].
        apply andb_true_iff in H as [-> _]. reflexivity.
    + destruct (IH H) as [H1|[H1|((a' & ->) & Hb)]].
      * left. cbn [contains]. rewrite H1. apply orb_true_r.
      * now right; left.
      * right; right. split; [now exists (x :: a')|assumption].
Qed.

(* ------------------------------------------------------------------ *)
(* Atoi                                                                *)

Definition all_digits (s : str) : Prop := Forall (fun c => is_digit c = true) s.

Lemma digits_val_some acc s : all_digits s -> exists v, digits_val acc s = Some v /\ (acc <= v \/ acc < 0)%Z.
Proof.
  revert acc; induction s as [|c s IH]; intros acc H.
  - exists acc; split; [reflexivity|lia].
  - inversion H as [|? ? Hc Hs]; subst. cbn [digits_val]. rewrite Hc.
    destruct (IH (acc * 10 + Z.of_N (c - 48))%Z Hs) as (v & -> & Hv).
    exists v; split; [reflexivity|]. unfold is_digit in Hc. lia.
Qed.

Lemma digits_val_all acc s v : digits_val acc s = Some v -> all_digits s.
Proof.
  revert acc; induction s as [|c s IH]; intros acc H; [constructor|].
  cbn [digits_val] in H. destruct (is_digit c) eqn:E; [|discriminate].
  constructor; [assumption|eapply IH; eassumption].
Qed.

Lemma digits_val_ge acc s v : (0 <= acc)%Z -> digits_val acc s = Some v -> (acc <= v)%Z.
Proof.
  revert acc; induction s as [|c s IH]; intros acc Ha H.
  - injection H as <-. lia.
  - cbn [digits_val] in H. destruct (is_digit c) eqn:E; [|discriminate].
    apply IH in H; unfold is_digit in E; lia.
Qed.

(* the decimal value of a digit string *)
Definition dec (s : str) : Z :=
  match digits_val 0%Z s with Some v => v | None => 0%Z end.

Lemma atoi_digits s :
  s <> [] -> all_digits s -> (dec s <= max_int64)%Z -> atoi s = Some (dec s).
Proof.
  intros Hne Hd Hv. unfold atoi, dec in *.
  destruct s as [|c t]; [congruence|].
  assert (Hc : is_digit c = true) by (inversion Hd; assumption).
  assert (N.eqb c c_minus = false) as -> by (unfold is_digit, c_minus in *; lia).
  assert (N.eqb c c_plus = false) as -> by (unfold is_digit, c_plus in *; lia).
  cbn [orb]. destruct (digits_val_some 0%Z (c :: t) Hd) as (v & Ev & _).
  rewrite Ev in *. apply Z.leb_le in Hv. now rewrite Hv.
Qed.

(* shape of every accepted number: optional sign, then at least one digit, digits only *)
Lemma atoi_shape s v :
  atoi s = Some v ->
  exists sign ds, s = sign ++ ds /\ (sign = [] \/ sign = [c_minus] \/ sign = [c_plus]) /\
                  ds <> [] /\ all_digits ds /\
                  (v = if str_eqb sign [c_minus] then (- dec ds)%Z else dec ds).
Proof.
  unfold atoi. destruct s as [|c t]; [discriminate|].
  destruct (N.eqb c c_minus) eqn:Em; [|destruct (N.eqb c c_plus) eqn:Ep]; cbn [orb].
  - apply N.eqb_eq in Em; subst c. destruct t as [|d t]; [discriminate|].
    destruct (digits_val 0%Z (d :: t)) as [w|] eqn:Ew; [|discriminate].
    destruct (w <=? max_int64 + 1)%Z; [|discriminate]. intros H; injection H as <-.
    exists [c_minus], (d :: t). repeat split; auto; try discriminate.
    + eapply digits_val_all; eauto.
    + unfold dec. now rewrite Ew.
  - apply N.eqb_eq in Ep; subst c. destruct t as [|d t]; [discriminate|].
    destruct (digits_val 0%Z (d :: t)) as [w|] eqn:Ew; [|discriminate].
    destruct (w <=? max_int64)%Z; [|discriminate]. intros H; injection H as <-.
    exists [c_plus], (d :: t). repeat split; auto; try discriminate.
    + eapply digits_val_all; eauto.
    + unfold dec. now rewrite Ew.
  - destruct (digits_val 0%Z (c :: t)) as [w|] eqn:Ew; [|discriminate].
    destruct (w <=? max_int64)%Z; [|discriminate]. intros H; injection H as <-.
    exists [], (c :: t). repeat split; auto; try discriminate.
    + eapply digits_val_all; eauto.
    + unfold dec. now rewrite Ew.
Qed.

Lemma dec_nonneg s : (0 <= dec s)%Z.
Proof.
  unfold dec. destruct (digits_val 0%Z s) eqn:E; [|lia].
  apply digits_val_ge in E; lia.
Qed.

Lemma atoi_pos_not_minus p v : atoi p = Some v -> (1 <= v)%Z -> has_prefix [c_minus] p = false.
Proof.
  intros H Hv. destruct (atoi_shape _ _ H) as (sg & ds & -> & Hs & Hne & Hd & Ev).
  destruct Hs as [->|[->| ->]].
  - cbn [app]. destruct ds as [|d ds]; [congruence|]. inversion Hd; subst.
    cbn [has_prefix]. unfold is_digit, c_minus in *.
    replace (45 =? d) with false by lia. reflexivity.
  - cbn in Ev. pose proof (dec_nonneg ds). lia.
  - reflexivity.
Qed.
