(* C06 (subscriber clause): what a subscriber that keeps up has received when the system is
   quiescent.  Unconditionally the clause is false (a Stateable runnable started after the
   subscription enters the map silently); it holds along every run in which the map is written
   only by the state monitors. *)
From Coq Require Import List NArith Bool Arith Lia.
From GS Require Import LTS Supervisor SupAccept SupProps SupInv SupStop SupTrig SupGate SupOnce SupReload
                       SupState.
Import ListNotations.

(* ---------------------------------------------------------------- the last snapshot sent *)

(* the newest snapshot subscriber c0 has taken from its channel *)
Fixpoint last_recv (c0 : nat) (h : list event) : option (list (option st)) :=
  match h with
  | [] => None
  | ESubRecv c1 m :: t => if Nat.eqb c1 c0 then Some m else last_recv c0 t
  | _ :: t => last_recv c0 t
  end.

(* the newest snapshot sent to c0: the last one in its channel, or the last one it received *)
Definition last_sent (s : state) (c0 : nat) : option (list (option st)) :=
  match find_sub c0 (subs s) with
  | Some b => match sub_buf b with [] => last_recv c0 (hist s) | x :: q => Some (last q x) end
  | None => None
  end.

(* ---------------------------------------------------------------- the schedule that used to refute the clause *)

Definition subs_cfg : config :=
  {| specs := [ {| stateable := true; reloadable := false; rsender := false; ssender := false;
                   stop_style := StopNonBlocking; run_exit := ExitOnSignal; held_sub := false |};
                {| stateable := true; reloadable := false; rsender := false; ssender := false;
                   stop_style := StopNonBlocking; run_exit := ExitOnSignal; held_sub := false |} ];
     startup_may_fire := false; shutdown_may_fire := false |}.

(* the subscriber arrives while runnable 0 is at its gate; runnable 1 is started afterwards and never
   changes state: its monitor discards the first channel value (equal to the stored one).  Before
   the repair startRunnable stored the initial state silently and the subscriber never learnt the
   new entry; now startRunnable broadcasts the map. *)
Definition subs_sched : list label :=
  [LRunEnter; LRunEntered; LLaunch 0; LRunStore 0; LRunCall 0; LMonSub 0; LMonRecv 0; LSubscribe 7; LSubDo 7; LSubRecv 7 [Some 0; None];
   LPoll 0 true; LGateDecide 0; LLaunch 1; LRunStore 1; LRunCall 1; LMonSub 1; LMonRecv 1; LPoll 1 true; LGateDecide 1;
   LQuiet].

Lemma subs_sched_delivers :
  exists s b,
    run (step subs_cfg) (init subs_cfg) subs_sched = Some s /\ quiescent subs_cfg s = true /\
    find_sub 7 (subs s) = Some b /\ sub_buf b = [[Some 0; Some 0]] /\
    last_sent s 7 = Some [Some 0; Some 0] /\ smap s = [Some 0; Some 0].
Proof.
  eexists. eexists.
  split; [vm_compute; reflexivity|]. split; [vm_compute; reflexivity|].
  split; [vm_compute; reflexivity|]. split; [reflexivity|]. split; vm_compute; reflexivity.
Qed.

(* ---------------------------------------------------------------- list facts *)

Lemma smap_eqb_eq : forall a b, smap_eqb a b = true -> a = b.
Proof.
  induction a as [|x a IH]; intros [|y b] H; cbn [smap_eqb] in H; try discriminate H; [reflexivity|].
  apply andb_true_iff in H as [H1 H2]. f_equal; [|now apply IH].
  destruct x, y; cbn in H1; try discriminate H1; [|reflexivity]. apply Nat.eqb_eq in H1. now subst.
Qed.

Lemma find_sub_set_other b1 c0 : forall l, sub_id b1 <> c0 -> find_sub c0 (set_sub b1 l) = find_sub c0 l.
Proof.
  induction l as [|x l IH]; intros N; cbn [set_sub find_sub]; [reflexivity|].
  destruct (Nat.eqb (sub_id b1) (sub_id x)) eqn:E; cbn [find_sub].
  - apply Nat.eqb_eq in E. destruct (Nat.eqb c0 (sub_id b1)) eqn:E1; [apply Nat.eqb_eq in E1; congruence|].
    rewrite <- E, E1. reflexivity.
  - destruct (Nat.eqb c0 (sub_id x)); [reflexivity|now apply IH].
Qed.

Lemma find_sub_set_same b1 : forall l b,
  find_sub (sub_id b1) l = Some b -> find_sub (sub_id b1) (set_sub b1 l) = Some b1.
Proof.
  induction l as [|x l IH]; intros b H; cbn [set_sub find_sub] in *; [discriminate|].
  destruct (Nat.eqb (sub_id b1) (sub_id x)) eqn:E; cbn [find_sub].
  - now rewrite Nat.eqb_refl.
  - rewrite E. eapply IH. exact H.
Qed.

Lemma find_sub_id c0 : forall l b, find_sub c0 l = Some b -> sub_id b = c0.
Proof.
  induction l as [|x l IH]; intros b H; cbn [find_sub] in H; [discriminate|].
  destruct (Nat.eqb c0 (sub_id x)) eqn:E; [injection H as <-; now apply Nat.eqb_eq in E|now apply IH].
Qed.

Lemma find_sub_snoc c0 b1 : forall l,
  find_sub c0 (l ++ [b1]) =
  match find_sub c0 l with Some b => Some b | None => if Nat.eqb c0 (sub_id b1) then Some b1 else None end.
Proof.
  induction l as [|x l IH]; cbn [app find_sub]; [reflexivity|].
  destruct (Nat.eqb c0 (sub_id x)); [reflexivity|exact IH].
Qed.

Definition bc1 (m : list (option st)) (b : subscriber) : subscriber :=
  if sub_registered b && Nat.ltb (length (sub_buf b)) 10
     && existsb (fun o => match o with Some _ => true | None => false end) m
  then {| sub_id := sub_id b; sub_buf := sub_buf b ++ [m]; sub_started := true; sub_registered := true;
          sub_cancelled := sub_cancelled b; sub_closed := sub_closed b |}
  else b.

Lemma find_sub_broadcast c0 m : forall l,
  find_sub c0 (broadcast m l) = option_map (bc1 m) (find_sub c0 l).
Proof.
  unfold broadcast. induction l as [|x l IH]; cbn [map find_sub]; [reflexivity|].
  fold (bc1 m x).
  assert (E : sub_id (bc1 m x) = sub_id x) by (unfold bc1; destruct (_ && _); reflexivity).
  rewrite E. destruct (Nat.eqb c0 (sub_id x)); [reflexivity|exact IH].
Qed.

Lemma last_recv_other c0 e h : (forall m, e <> ESubRecv c0 m) -> last_recv c0 (e :: h) = last_recv c0 h.
Proof.
  intros H. destruct e; try reflexivity. cbn [last_recv].
  destruct (Nat.eqb c c0) eqn:E; [|reflexivity]. apply Nat.eqb_eq in E; subst. exfalso. eapply H. reflexivity.
Qed.

Lemma last_snoc' {A} (q : list A) x y : last (q ++ [y]) x = y.
Proof. apply last_last. Qed.

(* ---------------------------------------------------------------- tracking along a run *)

(* a monitor has changed the map and not yet broadcast it *)
Definition bcast_due (s : state) : Prop :=
  exists i l, mon_at s i = MoBcast l /\ smap_at s i <> None.

Record Track (s : state) (c0 : nat) : Prop := {
  tr_sub : exists b, find_sub c0 (subs s) = Some b /\ sub_registered b = true /\ sub_started b = true;
  tr_last : bcast_due s \/ last_sent s c0 = Some (smap s);
}.

(* the steps under which tracking is claimed: the subscriber's channel has room whenever a
   broadcast happens (a monitor's, or startRunnable's after it stored the initial state), the stores
   done by Shutdown / the reload manager do not change the map, the state-monitor manager has not
   exited, c0 is not unsubscribed *)
Definition ok_label (c : config) (c0 : nat) (s : state) (l : label) : Prop :=
  match l with
  | LMonBcast _ | LRunStore _ => forall b, find_sub c0 (subs s) = Some b -> length (sub_buf b) < 10
  | LStopRet i | LReloadRet i =>
    stateable (spec c i) = true -> smap_at s i = Some (cur_at s i)
  | LStmExit => False
  | LSdWgDone => False   (* Shutdown's final stores after its wait are silent (repo 4585550); the clause is about the running phase *)
  | LSubUnreg c1 => c1 <> c0
  | _ => True
  end.

Lemma Track_frame s s' c0 :
  find_sub c0 (subs s') = find_sub c0 (subs s) -> smap s' = smap s -> mon s' = mon s ->
  (hist s' = hist s \/ exists e, hist s' = e :: hist s /\ forall m, e <> ESubRecv c0 m) ->
  Track s c0 -> Track s' c0.
Proof.
  intros Es Em Eo Eh [Tb Tl]. constructor; [now rewrite Es|].
  destruct Tl as [(i & l & H1 & H2)|Tl]; [left; exists i, l; unfold mon_at, smap_at in *; now rewrite Eo, Em|].
  right. unfold last_sent in *. rewrite Es, Em. destruct (find_sub c0 (subs s)) as [b|]; [|exact Tl].
  destruct (sub_buf b); [|exact Tl]. destruct Eh as [->|(e & -> & He)]; [exact Tl|].
  now rewrite last_recv_other.
Qed.

(* a monitor that owes no broadcast moves on without touching the map *)
Lemma Track_mon s s' c0 i p :
  subs s' = subs s -> smap s' = smap s -> hist s' = hist s -> mon s' = upd (mon s) i p ->
  (forall l, mon_at s i <> MoBcast l) -> Track s c0 -> Track s' c0.
Proof.
  intros Es Em Eh Eo Hi [Tb Tl]. constructor; [now rewrite Es|].
  destruct Tl as [(j & l & H1 & H2)|Tl].
  - left. exists j, l. unfold mon_at, smap_at in *. rewrite Eo, Em. split; [|exact H2].
    rewrite get_upd_other; [exact H1|]. intros ->. exact (Hi l H1).
  - right. unfold last_sent in *. now rewrite Es, Em, Eh.
Qed.

(* Run() creates the monitors: before, there was none, so none owed a broadcast *)
Lemma Track_start s s' c0 :
  subs s' = subs s -> smap s' = smap s -> hist s' = hist s ->
  (forall i, mon_at s i = MoAbsent) -> Track s c0 -> Track s' c0.
Proof.
  intros Es Em Eh Ha [Tb Tl]. constructor; [now rewrite Es|].
  destruct Tl as [(j & l & H1 & H2)|Tl]; [rewrite Ha in H1; discriminate H1|].
  right. unfold last_sent in *. now rewrite Es, Em, Eh.
Qed.

(* a monitor changes the map: it now owes a broadcast *)
Lemma Track_change s s' c0 i v :
  subs s' = subs s -> smap s' = upd (smap s) i (Some v) -> mon s' = upd (mon s) i (MoBcast (Some v)) ->
  i < length (mon s) -> i < length (smap s) -> Track s c0 -> Track s' c0.
Proof.
  intros Es Em Eo L1 L2 [Tb Tl]. constructor; [now rewrite Es|].
  left. exists i, (Some v). unfold mon_at, smap_at. rewrite Eo, Em, !get_upd_same by assumption.
  split; [reflexivity|discriminate].
Qed.

Lemma some_entry (m : list (option st)) i :
  get None m i <> None -> existsb (fun o => match o with Some _ => true | None => false end) m = true.
Proof.
  unfold get. revert i; induction m as [|x m IH]; intros [|i] H; cbn [nth existsb] in *; try congruence.
  - destruct x; [reflexivity|congruence].
  - rewrite (IH i H). apply orb_true_r.
Qed.

Lemma last_cons {A} : forall (q : list A) y d, last (y :: q) d = last q y.
Proof.
  induction q as [|a q IH]; intros y d; [reflexivity|].
  change (last (y :: a :: q) d) with (last (a :: q) d). now rewrite !IH.
Qed.

(* the broadcast itself *)
Lemma Track_bcast s s' c0 i l0 :
  mon_at s i = MoBcast l0 -> smap s' = smap s -> hist s' = hist s ->
  subs s' = broadcast (smap s) (subs s) -> mon s' = upd (mon s) i (MoLoop l0) ->
  (forall b, find_sub c0 (subs s) = Some b -> length (sub_buf b) < 10) ->
  Track s c0 -> Track s' c0.
Proof.
  intros Hi Em Eh Es Eo Hroom [(b & Hb & Hr & Hst) Tl].
  pose proof (Hroom b Hb) as Hlt. apply Nat.ltb_lt in Hlt.
  assert (Hf : find_sub c0 (subs s') = Some (bc1 (smap s) b)) by (now rewrite Es, find_sub_broadcast, Hb).
  constructor.
  - exists (bc1 (smap s) b). split; [exact Hf|]. unfold bc1.
    destruct (_ && _); cbn; auto.
  - unfold bc1 in Hf. rewrite Hr, Hlt in Hf. cbn [andb] in Hf.
    destruct (existsb _ (smap s)) eqn:Ex.
    + right. unfold last_sent. rewrite Hf, Em. cbn [sub_buf].
      destruct (sub_buf b) as [|x q]; cbn [app]; [reflexivity|]. now rewrite last_snoc'.
    + destruct Tl as [(j & l & H1 & H2)|Tl].
      * left. exists j, l. unfold mon_at, smap_at in *. rewrite Eo, Em. split; [|exact H2].
        rewrite get_upd_other; [exact H1|]. intros <-.
        pose proof (some_entry _ _ H2) as X. congruence.
      * right. unfold last_sent in *. rewrite Hf, Em, Eh. now rewrite Hb in Tl.
Qed.

(* the subscriber takes a snapshot from its channel *)
Lemma Track_recv s s' c0 b m m' q :
  find_sub c0 (subs s) = Some b -> sub_buf b = m' :: q -> smap_eqb m m' = true ->
  smap s' = smap s -> mon s' = mon s -> hist s' = ESubRecv c0 m :: hist s ->
  subs s' = set_sub {| sub_id := c0; sub_buf := q; sub_started := sub_started b;
                       sub_registered := sub_registered b; sub_cancelled := sub_cancelled b;
                       sub_closed := sub_closed b |} (subs s) ->
  Track s c0 -> Track s' c0.
Proof.
  intros Hb Hbuf Heq Em Eo Eh Es [(b1 & Hb1 & Hr & Hst) Tl].
  rewrite Hb in Hb1. injection Hb1 as <-. apply smap_eqb_eq in Heq. subst m'.
  set (b' := {| sub_id := c0; sub_buf := q; sub_started := sub_started b;
                sub_registered := sub_registered b; sub_cancelled := sub_cancelled b;
                sub_closed := sub_closed b |}) in *.
  assert (Hf : find_sub c0 (subs s') = Some b')
    by (rewrite Es; apply (find_sub_set_same b' _ b); exact Hb).
  constructor; [exists b'; now repeat split|].
  destruct Tl as [(j & l & H1 & H2)|Tl]; [left; exists j, l; unfold mon_at, smap_at in *; now rewrite Eo, Em|].
  right. unfold last_sent in *. rewrite Hf, Em, Eh. rewrite Hb, Hbuf in Tl. cbn [sub_buf b'].
  destruct q as [|y q]; cbn [last_recv]; [now rewrite Nat.eqb_refl|]. now rewrite last_cons in Tl.
Qed.

(* the subscriber's context ends (it stays registered until its closer runs) *)
Lemma Track_cancel s s' c0 b :
  find_sub c0 (subs s) = Some b -> smap s' = smap s -> mon s' = mon s -> hist s' = ESubCancel c0 :: hist s ->
  subs s' = set_sub {| sub_id := c0; sub_buf := sub_buf b; sub_started := sub_started b;
                       sub_registered := sub_registered b; sub_cancelled := true;
                       sub_closed := sub_closed b |} (subs s) ->
  Track s c0 -> Track s' c0.
Proof.
  intros Hb Em Eo Eh Es [(b1 & Hb1 & Hr & Hst) Tl].
  rewrite Hb in Hb1. injection Hb1 as <-.
  set (b' := {| sub_id := c0; sub_buf := sub_buf b; sub_started := sub_started b;
                sub_registered := sub_registered b; sub_cancelled := true;
                sub_closed := sub_closed b |}) in *.
  assert (Hf : find_sub c0 (subs s') = Some b')
    by (rewrite Es; apply (find_sub_set_same b' _ b); exact Hb).
  constructor; [exists b'; now repeat split|].
  destruct Tl as [(j & l & H1 & H2)|Tl]; [left; exists j, l; unfold mon_at, smap_at in *; now rewrite Eo, Em|].
  right. unfold last_sent in *. rewrite Hf, Em, Eh. rewrite Hb in Tl. cbn [sub_buf b'].
  destruct (sub_buf b); [|exact Tl]. rewrite last_recv_other; [exact Tl|]. intros ? X; discriminate X.
Qed.

(* startRunnable stores the initial state and broadcasts the new map *)
Lemma Track_store_bcast s s' c0 i v :
  i < length (smap s) -> smap s' = upd (smap s) i (Some v) -> mon s' = mon s ->
  subs s' = broadcast (upd (smap s) i (Some v)) (subs s) ->
  (forall b, find_sub c0 (subs s) = Some b -> length (sub_buf b) < 10) ->
  Track s c0 -> Track s' c0.
Proof.
  intros Li Em Eo Es Hroom [(b & Hb & Hr & Hst) Tl].
  pose proof (Hroom b Hb) as Hlt. apply Nat.ltb_lt in Hlt.
  set (m := upd (smap s) i (Some v)) in *.
  assert (Hm : existsb (fun o => match o with Some _ => true | None => false end) m = true).
  { apply (some_entry m i). unfold m. rewrite get_upd_same by exact Li. discriminate. }
  assert (Hf : find_sub c0 (subs s') = Some (bc1 m b)) by (now rewrite Es, find_sub_broadcast, Hb).
  constructor.
  - exists (bc1 m b). split; [exact Hf|]. unfold bc1. destruct (_ && _); cbn; auto.
  - right. unfold bc1 in Hf. rewrite Hr, Hlt, Hm in Hf. cbn [andb] in Hf.
    unfold last_sent. rewrite Hf, Em. cbn [sub_buf].
    destruct (sub_buf b) as [|x q]; cbn [app]; [reflexivity|]. now rewrite last_snoc'.
Qed.

Ltac hist_nr :=
  first [ left; reflexivity
        | right; eexists; split; [reflexivity|intros ? X; discriminate X] ].

Lemma mon_at_lt s i : mon_at s i <> MoAbsent -> i < length (mon s).
Proof.
  unfold mon_at, get. intros H. destruct (Nat.lt_ge_cases i (length (mon s))) as [L|L]; [exact L|].
  rewrite nth_overflow in H by exact L. congruence.
Qed.

Lemma Track_step c s c0 l s' :
  reachable_sup c s -> Track s c0 -> ok_label c c0 s l -> step c s l = Some s' -> Track s' c0.
Proof.
  intros Hre T Hok H. pose proof (InvMon_reachable _ _ Hre) as IM.
  destruct (im_len _ _ IM) as (_ & Lmon & Lsmap & _). unfold step in H.
  destruct l; cbn [step0] in H; unfold start_shutdown, store_state in H;
    step_cases H; inversion H; subst; clear H.
  all: try (apply (Track_frame s); [reflexivity|reflexivity|reflexivity|hist_nr|exact T]; fail).
  all: try (apply (Track_start s); [reflexivity|reflexivity|reflexivity| |exact T];
            apply (InvAbs_reachable _ _ Hre); right; assumption).
  (* startRunnable / Shutdown / reload manager store a state: by assumption the map does not change *)
  all: cbn [ok_label] in Hok.
  all: try (match goal with E : (_ <? nrun _) && _ = true |- _ =>
              apply andb_true_iff in E as [E ?]; apply Nat.ltb_lt in E end;
            eapply (Track_store_bcast s); [|reflexivity|reflexivity|reflexivity|exact Hok|exact T];
            rewrite Lsmap; assumption).
  all: try (apply (Track_frame s); [reflexivity| |reflexivity|hist_nr|exact T]; simp_st;
            unfold cur_at; simp_st;
            match goal with E : stateable _ = true |- _ => pose proof (Hok E) as X end;
            unfold smap_at, cur_at in X; rewrite <- X; apply upd_same).
  all: try contradiction.
  (* monitors *)
  all: try (eapply (Track_mon s); [reflexivity|reflexivity|reflexivity|reflexivity| |exact T];
            intros ? X; rewrite X in *; discriminate).
  all: try (eapply (Track_change s); [reflexivity|reflexivity|reflexivity| | |exact T];
            [|rewrite Lsmap, <- Lmon]; apply mon_at_lt;
            match goal with E : mon_at _ _ = _ |- _ => rewrite E; discriminate end).
  all: try (eapply (Track_bcast s); [eassumption|reflexivity|reflexivity|reflexivity|reflexivity|exact Hok|exact T]).
  (* subscriptions *)
  - apply (Track_frame s); [|reflexivity|reflexivity|hist_nr|exact T]. simp_st.
    rewrite find_sub_snoc. destruct (tr_sub _ _ T) as (b & Hb & _). now rewrite Hb.
  - destruct (Nat.eq_dec c1 c0) as [->|N].
    + exfalso. destruct (tr_sub _ _ T) as (b & Hb & _ & Hst).
      match goal with E : find_sub c0 (subs s) = Some _ |- _ => rewrite E in Hb; injection Hb as <- end.
      congruence.
    + apply (Track_frame s); [|reflexivity|reflexivity|hist_nr|exact T]. simp_st.
      apply find_sub_set_other. exact N.
  - destruct (Nat.eq_dec c1 c0) as [->|N].
    + eapply (Track_recv s); [eassumption|eassumption|eassumption|reflexivity|reflexivity|reflexivity|reflexivity|exact T].
    + apply (Track_frame s); [|reflexivity|reflexivity| |exact T].
      * simp_st. apply find_sub_set_other. exact N.
      * right. eexists. split; [reflexivity|]. intros m0 X. injection X as -> _. congruence.
  - destruct (Nat.eq_dec c1 c0) as [->|N].
    + eapply (Track_cancel s); [eassumption|reflexivity|reflexivity|reflexivity|reflexivity|exact T].
    + apply (Track_frame s); [|reflexivity|reflexivity|hist_nr|exact T]. simp_st.
      apply find_sub_set_other. exact N.
  - apply (Track_frame s); [|reflexivity|reflexivity|hist_nr|exact T]. simp_st.
    apply find_sub_set_other. exact Hok.
Qed.

(* every step of the run satisfies ok_label in the state it is taken from *)
Fixpoint run_ok (c : config) (c0 : nat) (s : state) (ls : list label) : Prop :=
  match ls with
  | [] => True
  | l :: t => ok_label c c0 s l /\
              match step c s l with Some s' => run_ok c c0 s' t | None => True end
  end.

Lemma reachable_step c s l s' : reachable_sup c s -> step c s l = Some s' -> reachable_sup c s'.
Proof.
  intros [ls0 H0] Hs. exists (ls0 ++ [l]). rewrite run_app, H0. cbn [run]. now rewrite Hs.
Qed.

Lemma reachable_run c ls : forall s s', reachable_sup c s -> run (step c) s ls = Some s' -> reachable_sup c s'.
Proof.
  induction ls as [|l ls IH]; intros s s' Hre H.
  - now injection H as <-.
  - cbn [run] in H. destruct (step c s l) as [s1|] eqn:E; [|discriminate].
    eapply IH; [eapply reachable_step; eassumption|exact H].
Qed.

Lemma Track_run c c0 ls : forall s s',
  reachable_sup c s -> Track s c0 -> run_ok c c0 s ls -> run (step c) s ls = Some s' -> Track s' c0.
Proof.
  induction ls as [|l ls IH]; intros s s' Hre T Hok H.
  - now injection H as <-.
  - cbn [run] in H. cbn [run_ok] in Hok. destruct Hok as [Hl Hok].
    destruct (step c s l) as [s1|] eqn:E; [|discriminate].
    eapply IH; [eapply reachable_step; eassumption| |exact Hok|exact H].
    eapply Track_step; eassumption.
Qed.

(* SubscribeStateChanges: registered, with the current map as initial snapshot *)
Lemma Track_subdo c s c0 s' : step c s (LSubDo c0) = Some s' -> Track s' c0.
Proof.
  unfold step. cbn [step0]. intros H.
  destruct (find_sub c0 (subs s)) as [b|] eqn:Hb; [|discriminate H].
  destruct (sub_started b); [discriminate H|]. injection H as <-.
  set (b' := {| sub_id := c0; sub_buf := [smap s]; sub_started := true; sub_registered := true;
                sub_cancelled := sub_cancelled b; sub_closed := false |}).
  assert (Hf : find_sub c0 (set_sub b' (subs s)) = Some b') by (apply (find_sub_set_same b' _ b); exact Hb).
  constructor; simp_st.
  - exists b'. now repeat split.
  - right. unfold last_sent. simp_st. fold b'. now rewrite Hf.
Qed.

(* C06 (subscriber): from its subscription on, along every run in which its channel has room at
   every broadcast, the silent stores do not change the map, the monitor manager has not exited
   and it is not unsubscribed: whenever the system is quiescent, the newest snapshot sent to the
   subscriber (the last in its channel, or the last it took) is the state map *)
Theorem sup_c06_subscriber c c0 s0 s1 ls s :
  reachable_sup c s0 -> step c s0 (LSubDo c0) = Some s1 ->
  run (step c) s1 ls = Some s -> run_ok c c0 s1 ls ->
  quiescent c s = true -> last_sent s c0 = Some (smap s).
Proof.
  intros Hre0 Hdo Hrun Hok Q.
  assert (Hre1 : reachable_sup c s1) by (eapply reachable_step; eassumption).
  assert (Hre : reachable_sup c s) by (eapply reachable_run; eassumption).
  pose proof (Track_run _ _ _ _ _ Hre1 (Track_subdo _ _ _ _ Hdo) Hok Hrun) as [_ [(i & l & Hi & _)|Tl]]; [|exact Tl].
  exfalso. destruct (im_len _ _ (InvMon_reachable _ _ Hre)) as (_ & Lmon & _).
  assert (Li : i < nrun c) by (rewrite <- Lmon; apply mon_at_lt; rewrite Hi; discriminate).
  pose proof (quiescent_monrecv _ _ _ Q Li) as X. now rewrite Hi in X.
Qed.

(* with an empty channel: the last snapshot the subscriber received is the state map *)
Corollary sup_c06_subscriber_drained c c0 s0 s1 ls s b :
  reachable_sup c s0 -> step c s0 (LSubDo c0) = Some s1 ->
  run (step c) s1 ls = Some s -> run_ok c c0 s1 ls ->
  quiescent c s = true -> find_sub c0 (subs s) = Some b -> sub_buf b = [] ->
  last_recv c0 (hist s) = Some (smap s).
Proof.
  intros Hre0 Hdo Hrun Hok Q Hb Hbuf.
  pose proof (sup_c06_subscriber _ _ _ _ _ _ Hre0 Hdo Hrun Hok Q) as X.
  unfold last_sent in X. now rewrite Hb, Hbuf in X.
Qed.

(* C06 ("closed exactly once"): the progress half - a subscription whose context has ended DOES get closed.  The
   closer goroutine's step (LSubUnreg: unsubscribe, then close) is enabled as soon as the subscription has been
   set up and cancelled; if the context ended before SubscribeStateChanges had run, the set-up step is enabled
   first.  Hence in a quiescent state every cancelled subscription is closed.  Together with close_once (at most
   once, only after the context ended) and InvSubs (a closed channel is never a broadcast target): exactly once. *)
Theorem sup_c06_cancelled_gets_closed c s c0 b :
  find_sub c0 (subs s) = Some b -> sub_cancelled b = true -> sub_closed b = false ->
  (sub_started b = true -> step c s (LSubUnreg c0) <> None) /\
  (sub_started b = false -> step c s (LSubDo c0) <> None).
Proof.
  intros Hf Hc Hx. unfold step. cbn [step0]. rewrite Hf. split; intros Hs; rewrite Hs.
  - rewrite Hc, Hx. cbn. discriminate.
  - discriminate.
Qed.

Theorem sup_c06_quiescent_closed c s c0 b :
  quiescent c s = true -> find_sub c0 (subs s) = Some b -> sub_cancelled b = true -> sub_closed b = true.
Proof.
  intros Q Hf Hc. destruct (sub_closed b) eqn:Hx; [reflexivity|]. exfalso.
  pose proof (find_sub_In _ _ _ Hf) as Hin. pose proof (find_sub_id _ _ _ Hf) as Hid.
  destruct (sup_c06_cancelled_gets_closed c s c0 b Hf Hc Hx) as [A B].
  destruct (sub_started b) eqn:Hs.
  - assert (Hl : In (LSubUnreg c0) (taus_nt c s)).
    { in_chain ltac:(apply in_map_iff; exists b; split; [now rewrite Hid|exact Hin]). }
    pose proof (quiescent_taus _ _ _ Q Hl) as H. apply (A eq_refl). unfold step. exact H.
  - assert (Hl : In (LSubDo c0) (taus_nt c s)).
    { in_chain ltac:(apply in_map_iff; exists b; split; [now rewrite Hid|exact Hin]). }
    pose proof (quiescent_taus _ _ _ Q Hl) as H. apply (B eq_refl). unfold step. exact H.
Qed.
