(* The accounting invariant of the cluster protocol (planner as written, under id hygiene) and
   its preservation by every step; consequences for every schedule. *)
From Coq Require Import List Arith NArith Bool Lia Permutation.
From GS Require Import LTS Cluster ClusterLTS ClusterPlan ClusterFix ClusterRun.
Import ListNotations.
Open Scope N_scope.

Ltac psimpl := cbn [s_entries s_pc s_shut s_fsm s_next s_offer s_stopreq s_cancel s_closed s_delay s_live
                       s_stopping s_unrun s_hyg s_base s_des s_failed].
Tactic Notation "psimpl" "in" hyp(H) :=
  cbn [s_entries s_pc s_shut s_fsm s_next s_offer s_stopreq s_cancel s_closed s_delay s_live
       s_stopping s_unrun s_hyg s_base s_des s_failed] in H.

Definition lv (s : state) : list N := map fst (s_live s).
Definition sp (s : state) : list N := map fst (s_stopping s).

(* every key still to be started holds a start entry without runtime *)
Definition start_ok (pend : emap) (ts : list id) : Prop :=
  forall k, In k ts -> exists e, lookup k pend = Some e /\ e_rt e = None /\ e_act e = AStart.

Definition at_key (pend : emap) (k : id) (i : N) : Prop :=
  exists e, lookup k pend = Some e /\ e_rt e = Some i /\ e_act e = AStart.

Definition acct_pc (s : state) : Prop :=
  match s_pc s with
  | PIdle =>
    NoDup (keys (s_entries s)) /\ Permutation (lv s) (rts (s_entries s)) /\ sp s = [] /\ s_shut s = false
  | PFin | PRet => lv s = [] /\ sp s = [] /\ s_entries s = []
  | PStop pend ts tocall called tp =>
    NoDup (keys pend) /\ Permutation (lv s) (keep pend ++ tocall) /\ Permutation (sp s) called /\
    tp = snd (pending_actions pend) /\ start_ok pend ts /\
    (s_shut s = true -> ts = [] /\ filter nonstop pend = [])
  | PDelay pend ts | PStart pend ts =>
    NoDup (keys pend) /\ Permutation (lv s) (keep pend) /\ sp s = [] /\ start_ok pend ts /\ s_shut s = false
  | PWait pend ts k i b =>
    NoDup (keys pend) /\ Permutation (lv s) (keep pend) /\ sp s = [] /\ start_ok pend ts /\ s_shut s = false /\
    at_key pend k i /\ ~ In k ts
  | PFailStop pend ts k i =>
    NoDup (keys pend) /\ Permutation (i :: lv s) (keep pend) /\ sp s = [i] /\ start_ok pend ts /\
    s_shut s = false /\ at_key pend k i /\ ~ In k ts
  end.

Definition acct (s : state) : Prop :=
  NoDup (lv s) /\ (forall j, In j (lv s) -> j < s_next s) /\ acct_pc s.

(* legacy planner: the invariant is only claimed while every processed map was hygienic *)
Definition Inv (s : state) : Prop := s_hyg s = true -> acct s.

(* ---------------------------------------------------------------- planner facts used by the steps *)
Lemma plan_start_rt ord cur des q e :
  In (q, e) (plan_list ord cur des) -> e_act e = AStart -> e_rt e = None.
Proof.
  intros Hin Ha. apply plan_only in Hin as [(k & old & _ & _ & Hin)|(d & _ & _ & ->)]; [|reflexivity].
  unfold process_existing in Hin. destruct (dcfg des k) as [c|].
  - destruct (e_cfg old =? c).
    + destruct Hin as [[= <- <-]|[]]. discriminate.
    + destruct (e_rt old); [destruct Hin as [[= <- <-]|[[= <- <-]|[]]]|destruct Hin as [[= <- <-]|[]]];
        try discriminate; reflexivity.
  - destruct (e_rt old); [destruct Hin as [[= <- <-]|[]]; discriminate|destruct Hin].
Qed.

Lemma plan_shutdown_all_stop ord cur q e : In (q, e) (plan_list ord cur []) -> e_act e = AStop.
Proof.
  intros Hin. apply plan_only in Hin as [(k & old & _ & _ & Hin)|(d & [] & _)].
  unfold dcfg in Hin. cbn [lookup option_map process_existing] in Hin.
  destruct (e_rt old); [destruct Hin as [[= <- <-]|[]]; reflexivity|destruct Hin].
Qed.

(* what the protocol needs from the REPAIRED planner, for arbitrary ids *)
Lemma true_plan_good ord cur des :
  NoDup (keys cur) -> NoDup (keys des) -> Permutation ord (keys cur) ->
  let pend := build_pending true ord cur des in
  NoDup (keys pend) /\ Permutation (rts pend) (rts cur) /\
  (forall q e, In (q, e) pend -> e_act e = AStart -> e_rt e = None) /\
  (des = [] -> forall q e, In (q, e) pend -> e_act e = AStop).
Proof.
  intros Hc Hd Hp pend.
  assert (Nord : NoDup ord) by (eapply Permutation_NoDup; [apply Permutation_sym; exact Hp|exact Hc]).
  assert (Sord : forall k, In k ord -> In k (keys cur)) by (intros k; apply Permutation_in; exact Hp).
  destruct (build_pending_true_spec ord cur des Nord Sord Hd) as (Hnd & _). fold pend in Hnd.
  split; [exact Hnd|]. split.
  - unfold pend. rewrite rts_map_snd, true_entries by assumption. rewrite <- rts_map_snd.
    now apply plan_conserves_runtimes.
  - split.
    + intros q e Hin Ha. destruct (true_entry_source ord cur des q e Nord Sord Hd Hin) as (q0 & H0).
      now apply (plan_start_rt ord cur des q0 e).
    + intros -> q e Hin. destruct (true_entry_source ord cur [] q e Nord Sord Hd Hin) as (q0 & H0).
      now apply (plan_shutdown_all_stop ord cur q0 e).
Qed.

Lemma start_ok_of_plan pend :
  NoDup (keys pend) -> (forall q e, In (q, e) pend -> e_act e = AStart -> e_rt e = None) ->
  start_ok pend (fst (pending_actions pend)).
Proof.
  intros Hnd Hs k Hk. unfold pending_actions in Hk. cbn [fst] in Hk. unfold keys in Hk.
  apply in_map_iff in Hk as ((k', e) & <- & Hin). apply filter_In in Hin as [Hin Ha]. cbn [fst snd] in *.
  assert (He : e_act e = AStart) by (destruct (e_act e); try discriminate; reflexivity).
  exists e. split; [now apply in_lookup|]. split; [now apply (Hs k')|exact He].
Qed.

Lemma start_ok_sub pend ts ts' : (forall k, In k ts' -> In k ts) -> start_ok pend ts -> start_ok pend ts'.
Proof. intros Hs H k Hk. apply H. now apply Hs. Qed.

Lemma no_stop_filter pend : snd (pending_actions pend) = [] -> filter nonstop pend = pend.
Proof.
  unfold pending_actions. cbn [snd]. intros H. apply filter_all. intros p Hp. unfold nonstop.
  destruct (action_eqb (e_act (snd p)) AStop) eqn:E; [|reflexivity].
  assert (In (fst p) (keys (filter (fun p => action_eqb (e_act (snd p)) AStop) pend))).
  { apply in_map. apply filter_In. now split. }
  rewrite H in H0. destruct H0.
Qed.

(* clearRuntime of every stop key leaves the kept runtimes, the keys and the start entries alone *)
Lemma clear_all_props tp : forall pend,
  NoDup (keys pend) -> (forall k e, In k tp -> lookup k pend = Some e -> e_act e = AStop) ->
  keys (clear_all tp pend) = keys pend /\ keep (clear_all tp pend) = keep pend /\
  (forall ts, start_ok pend ts -> start_ok (clear_all tp pend) ts) /\
  (filter nonstop pend = [] -> filter nonstop (clear_all tp pend) = []).
Proof.
  induction tp as [|k tp IH]; intros pend Hnd Hs; [repeat split; auto|].
  cbn [clear_all fold_left].
  assert (E : match clear_runtime k pend with Some m' => m' | None => pend end = update_rt k None pend).
  { unfold clear_runtime. destruct (mem k pend) eqn:Em; [reflexivity|]. apply mem_false in Em. now rewrite update_rt_notin. }
  rewrite E. fold (clear_all tp (update_rt k None pend)).
  assert (Hk : forall e, lookup k pend = Some e -> e_act e = AStop) by (intros e; apply Hs; now left).
  destruct (IH (update_rt k None pend)) as (K1 & K2 & K3 & K4).
  - now rewrite keys_update_rt.
  - intros k' e Hk' Hl. rewrite lookup_update_rt in Hl. destruct (lookup k' pend) as [e0|] eqn:E0; [|discriminate].
    injection Hl as <-. assert (e_act e0 = AStop) by (apply (Hs k'); [now right|exact E0]).
    destruct (id_eqb k' k); [exact H|exact H].
  - rewrite K1, K2, keys_update_rt, keep_update_stop by assumption. repeat split; try reflexivity.
    + intros ts Hok. apply K3. intros k' Hk'. destruct (Hok k' Hk') as (e & Hl & Hr & Ha).
      rewrite lookup_update_rt, Hl. destruct (id_eqb k' k) eqn:Ek.
      * apply id_eqb_eq in Ek. subst k'. rewrite (Hk e Hl) in Ha. discriminate.
      * now exists e.
    + intros Hf. apply K4. unfold update_rt. clear -Hf. induction pend as [|p pend IHp]; [reflexivity|].
      cbn [filter map] in *. destruct (nonstop p) eqn:En; [discriminate|].
      assert (nonstop (if id_eqb (fst p) k then (fst p, set_rt None (snd p)) else p) = false)
        by (destruct (id_eqb (fst p) k); exact En).
      rewrite H. now apply IHp.
Qed.

Lemma stop_keys_are_stop pend k e :
  NoDup (keys pend) -> In k (snd (pending_actions pend)) -> lookup k pend = Some e -> e_act e = AStop.
Proof.
  intros Hnd Hk Hl. unfold pending_actions in Hk. cbn [snd] in Hk. unfold keys in Hk.
  apply in_map_iff in Hk as ((k', e') & <- & Hin). apply filter_In in Hin as [Hin Ha]. cbn [fst snd] in *.
  rewrite (in_lookup pend k' e' Hnd Hin) in Hl. injection Hl as <-.
  destruct (e_act e'); try discriminate; reflexivity.
Qed.

Lemma keep_all_stop pend : filter nonstop pend = [] -> keep pend = [].
Proof. unfold keep. now intros ->. Qed.

Lemma commit_all_stop pend : filter nonstop pend = [] -> commit pend = [].
Proof. unfold commit. fold nonstop. now intros ->. Qed.

(* ---------------------------------------------------------------- finishing a round *)
Section Steps.
  Variable s : state.
  Hypothesis Hnd : NoDup (lv s).
  Hypothesis Hlt : forall j, In j (lv s) -> j < s_next s.

  Lemma acct_finish pend :
    NoDup (keys pend) -> Permutation (lv s) (keep pend) -> sp s = [] ->
    (s_shut s = true -> filter nonstop pend = []) ->
    acct (finish_round s pend).
  Proof.
    intros Hk Hp Hs Hsh. unfold acct, acct_pc, finish_round, lv, sp in *. psimpl.
    split; [exact Hnd|]. split; [exact Hlt|].
    destruct (s_shut s) eqn:E; psimpl.
    - specialize (Hsh eq_refl). rewrite (keep_all_stop _ Hsh) in Hp. apply Permutation_sym, Permutation_nil in Hp.
      repeat split; [exact Hp|exact Hs|now apply commit_all_stop].
    - repeat split; [rewrite keys_commit; now apply nodup_keys_filter|now rewrite rts_commit|exact Hs].
  Qed.

  Lemma acct_next_start pend ts :
    NoDup (keys pend) -> Permutation (lv s) (keep pend) -> sp s = [] -> start_ok pend ts ->
    (s_shut s = true -> ts = [] /\ filter nonstop pend = []) ->
    acct (next_start s pend ts).
  Proof.
    intros Hk Hp Hs Hok Hsh. unfold next_start. destruct ts as [|t ts].
    - apply acct_finish; try assumption. intros E. now apply Hsh.
    - unfold acct, acct_pc, set_pc, lv, sp in *. psimpl. repeat split; try assumption.
      destruct (s_shut s); [|reflexivity]. destruct (Hsh eq_refl) as [[=] _].
  Qed.

  Lemma acct_after_stops pend ts tp :
    NoDup (keys pend) -> Permutation (lv s) (keep pend) -> sp s = [] -> start_ok pend ts ->
    tp = snd (pending_actions pend) ->
    (s_shut s = true -> ts = [] /\ filter nonstop pend = []) ->
    acct (after_stops s pend ts tp).
  Proof.
    intros Hk Hp Hs Hok -> Hsh. unfold after_stops.
    destruct (clear_all_props (snd (pending_actions pend)) pend Hk) as (K1 & K2 & K3 & K4).
    { intros k e Hin Hl. now apply (stop_keys_are_stop pend k e). }
    destruct ts as [|t ts].
    - apply acct_finish; rewrite ?K1, ?K2; try assumption. intros E. apply K4. now apply Hsh.
    - assert (s_shut s = false) by (destruct (s_shut s); [destruct (Hsh eq_refl) as [[=] _]|reflexivity]).
      destruct (s_delay s); unfold acct, acct_pc, set_pc, lv, sp in *; psimpl;
        rewrite K1, K2; repeat split; try assumption; now apply K3.
  Qed.
End Steps.

(* beginning a round on a freshly built plan *)
Lemma acct_begin s pend :
  NoDup (lv s) -> (forall j, In j (lv s) -> j < s_next s) ->
  NoDup (keys pend) -> Permutation (lv s) (rts pend) -> sp s = [] ->
  (forall q e, In (q, e) pend -> e_act e = AStart -> e_rt e = None) ->
  (s_shut s = true -> forall q e, In (q, e) pend -> e_act e = AStop) ->
  acct (begin_round s pend).
Proof.
  intros Hnd Hlt Hk Hp Hs Hst Hsh. unfold begin_round.
  pose proof (start_ok_of_plan pend Hk Hst) as Hok.
  pose proof (stop_insts_eq pend Hk) as Hsi.
  destruct (pending_actions pend) as [ts tp] eqn:Epa. cbn [fst snd] in *.
  assert (Hshut : s_shut s = true -> ts = [] /\ filter nonstop pend = []).
  { intros E. specialize (Hsh E). split.
    - assert (Hts : ts = fst (pending_actions pend)) by now rewrite Epa. rewrite Hts. unfold pending_actions. cbn [fst].
      rewrite filter_none; [reflexivity|]. intros (q, e) Hin. cbn [snd]. now rewrite (Hsh q e Hin).
    - apply filter_none. intros (q, e) Hin. unfold nonstop. cbn [snd]. now rewrite (Hsh q e Hin). }
  assert (Hpart := rts_partition pend). rewrite <- Hsi in Hpart.
  assert (Htp : tp = snd (pending_actions pend)) by now rewrite Epa.
  destruct (stop_insts pend tp) as [|c tocall] eqn:Esi.
  - rewrite app_nil_r in Hpart. assert (Hp' : Permutation (lv s) (keep pend)) by (eapply Permutation_trans; eassumption).
    destruct tp as [|t tp].
    + now apply acct_next_start.
    + now apply acct_after_stops.
  - unfold acct, acct_pc, set_pc, lv, sp in *. psimpl. repeat split; try assumption.
    + eapply Permutation_trans; eassumption.
    + rewrite Hs. constructor.
    + now apply Hshut.
    + now apply Hshut.
Qed.
