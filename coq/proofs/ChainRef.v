(* C15 — the index machine `exec` refines the suffix-recursive reference interpreter `ref`,
   for chains of any length, and never runs out of fuel given fuel > length. *)
From Coq Require Import List NArith ZArith Bool Lia.
From GS Require Import Chain.
Import ListNotations.
Open Scope Z_scope.

(* the cursor seen from handler i: untouched (live) or at/after the end *)
Definition sim (n i : Z) (live : bool) (s : mstate) : Prop :=
  if live then m_idx s = i else n <= m_idx s.

Definition rel_h (n i : Z) (o : outcome mstate) (r : outcome (bool * core)) : Prop :=
  match o, r with
  | Done s', Done (l', c') => m_core s' = c' /\ sim n i l' s'
  | Panicked s', Panicked (_, c') => m_core s' = c'
  | _, _ => False
  end.

Definition rel_k (n : Z) (o : outcome mstate) (r : outcome core) : Prop :=
  match o, r with
  | Done s', Done c' => m_core s' = c' /\ n <= m_idx s'
  | Panicked s', Panicked c' => m_core s' = c'
  | _, _ => False
  end.

Lemma sim_leb : forall n i live s, i < n -> sim n i live s -> Z.leb n (m_idx s) = negb live.
Proof.
  intros n i live s Hi Hs. destruct live; cbn in *.
  - apply Z.leb_gt. lia.
  - apply Z.leb_le. lia.
Qed.

Section Acts.
  Variables (call_next : mstate -> outcome mstate) (k : core -> outcome core) (n i : Z).
  Hypothesis Hi : 0 <= i < n.
  Hypothesis Hlive : forall s, m_idx s = i -> rel_k n (call_next s) (k (m_core s)).
  Hypothesis Hdead : forall s, n <= m_idx s -> call_next s = Done (mbump s).

  Lemma acts_sim : forall acts live s,
    sim n i live s ->
    rel_h n i (run_acts call_next n i acts s) (ref_acts k i acts live (m_core s)).
  Proof.
    induction acts as [|a rest IH]; intros live s Hs.
    - cbn. split; auto.
    - destruct a; cbn [run_acts ref_acts].
      + (* Next *)
        destruct live.
        * cbn in Hs.
          pose proof (Hlive (mlog (ENextCall i) s) Hs) as H.
          cbn [mlog m_core] in H.
          destruct (call_next (mlog (ENextCall i) s)) as [s'|s'| |] eqn:E1;
            destruct (k (logc (ENextCall i) (m_core s))) as [c2|c2| |] eqn:E2;
            cbn in H; try contradiction.
          -- destruct H as [Hc Hn].
             assert (Hs' : sim n i false (mobs n i (mlog (ENextRet i) s'))) by (cbn; lia).
             specialize (IH false _ Hs').
             cbn [mobs mlog m_core m_idx] in IH.
             replace (Z.leb n (m_idx s')) with true in IH by (symmetry; apply Z.leb_le; lia).
             rewrite Hc in IH. exact IH.
          -- cbn. exact H.
        * cbn in Hs.
          rewrite (Hdead (mlog (ENextCall i) s)) by (cbn; lia).
          assert (Hs' : sim n i false (mobs n i (mlog (ENextRet i) (mbump (mlog (ENextCall i) s)))))
            by (cbn; lia).
          specialize (IH false _ Hs').
          cbn [mobs mlog mbump m_core m_idx] in IH.
          replace (Z.leb n (m_idx s + 1)) with true in IH by (symmetry; apply Z.leb_le; lia).
          exact IH.
      + (* Abort *)
        assert (Hs' : sim n i false (mobs n i (mlog (EAbort i) (mset_idx n s)))) by (cbn; lia).
        specialize (IH false _ Hs').
        cbn [mobs mlog mset_idx m_core m_idx] in IH.
        rewrite Z.leb_refl in IH. exact IH.
      + (* Return *) cbn. split; auto.
      + (* Panic *) cbn. reflexivity.
      + (* WriteHeader *)
        destruct (step_simple (AWriteHeader c) (m_core s)) as [c' p]. destruct p.
        * cbn. reflexivity.
        * assert (Hs' : sim n i live (mobs n i (mkM (m_idx s) c'))) by (destruct live; cbn in *; lia).
          specialize (IH live _ Hs'). cbn [mobs m_core m_idx] in IH.
          rewrite (sim_leb n i live s) in IH by (auto; lia). exact IH.
      + (* Write *)
        destruct (step_simple (AWrite b) (m_core s)) as [c' p]. destruct p.
        * cbn. reflexivity.
        * assert (Hs' : sim n i live (mobs n i (mkM (m_idx s) c'))) by (destruct live; cbn in *; lia).
          specialize (IH live _ Hs'). cbn [mobs m_core m_idx] in IH.
          rewrite (sim_leb n i live s) in IH by (auto; lia). exact IH.
      + destruct (step_simple (ASetH k0 v) (m_core s)) as [c' p]. destruct p.
        * cbn. reflexivity.
        * assert (Hs' : sim n i live (mobs n i (mkM (m_idx s) c'))) by (destruct live; cbn in *; lia).
          specialize (IH live _ Hs'). cbn [mobs m_core m_idx] in IH.
          rewrite (sim_leb n i live s) in IH by (auto; lia). exact IH.
      + destruct (step_simple (AAddH k0 v) (m_core s)) as [c' p]. destruct p.
        * cbn. reflexivity.
        * assert (Hs' : sim n i live (mobs n i (mkM (m_idx s) c'))) by (destruct live; cbn in *; lia).
          specialize (IH live _ Hs'). cbn [mobs m_core m_idx] in IH.
          rewrite (sim_leb n i live s) in IH by (auto; lia). exact IH.
      + destruct (step_simple (ADelH k0) (m_core s)) as [c' p]. destruct p.
        * cbn. reflexivity.
        * assert (Hs' : sim n i live (mobs n i (mkM (m_idx s) c'))) by (destruct live; cbn in *; lia).
          specialize (IH live _ Hs'). cbn [mobs m_core m_idx] in IH.
          rewrite (sim_leb n i live s) in IH by (auto; lia). exact IH.
      + (* Wild *)
        destruct (strip_prefix pfx (c_path (m_core s))) as [p'|].
        * assert (Hs' : sim n i live (mkM (m_idx s) (mkC (c_w (m_core s)) p' (c_tr (m_core s)))))
            by (destruct live; cbn in *; lia).
          specialize (IH live _ Hs'). cbn [m_core] in IH. exact IH.
        * destruct (http_error 404 msg404 (m_core s)) as [c' p]. destruct p.
          -- cbn. reflexivity.
          -- cbn. split; auto. lia.
  Qed.

  Lemma handler_sim : forall h s,
    m_idx s = i ->
    rel_h n i (run_handler call_next n i h s) (ref_handler k i h (m_core s)).
  Proof.
    intros h s Hs. unfold run_handler, ref_handler.
    assert (Hs' : sim n i true (mlog (EEnter i) s)) by (cbn; exact Hs).
    pose proof (acts_sim (body_of h) true _ Hs') as H.
    cbn [mlog m_core] in H.
    destruct (run_acts call_next n i (body_of h) (mlog (EEnter i) s)) as [s'|s'| |];
      destruct (ref_acts k i (body_of h) true (logc (EEnter i) (m_core s))) as [[l' c']|[l' c']| |];
      cbn in H; try contradiction.
    - destruct H as [Hc Hsim]. cbn. split.
      + rewrite Hc. reflexivity.
      + destruct l'; cbn in *; exact Hsim.
    - subst c'. destruct (recovers h).
      + cbn [mlog m_core m_idx].
        destruct (http_error 500 msg500 (logc (ERecovered i (r_wrote (rc (c_w (m_core s')))) (r_code (rc (c_w (m_core s'))))) (m_core s')))
          as [c2 p].
        destruct p; cbn.
        * reflexivity.
        * split; auto. lia.
      + cbn. reflexivity.
  Qed.
End Acts.

Lemma mbump_eq : forall s i, m_idx s = i -> mbump s = mkM (i + 1) (m_core s).
Proof. intros [j c] i H. cbn in *. subst. reflexivity. Qed.

Lemma loop_dead : forall f hs n s, n <= m_idx s -> next_loop (S f) hs n s = Done s.
Proof.
  intros f hs n s H. cbn [next_loop].
  replace (Z.ltb (m_idx s) n) with false by (symmetry; apply Z.ltb_ge; lia). reflexivity.
Qed.

Lemma loop_sim : forall hs suf pre fuel c,
  hs = pre ++ suf -> (length suf < fuel)%nat ->
  rel_k (lenZ hs) (next_loop fuel hs (lenZ hs) (mkM (Z.of_nat (length pre)) c))
        (ref_seq (Z.of_nat (length pre)) suf c).
Proof.
  intros hs suf. induction suf as [|h rest IH]; intros pre fuel c Hhs Hf.
  - destruct fuel as [|f]; [cbn in Hf; lia|].
    rewrite loop_dead.
    + cbn. split; auto. subst hs. unfold lenZ. rewrite app_nil_r. lia.
    + cbn. subst hs. unfold lenZ. rewrite app_nil_r. lia.
  - destruct fuel as [|f]; [cbn in Hf; lia|].
    cbn [length] in Hf.
    set (n := lenZ hs). set (i := Z.of_nat (length pre)).
    assert (Hn : n = Z.of_nat (length pre) + Z.of_nat (S (length rest))).
    { unfold n, lenZ. subst hs. rewrite app_length. cbn [length]. lia. }
    assert (Hi : 0 <= i < n) by (unfold i; lia).
    cbn [next_loop ref_seq m_idx].
    replace (Z.ltb i n) with true by (symmetry; apply Z.ltb_lt; lia).
    replace (Z.ltb i 0) with false by (symmetry; apply Z.ltb_ge; lia).
    assert (Hnth : nth_error hs (Z.to_nat i) = Some h).
    { unfold i. rewrite Nat2Z.id. subst hs. rewrite nth_error_app2 by lia.
      rewrite Nat.sub_diag. reflexivity. }
    rewrite Hnth.
    assert (Hpre : hs = (pre ++ [h]) ++ rest) by (rewrite <- app_assoc; exact Hhs).
    assert (Hlen : Z.of_nat (length (pre ++ [h])) = i + 1)
      by (rewrite app_length; cbn [length]; unfold i; lia).
    assert (Hlive : forall s, m_idx s = i ->
              rel_k n (next_loop f hs n (mbump s)) (ref_seq (i + 1) rest (m_core s))).
    { intros s Hs. rewrite (mbump_eq s i Hs). rewrite <- Hlen.
      apply (IH (pre ++ [h]) f (m_core s) Hpre). lia. }
    assert (Hdead : forall s, n <= m_idx s -> next_loop f hs n (mbump s) = Done (mbump s)).
    { intros s Hs. destruct f as [|f']; [lia|]. apply loop_dead. cbn. lia. }
    pose proof (handler_sim (fun s1 => next_loop f hs n (mbump s1)) (ref_seq (i + 1) rest) n i
                  Hi Hlive Hdead h (mkM i c) eq_refl) as H.
    cbn [m_core] in H.
    destruct (run_handler (fun s1 => next_loop f hs n (mbump s1)) n i h (mkM i c)) as [s'|s'| |];
      destruct (ref_handler (ref_seq (i + 1) rest) i h c) as [[l' c']|[l' c']| |];
      cbn in H; try contradiction.
    + destruct H as [Hc Hs]. destruct l'; cbn in Hs.
      * specialize (Hlive s' Hs). rewrite Hc in Hlive. exact Hlive.
      * rewrite (Hdead s' Hs). cbn. split; auto. lia.
    + cbn. exact H.
Qed.

Lemma rel_k_forget : forall n o r, rel_k n o r -> forget o = r.
Proof.
  intros n o r H. destruct o as [s|s| |]; destruct r as [c|c| |]; cbn in *; try contradiction.
  - destruct H as [H _]. rewrite H. reflexivity.
  - rewrite H. reflexivity.
Qed.

Lemma exec_rel : forall hs path fuel,
  (length hs < fuel)%nat -> rel_k (lenZ hs) (exec fuel hs path) (ref hs path).
Proof.
  intros hs path fuel Hf. unfold exec, ref.
  change (mbump (mkM (-1) (init_core path))) with (mkM (Z.of_nat (length (@nil handler))) (init_core path)).
  change 0 with (Z.of_nat (length (@nil handler))).
  apply (loop_sim hs hs [] fuel (init_core path)); auto.
Qed.

(* exec = ref on trace, response and getters (everything but the cursor) *)
Theorem exec_ref : forall hs path fuel,
  (length hs < fuel)%nat -> forget (exec fuel hs path) = ref hs path.
Proof. intros. eapply rel_k_forget. apply exec_rel. assumption. Qed.

(* never out of fuel, never stuck (the cursor always addresses a handler) *)
Theorem exec_fuel_ok : forall hs path fuel,
  (length hs < fuel)%nat ->
  exec fuel hs path <> OutOfFuel /\ exec fuel hs path <> Stuck.
Proof.
  intros hs path fuel Hf. pose proof (exec_rel hs path fuel Hf) as H.
  destruct (exec fuel hs path); split; intro E; try discriminate;
    destruct (ref hs path); cbn in H; contradiction.
Qed.

Theorem exec_fuel_default : forall hs path,
  exec (exec_fuel hs) hs path <> OutOfFuel /\ exec (exec_fuel hs) hs path <> Stuck /\
  forget (exec (exec_fuel hs) hs path) = ref hs path.
Proof.
  intros hs path. assert (H : (length hs < exec_fuel hs)%nat) by (unfold exec_fuel; lia).
  destruct (exec_fuel_ok hs path _ H). split; [|split]; auto. apply exec_ref; auto.
Qed.

(* ref itself never yields the two error values *)
Theorem ref_total : forall hs path, ref hs path <> OutOfFuel /\ ref hs path <> Stuck.
Proof.
  intros hs path. pose proof (exec_rel hs path (S (length hs)) (Nat.lt_succ_diag_r _)) as H.
  destruct (exec (S (length hs)) hs path); destruct (ref hs path); cbn in H;
    try contradiction; split; discriminate.
Qed.

(* when ServeHTTP returns normally the processor reports IsAborted (the cursor is past the end) *)
Theorem exec_done_aborted : forall hs path fuel s,
  (length hs < fuel)%nat -> exec fuel hs path = Done s -> final_aborted hs (Done s) = true.
Proof.
  intros hs path fuel s Hf E. pose proof (exec_rel hs path fuel Hf) as H. rewrite E in H.
  destruct (ref hs path); cbn in H; try contradiction.
  cbn. apply Z.leb_le. lia.
Qed.
