(* Lock discipline of the composite model (reloadMu, runnablesMu), the configuration is present
   whenever it is needed (so the [oops] branches are unreachable), and the ownership of the
   Stop workers.  All invariants are lifted to every schedule. *)
From Coq Require Import List NArith Bool Arith Lia.
From GS Require Import Errs LTS Composite CompositeMon CompositeBase CompositeC10.
Import ListNotations.

Definition inside (p : rpc) : bool := negb (outside p).

(* Run is inside (or about to enter, holding reloadMu in the repaired code) stopAllRunnables *)
Definition tear_hold (p : tpc) : bool :=
  match p with TStopBegin | TStopWait | TStopDrain => true | _ => false end.
(* program points at which the thread holds runnablesMu *)
Definition run_holds (p : tpc) : bool :=
  match p with TBootCb | TBootLaunch | TStopWait | TStopDrain => true | _ => false end.
Definition rel_holds (p : rpc) : bool :=
  match p with RBootLaunch | RStopWait | RStopDrain => true | _ => false end.

Definition rel_at (s : state) (k : nat) (f : rpc -> bool) : Prop :=
  exists r, nth_error (reloaders s) k = Some r /\ f (r_pc r) = true.

(* ------------------------------------------------------------------ the configuration is there *)

Definition I_cfg (s : state) : Prop :=
  cfg s = None ->
  all_outside s /\ fsm s <> FRunning /\ fsm s <> FReloading /\
  (pre_launch (runt s) = true \/ result_of (runt s) <> None) /\ runt s <> TBootLaunch.

Lemma I_cfg_step P s l s' : I1 s -> I_cfg s -> step P s l = Some s' -> I_cfg s'.
Proof.
  intros H1 H Hst. unfold I_cfg in *.
  open_step Hst; cbn; goal_cases; intros Hc; try discriminate Hc.
  all: try (specialize (H Hc)); try exact H.
  all: try (destruct H as (Ho & Hf1 & Hf2 & Hr & Hnb)).
  all: try (now elim Hnb).
  all: try outside_contra.
  all: try allowed_contra.
  all: try (match goal with E : runt ?s = _ |- _ => rewrite E in *; cbn in * end).
  all: try (destruct Hr as [Hr|Hr]; [discriminate Hr|now elim Hr]).
  all: try congruence.
  all: try (split_all; auto; try discriminate; try congruence;
            try (right; discriminate); try (left; reflexivity);
            unfold all_outside; cbn;
            try (apply all_outside_upd; [auto|]; intros x Hx; cbn; auto);
            try (apply all_outside_app; [auto|reflexivity]); fail).
Qed.

(* ------------------------------------------------------------------ [oops] is unreachable *)

Definition I_oops (s : state) : Prop := oops s = false.

Lemma I_oops_step P s l s' : I_cfg s -> I_oops s -> step P s l = Some s' -> I_oops s'.
Proof.
  intros Hc H Hst. unfold I_oops, I_cfg in *.
  open_step Hst; cbn; goal_cases; auto.
  all: destruct (Hc ltac:(first [reflexivity|assumption])) as (Ho & _ & _ & Hr & _).
  all: try outside_contra.
  all: try (match goal with E : runt ?s = _ |- _ => rewrite E in Hr end).
  all: cbn in Hr; destruct Hr as [Hr|Hr]; [discriminate Hr|now elim Hr].
Qed.


(* ------------------------------------------------------------------ reloadMu / runnablesMu *)

Definition b2n (b : bool) : nat := if b then 1 else 0.

Fixpoint count_r (f : rpc -> bool) (l : list reloader) : nat :=
  match l with [] => 0 | r :: t => b2n (f (r_pc r)) + count_r f t end.

Lemma count_upd f k g l x :
  nth_error l k = Some x ->
  count_r f (upd k g l) + b2n (f (r_pc x)) = count_r f l + b2n (f (r_pc (g x))).
Proof.
  revert k; induction l as [|y l IH]; intros [|k] H; cbn in *; try discriminate.
  - injection H as ->. lia.
  - specialize (IH _ H). lia.
Qed.

Lemma count_app f l r : count_r f (l ++ [r]) = count_r f l + b2n (f (r_pc r)).
Proof. induction l as [|y l IH]; cbn; [lia|]. rewrite IH. lia. Qed.

Lemma rel_pc_nth k s p :
  rel_pc k s = Some p -> exists x, nth_error (reloaders s) k = Some x /\ r_pc x = p.
Proof.
  unfold rel_pc. destruct (nth_error (reloaders s) k) as [x|]; cbn; [|discriminate].
  intros H; injection H as <-. eauto.
Qed.

Lemma count_zero_outside f l :
  count_r f l = 0 -> forall r, In r l -> f (r_pc r) = false.
Proof.
  induction l as [|y l IH]; cbn; intros H r []; subst.
  - destruct (f (r_pc r)); cbn in H; [lia|reflexivity].
  - apply IH; [|assumption]. destruct (f (r_pc y)); cbn in H; lia.
Qed.

Lemma count_pos_nth f l :
  0 < count_r f l -> exists k r, nth_error l k = Some r /\ f (r_pc r) = true.
Proof.
  induction l as [|y l IH]; cbn; [lia|].
  destruct (f (r_pc y)) eqn:E; cbn.
  - intros _. exists 0, y. auto.
  - intros H. destruct (IH H) as (k & r & Hk & Hr). exists (S k), r. auto.
Qed.

Lemma count_nth_le f l k r :
  nth_error l k = Some r -> f (r_pc r) = true -> 1 <= count_r f l.
Proof.
  revert k; induction l as [|y l IH]; intros [|k] H Hf; cbn in *; try discriminate.
  - injection H as ->. rewrite Hf. cbn. lia.
  - specialize (IH _ H Hf). lia.
Qed.

(* who holds reloadMu: at most one reloader inside its critical section, or (repaired code) Run
   in its teardown; nobody else *)
Definition L_mu (P : params) (s : state) : Prop :=
  count_r inside (reloaders s) + b2n (fix_c09 P && tear_hold (runt s))
  = b2n (negb (mu_free (reload_mu s)))
  /\ (runt s = TTearLock -> fix_c09 P = true).

(* who holds runnablesMu *)
Definition L_run (s : state) : Prop :=
  count_r rel_holds (reloaders s) + b2n (run_holds (runt s)) = b2n (negb (mu_free (run_mu s))).

(* turn every reloader-pc fact into a counting equation *)
Ltac count_facts f :=
  repeat match goal with
         | E : rel_pc ?k ?s = Some ?p |- _ =>
           let x := fresh "x" in let Hx := fresh "Hx" in let Hp := fresh "Hp" in
           destruct (rel_pc_nth _ _ _ E) as (x & Hx & Hp); clear E
         end;
  unfold upd_rel; cbn;
  repeat match goal with
         | Hx : nth_error (reloaders ?s) ?k = Some ?x |- context [count_r f (upd ?k ?g (reloaders ?s))] =>
           let Hc := fresh "Hc" in
           pose proof (count_upd f k g (reloaders s) x Hx) as Hc;
           generalize dependent (count_r f (upd k g (reloaders s))); intros
         end;
  rewrite ?count_app; cbn.

Ltac lock_fin :=
  unfold tear_pc in *;
  repeat match goal with Hp : r_pc ?x = _ |- _ => rewrite Hp in *; clear Hp end;
  repeat match goal with H : mu_free ?m = true |- _ => destruct m; [discriminate H|clear H] end;
  try match goal with |- context [fix_c09 ?P] => destruct (fix_c09 P) eqn:Efix end;
  cbn in *; rewrite ?andb_false_r, ?andb_true_r in *; cbn in *;
  repeat match goal with
         | H : context [mu_free (?f ?s)] |- _ => destruct (f s); cbn in *
         | |- context [mu_free (?f ?s)] => destruct (f s); cbn in *
         end;
  try (split; [try lia | try (intros; congruence); try discriminate; auto]).

Lemma L_mu_step P s l s' : L_mu P s -> step P s l = Some s' -> L_mu P s'.
Proof.
  intros (M1 & M5) Hst. unfold L_mu.
  open_step Hst; cbn; goal_cases; count_facts inside.
  all: lock_fin.
  all: try (specialize (M5 eq_refl); discriminate M5).
  all: destruct (membership_changed P (entries_of s) c); cbn in *; lia.
Qed.

Lemma L_run_step P s l s' : I_cfg s -> L_run s -> step P s l = Some s' -> L_run s'.
Proof.
  intros Hcfg M1 Hst. unfold L_run in *.
  open_step Hst; cbn; goal_cases; count_facts rel_holds.
  all: try (destruct (Hcfg ltac:(first [reflexivity|assumption])) as (Ho & _ & _ & Hr & _)).
  all: try outside_contra.
  all: try (exfalso; match goal with E : runt ?s = _ |- _ => rewrite E in Hr end;
            cbn in Hr; destruct Hr as [Hr|Hr]; [discriminate Hr|now elim Hr]).
  all: lock_fin; try lia.
  all: destruct (membership_changed P (entries_of s) c); cbn in *; lia.
Qed.

(* ------------------------------------------------------------------ all schedules *)

Lemma base_reach_locks P s : reach P s -> InvC10 s /\ L_mu P s /\ I_oops s /\ I_cfg s /\ L_run s.
Proof.
  revert s. apply reach_inv.
  - split; [apply InvC10_init|]. split; [unfold L_mu; cbn; split; [now rewrite andb_false_r|discriminate]|].
    split; [reflexivity|]. split; [|reflexivity].
    intros _. unfold all_outside. cbn. split_all; auto; try discriminate; try (intros r []).
  - intros s l s' (Hc & Hmu & Ho & Hcfg & Hrun) Hst.
    assert (H1 : I1 s) by (destruct Hc as (_ & H1 & _); exact H1).
    split; [eapply InvC10_step; eassumption|]. split; [eapply L_mu_step; eassumption|].
    split; [eapply I_oops_step; eassumption|]. split; [eapply I_cfg_step; eassumption|].
    eapply L_run_step; eassumption.
Qed.
