(* Progress of the HTTP runner protocol model WITHOUT the no-foreign-binder hypothesis: a small
   invariant (mutex/pc coherence and "the server being booted is the current, re-armed, un-shut one"),
   preserved by EVERY label - foreign binders, bind failures, stale serve errors included - and the
   no-stuck-state theorem on top of it (C13_terminates: Run()/Stop() still terminate after callback errors,
   nil results and unbindable addresses at any position). *)
From Coq Require Import List NArith ZArith Bool Lia.
From GS Require Import LTS HttpCfg HttpServer HttpCfgProofs HttpInv HttpInvStep HttpInvStep2 HttpProps.
Import ListNotations.

Section Progress.
  Variable stop_locked : bool.
  Variable validated : bool.
  Variable mux_ok : list str -> bool.
  Notation step := (step stop_locked validated mux_ok).

  Record Inv0 (s : state) : Prop := {
    z_free : holder s = None <-> kpc s = KFree;
    z_run : holder s = Some ByRun ->
            (rpc s = RInBoot /\ boot_kpc (kpc s)) \/ (rpc s = RInStop /\ stop_kpc (kpc s));
    z_rpc : rpc s = RInBoot \/ rpc s = RInStop -> holder s = Some ByRun;
    z_rel : forall i, holder s = Some (ByReload i) ->
            fsm_st s = FReloading \/ (fsm_st s = FError /\ run_returned s = true);
    z_new : rpc s = RNew \/ rpc s = RCalled -> fsm_st s = FNew;
    z_boot : rpc s = RWantBoot \/ rpc s = RInBoot \/ rpc s = RBooted -> fsm_st s = FBooting;
    z_probe : forall j, kpc s = KProbe j \/ kpc s = KBootFail j ->
              server s = Some j /\ once_done s = false /\
              exists sv, nth_error (servers s) j = Some sv /\ s_shut sv = false
  }.

  Lemma inv0_init c : Inv0 (init c).
  Proof.
    constructor; cbn; intros; brk; try discriminate; try tauto; auto.
  Qed.

  (* updates of a serve goroutine's pc keep the shut flags *)
  Lemma probe_keep_pc svs sid p j :
    (exists sv, nth_error svs j = Some sv /\ s_shut sv = false) ->
    exists sv, nth_error (upd_srv svs sid (set_pc p)) j = Some sv /\ s_shut sv = false.
  Proof.
    intros (sv & Hn & Hs). destruct (Nat.eq_dec j sid) as [->|Hne].
    - exists (set_pc p sv). rewrite nth_upd_same, Hn. cbn. auto.
    - exists sv. rewrite nth_upd_other by exact Hne. auto.
  Qed.

  Ltac fdisj :=
    repeat match goal with
           | H : _ \/ _ -> ?C |- _ =>
             let X := fresh "X" in assert (X : C) by (apply H; auto 6; fail); clear H
           end.
  Ltac fin0 :=
    constructor; cbn in *; intros; brk; subst; cbn in *; fdisj; brk;
    try discriminate; try contradiction; try tauto; try congruence;
    try (split; intros; discriminate); eauto;
    try (fwd; brk; subst; try discriminate; try congruence; try tauto; eauto).

  Lemma inv0_RunWake s s' : Inv0 s -> step s LRunWake = Some s' -> Inv0 s'.
  Proof.
    intros I H. destruct I as [Zf Zr Zp Zl Zn Zb Zq]. open_step H.
    destruct (crashed s); [discriminate|]. destruct (rpc s) eqn:Er; try discriminate.
    destruct (cancelled s || stop_req s); [|discriminate].
    assert (Hnr : holder s <> Some ByRun).
    { intros E. destruct (Zr E) as [[? _]|[? _]]; congruence. }
    assert (Hrel : forall i, holder s = Some (ByReload i) -> fsm_st s = FReloading).
    { intros i E. destruct (Zl i E) as [?|[_ X]]; [assumption|]. unfold run_returned in X. rewrite Er in X. discriminate. }
    cbn [fsm_st with_env] in H.
    destruct stop_locked.
    { injection H as <-. constructor; cbn; auto.
      + intros E. contradiction.
      + intros [?|?]; discriminate.
      + intros i E. left. exact (Hrel i E).
      + intros [?|?]; discriminate.
      + intros [?|[?|?]]; discriminate. }
    destruct (fsm_allowed (fsm_st s) FStopping) eqn:Ea; injection H as <-.
    - constructor; cbn; auto.
      + intros E. contradiction.
      + intros [?|?]; discriminate.
      + intros i E. rewrite (Hrel i E) in Ea. discriminate.
      + intros [?|?]; discriminate.
      + intros [?|[?|?]]; discriminate.
    - constructor; cbn; auto.
      + intros E. contradiction.
      + intros [?|?]; discriminate.
      + intros i E. left. exact (Hrel i E).
      + intros [?|?]; discriminate.
      + intros [?|[?|?]]; discriminate.
  Qed.

  Lemma inv0_RunFinishStop s s' : Inv0 s -> step s LRunFinishStop = Some s' -> Inv0 s'.
  Proof.
    intros I H. destruct I as [Zf Zr Zp Zl Zn Zb Zq]. open_step H.
    destruct (crashed s); [discriminate|]. destruct (rpc s) eqn:Er; try discriminate.
    assert (Hnr : holder s <> Some ByRun).
    { intros E. destruct (Zr E) as [[? _]|[? _]]; congruence. }
    assert (Hrel : forall i, holder s = Some (ByReload i) -> fsm_st s = FReloading).
    { intros i E. destruct (Zl i E) as [?|[_ X]]; [assumption|]. unfold run_returned in X. rewrite Er in X. discriminate. }
    destruct r.
    - destruct (fsm_allowed (fsm_st s) FStopped) eqn:Ea; injection H as <-.
      + constructor; cbn; auto; try (intros [?|?]; discriminate); try (intros [?|[?|?]]; discriminate).
        * intros E; contradiction.
        * intros i E. rewrite (Hrel i E) in Ea. discriminate.
      + constructor; cbn; auto; try (intros [?|?]; discriminate); try (intros [?|[?|?]]; discriminate).
        intros E; contradiction.
    - injection H as <-. constructor; cbn; auto; try (intros [?|?]; discriminate); try (intros [?|[?|?]]; discriminate).
      intros E; contradiction.
    - injection H as <-. constructor; cbn; auto; try (intros [?|?]; discriminate); try (intros [?|[?|?]]; discriminate).
      intros E; contradiction.
    - injection H as <-. constructor; cbn; auto; try (intros [?|?]; discriminate); try (intros [?|[?|?]]; discriminate).
      intros E; contradiction.
  Qed.

  Lemma inv0_BootCrash s s' : Inv0 s -> step s LBootCrash = Some s' -> Inv0 s'.
  Proof.
    intros I H. destruct I as [Zf Zr Zp Zl Zn Zb Zq]. open_step H.
    destruct (crashed s); [discriminate|]. destruct (kpc s) eqn:Ek; try discriminate.
    destruct (_ && _); [|discriminate]. injection H as <-.
    constructor; cbn; rewrite ?Ek; auto.
  Qed.

  Lemma inv0_BootCreate s s' sid c : Inv0 s -> step s (LBootCreate sid c) = Some s' -> Inv0 s'.
  Proof.
    intros I H. destruct I as [Zf Zr Zp Zl Zn Zb Zq]. open_step H.
    destruct (crashed s); [discriminate|]. destruct (kpc s) eqn:Ek; try discriminate.
    destruct (_ && _) eqn:Eg; [|discriminate]. injection H as <-.
    apply andb_true_iff in Eg as [Eg _]. apply andb_true_iff in Eg as [_ En]. apply Nat.eqb_eq in En. subst sid.
    assert (Hh : holder s <> None) by (intros E0; apply Zf in E0; congruence).
    constructor; cbn; auto.
    - split; intros; [contradiction|discriminate].
    - intros j [Hk|Hk]; [|discriminate]. injection Hk as <-. split; [reflexivity|]. split; [reflexivity|].
      eexists. split; [rewrite nth_error_app2, Nat.sub_diag by lia; reflexivity|reflexivity].
  Qed.

  Lemma inv0_ServeSkip s s' sid : Inv0 s -> step s (LServeSkip sid) = Some s' -> Inv0 s'.
  Proof.
    intros I H. destruct I as [Zf Zr Zp Zl Zn Zb Zq]. open_step H.
    destruct (crashed s); [discriminate|]. destruct (srv_at s sid); [|discriminate].
    destruct (server s) eqn:Es; [discriminate|]. destruct (_ && _); [|discriminate]. injection H as <-.
    constructor; cbn; auto.
    intros j Hk. destruct (Zq j Hk) as (A & _). congruence.
  Qed.

  Lemma inv0_step s l s' : Inv0 s -> step s l = Some s' -> Inv0 s'.
  Proof.
    intros I H.
    destruct l; try (eapply inv0_RunWake; eassumption); try (eapply inv0_BootCrash; eassumption);
      try (eapply inv0_RunFinishStop; eassumption);
      try (eapply inv0_BootCreate; eassumption); try (eapply inv0_ServeSkip; eassumption).
    all: destruct I as [Zf Zr Zp Zl Zn Zb Zq]; open_step H; crush_step H.
    all: try (constructor; cbn; assumption).
    (* serve goroutines: only a pc changes *)
    all: try (match goal with
              | |- Inv0 (with_srvnet _ (upd_srv _ _ (set_pc _)) _) => idtac
              | |- Inv0 (with_errs (with_srvnet _ (upd_srv _ _ (set_pc _)) _) _) => idtac
              end;
              constructor; cbn; auto; intros j Hk; destruct (Zq j Hk) as (A & B & C); try discriminate;
              split; [exact A|]; split; [exact B|]; apply probe_keep_pc; exact C).
    (* boot creates the server *)
    all: try (match goal with
              | |- Inv0 (with_crit (with_srvnet (with_server _ (Some ?sid) false) (_ ++ _) _) _ (KProbe _)) => idtac
              end;
              match goal with
              | E : (_ && _) = true |- _ =>
                apply andb_true_iff in E as [E _]; apply andb_true_iff in E as [_ E]; apply Nat.eqb_eq in E; subst
              end;
              assert (Hh : holder s <> None)
                by (intros E0; apply Zf in E0; congruence);
              constructor; cbn; auto;
              [ split; intros; [contradiction|discriminate]
              | intros E0; destruct (Zr E0) as [[? ?]|[? X]]; [left; split; [assumption|exact I]|];
                match goal with E : kpc _ = _ |- _ => rewrite E in X end; contradiction
              | intros j [Hk|Hk]; [|discriminate]; injection Hk as <-; split; [reflexivity|]; split; [reflexivity|];
                eexists; split; [rewrite nth_error_app2, Nat.sub_diag by lia; reflexivity|reflexivity] ]).
    all: repeat match goal with
                | E : rpc _ = _ |- _ => rewrite E in *; revert E
                | E : holder _ = _ |- _ => rewrite E in *; revert E
                | E : kpc _ = _ |- _ => rewrite E in *; revert E
                | E : server _ = _ |- _ => rewrite E in *; revert E
                | E : once_done _ = _ |- _ => rewrite E in *; revert E
                end; intros.
    all: repeat match goal with
                | H : _ \/ _ -> ?C |- _ =>
                  let X := fresh "X" in assert (X : C) by (apply H; auto 6; fail); clear H
                end.
    all: try (fin0; fail).
    all: try (destruct (fsm_st s) eqn:Ef0; cbn in *; try discriminate; unfold run_returned in *;
              destruct (holder s) as [[|?]|] eqn:Eh0;
              repeat match goal with
                     | H : Some _ = Some _ -> _ |- _ => specialize (H eq_refl)
                     | H : forall i, Some (ByReload _) = Some (ByReload i) -> _ |- _ => specialize (H _ eq_refl)
                     end;
              fin0; fail).
    all: try (destruct (holder s) as [[|?]|] eqn:Eh0; destruct (kpc s) eqn:Ek0;
              repeat match goal with
                     | H : Some _ = Some _ -> _ |- _ => specialize (H eq_refl)
                     | H : None = None <-> _ |- _ => destruct H
                     end;
              fin0; fail).
  Qed.
  Theorem inv0_run ls : forall s s', Inv0 s -> run step s ls = Some s' -> Inv0 s'.
  Proof. intros s s'. apply (run_inv state label step Inv0). intros; eapply inv0_step; eauto. Qed.

  Corollary inv0_reachable c0 ls s : run step (init c0) ls = Some s -> Inv0 s.
  Proof. apply inv0_run, inv0_init. Qed.

  Lemma crit_progress0 s :
    Inv0 s -> crashed s = false -> holder s <> None ->
    exists l, progress_label l = true /\ step s l <> None.
  Proof.
    intros I Hc Hh.
    assert (Hk : kpc s <> KFree) by (intros E; apply (z_free _ I) in E; contradiction).
    assert (Hrel : forall k, kpc s = k -> ~ boot_kpc k -> ~ stop_kpc k -> exists i, holder s = Some (ByReload i)).
    { intros k Ek Hb Hs. destruct (holder s) as [[|i]|] eqn:Eh; [|eauto|contradiction].
      destruct (z_run _ I Eh) as [[_ H]|[_ H]]; rewrite Ek in H; contradiction. }
    unfold HttpServer.step, step_core. rewrite ?Hc.
    destruct (kpc s) eqn:Ek; try contradiction.
    - destruct (Hrel KFetch eq_refl) as [i Eh]; auto. exists (LFetch CbErr). rewrite ?Ek, ?Eh. split; [reflexivity|discriminate].
    - destruct (Hrel KUnchanged eq_refl) as [i Eh]; auto. exists LUnchanged. rewrite ?Ek. unfold reload_finish. rewrite ?Eh.
      split; [reflexivity|discriminate].
    - destruct (once_done s) eqn:Eo.
      + exists LStopSkip. rewrite ?Ek, ?Eo. split; [reflexivity|]. now apply stop_done_some.
      + destruct (server s) as [sid|] eqn:Es.
        * exists (LStopCallS sid). rewrite ?Ek, ?Es, ?Eo, ?Nat.eqb_refl. split; [reflexivity|discriminate].
        * exists LStopSkip. rewrite ?Ek, ?Eo, ?Es. split; [reflexivity|]. now apply stop_done_some.
    - exists (LShutdownRet sid STimeout). cbn [sres_allowed]. rewrite ?Ek, ?Nat.eqb_refl. split; [reflexivity|]. now apply stop_done_some.
    - destruct (new_config_ok validated mux_ok (routes (cur s))) eqn:En.
      + destruct (mux_ok (map rpath (routes (cur s)))) eqn:Em.
        * exists (LBootCreate (length (servers s)) (cur s)). rewrite ?Ek, ?En, ?Em, ?Nat.eqb_refl, ?config_eqb_refl.
          split; [reflexivity|discriminate].
        * exists LBootCrash. rewrite ?Ek, ?En, ?Em. split; [reflexivity|discriminate].
      + exists LBootReject. rewrite ?Ek, ?En. unfold fail_boot.
        destruct (holder s) as [[|i]|]; [| |contradiction]; split; try reflexivity; discriminate.
    - destruct (z_probe _ I sid) as (Es & Eo & sv & Hn & Hsh); [auto|].
      destruct (errs s) as [|e rest] eqn:He.
      2:{ exists LProbeErr. split; [reflexivity|discriminate]. }
      destruct (s_pc sv) eqn:Ep.
      + destruct (bound_any (net s) (addr (s_cfg sv))) eqn:Eb.
        * exists (LBindFail sid). unfold srv_at. rewrite ?Hn, ?Ep, ?Hsh, ?Eb. cbn. rewrite ?Eb. split; [reflexivity|discriminate].
        * exists (LBindOk sid). unfold srv_at. rewrite ?Hn, ?Ep, ?Hsh, ?Eb. split; [reflexivity|discriminate].
      + destruct (bound_any (net s) (addr (s_cfg sv))) eqn:Eb.
        * exists LProbeOk. unfold srv_at. rewrite ?Hn, ?Ep, ?Eb. cbn. unfold boot_ok.
          destruct (holder s) as [[|i]|]; [| |contradiction]; split; try reflexivity; discriminate.
        * exists LProbeTimeout. unfold srv_at. rewrite ?Hn, ?Eb. split; [reflexivity|discriminate].
      + exists (LPushErr sid). unfold srv_at. rewrite ?Hn, ?Ep. split; [reflexivity|discriminate].
      + destruct (bound_any (net s) (addr (s_cfg sv))) eqn:Eb.
        * exists LProbeOk. unfold srv_at. rewrite ?Hn, ?Ep, ?Eb. cbn. unfold boot_ok.
          destruct (holder s) as [[|i]|]; [| |contradiction]; split; try reflexivity; discriminate.
        * exists LProbeTimeout. unfold srv_at. rewrite ?Hn, ?Eb. split; [reflexivity|discriminate].
    - destruct (z_probe _ I sid) as (Es & Eo & sv & Hn & Hsh); [auto|].
      exists (LCleanupCall sid). rewrite ?Ek, ?Es, ?Eo, !Nat.eqb_refl. split; [reflexivity|discriminate].
    - exists (LShutdownRet sid STimeout). cbn [sres_allowed]. rewrite ?Ek, ?Nat.eqb_refl. unfold fail_boot. cbn [holder with_server].
      destruct (holder s) as [[|i]|]; [| |contradiction]; split; try reflexivity; discriminate.
    - destruct (Hrel KFinish eq_refl) as [i Eh]; auto. exists LFinish. rewrite ?Ek. unfold reload_finish. rewrite ?Eh.
      split; [reflexivity|discriminate].
  Qed.


  (* no hypothesis on the environment: foreign binders, bind failures and stale serve errors included *)
  Theorem no_stuck0 c0 ls s :
    run step (init c0) ls = Some s ->
    crashed s = false -> rpc s <> RNew -> (cancelled s || stop_req s = true) ->
    run_returned s = true \/ exists l, progress_label l = true /\ step s l <> None.
  Proof.
    intros Hr Hc Hnew Hstop. pose proof (inv0_reachable c0 ls s Hr) as I.
    unfold run_returned. destruct (rpc s) eqn:Er; auto; try contradiction; right.
    - exists LRunStart. unfold HttpServer.step, step_core. rewrite Hc, Er.
      split; [reflexivity|destruct (fsm_allowed _ _); discriminate].
    - assert (Eh : holder s = None).
      { destruct (holder s) as [[|i]|] eqn:Eh; [| |reflexivity].
        - destruct (z_run _ I Eh) as [[? _]|[? _]]; congruence.
        - assert (fsm_st s = FBooting) by (apply (z_boot _ I); auto).
          destruct (z_rel _ I i Eh) as [?|[? _]]; congruence. }
      exists LRunLock. unfold HttpServer.step, step_core. rewrite Hc, Er, Eh. split; [reflexivity|discriminate].
    - apply crit_progress0; auto. rewrite (z_rpc _ I); [discriminate|auto].
    - exists LRunFinishBoot. unfold HttpServer.step, step_core. rewrite Hc, Er.
      split; [reflexivity|destruct (fsm_allowed _ _); discriminate].
    - exists LRunWake. unfold HttpServer.step, step_core. rewrite Hc, Er, Hstop. split; [reflexivity|discriminate].
    - destruct (holder s) eqn:Eh.
      + apply crit_progress0; auto. congruence.
      + exists LRunLockStop. unfold HttpServer.step, step_core. rewrite Hc, Er, Eh. split; [reflexivity|discriminate].
    - apply crit_progress0; auto. rewrite (z_rpc _ I); [discriminate|auto].
    - exists LRunFinishStop. unfold HttpServer.step, step_core. rewrite Hc, Er. split; [reflexivity|discriminate].
  Qed.
End Progress.
