(* The repaired planner, arbitrary ids: what a plan contains, and independence of the map iteration
   order up to the names of the derived (stop) keys. *)
From Coq Require Import List Arith NArith Bool Lia Permutation.
From GS Require Import Cluster ClusterPlan ClusterFix ClusterRun.
Import ListNotations.
Open Scope N_scope.

Lemma tagged_yield ord cur des k q0 e :
  In k ord -> In (q0, e) (yields cur des k) ->
  In (negb (id_eqb q0 k), (q0, e)) (plan_tagged ord cur des).
Proof.
  intros Hk Hin. unfold plan_tagged. apply in_or_app. left. apply in_flat_map. exists k. split; [exact Hk|].
  unfold yields_t. apply in_map_iff. exists (q0, e). now split.
Qed.

Lemma tagged_new ord cur des p : In p (news cur des) -> In (false, p) (plan_tagged ord cur des).
Proof. intros H. unfold plan_tagged. apply in_or_app. right. now apply in_map. Qed.

Section Contents.
  Variables (ord : list id) (cur des : emap).
  Hypothesis Hc : NoDup (keys cur).
  Hypothesis Hd : NoDup (keys des).
  Hypothesis Hp : Permutation ord (keys cur).
  Let pend := build_pending true ord cur des.

  Let Nord : NoDup ord.
  Proof. eapply Permutation_NoDup; [apply Permutation_sym; exact Hp|exact Hc]. Qed.
  Let Sord : forall k, In k ord -> In k (keys cur).
  Proof. intros k. apply Permutation_in. exact Hp. Qed.
  Let Tord : forall k old, lookup k cur = Some old -> In k ord.
  Proof.
    intros k old Hl. eapply Permutation_in; [apply Permutation_sym; exact Hp|]. apply mem_true. unfold mem. now rewrite Hl.
  Qed.

  Lemma true_nodup : NoDup (keys pend).
  Proof. apply (build_pending_true_spec ord cur des Nord Sord Hd). Qed.

  (* a tagged write is in the plan: under its own key if plain, under an unused key if derived *)
  Lemma true_of_tagged b q0 e :
    In (b, (q0, e)) (plan_tagged ord cur des) ->
    exists q, lookup q pend = Some e /\
              if b then ~ In q (keys cur) /\ ~ In q (keys des) /\ e_act e = AStop else q = q0.
  Proof.
    intros Hin. destruct (build_pending_true_spec ord cur des Nord Sord Hd) as (Hnd & HR).
    destruct (Forall2_in_l _ _ _ _ HR Hin) as ((q, e') & Hy & (He & Hk)). cbn [fst snd] in *. subst e'.
    exists q. split; [now apply in_lookup|exact Hk].
  Qed.

  Lemma true_plain k e : In k ord -> In (k, e) (yields cur des k) -> lookup k pend = Some e.
  Proof.
    intros Hk Hin. pose proof (tagged_yield ord cur des k k e Hk Hin) as Ht. rewrite id_eqb_refl in Ht.
    destruct (true_of_tagged _ _ _ Ht) as (q & Hl & ->). exact Hl.
  Qed.

  Lemma true_unchanged k old :
    lookup k cur = Some old -> dcfg des k = Some (e_cfg old) -> lookup k pend = Some (set_act ANone old).
  Proof.
    intros Hl Hdc. apply true_plain; [now apply (Tord k old)|].
    unfold yields. rewrite Hl. unfold process_existing. rewrite Hdc, N.eqb_refl. now left.
  Qed.

  Lemma true_changed_running k old c i :
    lookup k cur = Some old -> dcfg des k = Some c -> e_cfg old <> c -> e_rt old = Some i ->
    (exists q, lookup q pend = Some (set_act AStop old) /\ ~ In q (keys cur) /\ ~ In q (keys des)) /\
    lookup k pend = Some (start_entry k c).
  Proof.
    intros Hl Hdc Hne Hr.
    assert (Hy : yields cur des k = [(k ++ sfx, set_act AStop old); (k, start_entry k c)]).
    { unfold yields. rewrite Hl. unfold process_existing. rewrite Hdc. apply N.eqb_neq in Hne. now rewrite Hne, Hr. }
    split.
    - assert (Hin : In (k ++ sfx, set_act AStop old) (yields cur des k)) by (rewrite Hy; now left).
      pose proof (tagged_yield ord cur des k _ _ (Tord k old Hl) Hin) as Ht.
      assert (E : id_eqb (k ++ sfx) k = false) by (apply id_eqb_neq, sfx_neq). rewrite E in Ht. cbn [negb] in Ht.
      destruct (true_of_tagged _ _ _ Ht) as (q & Hq & H1 & H2 & _). now exists q.
    - apply true_plain; [now apply (Tord k old)|]. rewrite Hy. right. now left.
  Qed.

  Lemma true_changed_idle k old c :
    lookup k cur = Some old -> dcfg des k = Some c -> e_cfg old <> c -> e_rt old = None ->
    lookup k pend = Some (start_entry k c).
  Proof.
    intros Hl Hdc Hne Hr. apply true_plain; [now apply (Tord k old)|].
    unfold yields. rewrite Hl. unfold process_existing. rewrite Hdc. apply N.eqb_neq in Hne. rewrite Hne, Hr. now left.
  Qed.

  Lemma true_removed k old i :
    lookup k cur = Some old -> dcfg des k = None -> e_rt old = Some i -> lookup k pend = Some (set_act AStop old).
  Proof.
    intros Hl Hdc Hr. apply true_plain; [now apply (Tord k old)|].
    unfold yields. rewrite Hl. unfold process_existing. rewrite Hdc, Hr. now left.
  Qed.

  Lemma true_new k d :
    lookup k des = Some d -> lookup k cur = None -> lookup k pend = Some (start_entry k (e_cfg d)).
  Proof.
    intros Hl Hn.
    assert (Hin : In (k, start_entry k (e_cfg d)) (news cur des)).
    { unfold news. apply in_flat_map. exists (k, d). split; [now apply lookup_some_in|].
      cbn [fst snd]. unfold mem. rewrite Hn. now left. }
    destruct (true_of_tagged _ _ _ (tagged_new ord cur des _ Hin)) as (q & Hq & ->). exact Hq.
  Qed.

  (* nothing else *)
  Lemma true_only q e :
    In (q, e) pend ->
    (exists k old q0, lookup k cur = Some old /\ In (q0, e) (process_existing k old (dcfg des k)) /\
                      (q = q0 \/ (e_act e = AStop /\ ~ In q (keys cur) /\ ~ In q (keys des)))) \/
    (exists d, In (q, d) des /\ mem q cur = false /\ e = start_entry q (e_cfg d)).
  Proof.
    intros Hin. destruct (build_pending_true_spec ord cur des Nord Sord Hd) as (_ & HR).
    destruct (Forall2_in_r _ _ _ _ HR Hin) as ((b, (q0, e0)) & Ht & (He & Hk)). cbn [fst snd] in *. subst e0.
    pose proof (in_tagged _ _ _ _ _ Ht) as Hpl.
    apply plan_only in Hpl as [(k & old & _ & H1 & H2)|(d & H1 & H2 & H3)].
    - left. exists k, old, q0. split; [exact H1|]. split; [exact H2|].
      destruct b; [right; tauto|now left].
    - destruct b.
      + exfalso. destruct Hk as (_ & _ & Hs). rewrite H3 in Hs. discriminate.
      + subst q0. right. now exists d.
  Qed.

  Lemma true_conserves : Permutation (rts pend) (rts cur).
  Proof.
    unfold pend. rewrite rts_map_snd, true_entries by assumption. rewrite <- rts_map_snd.
    now apply plan_conserves_runtimes.
  Qed.
End Contents.

(* ---------------------------------------------------------------- order independence *)
Lemma lookup_iff_in (m : emap) q e : NoDup (keys m) -> (lookup q m = Some e <-> In (q, e) m).
Proof. intros H. split; [apply lookup_some_in|now apply in_lookup]. Qed.

Theorem true_order_free ord1 ord2 cur des :
  NoDup (keys cur) -> NoDup (keys des) -> Permutation ord1 (keys cur) -> Permutation ord2 (keys cur) ->
  let p1 := build_pending true ord1 cur des in
  let p2 := build_pending true ord2 cur des in
  Permutation (map snd p1) (map snd p2) /\
  (forall q e, e_act e <> AStop -> (lookup q p1 = Some e <-> lookup q p2 = Some e)) /\
  (forall q, lookup q (commit p1) = lookup q (commit p2)).
Proof.
  intros Hc Hd P1 P2 p1 p2.
  assert (N1 : NoDup ord1) by (eapply Permutation_NoDup; [apply Permutation_sym; exact P1|exact Hc]).
  assert (N2 : NoDup ord2) by (eapply Permutation_NoDup; [apply Permutation_sym; exact P2|exact Hc]).
  assert (S1 : forall k, In k ord1 -> In k (keys cur)) by (intros k; apply Permutation_in; exact P1).
  assert (S2 : forall k, In k ord2 -> In k (keys cur)) by (intros k; apply Permutation_in; exact P2).
  assert (D1 : NoDup (keys p1)) by (apply (build_pending_true_spec ord1 cur des N1 S1 Hd)).
  assert (D2 : NoDup (keys p2)) by (apply (build_pending_true_spec ord2 cur des N2 S2 Hd)).
  assert (Hpl : Permutation (plan_list ord1 cur des) (plan_list ord2 cur des)).
  { unfold plan_list. apply Permutation_app_tail, Permutation_flat_map.
    eapply Permutation_trans; [exact P1|apply Permutation_sym; exact P2]. }
  assert (Hns : forall q e, e_act e <> AStop -> (lookup q p1 = Some e <-> lookup q p2 = Some e)).
  { intros q e Ha. rewrite (lookup_iff_in p1 q e D1), (lookup_iff_in p2 q e D2).
    unfold p1, p2. rewrite (true_nonstop_iff ord1 cur des q e N1 S1 Hd Ha), (true_nonstop_iff ord2 cur des q e N2 S2 Hd Ha).
    split; apply Permutation_in; [exact Hpl|now apply Permutation_sym]. }
  split; [|split; [exact Hns|]].
  - unfold p1, p2. rewrite !true_entries by assumption. now apply Permutation_map.
  - intros q. rewrite !lookup_commit by assumption.
    destruct (lookup q p1) as [e1|] eqn:E1, (lookup q p2) as [e2|] eqn:E2.
    + destruct (action_eqb (e_act e1) AStop) eqn:A1.
      * destruct (action_eqb (e_act e2) AStop) eqn:A2; [reflexivity|].
        assert (Ha : e_act e2 <> AStop) by (intros H; rewrite H in A2; discriminate).
        apply (Hns q e2 Ha) in E2. rewrite E2 in E1. injection E1 as ->. congruence.
      * assert (Ha : e_act e1 <> AStop) by (intros H; rewrite H in A1; discriminate).
        apply (Hns q e1 Ha) in E1. rewrite E1 in E2. injection E2 as <-. now rewrite A1.
    + destruct (action_eqb (e_act e1) AStop) eqn:A1; [reflexivity|].
      assert (Ha : e_act e1 <> AStop) by (intros H; rewrite H in A1; discriminate).
      apply (Hns q e1 Ha) in E1. congruence.
    + destruct (action_eqb (e_act e2) AStop) eqn:A2; [reflexivity|].
      assert (Ha : e_act e2 <> AStop) by (intros H; rewrite H in A2; discriminate).
      apply (Hns q e2 Ha) in E2. congruence.
    + reflexivity.
Qed.
