(* Main lemmas for C20 (ValidatePort). *)
From Coq Require Import List NArith ZArith Bool Lia ZifyBool ZifyN.
From GS Require Import Port PortProofs.
Import ListNotations.
Open Scope N_scope.

Definition neg_marker : str := [c_colon; c_minus].

(* the two "negative number" pre-checks of ValidatePort *)
Definition precheck (s : str) : bool :=
  contains neg_marker s || (has_prefix [c_minus] s && negb (has c_colon s)).

Definition port_in_range (p : str) : Prop :=
  exists n, atoi p = Some n /\ (1 <= n <= 65535)%Z.

Lemma join_nil p : join_host_port [] p = c_colon :: p.
Proof. reflexivity. Qed.

Lemma canon_join h p :
  match h with [] => VOk (c_colon :: p) | _ => VOk (join_host_port h p) end
  = VOk (join_host_port h p).
Proof. destruct h; reflexivity. Qed.

Lemma validate_unfold s :
  s <> [] ->
  validate_port s =
    if precheck s then VInvalid else
    match split_host_port (norm_colon s) with
    | None => VInvalid
    | Some (host, port) =>
      match atoi port with
      | None => VInvalid
      | Some n => if ((n <? 1) || (65535 <? n))%Z then VRange
                  else VOk (join_host_port host port)
      end
    end.
Proof.
  intros Hs. destruct s as [|c s]; [congruence|].
  unfold validate_port, precheck, neg_marker.
  destruct (_ || _); [reflexivity|].
  destruct (split_host_port _) as [[h p]|]; [|reflexivity].
  destruct (atoi p); [|reflexivity].
  destruct (_ || _)%bool; [reflexivity|]. apply canon_join.
Qed.

Theorem validate_ok_iff s r :
  validate_port s = VOk r <->
  s <> [] /\ precheck s = false /\
  exists h p, split_host_port (norm_colon s) = Some (h, p) /\ port_in_range p /\
              r = join_host_port h p.
Proof.
  split.
  - intros H. assert (Hs : s <> []) by (intros ->; discriminate).
    rewrite (validate_unfold _ Hs) in H.
    destruct (precheck s); [discriminate|].
    destruct (split_host_port _) as [[h p]|]; [|discriminate].
    destruct (atoi p) as [n|] eqn:En; [|discriminate].
    destruct ((n <? 1) || (65535 <? n))%Z eqn:Er; [discriminate|].
    injection H as <-. repeat split; auto.
    exists h, p. repeat split; auto. exists n. split; [assumption|lia].
  - intros (Hs & Hp & h & p & Hsp & (n & Hn & Hr) & ->).
    rewrite (validate_unfold _ Hs), Hp, Hsp, Hn.
    replace ((n <? 1) || (65535 <? n))%Z with false by lia. reflexivity.
Qed.

(* ------------------------------------------------------------------ *)
(* ":-" detection                                                      *)

Lemma contains2_cons c d x s :
  contains [c; d] (x :: s) =
  ((N.eqb c x && match s with y :: _ => N.eqb d y | [] => false end) || contains [c; d] s)%bool.
Proof.
  cbn [contains has_prefix]. destruct s as [|y s]; cbn [has_prefix].
  - now rewrite !andb_false_r.
  - now rewrite andb_true_r.
Qed.

Lemma nobyte_no_marker c d s : nobyte c s -> contains [c; d] s = false.
Proof.
  unfold nobyte. induction s as [|x s IH]; intros H; [reflexivity|].
  rewrite has_cons in H. apply orb_false_iff in H as [Hx Hs].
  rewrite contains2_cons, (IH Hs). rewrite N.eqb_sym, Hx. reflexivity.
Qed.

Lemma contains2_app_false c d a b :
  contains [c; d] a = false -> contains [c; d] b = false ->
  (forall b', b <> d :: b') ->
  contains [c; d] (a ++ b) = false.
Proof.
  intros Ha Hb Hj. destruct (contains [c; d] (a ++ b)) eqn:E; [|reflexivity].
  destruct (contains2_app _ _ _ _ E) as [H|[H|(_ & b' & H)]]; try congruence.
Qed.

Lemma marker_colon_p p :
  nobyte c_colon p -> has_prefix [c_minus] p = false ->
  contains neg_marker (c_colon :: p) = false.
Proof.
  intros Hc Hm. unfold neg_marker. rewrite contains2_cons.
  rewrite (nobyte_no_marker _ _ _ Hc), orb_false_r.
  destruct p as [|y p]; [reflexivity|]. cbn [has_prefix] in Hm.
  rewrite andb_true_r in Hm. rewrite Hm. apply andb_false_r.
Qed.

Lemma marker_join h p :
  contains neg_marker h = false -> nobyte c_colon p -> has_prefix [c_minus] p = false ->
  contains neg_marker (join_host_port h p) = false.
Proof.
  intros Hh Hc Hm. unfold join_host_port.
  pose proof (marker_colon_p p Hc Hm) as Hcp.
  destruct (has c_colon h).
  - unfold neg_marker in *. rewrite contains2_cons.
    change (c_colon =? c_lbr) with false. cbn [andb orb].
    apply contains2_app_false; [assumption| |intros b'; discriminate].
    rewrite contains2_cons. change (c_colon =? c_rbr) with false. cbn [andb orb].
    exact Hcp.
  - apply contains2_app_false; [assumption|assumption|intros b'; discriminate].
Qed.

Lemma precheck_norm s : precheck s = false -> contains neg_marker (norm_colon s) = false.
Proof.
  unfold precheck, norm_colon. intros H. apply orb_false_iff in H as [H1 H2].
  destruct (has c_colon s) eqn:Hc; [assumption|].
  cbn [negb] in H2. rewrite andb_true_r in H2.
  apply marker_colon_p; assumption.
Qed.

Lemma has_colon_join h p : has c_colon (join_host_port h p) = true.
Proof.
  unfold join_host_port. destruct (has c_colon h) eqn:E.
  - rewrite has_cons, has_app, E. apply orb_true_r.
  - rewrite has_app, has_cons. change (c_colon =? c_colon) with true.
    cbn [orb]. apply orb_true_r.
Qed.

Lemma join_nonempty h p : join_host_port h p <> [].
Proof.
  intros E. pose proof (has_colon_join h p) as H. rewrite E in H. discriminate.
Qed.

(* ------------------------------------------------------------------ *)
(* Round trip                                                          *)

Lemma shape_marker_h hp h p :
  split_shape hp h p -> contains neg_marker hp = false -> contains neg_marker h = false.
Proof.
  intros (_ & _ & _ & _ & _ & [[-> _] | ->]) H.
  - apply contains_false_app in H; [tauto|discriminate].
  - unfold neg_marker in *. rewrite contains2_cons in H.
    apply orb_false_iff in H as [_ H].
    apply contains_false_app in H; [tauto|discriminate].
Qed.

Theorem validate_roundtrip s r :
  validate_port s = VOk r ->
  exists h p, split_host_port (norm_colon s) = Some (h, p) /\
              split_host_port r = Some (h, p) /\
              validate_port r = VOk r.
Proof.
  intros H. apply validate_ok_iff in H as (Hs & Hp & h & p & Hsp & Hr & ->).
  exists h, p. split; [assumption|].
  pose proof (split_sound _ _ _ Hsp) as Sh.
  destruct Sh as (Hl & Hrb & Pc & Pl & Pr & Hform).
  assert (Hsj : split_host_port (join_host_port h p) = Some (h, p))
    by (apply split_join; assumption).
  split; [assumption|].
  apply validate_ok_iff. split; [apply join_nonempty|]. split.
  - unfold precheck. rewrite has_colon_join. cbn [negb]. rewrite andb_false_r, orb_false_r.
    destruct Hr as (n & Hn & Hrange).
    apply marker_join; [|assumption|eapply atoi_pos_not_minus; [eassumption|lia]].
    eapply shape_marker_h.
    + repeat split; eassumption.
    + now apply precheck_norm.
  - exists h, p. unfold norm_colon. rewrite has_colon_join. auto.
Qed.

(* ------------------------------------------------------------------ *)
(* Acceptance                                                          *)

Lemma digit_not c d : is_digit c = true -> is_digit d = false -> N.eqb c d = false.
Proof.
  intros Hc Hd. destruct (N.eqb c d) eqn:E; [|reflexivity].
  apply N.eqb_eq in E; subst. congruence.
Qed.

Lemma all_digits_nobyte c p : is_digit c = false -> all_digits p -> nobyte c p.
Proof.
  intros Hc Hp. unfold nobyte. induction Hp as [|x p Hx Hp IH]; [reflexivity|].
  rewrite has_cons, IH, (digit_not _ _ Hx Hc). reflexivity.
Qed.

Definition good_port (p : str) : Prop :=
  p <> [] /\ all_digits p /\ (1 <= dec p <= 65535)%Z.

Lemma good_port_range p : good_port p -> port_in_range p.
Proof.
  intros (Hne & Hd & Hr). exists (dec p). split; [|assumption].
  apply atoi_digits; auto. unfold max_int64. lia.
Qed.

Lemma good_port_no_minus p : good_port p -> has_prefix [c_minus] p = false.
Proof.
  intros (Hne & Hd & _). destruct p as [|c p]; [congruence|].
  inversion Hd as [|? ? Hc _]; subst. cbn [has_prefix]. rewrite andb_true_r.
  rewrite N.eqb_sym. now apply digit_not.
Qed.

Theorem accepts_bare p : good_port p -> validate_port p = VOk (c_colon :: p).
Proof.
  intros G. pose proof G as (Hne & Hd & _).
  assert (Pc : nobyte c_colon p) by (now apply all_digits_nobyte).
  assert (Pl : nobyte c_lbr p) by (now apply all_digits_nobyte).
  assert (Pr : nobyte c_rbr p) by (now apply all_digits_nobyte).
  apply validate_ok_iff. split; [assumption|]. split.
  - unfold precheck, neg_marker. rewrite (nobyte_no_marker _ _ _ Pc), (good_port_no_minus _ G). reflexivity.
  - exists [], p. split; [|split; [now apply good_port_range|reflexivity]].
    unfold norm_colon. unfold nobyte in Pc. rewrite Pc.
    apply split_complete. unfold split_shape. repeat split; auto. now left.
Qed.

Theorem accepts_host h p :
  nobyte c_colon h -> nobyte c_lbr h -> nobyte c_rbr h -> good_port p ->
  validate_port (h ++ c_colon :: p) = VOk (h ++ c_colon :: p).
Proof.
  intros Hc Hl Hr G. pose proof G as (Hne & Hd & _).
  assert (Pc : nobyte c_colon p) by (now apply all_digits_nobyte).
  assert (Pl : nobyte c_lbr p) by (now apply all_digits_nobyte).
  assert (Pr : nobyte c_rbr p) by (now apply all_digits_nobyte).
  assert (Hcol : has c_colon (h ++ c_colon :: p) = true).
  { rewrite has_app, has_cons. change (c_colon =? c_colon) with true. cbn [orb].
    apply orb_true_r. }
  apply validate_ok_iff. split; [now destruct h|]. split.
  - unfold precheck. rewrite Hcol. cbn [negb]. rewrite andb_false_r, orb_false_r.
    apply contains2_app_false.
    + now apply nobyte_no_marker.
    + apply marker_colon_p; [assumption|now apply good_port_no_minus].
    + intros b'; discriminate.
  - exists h, p. split; [|split; [now apply good_port_range|]].
    + unfold norm_colon. rewrite Hcol. apply split_complete.
      unfold split_shape. repeat split; auto.
    + unfold join_host_port. unfold nobyte in Hc. now rewrite Hc.
Qed.

Theorem accepts_colon p : good_port p -> validate_port (c_colon :: p) = VOk (c_colon :: p).
Proof. intros G. now apply (accepts_host [] p). Qed.

Theorem accepts_bracketed v6 p :
  nobyte c_lbr v6 -> nobyte c_rbr v6 -> contains neg_marker v6 = false -> good_port p ->
  validate_port (c_lbr :: v6 ++ c_rbr :: c_colon :: p) = VOk (join_host_port v6 p).
Proof.
  intros Hl Hr Hm G. pose proof G as (Hne & Hd & _).
  assert (Pc : nobyte c_colon p) by (now apply all_digits_nobyte).
  assert (Pl : nobyte c_lbr p) by (now apply all_digits_nobyte).
  assert (Pr : nobyte c_rbr p) by (now apply all_digits_nobyte).
  set (s := c_lbr :: v6 ++ c_rbr :: c_colon :: p).
  assert (Hcol : has c_colon s = true).
  { unfold s. rewrite has_cons, has_app, !has_cons. change (c_colon =? c_colon) with true.
    cbn [orb]. rewrite !orb_true_r. reflexivity. }
  apply validate_ok_iff. split; [discriminate|]. split.
  - unfold precheck. rewrite Hcol. cbn [negb]. rewrite andb_false_r, orb_false_r.
    unfold s, neg_marker in *. rewrite contains2_cons.
    change (c_colon =? c_lbr) with false. cbn [andb orb].
    apply contains2_app_false; [assumption| |intros b'; discriminate].
    rewrite contains2_cons. change (c_colon =? c_rbr) with false. cbn [andb orb].
    apply marker_colon_p; [assumption|now apply good_port_no_minus].
  - exists v6, p. split; [|split; [now apply good_port_range|reflexivity]].
    unfold norm_colon. rewrite Hcol. apply split_complete.
    unfold split_shape. repeat split; auto.
Qed.

(* ------------------------------------------------------------------ *)
(* Rejection                                                           *)

Theorem rejects_empty : validate_port [] = VEmpty.
Proof. reflexivity. Qed.

Theorem empty_only s : validate_port s = VEmpty -> s = [].
Proof.
  destruct s as [|c s]; [reflexivity|]. intros H.
  rewrite validate_unfold in H by discriminate.
  destruct (precheck _); [discriminate|].
  destruct (split_host_port _) as [[h p]|]; [|discriminate].
  destruct (atoi p); [|discriminate]. destruct (_ || _)%bool; discriminate.
Qed.

Theorem rejects_malformed s :
  s <> [] -> split_host_port (norm_colon s) = None -> validate_port s = VInvalid.
Proof.
  intros Hs H. rewrite (validate_unfold _ Hs), H. now destruct (precheck s).
Qed.

Theorem rejects_non_numeric s h p :
  s <> [] -> split_host_port (norm_colon s) = Some (h, p) -> atoi p = None ->
  validate_port s = VInvalid.
Proof.
  intros Hs H Ha. rewrite (validate_unfold _ Hs), H, Ha. now destruct (precheck s).
Qed.

(* a port with any byte that is not a digit (after an optional sign) is not a number *)
Theorem atoi_non_digit p c :
  In c p -> is_digit c = false -> (forall t, p <> c :: t) -> atoi p = None.
Proof.
  intros Hin Hc Hhd. destruct (atoi p) as [v|] eqn:E; [|reflexivity]. exfalso.
  destruct (atoi_shape _ _ E) as (sg & ds & -> & Hs & _ & Hd & _).
  apply in_app_or in Hin as [Hin|Hin].
  - destruct Hs as [->|[->| ->]]; cbn in Hin; try tauto;
      destruct Hin as [<-|[]]; eapply Hhd; reflexivity.
  - unfold all_digits in Hd. rewrite Forall_forall in Hd. apply Hd in Hin. congruence.
Qed.

Theorem rejects_out_of_range s h p n :
  s <> [] -> precheck s = false ->
  split_host_port (norm_colon s) = Some (h, p) -> atoi p = Some n ->
  (n < 1 \/ 65535 < n)%Z -> validate_port s = VRange.
Proof.
  intros Hs Hp H Ha Hr. rewrite (validate_unfold _ Hs), Hp, H, Ha.
  replace ((n <? 1) || (65535 <? n))%Z with true by lia. reflexivity.
Qed.

Theorem range_only s :
  validate_port s = VRange ->
  exists h p n, split_host_port (norm_colon s) = Some (h, p) /\ atoi p = Some n /\
                (n < 1 \/ 65535 < n)%Z.
Proof.
  intros H. assert (Hs : s <> []) by (intros ->; discriminate).
  rewrite (validate_unfold _ Hs) in H.
  destruct (precheck s); [discriminate|].
  destruct (split_host_port _) as [[h p]|]; [|discriminate].
  destruct (atoi p) as [n|] eqn:En; [|discriminate].
  destruct ((n <? 1) || (65535 <? n))%Z eqn:Er; [|discriminate].
  exists h, p, n. repeat split; auto. lia.
Qed.

(* zero and too-large (but representable) ports, in the three input forms *)
Theorem rejects_range_digits h p :
  nobyte c_colon h -> nobyte c_lbr h -> nobyte c_rbr h ->
  p <> [] -> all_digits p -> (dec p = 0 \/ 65535 < dec p <= max_int64)%Z ->
  validate_port (h ++ c_colon :: p) = VRange /\ validate_port p = VRange.
Proof.
  intros Hc Hl Hr Hne Hd Hv.
  assert (Pc : nobyte c_colon p) by (now apply all_digits_nobyte).
  assert (Pl : nobyte c_lbr p) by (now apply all_digits_nobyte).
  assert (Pr : nobyte c_rbr p) by (now apply all_digits_nobyte).
  assert (Ha : atoi p = Some (dec p)) by (apply atoi_digits; auto; unfold max_int64 in *; lia).
  assert (Hm : has_prefix [c_minus] p = false).
  { destruct p as [|c p]; [congruence|]. inversion Hd as [|? ? Hcd _]; subst.
    cbn [has_prefix]. rewrite andb_true_r, N.eqb_sym. now apply digit_not. }
  assert (Hcol : has c_colon (h ++ c_colon :: p) = true).
  { rewrite has_app, has_cons. change (c_colon =? c_colon) with true. cbn [orb].
    apply orb_true_r. }
  split.
  - apply (rejects_out_of_range _ h p (dec p)); auto.
    + now destruct h.
    + unfold precheck. rewrite Hcol. cbn [negb]. rewrite andb_false_r, orb_false_r.
      apply contains2_app_false.
      * now apply nobyte_no_marker.
      * now apply marker_colon_p.
      * intros b'; discriminate.
    + unfold norm_colon. rewrite Hcol. apply split_complete.
      unfold split_shape. repeat split; auto.
    + unfold max_int64 in *. lia.
  - apply (rejects_out_of_range _ [] p (dec p)); auto.
    + unfold precheck, neg_marker. rewrite (nobyte_no_marker _ _ _ Pc), Hm. reflexivity.
    + unfold norm_colon. unfold nobyte in Pc. rewrite Pc. apply split_complete.
      unfold split_shape. repeat split; auto. now left.
    + unfold max_int64 in *. lia.
Qed.

(* negative ports: rejected as invalid format by the pre-checks *)
Theorem rejects_negative h ds :
  validate_port (h ++ c_colon :: c_minus :: ds) = VInvalid /\
  (nobyte c_colon ds -> validate_port (c_minus :: ds) = VInvalid).
Proof.
  split.
  - rewrite validate_unfold by (now destruct h).
    replace (precheck (h ++ c_colon :: c_minus :: ds)) with true; [reflexivity|].
    symmetry. unfold precheck. apply orb_true_iff; left.
    apply contains_app_r. unfold neg_marker. cbn [contains has_prefix].
    rewrite !N.eqb_refl. reflexivity.
  - intros Hc. rewrite validate_unfold by discriminate.
    replace (precheck (c_minus :: ds)) with true; [reflexivity|].
    symmetry. unfold precheck. apply orb_true_iff; right.
    cbn [has_prefix]. rewrite N.eqb_refl. cbn [andb].
    rewrite has_cons. change (c_minus =? c_colon) with false. cbn [orb].
    unfold nobyte in Hc. now rewrite Hc.
Qed.

(* no result is ever produced for a negative, zero or non-numeric port *)
Theorem ok_port_shape s r :
  validate_port s = VOk r ->
  exists h p sign ds,
    split_host_port (norm_colon s) = Some (h, p) /\ p = sign ++ ds /\
    (sign = [] \/ sign = [c_plus]) /\ ds <> [] /\ all_digits ds /\ (1 <= dec ds <= 65535)%Z.
Proof.
  intros H. apply validate_ok_iff in H as (Hs & Hp & h & p & Hsp & (n & Hn & Hr) & ->).
  destruct (atoi_shape _ _ Hn) as (sg & ds & -> & Hsg & Hne & Hd & Ev).
  exists h, (sg ++ ds), sg, ds. repeat split; auto; try lia.
  - destruct Hsg as [->|[->| ->]]; auto. exfalso.
    cbn in Ev. pose proof (dec_nonneg ds). lia.
  - destruct Hsg as [->|[->| ->]]; cbn in Ev; pose proof (dec_nonneg ds); lia.
  - destruct Hsg as [->|[->| ->]]; cbn in Ev; pose proof (dec_nonneg ds); lia.
Qed.
