(* C10, the main implication in its honest form (every schedule):

   if a child's Run returned a non-cancellation error and Run() has returned, then EITHER Run() took a
   reported child failure and its result is "ErrRunnableFailed: <that failure>", OR Run() did not take
   any failure - a failure is still queued in serverErrors - and then Run() left (or never reached)
   its select another way: Stop() / the cancellation of the context won the select and the result is
   nil, or Run() failed internally (a state transition was refused) and the result is the internal
   error.  A report dropped on a full channel is the first case: the channel was full of reported
   failures, Run() takes one of them.

   Liveness half (repaired composite and lifecycle, every child's Run returns once asked to): in a
   state in which no system step and no callback return is possible and a child has failed, Run()
   HAS returned - and so has every Stop()/Reload() call. *)
From Coq Require Import List NArith Bool Arith Lia.
From GS Require Import Errs LTS Composite CompositeMon CompositeBase CompositeC10 CompositeC11
     CompositeLocks CompositeLive CompositeC09 CompositeProgress CompositeProto CompositeMeasure.
Import ListNotations.

(* ------------------------------------------------------------------ why Run() is past its select *)

Definition exited (p : tpc) : bool := match p with TOut _ | TDone _ => true | _ => false end.

(* Run() left its select through the Stop / context branch, and its teardown went well so far *)
Definition past_select (p : tpc) : bool :=
  match p with
  | TTransIf | TTearLock | TStopBegin | TStopWait | TStopDrain | TToStopped
  | TRet None | TOut None | TDone None => true
  | _ => false
  end.

Definition W_sel (s : state) : Prop :=
  (rctx s = true -> pctx s = true \/ lc_stopped s = true \/ exited (runt s) = true) /\
  (took s = None -> past_select (runt s) = true -> pctx s = true \/ lc_stopped s = true).

Lemma W_sel_step P s l s' : W_sel s -> step P s l = Some s' -> W_sel s'.
Proof.
  intros [W1 W2] Hst. unfold W_sel in *.
  open_step Hst; cbn; goal_cases; unfold tear_pc.
  all: try (destruct (fix_c09 P)).
  all: repeat match goal with Hp : runt ?x = _ |- _ => rewrite Hp in *; clear Hp end.
  all: repeat match goal with Hp : took ?x = _ |- _ => rewrite Hp in *; clear Hp end.
  all: cbn in *.
  all: try (split; [intros Hc|intros Ht Hp]; try discriminate; auto; fail).
  all: try (split; [intros Hc|intros Ht Hp]; try discriminate;
            try (destruct (W1 ltac:(assumption)) as [?|[?|?]]; auto; discriminate);
            try (destruct (W2 ltac:(reflexivity) ltac:(reflexivity)); auto); fail).
  all: split; [intros Hc|intros Ht Hp]; destruct (W1 ltac:(first [assumption|reflexivity])) as [?|[?|?]];
    auto; discriminate.
Qed.

Lemma W_sel_reach P s : reach P s -> W_sel s.
Proof.
  apply reach_inv; [split; [discriminate|intros _ Hp; discriminate Hp]|].
  intros; eapply W_sel_step; eassumption.
Qed.

(* ------------------------------------------------------------------ safety half *)

Definition took_outcome (s : state) (r : oerr) : Prop :=
  exists e, took s = Some e /\ reported e /\ r = Some (fail_result e) /\
            wraps (fail_result e) id_runnable_failed = true /\
            (forall id, wraps e id = true -> wraps (fail_result e) id = true).

Definition preempted_outcome (s : state) (r : oerr) : Prop :=
  took s = None /\ errq s <> [] /\
  ((r = None /\ (pctx s = true \/ lc_stopped s = true)) \/ r = internal_err).

Theorem failure_outcome P s r :
  reach P s -> fail_sent s = true -> runt s = TDone r ->
  took_outcome s r \/ preempted_outcome s r.
Proof.
  intros Hr Hf Hd.
  destruct (InvC10_reach P s Hr) as (_ & _ & (_ & _ & H2) & _ & H4).
  assert (Hres : result_of (runt s) = Some r) by (rewrite Hd; reflexivity).
  destruct (took s) as [e|] eqn:Et.
  - left. exists e. destruct (propagates P s e Hr Et) as (Hrep & _ & _ & Hp).
    destruct (Hp r Hres) as (-> & Hw & Hw'). auto.
  - right. split; [exact Et|]. split.
    + destruct (H2 Hf) as [Hq|Hq]; [exact Hq|now elim Hq].
    + specialize (H4 r Hres). rewrite Et in H4. destruct H4 as [-> | ->]; [left|now right].
      split; [reflexivity|]. destruct (W_sel_reach P s Hr) as [_ W2].
      apply W2; [exact Et|rewrite Hd; reflexivity].
Qed.

(* ------------------------------------------------------------------ liveness half *)

(* a child's Run has returned a non-cancellation error (reported already, or about to be) *)
Definition child_failed (s : state) : Prop :=
  fail_sent s = true \/
  exists i k x, nth_error (kids s) i = Some k /\ k_pc k = KExited (Some x) /\ is_cancel x = false.

Theorem failed_child_run_returns P s :
  fix_c09 P = true -> fix_lc P = true -> good_pool P -> good_children P ->
  greach P s -> child_failed s -> ~ prog P s ->
  fail_sent s = true /\ all_returned s.
Proof.
  intros Hf Hlc Hp Hg Hr Hcf Hstuck.
  assert (Hfs : fail_sent s = true).
  { destruct Hcf as [H|(i & k & x & Hk & Hpc & _)]; [exact H|].
    exfalso. apply Hstuck. eapply kid_exited_prog; eassumption. }
  split; [exact Hfs|].
  pose proof (Gall_greach P s Hf Hp Hr) as G.
  destruct (g_c10 P s G) as (_ & H1 & (_ & _ & H2) & H3 & _).
  assert (Hidle : runt s <> TIdle).
  { intros E. destruct (H1 ltac:(rewrite E; reflexivity)) as (_ & _ & Hn & _). congruence. }
  assert (Hnp : ~ pending s) by (intros Hpe; apply Hstuck; apply no_stuck_state_lc; auto).
  split; [|split].
  - destruct (busy (runt s)) eqn:Eb; [exfalso; apply Hnp; now left|].
    destruct (runt s) eqn:Et; try discriminate Eb; [now elim Hidle| |eauto].
    exfalso. destruct (H2 Hfs) as [Hq|Ht].
    + destruct (errq s) as [|e q] eqn:Eq; [now elim Hq|].
      destruct (select_takes_failure P s e q Et Eq) as (s' & Hs & _).
      apply Hstuck. exists LSelErr, s'. auto.
    + destruct (took s) as [e|] eqn:Ek; [|now elim Ht].
      destruct (H3 _ Ek) as (_ & _ & Hl). rewrite Et in Hl. discriminate Hl.
  - intros k p Hn. destruct p; [| |reflexivity]; exfalso; apply Hnp; right; left.
    + exists k, SCalled. split; [exact Hn|discriminate].
    + exists k, SWaiting. split; [exact Hn|discriminate].
  - intros k r Hn. destruct (r_pc r) eqn:E; try reflexivity; exfalso; apply Hnp; right; right;
      exists k, r; (split; [exact Hn|rewrite E; discriminate]).
Qed.

(* both halves: a maximal execution in which a child failed ends with Run() returned, and its result
   is one of the two outcomes *)
Theorem failure_propagates_or_preempted P s :
  fix_c09 P = true -> fix_lc P = true -> good_pool P -> good_children P ->
  greach P s -> child_failed s -> ~ prog P s ->
  exists r, runt s = TDone r /\ (took_outcome s r \/ preempted_outcome s r).
Proof.
  intros Hf Hlc Hp Hg Hr Hcf Hstuck.
  destruct (failed_child_run_returns P s Hf Hlc Hp Hg Hr Hcf Hstuck) as (Hfs & (r & Hd) & _).
  exists r. split; [exact Hd|]. apply (failure_outcome P s r); auto using greach_reach.
Qed.
