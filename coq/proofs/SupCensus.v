(* C18: after a clean termination no library goroutine of the supervisor remains; while running the
   number of goroutines is bounded by the configuration, the pending callers and open subscriptions. *)
From Coq Require Import List NArith Bool Arith Lia.
From GS Require Import LTS Supervisor SupAccept SupProps SupInv SupStop SupTrig SupGate SupOnce SupReload.
Import ListNotations.

Definition InvLen (c : config) (s : state) : Prop :=
  length (rls s) <= nrun c /\ length (sls s) <= nrun c /\ length (mon s) <= nrun c.

Lemma map_len_le {A B} (f : A -> B) l n : length l <= n -> length (map f l) <= n.
Proof. now rewrite map_length. Qed.

Lemma InvLen_step c s l s' : InvLen c s -> step c s l = Some s' -> InvLen c s'.
Proof.
  intros IL H. unfold step in H.
  destruct l; cbn [step0] in H; unfold start_shutdown, store_state in H;
    step_cases H; inversion H; subst; clear H; unfold InvLen in *; simp_st;
    unfold mark_ls_done, mark_mon_done; rewrite ?upd_length, ?map_length;
    first [exact IL | unfold nrun in *; lia].
Qed.

Lemma InvLen_reachable c s : reachable_sup c s -> InvLen c s.
Proof.
  apply sup_inv; [|apply InvLen_step]. unfold InvLen, nrun. cbn. rewrite !map_length. lia.
Qed.

Definition InvWg (s : state) : Prop :=
  (match sd s with SdWait | SdDone => own_cancel s = true | _ => True end) /\
  (sd s = SdDone -> sd_timed_out s = false -> wg_zero s = true).

Lemma forallb_upd_false (l : list rn_pc) (i : nat) :
  forallb (fun q => match q with RnNot | RnDone => true | _ => false end) l = true ->
  (match get RnDone l i with RnNot | RnDone => False | _ => True end) -> False.
Proof.
  unfold get. revert i; induction l as [|q l IH]; intros [|i] H Hi; cbn in *; try contradiction.
  - apply andb_true_iff in H as [Hq _]. destruct q; try discriminate; contradiction.
  - apply andb_true_iff in H as [_ H]. eapply IH; eassumption.
Qed.

Lemma InvWg_step c s l s' : InvWg s -> step c s l = Some s' -> InvWg s'.
Proof.
  intros IW H. unfold step in H.
  destruct l; cbn [step0] in H; unfold start_shutdown, store_state in H;
    step_cases H; inversion H; subst; clear H; split; simp_st.
  all: try exact (proj1 IW).
  all: try exact (proj2 IW).
  all: try exact Logic.I.
  all: try reflexivity.
  all: try (intros X; discriminate X).
  all: try (destruct (launched _); exact Logic.I).
  all: try (match goal with |- match sd_next ?k with _ => _ end => destruct k; exact Logic.I end).
  all: try (intros _ X; discriminate X).
  all: try (intros _ _; assumption).
  all: try (pose proof (proj1 IW) as X; match goal with E : sd _ = _ |- _ => rewrite E in X end; exact X).
  (* wg_zero is stable once the shutdown body is done *)
  all: try (intros Hd Ht; pose proof (proj2 IW Hd Ht) as W; unfold wg_zero in *; simp_st;
            repeat (apply andb_true_iff in W as [W ?]);
            first [ exfalso; eapply forallb_upd_false; [exact W|];
                    match goal with E : rn_at _ _ = _ |- _ => unfold rn_at in E; rewrite E; exact Logic.I end
                  | exfalso; match goal with E : rm _ = _ |- _ => rewrite E in *; discriminate end
                  | exfalso; match goal with E : negb (sdm_done _) && _ = true |- _ =>
                               apply andb_true_iff in E as [E _]; apply negb_true_iff in E; congruence end
                  | exfalso; match goal with E : negb (stm_done _) && _ = true |- _ =>
                               apply andb_true_iff in E as [E _]; apply negb_true_iff in E; congruence end ]).
  all: try (intros Hd; congruence).
  all: try (intros Hd; exfalso; match type of Hd with sd_next ?k = _ => destruct k; discriminate Hd end).
Qed.

Lemma InvWg_reachable c s : reachable_sup c s -> InvWg s.
Proof. apply sup_inv; [|apply InvWg_step]. split; [exact Logic.I|intros H; discriminate H]. Qed.

Lemma count_if_zero {A} (f : A -> bool) l : forallb (fun x => negb (f x)) l = true -> count_if f l = 0.
Proof.
  unfold count_if. induction l as [|x l IH]; cbn; [reflexivity|]. intros H.
  apply andb_true_iff in H as [Hx H]. destruct (f x); [discriminate|auto].
Qed.

(* C18: after a clean termination - Run() returned, the shutdown did not time out, no API caller is
   pending and every subscription channel is closed - no goroutine of the supervisor remains *)
Theorem sup_c18_clean c s r :
  reachable_sup c s -> main s = MReturned r -> sd_timed_out s = false -> callers s = [] ->
  forallb sub_closed (subs s) = true -> census s = 0.
Proof.
  intros Hre Hm Ht Hc Hs.
  destruct (InvRet_reachable _ _ Hre) as [R1 _]. pose proof (R1 r Hm) as Hsd.
  destruct (InvWg_reachable _ _ Hre) as [W1 W2]. rewrite Hsd in W1. pose proof (W2 Hsd Ht) as W.
  unfold census. rewrite Hm, Hsd, Hc, Ht. unfold ctx_done. rewrite W1. cbn [orb negb andb length].
  unfold wg_zero in W. repeat (apply andb_true_iff in W as [W ?]).
  assert (Hrn : count_if (fun p => match p with RnLaunched | RnStored | RnRunning | RnSending _ => true | _ => false end) (rn s) = 0).
  { apply count_if_zero. eapply forallb_forall. intros x Hx.
    rewrite forallb_forall in W. specialize (W x Hx). destruct x; try discriminate W; reflexivity. }
  assert (Hsub : count_if (fun b => negb (sub_closed b)) (subs s) = 0).
  { apply count_if_zero. eapply forallb_forall. intros x Hx.
    rewrite forallb_forall in Hs. rewrite (Hs x Hx). reflexivity. }
  rewrite Hrn, Hsub.
  repeat match goal with H : _ = true |- _ => rewrite H end. reflexivity.
Qed.

Lemma count_if_le {A} (f : A -> bool) l : count_if f l <= length l.
Proof. unfold count_if. induction l as [|x l IH]; cbn; [lia|]. destruct (f x); cbn; lia. Qed.

(* C18: the census never exceeds a bound that depends on the configuration, the pending API callers,
   the pending reload requests / shutdown-trigger goroutines and the open subscriptions - not on the
   number of SIGHUPs, reload passes, state changes or subscriptions so far *)
Theorem sup_c18_bounded c s :
  reachable_sup c s ->
  census s <= 5 + 4 * nrun c + hup s + sd_trig s + length (callers s)
              + count_if (fun b => negb (sub_closed b)) (subs s).
Proof.
  intros Hre. pose proof (InvGate_reachable _ _ Hre) as IG.
  assert (L1 : length (rn s) = nrun c) by exact (ig_len _ _ IG).
  unfold census.
  pose proof (count_if_le (fun p => match p with RnLaunched | RnStored | RnRunning | RnSending _ => true | _ => false end) (rn s)).
  pose proof (count_if_le (fun p => negb (ls_finished p)) (rls s)).
  pose proof (count_if_le (fun p => negb (ls_finished p)) (sls s)).
  pose proof (count_if_le (fun p => negb (mon_finished p)) (mon s)).
  assert (L2 : length (rls s) <= nrun c /\ length (sls s) <= nrun c /\ length (mon s) <= nrun c)
    by (apply (InvLen_reachable _ _ Hre)).
  destruct L2 as (La & Lb & Lc).
  destruct (main s); destruct (rm_finished (rm s)); destruct (sdm_done s); destruct (stm_done s);
    destruct (negb (ctx_done s)); destruct (sd s);
    try destruct (sd_timed_out s && negb (wg_zero s)); lia.
Qed.

(* ---------------------------------------------------------------- helpers counted until they have left *)

(* [census] (the function the acceptor compares with the observed goroutine count) counts a trigger listener,
   a state monitor, a pending 'go ReloadAll()' sender as gone as soon as the context is done, and a
   trigger-spawned Shutdown caller as gone as soon as the shutdown body is done: their exits are not explored by
   the acceptor.  [census_strict] counts each of them until it HAS left - by its own exit step (LRlsExit,
   LSlsExit, LMonExit, LHupExit, LSdTrigExit) or through its manager's join. *)
Definition census_strict (s : state) : nat :=
  (match main s with MNew | MReturned _ => 0 | _ => 1 end)
  + count_if (fun p => match p with RnLaunched | RnStored | RnRunning | RnSending _ => true | _ => false end) (rn s)
  + (if rm_finished (rm s) then 0 else 1)
  + count_if (fun p => negb (ls_finished p)) (rls s)
  + (if sdm_done s then 0 else 1)
  + count_if (fun p => negb (ls_finished p)) (sls s)
  + (if stm_done s then 0 else 1)
  + count_if (fun p => negb (mon_finished p)) (mon s)
  + hup s
  + sd_trig s
  + length (callers s)
  + (match sd s with SdWait => 1 | SdDone => if sd_timed_out s && negb (wg_zero s) then 1 else 0 | _ => 0 end)
  + count_if (fun b => negb (sub_closed b)) (subs s).

Lemma census_le_strict s : census s <= census_strict s.
Proof.
  unfold census, census_strict.
  destruct (negb (ctx_done s)); destruct (sd s); lia.
Qed.

(* a helper's own way out *)
Definition helper_exit (l : label) : bool :=
  match l with
  | LRlsExit _ | LSlsExit _ | LMonExit _ | LHupExit | LSdTrigExit | LMonBcast _ => true
  | _ => false
  end.

(* every helper that the lazy census no longer counts has an ENABLED step of its own that takes it out (a
   monitor that still owes a broadcast does that first): none is stuck.  Under the contracts of the model: a
   listener selects on ctx.Done in both of its positions, GetStateChan honours its context, ReloadAll gives up
   on ctx.Done. *)
Theorem sup_c18_helpers_can_exit c s :
  ctx_done s = true ->
  (forall i, ls_finished (get LsAbsent (rls s) i) = false -> step c s (LRlsExit i) <> None) /\
  (forall i, ls_finished (get LsAbsent (sls s) i) = false -> step c s (LSlsExit i) <> None) /\
  (forall i, mon_finished (mon_at s i) = false ->
             step c s (LMonExit i) <> None \/ step c s (LMonBcast i) <> None) /\
  (hup s <> 0 -> step c s LHupExit <> None) /\
  (sd s = SdDone -> sd_trig s <> 0 -> step c s LSdTrigExit <> None).
Proof.
  intros Hc. unfold step. cbn [step0]. rewrite Hc. repeat split.
  - intros i H. destruct (get LsAbsent (rls s) i); try discriminate H; discriminate.
  - intros i H. destruct (get LsAbsent (sls s) i); try discriminate H; discriminate.
  - intros i H. destruct (mon_at s i); try discriminate H; try (left; discriminate). right. discriminate.
  - intros H. destruct (hup s); [congruence|discriminate].
  - intros Es H. rewrite Es. destruct (sd_trig s); [congruence|discriminate].
Qed.

Lemma count_if_get_zero {A} (f : A -> bool) (d : A) l :
  (forall i, i < length l -> f (get d l i) = false) -> count_if f l = 0.
Proof.
  unfold count_if, get. induction l as [|x l IH]; intros H; [reflexivity|]. cbn [filter].
  pose proof (H 0 ltac:(cbn; lia)) as H0. cbn in H0. rewrite H0. apply IH.
  intros i Li. apply (H (S i)). cbn. lia.
Qed.

(* C18, strict form: after a clean termination, once no helper has an exit step left to take, NOTHING is left *)
Theorem sup_c18_clean_strict c s r :
  reachable_sup c s -> main s = MReturned r -> sd_timed_out s = false -> callers s = [] ->
  forallb sub_closed (subs s) = true ->
  (forall l, helper_exit l = true -> step c s l = None) ->
  census_strict s = 0.
Proof.
  intros Hre Hm Ht Hc Hs Hx.
  pose proof (sup_c18_clean c s r Hre Hm Ht Hc Hs) as Z.
  destruct (InvRet_reachable _ _ Hre) as [R1 _]. pose proof (R1 r Hm) as Hsd.
  destruct (InvWg_reachable _ _ Hre) as [W1 _]. rewrite Hsd in W1.
  assert (Hcd : ctx_done s = true) by (unfold ctx_done; now rewrite W1).
  destruct (sup_c18_helpers_can_exit c s Hcd) as (E1 & E2 & E3 & E4 & E5).
  assert (A1 : count_if (fun p => negb (ls_finished p)) (rls s) = 0).
  { apply (count_if_get_zero _ LsAbsent). intros i _. destruct (ls_finished (get LsAbsent (rls s) i)) eqn:F; [reflexivity|].
    exfalso. apply (E1 i F). apply Hx. reflexivity. }
  assert (A2 : count_if (fun p => negb (ls_finished p)) (sls s) = 0).
  { apply (count_if_get_zero _ LsAbsent). intros i _. destruct (ls_finished (get LsAbsent (sls s) i)) eqn:F; [reflexivity|].
    exfalso. apply (E2 i F). apply Hx. reflexivity. }
  assert (A3 : count_if (fun p => negb (mon_finished p)) (mon s) = 0).
  { apply (count_if_get_zero _ MoAbsent). intros i _. fold (mon_at s i). destruct (mon_finished (mon_at s i)) eqn:F; [reflexivity|].
    exfalso. destruct (E3 i F) as [X|X]; apply X; apply Hx; reflexivity. }
  assert (A4 : hup s = 0).
  { destruct (hup s) eqn:E; [reflexivity|]. exfalso. apply E4; [congruence|]. apply Hx. reflexivity. }
  assert (A5 : sd_trig s = 0).
  { destruct (sd_trig s) eqn:E; [reflexivity|]. exfalso. apply (E5 Hsd); [congruence|]. apply Hx. reflexivity. }
  unfold census_strict. unfold census in Z. rewrite Hcd, Hsd in Z. cbn [negb] in Z.
  rewrite A1, A2, A3, A4, A5, Hsd. lia.
Qed.

(* the bound of sup_c18_bounded holds for the strict census as well *)
Theorem sup_c18_bounded_strict c s :
  reachable_sup c s ->
  census_strict s <= 5 + 4 * nrun c + hup s + sd_trig s + length (callers s)
                     + count_if (fun b => negb (sub_closed b)) (subs s).
Proof.
  intros Hre. pose proof (InvGate_reachable _ _ Hre) as IG.
  assert (L1 : length (rn s) = nrun c) by exact (ig_len _ _ IG).
  unfold census_strict.
  pose proof (count_if_le (fun p => match p with RnLaunched | RnStored | RnRunning | RnSending _ => true | _ => false end) (rn s)).
  pose proof (count_if_le (fun p => negb (ls_finished p)) (rls s)).
  pose proof (count_if_le (fun p => negb (ls_finished p)) (sls s)).
  pose proof (count_if_le (fun p => negb (mon_finished p)) (mon s)).
  destruct (InvLen_reachable _ _ Hre) as (La & Lb & Lc).
  destruct (main s); destruct (rm_finished (rm s)); destruct (sdm_done s); destruct (stm_done s); destruct (sd s);
    try destruct (sd_timed_out s && negb (wg_zero s)); lia.
Qed.
