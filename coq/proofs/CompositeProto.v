(* C11 protocol over whole schedules, by ghost fields of the reloader records:
   r_path (which path Reload took), r_calls (the ReloadWithConfig/Reload calls it made),
   the owners of Stop workers and child goroutines, and last_cb. *)
From Coq Require Import List NArith Bool Arith Lia.
From GS Require Import Errs LTS Composite CompositeMon CompositeBase CompositeC10 CompositeC11
     CompositeLocks CompositeLive.
Import ListNotations.

(* the calls an in-place reload owes to the entries of the new configuration *)
Definition calls_of (P : params) (nc : config) : list (N * option N) :=
  flat_map (fun e => match c_rk (spec_of P (fst e)) with
                     | RWC => [(fst e, Some (snd e))]
                     | RPlain => [(fst e, None)]
                     | RNone => []
                     end) nc.

Lemma firstn_S_nth {A} (l : list A) i x :
  nth_error l i = Some x -> firstn (S i) l = firstn i l ++ [x].
Proof.
  revert i; induction l as [|y l IH]; intros [|i] H; cbn in *; try discriminate.
  - now injection H as ->.
  - f_equal. now apply IH.
Qed.

Lemma firstn_nth_none {A} (l : list A) i : nth_error l i = None -> firstn i l = l.
Proof. intros H. apply firstn_all2. now apply nth_error_None. Qed.

Lemma calls_of_app P a b : calls_of P (a ++ b) = calls_of P a ++ calls_of P b.
Proof. unfold calls_of. apply flat_map_app. Qed.

(* what the ghost fields of one reloader record say, by path and program counter *)
Definition Q_rec (P : params) (r : reloader) : Prop :=
  match r_path r with
  | PNone => r_calls r = [] /\ (r_pc r = RCalled \/ r_pc r = RCb)
  | PFailedFsm | PFailedCb => r_calls r = [] /\ (r_pc r = RRet \/ r_pc r = RDone)
  | PInPlace =>
    membership_changed P (r_old r) (r_new r) = false /\
    match r_pc r with
    | RInPlaceSet => r_calls r = []
    | RInPlace i => r_calls r = calls_of P (firstn i (r_new r))
    | RRet | RDone => r_calls r = calls_of P (r_new r)
    | _ => False
    end
  | PRestart =>
    membership_changed P (r_old r) (r_new r) = true /\ r_calls r = [] /\
    match r_pc r with
    | RStopBegin | RStopWait | RStopDrain | RSetCfg | RBootLock | RBootLaunch | RFinish | RRet | RDone => True
    | _ => False
    end
  end.

Definition Q_calls (P : params) (s : state) : Prop := Forall (Q_rec P) (reloaders s).

Arguments calls_of : simpl never.
Arguments firstn : simpl never.

Lemma Q_calls_step P s l s' : Q_calls P s -> step P s l = Some s' -> Q_calls P s'.
Proof.
  intros H Hst. unfold Q_calls in *.
  open_step Hst; cbn; goal_cases; try exact H; unfold upd_rel; cbn.
  all: try (apply Forall_app; split; [exact H|]; constructor; [|constructor]; cbn; auto; fail).
  all: repeat match goal with
              | E : rel_pc ?k ?s = Some ?p |- _ =>
                let x := fresh "x" in let Hx := fresh "Hx" in let Hq := fresh "Hq" in
                destruct (rel_pc_nth _ _ _ E) as (x & Hx & Hq); clear E
              end.
  all: apply Forall_upd; [exact H|]; intros y Hy Hrec;
    repeat match goal with
           | Hx : nth_error (reloaders ?s) ?k = Some ?x, Hy : nth_error (reloaders ?s) ?k = Some ?y |- _ =>
             assert (y = x) by congruence; subst y; clear Hy
           end;
    unfold Q_rec in *; cbn.
  all: repeat match goal with Hq : r_pc ?x = _ |- _ => rewrite Hq in Hrec end.
  all: destruct (r_path _) eqn:Epath; cbn in *; try tauto.
  all: try (intuition (try discriminate; try congruence); fail).
  1:{ destruct (membership_changed P (entries_of s) c) eqn:Em; cbn; intuition. }
  all: destruct Hrec as [Hm Hc]; split; [exact Hm|].
  all: clear H.
  - rewrite (firstn_S_nth _ _ _ E1), calls_of_app, Hc. f_equal.
    apply N.eqb_eq in H0, H1. subst. unfold calls_of. cbn. now rewrite E3.
  - rewrite (firstn_S_nth _ _ _ E1), calls_of_app, Hc. f_equal.
    match goal with Hq : N.eqb c _ = true |- _ => apply N.eqb_eq in Hq; subst end.
    unfold calls_of. cbn. now rewrite E3.
  - rewrite (firstn_S_nth _ _ _ E1), calls_of_app, Hc.
    assert (Hnil : calls_of P [(n, n0)] = []) by (unfold calls_of; cbn; now rewrite E3).
    transitivity (calls_of P (firstn i (r_new r)) ++ []); [now rewrite app_nil_r|].
    f_equal. symmetry. exact Hnil.
  - rewrite Hc. match goal with Hn : nth_error (r_new _) _ = None |- _ => now rewrite (firstn_nth_none _ _ Hn) end.
  - rewrite Hc. match goal with Hn : nth_error (r_new _) _ = None |- _ => now rewrite (firstn_nth_none _ _ Hn) end.
Qed.

Lemma Q_calls_reach P s : reach P s -> Q_calls P s.
Proof. apply reach_inv; [constructor|apply Q_calls_step]. Qed.

(* ------------------------------------------------------------------ the configuration being booted *)

Definition G_new (s : state) : Prop :=
  forall k r, nth_error (reloaders s) k = Some r -> booting (r_pc r) = true -> entries_of s = r_new r.

Lemma G_new_step P s l s' : I1 s -> L_mu P s -> G_new s -> step P s l = Some s' -> G_new s'.
Proof.
  intros H1 Hmu H Hst. pose proof (L_mu_inside_le P s Hmu) as Hle. unfold G_new in *.
  open_step Hst; cbn; goal_cases; unfold entries_of in *; cbn; intros kk rr Hn Hp.
  all: try (eapply H; eassumption).
  all: unfold upd_rel in *; cbn in *.
  all: try (apply nth_upd_inv in Hn as [(-> & x0 & Hx0 & ->)|(Hne & Hn)]).
  all: try (eapply H; eassumption).
  all: repeat match goal with
              | E : rel_pc ?k ?s = Some ?p |- _ =>
                let x := fresh "x" in let Hx := fresh "Hx" in let Hq := fresh "Hq" in
                destruct (rel_pc_nth _ _ _ E) as (x & Hx & Hq); clear E
              end.
  all: try (match goal with
            | Hx : nth_error (reloaders ?s) ?k = Some ?x, Hx0 : nth_error (reloaders ?s) ?k = Some ?x0 |- _ =>
              assert (x0 = x) by congruence; subst x0
            end).
  all: try (cbn in Hp; discriminate Hp).
  all: try (match goal with
            | Hx : nth_error (reloaders ?s) ?k = Some ?x, Hq : r_pc ?x = _ |- _ =>
              cbn; apply (H _ _ Hx); rewrite Hq; reflexivity
            end).
  - apply nth_app_one_inv in Hn as [Hn|[_ ->]]; [eapply H; eassumption|discriminate Hp].
  - (* initial load: nobody can be booting *)
    exfalso. assert (Hpre : pre_launch (runt s) = true)
      by (match goal with E : runt s = _ |- _ => rewrite E; reflexivity end).
    destruct (H1 Hpre) as (_ & _ & _ & _ & Ho & _).
    pose proof (outside_nth _ _ _ Ho Hn) as Hout.
    apply booting_inside in Hp. unfold inside in Hp. rewrite Hout in Hp. discriminate Hp.
  - exfalso. cbn in Hp. destruct (membership_changed P _ c); discriminate Hp.
  - exfalso. apply Hne. symmetry. eapply (inside_unique inside (reloaders s) k kk); eauto.
    + rewrite E0. reflexivity.
    + now apply booting_inside.
  - reflexivity.
  - exfalso. apply Hne. symmetry. eapply (inside_unique inside (reloaders s) k kk); eauto.
    + rewrite E0. reflexivity.
    + now apply booting_inside.
Qed.

(* ------------------------------------------------------------------ the newest callback value *)

Definition N_cb (s : state) : Prop :=
  (forall k r, nth_error (reloaders s) k = Some r -> pending_old (r_pc r) = true ->
               last_cb s = Some (r_new r))
  /\ (count_r pending_old (reloaders s) = 0 -> cfg s = last_cb s).

Lemma N_cb_step P s l s' : I1 s -> L_mu P s -> N_cb s -> step P s l = Some s' -> N_cb s'.
Proof.
  intros H1 Hmu (N1 & N2) Hst. pose proof (L_mu_inside_le P s Hmu) as Hle. unfold N_cb.
  open_step Hst; cbn; goal_cases; count_facts pending_old;
    repeat match goal with Hq : r_pc ?x = _ |- _ => rewrite Hq in * end; cbn in *.
  all: try (split; [exact N1|intros Hz; try (match goal with E : cfg ?s = _ |- _ => rewrite E end); apply N2; lia]).
  all: try (split;
            [ intros kk rr Hn Hpp;
              apply nth_upd_inv in Hn as [(-> & x0 & Hx0 & ->)|(Hne & Hn)];
              [ repeat match goal with
                       | Hx : nth_error (reloaders ?s) ?k = Some ?x, Hx0 : nth_error (reloaders ?s) ?k = Some ?x0 |- _ =>
                         assert (x0 = x) by congruence; subst x0
                       end;
                cbn in *; try discriminate Hpp;
                match goal with
                | Hx : nth_error (reloaders ?s) ?k = Some ?x, Hq : r_pc ?x = _ |- _ =>
                  apply (N1 _ _ Hx); rewrite Hq; reflexivity
                end
              | exact (N1 _ _ Hn Hpp) ]
            | intros Hz; try (match goal with E : cfg ?s = _ |- _ => rewrite E end); apply N2; lia ]; fail).
  - split.
    + intros kk rr Hn Hpp. apply nth_app_one_inv in Hn as [Hn|[_ ->]]; [eapply N1; eassumption|discriminate Hpp].
    + intros Hz. apply N2. lia.
  - (* initial load: no reload can be pending *)
    split; [|reflexivity]. intros kk rr Hn Hpp. exfalso.
    assert (Hpre : pre_launch (runt s) = true)
      by (match goal with E : runt s = _ |- _ => rewrite E; reflexivity end).
    destruct (H1 Hpre) as (_ & _ & _ & _ & Ho & _).
    pose proof (outside_nth _ _ _ Ho Hn) as Hout.
    apply pending_old_inside in Hpp. unfold inside in Hpp. rewrite Hout in Hpp. discriminate Hpp.
  - (* the reload's callback: this reloader becomes the pending one *)
    split.
    + intros kk rr Hn Hpp. apply nth_upd_inv in Hn as [(-> & x0 & Hx0 & ->)|(Hne & Hn)]; [reflexivity|].
      exfalso. apply Hne. symmetry. eapply (inside_unique inside (reloaders s) k kk); eauto.
      * rewrite Hp. reflexivity.
      * now apply pending_old_inside.
    + intros Hz. exfalso. destruct (membership_changed P (entries_of s) c); cbn in Hc; lia.
  - split.
    + intros kk rr Hn Hpp. apply nth_upd_inv in Hn as [(-> & x0 & Hx0 & ->)|(Hne & Hn)]; [discriminate Hpp|].
      eapply N1; eassumption.
    + intros _. symmetry. apply (N1 _ _ E). rewrite E0. reflexivity.
  - split.
    + intros kk rr Hn Hpp. apply nth_upd_inv in Hn as [(-> & x0 & Hx0 & ->)|(Hne & Hn)]; [discriminate Hpp|].
      eapply N1; eassumption.
    + intros _. symmetry. apply (N1 _ _ E). rewrite E0. reflexivity.
Qed.

Lemma N_cb_reach P s : reach P s -> N_cb s.
Proof.
  intros Hr. assert (H : (InvC10 s /\ L_mu P s) /\ N_cb s); [|apply H].
  revert s Hr. apply reach_inv.
  - split; [split; [apply InvC10_init|]|].
    + unfold L_mu. cbn. split; [now rewrite andb_false_r|discriminate].
    + split; [intros k r Hn; destruct k; discriminate Hn|reflexivity].
  - intros s l s' [[Hc Hmu] Hn] Hst. split; [split|].
    + eapply InvC10_step; eassumption.
    + eapply L_mu_step; eassumption.
    + destruct Hc as (_ & H1 & _). eapply N_cb_step; eassumption.
Qed.

Lemma base_reach P s : reach P s -> InvC10 s /\ L_mu P s /\ N_cb s /\ G_old P s /\ G_new s.
Proof.
  revert s. apply reach_inv.
  - split; [apply InvC10_init|]. split; [unfold L_mu; cbn; split; [now rewrite andb_false_r|discriminate]|].
    split; [split; [intros k r Hn; destruct k; discriminate Hn|reflexivity]|].
    split; intros k r Hn; destruct k; discriminate Hn.
  - intros s l s' (Hc & Hmu & Hn & Ho & Hw) Hst.
    assert (H1 : I1 s) by (destruct Hc as (_ & H1 & _); exact H1).
    split; [eapply InvC10_step; eassumption|]. split; [eapply L_mu_step; eassumption|].
    split; [eapply N_cb_step; eassumption|]. split; [eapply G_old_step; eassumption|].
    eapply G_new_step; eassumption.
Qed.

(* after Reload() returns (nobody inside Reload), the stored configuration is the newest value the
   callback returned *)
Lemma newest_config P s : reach P s -> reload_mu s = None -> cfg s = last_cb s.
Proof.
  intros Hr Hm. destruct (base_reach P s Hr) as (_ & [Hmu _] & (_ & N2) & _).
  apply N2. rewrite Hm in Hmu. cbn in Hmu.
  pose proof (count_le pending_old inside (reloaders s) pending_old_inside). lia.
Qed.

(* ------------------------------------------------------------------ who stopped / started what *)

Definition wof (o : owner) (s : state) : list worker := filter (fun w => owner_eqb (w_owner w) o) (workers s).
Definition kof (o : owner) (s : state) : list kid := filter (fun k => owner_eqb (k_by k) o) (kids s).

Definition is_restart (p : rpath) : bool := match p with PRestart => true | _ => false end.
(* stopAllRunnables has spawned its workers / has returned; boot has launched the children *)
Definition spawned (p : rpc) : bool :=
  match p with RStopWait | RStopDrain | RSetCfg | RBootLock | RBootLaunch | RFinish | RRet | RDone => true | _ => false end.
Definition stopped (p : rpc) : bool :=
  match p with RStopDrain | RSetCfg | RBootLock | RBootLaunch | RFinish | RRet | RDone => true | _ => false end.
Definition launched (p : rpc) : bool :=
  match p with RFinish | RRet | RDone => true | _ => false end.

Definition Q_own1 (s : state) (k : nat) (r : reloader) : Prop :=
  (if is_restart (r_path r) && spawned (r_pc r)
   then map w_child (wof (ORel k) s) = map fst (rev (r_old r))
   else wof (ORel k) s = [])
  /\ (is_restart (r_path r) && stopped (r_pc r) = true -> forallb wdone (wof (ORel k) s) = true)
  /\ (if is_restart (r_path r) && launched (r_pc r)
      then map k_child (kof (ORel k) s) = map fst (r_new r)
      else kof (ORel k) s = []).

Definition Q_own (s : state) : Prop :=
  forall k r, nth_error (reloaders s) k = Some r -> Q_own1 s k r.

Lemma owner_eqb_refl o : owner_eqb o o = true.
Proof. destruct o; cbn; auto using Nat.eqb_refl. Qed.

Lemma owner_eqb_eq a b : owner_eqb a b = true -> a = b.
Proof. destruct a, b; cbn; try discriminate; auto. intros H. apply Nat.eqb_eq in H. now subst. Qed.

Lemma filter_upd_wpc f j p l :
  map w_child (filter (fun w => f (w_owner w)) (upd j (set_wpc p) l))
  = map w_child (filter (fun w => f (w_owner w)) l).
Proof.
  revert j; induction l as [|y l IH]; intros [|j]; cbn; auto.
  - destruct (f (w_owner y)); cbn; reflexivity.
  - destruct (f (w_owner y)); cbn; now rewrite IH.
Qed.

Lemma filter_upd_wpc_nil f j p l :
  filter (fun w => f (w_owner w)) l = [] -> filter (fun w => f (w_owner w)) (upd j (set_wpc p) l) = [].
Proof.
  intros H. pose proof (filter_upd_wpc f j p l) as E. rewrite H in E. cbn in E.
  destruct (filter _ (upd j (set_wpc p) l)); [reflexivity|discriminate E].
Qed.

Lemma filter_release f c l :
  filter (fun w => f (w_owner w)) (map (release_worker c) l)
  = map (release_worker c) (filter (fun w => f (w_owner w)) l).
Proof.
  induction l as [|y l IH]; cbn; [reflexivity|]. rewrite release_owner.
  destruct (f (w_owner y)); cbn; now rewrite IH.
Qed.

Lemma map_child_release c l : map w_child (map (release_worker c) l) = map w_child l.
Proof. rewrite map_map. apply map_ext. intros w. apply release_child. Qed.

Lemma forallb_wdone_release c l : forallb wdone (map (release_worker c) l) = forallb wdone l.
Proof. induction l as [|y l IH]; cbn; [reflexivity|]. now rewrite release_wdone, IH. Qed.

Lemma filter_upd_kpc f i p l :
  map k_child (filter (fun k => f (k_by k)) (upd i (set_kpc p) l))
  = map k_child (filter (fun k => f (k_by k)) l).
Proof.
  revert i; induction l as [|y l IH]; intros [|i]; cbn; auto.
  - destruct (f (k_by y)); cbn; reflexivity.
  - destruct (f (k_by y)); cbn; now rewrite IH.
Qed.

Lemma filter_upd_kpc_nil f i p l :
  filter (fun k => f (k_by k)) l = [] -> filter (fun k => f (k_by k)) (upd i (set_kpc p) l) = [].
Proof.
  intros H. pose proof (filter_upd_kpc f i p l) as E. rewrite H in E. cbn in E.
  destruct (filter _ (upd i (set_kpc p) l)); [reflexivity|discriminate E].
Qed.

(* finished workers stay finished: a worker that a label moves was not finished *)
Lemma wdone_upd f j p l w :
  nth_error l j = Some w -> wdone w = false ->
  forallb wdone (filter (fun w => f (w_owner w)) l) = true ->
  forallb wdone (filter (fun w => f (w_owner w)) (upd j (set_wpc p) l)) = true.
Proof.
  revert j; induction l as [|y l IH]; intros [|j] Hw Hd H; cbn in *; try discriminate.
  - injection Hw as ->. destruct (f (w_owner w)); cbn in *; [|exact H].
    rewrite Hd in H. discriminate H.
  - destruct (f (w_owner y)); cbn in *.
    + apply andb_true_iff in H as [H1 H2]. rewrite H1. cbn. eapply IH; eauto.
    + eapply IH; eauto.
Qed.

Lemma all_done_wof o s : all_done o s = true -> forallb wdone (wof o s) = true.
Proof.
  unfold all_done, wof. induction (workers s) as [|y l IH]; cbn; [reflexivity|].
  intros H. apply andb_true_iff in H as [H1 H2].
  destruct (owner_eqb (w_owner y) o); cbn in *; [rewrite H1; cbn|]; now apply IH.
Qed.

Lemma filter_spawn_workers_same o es :
  filter (fun w => owner_eqb (w_owner w) o) (spawn_workers o es) = spawn_workers o es.
Proof.
  unfold spawn_workers. induction (rev es) as [|e l IH]; cbn; [reflexivity|].
  rewrite owner_eqb_refl. now rewrite IH.
Qed.

Lemma filter_spawn_workers_other o o' es :
  owner_eqb o o' = false -> filter (fun w => owner_eqb (w_owner w) o') (spawn_workers o es) = [].
Proof.
  intros H. unfold spawn_workers. induction (rev es) as [|e l IH]; cbn; [reflexivity|].
  now rewrite H.
Qed.

Lemma filter_spawn_kids_same o g es :
  filter (fun k => owner_eqb (k_by k) o) (spawn_kids o g es) = spawn_kids o g es.
Proof.
  unfold spawn_kids. induction es as [|e l IH]; cbn; [reflexivity|].
  rewrite owner_eqb_refl. now rewrite IH.
Qed.

Lemma filter_spawn_kids_other o o' g es :
  owner_eqb o o' = false -> filter (fun k => owner_eqb (k_by k) o') (spawn_kids o g es) = [].
Proof.
  intros H. unfold spawn_kids. induction es as [|e l IH]; cbn; [reflexivity|]. now rewrite H.
Qed.

Lemma map_child_spawn_workers o es : map w_child (spawn_workers o es) = map fst (rev es).
Proof. unfold spawn_workers. rewrite map_map. reflexivity. Qed.

Lemma map_child_spawn_kids o g es : map k_child (spawn_kids o g es) = map fst es.
Proof. unfold spawn_kids. rewrite map_map. reflexivity. Qed.

Lemma Q_rec_restart_at P r :
  Q_rec P r -> (r_pc r = RStopBegin \/ r_pc r = RStopWait \/ r_pc r = RStopDrain \/ r_pc r = RSetCfg
                \/ r_pc r = RBootLock \/ r_pc r = RBootLaunch \/ r_pc r = RFinish) ->
  r_path r = PRestart.
Proof.
  unfold Q_rec. destruct (r_path r); auto; intros H Hp;
    repeat (destruct Hp as [Hp|Hp]; [rewrite Hp in H; intuition discriminate|]);
    rewrite Hp in H; intuition discriminate.
Qed.


Lemma map_nil_inv {A B} (f : A -> B) l : map f l = [] -> l = [].
Proof. destruct l; [reflexivity|discriminate]. Qed.

(* Q_own1 only looks at the workers / kids of that reloader, through these three observations *)
Lemma own1_frame s s' k r :
  map w_child (wof (ORel k) s') = map w_child (wof (ORel k) s) ->
  (forallb wdone (wof (ORel k) s) = true -> forallb wdone (wof (ORel k) s') = true) ->
  map k_child (kof (ORel k) s') = map k_child (kof (ORel k) s) ->
  Q_own1 s k r -> Q_own1 s' k r.
Proof.
  intros Hw Hd Hk (A & B & C). unfold Q_own1. split; [|split].
  - destruct (is_restart (r_path r) && spawned (r_pc r)); [congruence|].
    rewrite A in Hw. cbn in Hw. now apply map_nil_inv in Hw.
  - intros Hs. apply Hd. now apply B.
  - destruct (is_restart (r_path r) && launched (r_pc r)); [congruence|].
    rewrite C in Hk. cbn in Hk. now apply map_nil_inv in Hk.
Qed.

(* ... and at the record through three stage flags and, where they are set, the two configurations *)
Lemma own1_pc s k r r' :
  is_restart (r_path r') && spawned (r_pc r') = is_restart (r_path r) && spawned (r_pc r) ->
  (is_restart (r_path r') && stopped (r_pc r') = true -> is_restart (r_path r) && stopped (r_pc r) = true) ->
  is_restart (r_path r') && launched (r_pc r') = is_restart (r_path r) && launched (r_pc r) ->
  (is_restart (r_path r) && spawned (r_pc r) = true -> r_old r' = r_old r) ->
  (is_restart (r_path r) && launched (r_pc r) = true -> r_new r' = r_new r) ->
  Q_own1 s k r -> Q_own1 s k r'.
Proof.
  intros Ha Hb Hc Ho Hn (A & B & C). unfold Q_own1. rewrite Ha, Hc.
  split; [|split; [auto|]].
  - destruct (is_restart (r_path r) && spawned (r_pc r)); [rewrite Ho; auto|exact A].
  - destruct (is_restart (r_path r) && launched (r_pc r)); [rewrite Hn; auto|exact C].
Qed.

Lemma wof_app o s extra :
  filter (fun w => owner_eqb (w_owner w) o) (workers s ++ extra)
  = wof o s ++ filter (fun w => owner_eqb (w_owner w) o) extra.
Proof. unfold wof. apply filter_app. Qed.

Lemma kof_app o s extra :
  filter (fun k => owner_eqb (k_by k) o) (kids s ++ extra)
  = kof o s ++ filter (fun k => owner_eqb (k_by k) o) extra.
Proof. unfold kof. apply filter_app. Qed.

Ltac own_side kk :=
  unfold wof, kof; cbn;
  first
    [ reflexivity
    | exact (fun H => H)
    | (intros Hd; eapply (wdone_upd (fun o => owner_eqb o (ORel kk))); [eassumption| |exact Hd];
       match goal with Hp : w_pc ?w = _ |- _ => unfold wdone; rewrite Hp; reflexivity end)
    | apply (filter_upd_wpc (fun o => owner_eqb o (ORel kk)))
    | (rewrite (filter_release (fun o => owner_eqb o (ORel kk))); apply map_child_release)
    | (rewrite (filter_release (fun o => owner_eqb o (ORel kk))), forallb_wdone_release; exact (fun H => H))
    | apply (filter_upd_kpc (fun o => owner_eqb o (ORel kk)))
    | rewrite filter_app, filter_spawn_workers_other, app_nil_r; [reflexivity|cbn; try reflexivity; apply Nat.eqb_neq; congruence]
    | rewrite filter_app, filter_spawn_kids_other, app_nil_r; [reflexivity|cbn; try reflexivity; apply Nat.eqb_neq; congruence]
    | rewrite filter_app, filter_spawn_workers_other, app_nil_r; [exact (fun H => H)|cbn; try reflexivity; apply Nat.eqb_neq; congruence]
    ].

(* owners are existing Reload callers *)
Definition Q_idx (s : state) : Prop :=
  forall k, length (reloaders s) <= k -> wof (ORel k) s = [] /\ kof (ORel k) s = [].

Lemma nth_some_lt {A} (l : list A) k x : nth_error l k = Some x -> k < length l.
Proof. intros H. apply nth_error_Some. congruence. Qed.

Lemma Q_idx_step P s l s' : Q_idx s -> step P s l = Some s' -> Q_idx s'.
Proof.
  intros H Hst. unfold Q_idx in *.
  open_step Hst; cbn; goal_cases; unfold upd_rel; cbn; rewrite ?upd_length, ?app_length; cbn; intros kk Hk.
  all: repeat match goal with
              | E : rel_pc ?k ?s = Some ?p |- _ =>
                let x := fresh "x" in let Hx := fresh "Hx" in let Hq := fresh "Hq" in
                destruct (rel_pc_nth _ _ _ E) as (x & Hx & Hq); clear E
              end.
  all: try (match goal with Hx : nth_error (reloaders ?s0) ?k = Some _ |- _ => pose proof (nth_some_lt _ _ _ Hx) end).
  all: destruct (H kk ltac:(lia)) as [Hw Hc]; unfold wof, kof in *; cbn.
  all: try (split; assumption).
  all: rewrite ?filter_app, ?Hw, ?Hc; cbn.
  all: try (rewrite filter_spawn_workers_other by (cbn; try reflexivity; apply Nat.eqb_neq; lia)).
  all: try (rewrite filter_spawn_kids_other by (cbn; try reflexivity; apply Nat.eqb_neq; lia)).
  all: try (rewrite (filter_release (fun o => owner_eqb o (ORel kk))), Hw; cbn).
  all: try (split; [apply (filter_upd_wpc_nil (fun o => owner_eqb o (ORel kk)))|]; auto; fail).
  all: try (split; [|apply (filter_upd_kpc_nil (fun o => owner_eqb o (ORel kk)))]; auto; fail).
  all: auto.
Qed.

Lemma Q_own_step P s l s' :
  Q_calls P s -> G_old P s -> G_new s -> Q_idx s -> Q_own s -> step P s l = Some s' -> Q_own s'.
Proof.
  intros Hq Hold Hnew Hidx H Hst. unfold Q_own in *.
  assert (Hqr : forall k r, nth_error (reloaders s) k = Some r -> Q_rec P r).
  { intros k r Hn. unfold Q_calls in Hq. rewrite Forall_forall in Hq. apply Hq. eapply nth_error_In; eassumption. }
  open_step Hst; cbn; goal_cases; intros kk rr Hn.
  all: try (exact (H _ _ Hn)).
  all: unfold upd_rel in *; cbn in Hn.
  all: repeat match goal with
              | E : rel_pc ?k ?s = Some ?p |- _ =>
                let x := fresh "x" in let Hx := fresh "Hx" in let Hq := fresh "Hq" in
                destruct (rel_pc_nth _ _ _ E) as (x & Hx & Hq); clear E
              end.
  all: try (apply nth_upd_inv in Hn as [(-> & x0 & Hx0 & ->)|(Hne & Hn)]).
  all: try (cbn in Hx0).
  all: try (match goal with
            | Hx : nth_error (reloaders ?s) ?k = Some ?x, Hx0 : nth_error (reloaders ?s) ?k = Some ?x0 |- _ =>
              assert (x0 = x) by congruence; subst x0
            end).
  (* another reloader's record, or only workers/kids moved *)
  all: try (eapply (own1_frame s); [own_side kk|own_side kk|own_side kk|exact (H _ _ Hn)]; fail).
  (* this reloader's pc moved within a stage *)
  all: try (match goal with
            | Hx : nth_error (reloaders ?s) ?k = Some ?x |- Q_own1 _ ?k _ =>
              eapply (own1_frame s); [own_side k|own_side k|own_side k|];
              eapply own1_pc; [| | | | |exact (H _ _ Hx)]; cbn;
              repeat match goal with Hq : r_pc x = _ |- _ => rewrite Hq end; cbn;
              try (destruct (membership_changed P (entries_of s) c));
              try (destruct (is_restart (r_path x))); cbn; auto; try discriminate; fail
            end).
  - (* a new Reload caller *)
    apply nth_app_one_inv in Hn as [Hn|[-> ->]].
    + eapply (own1_frame s); [reflexivity|exact (fun X => X)|reflexivity|exact (H _ _ Hn)].
    + apply Nat.eqb_eq in E. destruct (Hidx (length (reloaders s)) (le_n _)) as [Hw Hk].
      unfold Q_own1. cbn. unfold wof, kof in *. cbn. rewrite Hw, Hk. auto.
  - (* boot by this reloader *)
    pose proof (Q_rec_restart_at P x0 (Hqr _ _ Hx)) as Hpath. rewrite Hq0 in Hpath.
    specialize (Hpath ltac:(tauto)).
    destruct (H _ _ Hx) as (A & B & C). rewrite Hpath, Hq0 in A, B, C. cbn in A, B, C.
    unfold Q_own1. cbn. rewrite Hpath. cbn. unfold wof, kof in *. cbn.
    split; [exact A|split; [exact B|]].
    rewrite filter_app, C, filter_spawn_kids_same. cbn. rewrite map_child_spawn_kids.
    f_equal. apply (Hnew _ _ Hx). rewrite Hq0. reflexivity.
  - pose proof (Q_rec_restart_at P x0 (Hqr _ _ Hx)) as Hpath. rewrite Hq0 in Hpath.
    specialize (Hpath ltac:(tauto)).
    destruct (H _ _ Hx) as (A & B & C). rewrite Hpath, Hq0 in A, B, C. cbn in A, B, C.
    unfold Q_own1. cbn. rewrite Hpath. cbn. unfold wof, kof in *. cbn.
    split; [exact A|split; [exact B|]].
    rewrite filter_app, C, filter_spawn_kids_same. cbn. rewrite map_child_spawn_kids.
    f_equal. apply (Hnew _ _ Hx). rewrite Hq0. reflexivity.
  - (* stopAllRunnables by this reloader *)
    pose proof (Q_rec_restart_at P x0 (Hqr _ _ Hx)) as Hpath. rewrite Hq0 in Hpath.
    specialize (Hpath ltac:(tauto)).
    destruct (H _ _ Hx) as (A & B & C). rewrite Hpath, Hq0 in A, B, C. cbn in A, B, C.
    unfold Q_own1. cbn. rewrite Hpath. cbn. unfold wof, kof in *. cbn.
    split; [|split; [discriminate|exact C]].
    rewrite filter_app, A, filter_spawn_workers_same. cbn. rewrite map_child_spawn_workers.
    do 2 f_equal. symmetry. apply (Hold _ _ Hx). rewrite Hq0. reflexivity.
  - pose proof (Q_rec_restart_at P x0 (Hqr _ _ Hx)) as Hpath. rewrite Hq0 in Hpath.
    specialize (Hpath ltac:(tauto)).
    destruct (H _ _ Hx) as (A & B & C). rewrite Hpath, Hq0 in A, B, C. cbn in A, B, C.
    unfold Q_own1. cbn. rewrite Hpath. cbn. unfold wof, kof in *. cbn.
    split; [|split; [discriminate|exact C]].
    rewrite filter_app, A, filter_spawn_workers_same. cbn. rewrite map_child_spawn_workers.
    do 2 f_equal. symmetry. apply (Hold _ _ Hx). rewrite Hq0. reflexivity.
  - (* wg.Wait() returned: every worker of this reloader is done *)
    pose proof (Q_rec_restart_at P x0 (Hqr _ _ Hx)) as Hpath. rewrite Hq0 in Hpath.
    specialize (Hpath ltac:(tauto)).
    destruct (H _ _ Hx) as (A & B & C). rewrite Hpath, Hq0 in A, B, C. cbn in A, B, C.
    unfold Q_own1. cbn. rewrite Hpath. cbn.
    split; [exact A|split; [intros _|exact C]].
    match goal with Hd : all_done (ORel k) s = true |- _ => exact (all_done_wof _ _ Hd) end.
  - pose proof (Q_rec_restart_at P x0 (Hqr _ _ Hx)) as Hpath. rewrite Hq0 in Hpath.
    specialize (Hpath ltac:(tauto)).
    destruct (H _ _ Hx) as (A & B & C). rewrite Hpath, Hq0 in A, B, C. cbn in A, B, C.
    unfold Q_own1. cbn. rewrite Hpath. cbn.
    split; [exact A|split; [intros _|exact C]].
    match goal with Hd : all_done (ORel k) s = true |- _ => exact (all_done_wof _ _ Hd) end.
  - (* Reload finishes *)
    pose proof (Hqr _ _ E) as Hrec. destruct (H _ _ E) as (A & B & C).
    unfold Q_rec in Hrec. unfold Q_own1. cbn.
    destruct (r_pc r) eqn:Epc; try discriminate;
      destruct (r_path r) eqn:Epath; cbn in *; try tauto; try (intuition discriminate);
      split; auto.
  - pose proof (Hqr _ _ E) as Hrec. destruct (H _ _ E) as (A & B & C).
    unfold Q_rec in Hrec. unfold Q_own1. cbn.
    destruct (r_pc r) eqn:Epc; try discriminate;
      destruct (r_path r) eqn:Epath; cbn in *; try tauto; try (intuition discriminate);
      split; auto.
Qed.

(* ------------------------------------------------------------------ all schedules *)

Lemma proto_reach P s : reach P s -> Q_calls P s /\ Q_idx s /\ Q_own s.
Proof.
  intros Hr.
  assert (H : (InvC10 s /\ L_mu P s /\ N_cb s /\ G_old P s /\ G_new s) /\ Q_calls P s /\ Q_idx s /\ Q_own s);
    [|apply H].
  revert s Hr. apply reach_inv_strong.
  - split; [apply (base_reach P init); now exists []|].
    split; [constructor|]. split; [intros k _; split; reflexivity|].
    intros k r Hn. destruct k; discriminate Hn.
  - intros s l s' Hr ((Hc & Hmu & Hn & Ho & Hw) & Hq & Hi & Hown) Hst.
    split.
    + apply (base_reach P s'). destruct Hr as [ls Hl]. exists (ls ++ [l]).
      rewrite run_app, Hl. cbn. now rewrite Hst.
    + split; [eapply Q_calls_step; eassumption|].
      split; [eapply Q_idx_step; eassumption|].
      eapply Q_own_step; eassumption.
Qed.

(* C11_in_place: a Reload() that took the in-place path and has returned made exactly one
   ReloadWithConfig(new config) (or Reload()) call per entry, in entry order, stopped nothing
   and started nothing *)
Lemma in_place_reload P s k r :
  reach P s -> nth_error (reloaders s) k = Some r -> r_path r = PInPlace ->
  r_pc r = RRet \/ r_pc r = RDone ->
  membership_changed P (r_old r) (r_new r) = false /\ r_calls r = calls_of P (r_new r)
  /\ wof (ORel k) s = [] /\ kof (ORel k) s = [].
Proof.
  intros Hr Hn Hp Hpc. destruct (proto_reach P s Hr) as (Hq & _ & Hown).
  unfold Q_calls in Hq. rewrite Forall_forall in Hq.
  pose proof (Hq r (nth_error_In _ _ Hn)) as Hrec. unfold Q_rec in Hrec. rewrite Hp in Hrec.
  destruct (Hown _ _ Hn) as (A & _ & C). rewrite Hp in A, C. cbn in A, C.
  destruct Hrec as [Hm Hc]. destruct Hpc as [E|E]; rewrite E in Hc; auto.
Qed.

(* C11_restart: a Reload() that took the restart path makes no reload call; once it has started
   any child, it has stopped (Stop() returned) exactly the children of the old configuration, in
   reverse order, and the children it started are exactly the new configuration, in order *)
Lemma restart_reload P s k r :
  reach P s -> nth_error (reloaders s) k = Some r -> r_path r = PRestart ->
  membership_changed P (r_old r) (r_new r) = true /\ r_calls r = [] /\
  (kof (ORel k) s <> [] ->
   forallb wdone (wof (ORel k) s) = true /\
   map w_child (wof (ORel k) s) = map fst (rev (r_old r)) /\
   map k_child (kof (ORel k) s) = map fst (r_new r)).
Proof.
  intros Hr Hn Hp. destruct (proto_reach P s Hr) as (Hq & _ & Hown).
  unfold Q_calls in Hq. rewrite Forall_forall in Hq.
  pose proof (Hq r (nth_error_In _ _ Hn)) as Hrec. unfold Q_rec in Hrec. rewrite Hp in Hrec.
  destruct Hrec as (Hm & Hc & Hpc). split; [exact Hm|split; [exact Hc|]].
  intros Hk. destruct (Hown _ _ Hn) as (A & B & C). rewrite Hp in A, B, C. cbn in A, B, C.
  destruct (launched (r_pc r)) eqn:El; [|now elim Hk].
  assert (Hs : stopped (r_pc r) = true /\ spawned (r_pc r) = true)
    by (destruct (r_pc r); try discriminate El; split; reflexivity).
  destruct Hs as [Hs1 Hs2]. rewrite Hs2 in A. auto.
Qed.

(* C11_failed_callback over whole schedules: a Reload() that failed (state machine refused, callback
   error or nil) never touched a child *)
Lemma failed_reload P s k r :
  reach P s -> nth_error (reloaders s) k = Some r -> r_path r = PFailedCb \/ r_path r = PFailedFsm ->
  r_calls r = [] /\ wof (ORel k) s = [] /\ kof (ORel k) s = [].
Proof.
  intros Hr Hn Hp. destruct (proto_reach P s Hr) as (Hq & _ & Hown).
  unfold Q_calls in Hq. rewrite Forall_forall in Hq.
  pose proof (Hq r (nth_error_In _ _ Hn)) as Hrec. unfold Q_rec in Hrec.
  destruct (Hown _ _ Hn) as (A & _ & C).
  destruct Hp as [Hp|Hp]; rewrite Hp in Hrec, A, C; cbn in A, C; intuition.
Qed.

(* C11_restart indexed by the reloader's program counter instead of "it has started a child" (audit-2 M7):
   this form also speaks about a restart to the EMPTY configuration, where no child is ever started.
   [spawned]: its stopAllRunnables has created the Stop workers; [stopped]: wg.Wait() has returned;
   [launched]: its boot has launched the goroutines of the new configuration. *)
Lemma restart_reload_pc P s k r :
  reach P s -> nth_error (reloaders s) k = Some r -> r_path r = PRestart ->
  (spawned (r_pc r) = true -> map w_child (wof (ORel k) s) = map fst (rev (r_old r))) /\
  (spawned (r_pc r) = false -> wof (ORel k) s = []) /\
  (stopped (r_pc r) = true -> forallb wdone (wof (ORel k) s) = true) /\
  (launched (r_pc r) = true -> map k_child (kof (ORel k) s) = map fst (r_new r)) /\
  (launched (r_pc r) = false -> kof (ORel k) s = []).
Proof.
  intros Hr Hn Hp. destruct (proto_reach P s Hr) as (_ & _ & Hown).
  destruct (Hown _ _ Hn) as (A & B & C). rewrite Hp in A, B, C. cbn in A, B, C.
  repeat split; intros H; rewrite ?H in *; auto.
Qed.
