(* Property-level lemmas of the HTTP runner protocol model (used by props/C12.v, C13.v, C19.v). *)
From Coq Require Import List NArith ZArith Bool Lia.
From GS Require Import LTS HttpCfg HttpServer HttpCfgProofs HttpInv HttpInvStep HttpInvStep2.
Import ListNotations.

(* take a step apart: destruct every discriminee until the result is explicit *)
Ltac crush_step H :=
  repeat match type of H with
         | context[match ?x with _ => _ end] => destruct x eqn:?; try discriminate
         end;
  try (injection H as <-).

Ltac open_step H :=
  unfold step, step_core, stop_done, finish_stop, fail_boot, boot_ok, reload_finish, transition, transition_or_error in H.

(* ------------------------------------------------------------------ crash freedom (C19) *)

Definition delivers_ok (mux_ok : list str -> bool) (l : label) : Prop :=
  match l with
  | LFetch (CbCfg c) => mux_ok (map rpath (routes c)) = true
  | _ => True
  end.

Lemma step_crashed_cur sl validated mux_ok s l s' :
  step sl validated mux_ok s l = Some s' ->
  crashed s = false /\
  ((l = LBootCrash /\ mux_ok (map rpath (routes (cur s))) = false /\
    new_config_ok validated mux_ok (routes (cur s)) = true) \/
   (crashed s' = false /\ (cur s' = cur s \/ exists c, l = LFetch (CbCfg c) /\ cur s' = c))).
Proof.
  intros H. assert (Hc : crashed s = false).
  { destruct l; unfold step, step_core in H; destruct (crashed s); try discriminate; reflexivity. }
  split; [exact Hc|].
  destruct l; open_step H; rewrite Hc in H; crush_step H; cbn; auto; try (right; split; [auto|eauto]; fail).
  - left. apply andb_true_iff in Heqb as [A B]. apply negb_true_iff in B. auto.
Qed.

Theorem crash_free sl validated mux_ok c0 ls : forall s,
  mux_ok (map rpath (routes c0)) = true ->
  Forall (delivers_ok mux_ok) ls ->
  run (step sl validated mux_ok) (init c0) ls = Some s ->
  crashed s = false /\ mux_ok (map rpath (routes (cur s))) = true.
Proof.
  intros s H0 Hd. revert s.
  assert (G : forall ls s0 s, crashed s0 = false -> mux_ok (map rpath (routes (cur s0))) = true ->
              Forall (delivers_ok mux_ok) ls -> run (step sl validated mux_ok) s0 ls = Some s ->
              crashed s = false /\ mux_ok (map rpath (routes (cur s))) = true).
  { clear. induction ls as [|l ls IH]; intros s0 s Hc Hm Hd Hr.
    - injection Hr as <-. auto.
    - cbn [run] in Hr. destruct (step sl validated mux_ok s0 l) as [s1|] eqn:E; [|discriminate].
      inversion Hd as [|? ? Hl Hd']; subst.
      apply step_crashed_cur in E as (_ & [(-> & Hf & _)|(Hc1 & Hcur)]); [congruence|].
      eapply IH; [exact Hc1| |exact Hd'|exact Hr].
      destruct Hcur as [->|(c & -> & ->)]; [exact Hm|exact Hl]. }
  intros s Hr. eapply (G ls (init c0) s); [reflexivity|exact H0|exact Hd|exact Hr].
Qed.

(* with the candidate repair NewConfig validates the patterns: no hypothesis on what is delivered *)
Theorem crash_free_validated sl mux_ok c0 ls s :
  run (step sl true mux_ok) (init c0) ls = Some s -> crashed s = false.
Proof.
  assert (G : forall ls s0 s, crashed s0 = false -> run (step sl true mux_ok) s0 ls = Some s -> crashed s = false).
  { clear. induction ls as [|l ls IH]; intros s0 s Hc Hr.
    - injection Hr as <-. auto.
    - cbn [run] in Hr. destruct (step sl true mux_ok s0 l) as [s1|] eqn:E; [|discriminate].
      apply step_crashed_cur in E as (_ & [(-> & Hf & Hn)|(Hc1 & _)]).
      + unfold new_config_ok in Hn. destruct (routes (cur s0)); [discriminate|]. congruence.
      + eapply IH; eauto. }
  intros Hr. eapply (G ls (init c0) s); [reflexivity|exact Hr].
Qed.

(* the defect: a configuration NewConfig accepts whose patterns the mux rejects crashes Run() *)
Theorem crash_witness sl mux_ok c0 :
  routes c0 <> [] -> mux_ok (map rpath (routes c0)) = false ->
  exists s, run (step sl false mux_ok) (init c0) [LRunCall; LRunStart; LRunLock; LBootCrash] = Some s /\
            crashed s = true.
Proof.
  intros Hne Hm.
  exists (with_crashed (with_rpc (with_crit (with_rpc (with_fsm (with_rpc (init c0) RCalled) FBooting) RWantBoot)
                                            (Some ByRun) KWantBoot) RInBoot)).
  split; [|reflexivity].
  destruct (routes c0) as [|r rs] eqn:E; [contradiction|].
  cbn. unfold new_config_ok. cbn. rewrite E. rewrite Hm. reflexivity.
Qed.

(* ------------------------------------------------------------------ reload bookkeeping (C13) *)

Definition own_part (n : list (str * owner)) : list (str * owner) :=
  filter (fun p => match snd p with Own _ => true | Foreign => false end) n.

Definition servers_untouched (s s' : state) : Prop :=
  length (servers s') = length (servers s) /\
  map s_shut (servers s') = map s_shut (servers s) /\
  map s_cfg (servers s') = map s_cfg (servers s) /\
  own_part (net s') = own_part (net s) /\
  server s' = server s /\ once_done s' = once_done s /\ cur s' = cur s.

Lemma untouched_refl s : servers_untouched s s.
Proof. repeat split. Qed.

Lemma map_upd_pc {A} (g : srv -> A) l i p :
  (forall x, g (set_pc p x) = g x) -> map g (upd_srv l i (set_pc p)) = map g l.
Proof.
  intros Hg. revert i; induction l as [|x l IH]; intros [|i]; cbn [upd_srv map]; auto.
  - now rewrite Hg.
  - now rewrite IH.
Qed.

Lemma own_part_del n a : own_part (net_del n a) = own_part n.
Proof.
  induction n as [|[k o] n IH]; cbn [net_del own_part filter]; [reflexivity|].
  destruct (str_eqb k a && owner_eqb o Foreign) eqn:E.
  - apply andb_true_iff in E as [_ E]. apply owner_eqb_eq in E. subst. cbn. exact IH.
  - cbn [own_part filter]. fold (own_part (net_del n a)). fold (own_part n). now rewrite IH.
Qed.

Lemma unchanged_enters sl validated mux_ok s i c s' :
  kpc s = KFetch -> holder s = Some (ByReload i) ->
  go_config_equal c (cur s) = true ->
  step sl validated mux_ok s (LFetch (CbCfg c)) = Some s' ->
  kpc s' = KUnchanged /\ servers_untouched s s'.
Proof.
  intros Ek Eh Ee H. open_step H. rewrite Ek, Eh, Ee in H. destruct (crashed s); [discriminate|].
  injection H as <-. split; [reflexivity|repeat split].
Qed.

Lemma errold_enters_pre sl validated mux_ok s i s' :
  kpc s = KFetch -> holder s = Some (ByReload i) ->
  step sl validated mux_ok s (LFetch CbErrOld) = Some s' ->
  kpc s' = KUnchanged /\ servers_untouched s s'.
Proof.
  intros Ek Eh H. open_step H. rewrite Ek, Eh in H. destruct (crashed s); [discriminate|].
  injection H as <-. split; [reflexivity|repeat split].
Qed.

Lemma changed_takes_new sl validated mux_ok s i c s' :
  kpc s = KFetch -> holder s = Some (ByReload i) ->
  go_config_equal c (cur s) = false ->
  step sl validated mux_ok s (LFetch (CbCfg c)) = Some s' ->
  cur s' = c /\ kpc s' = KStopPending.
Proof.
  intros Ek Eh Ee H. open_step H. rewrite Ek, Eh, Ee in H. destruct (crashed s); [discriminate|].
  injection H as <-. split; reflexivity.
Qed.

(* the continuations of the mutex-protected sections are total for a holder *)
Lemma stop_done_some sl s r v o : holder s <> None -> stop_done sl (with_server s v o) r <> None.
Proof.
  unfold stop_done. cbn [holder with_server]. destruct (holder s) as [[|i]|]; [| |contradiction]; intros _.
  - destruct sl; discriminate.
  - destruct r; discriminate.
Qed.

Section Protocol.
  Variable stop_locked : bool.
  Variable validated : bool.
  Variable mux_ok : list str -> bool.
  Notation step := (step stop_locked validated mux_ok).
  Notation Inv := (Inv stop_locked mux_ok).

  Lemma unchanged_step_inv s l s' :
    Inv s -> kpc s = KUnchanged -> step s l = Some s' ->
    servers_untouched s s' /\ (kpc s' = KUnchanged \/ (holder s' = None /\ fsm_st s' = FRunning)).
  Proof.
    intros I Ek H.
    assert (Hh : exists i, holder s = Some (ByReload i)).
    { destruct (holder s) as [[|i]|] eqn:Eh; [| eauto |].
      - destruct (i_run _ _ _ I Eh) as [[_ Hb]|[_ Hb]]; rewrite Ek in Hb; contradiction.
      - apply (i_free _ _ _ I) in Eh. congruence. }
    destruct Hh as [i Eh]. pose proof (i_rel _ _ _ I i Eh) as Ef.
    destruct l; open_step H; rewrite ?Ek, ?Eh, ?Ef in H; cbn [fsm_allowed] in H; crush_step H;
      try (split; [repeat split; cbn; auto|cbn; auto]; fail).
    - (* LBindOk: impossible, the live server is already listening *)
      exfalso.
      match goal with
      | Hs : srv_at s ?sid = Some ?x, Hb : (_ && _ && _) = true |- _ =>
        unfold srv_at in Hs; apply andb_true_iff in Hb as [Hb _]; apply andb_true_iff in Hb as [E1 E2];
          apply sv_pc_eqb_eq in E1; apply negb_true_iff in E2;
          assert (s_pc x = SvListening) by (eapply (i_listen _ _ _ I); eauto; congruence); congruence
      end.
    - split; [repeat split; cbn; auto; try (apply map_upd_pc; auto); apply upd_length|cbn; auto].
    - split; [repeat split; cbn; auto; try (apply map_upd_pc; auto); apply upd_length|cbn; auto].
    - split; [repeat split; cbn; auto; try (apply map_upd_pc; auto); apply upd_length|cbn; auto].
    - split; [repeat split; cbn; auto; try (apply map_upd_pc; auto); apply upd_length|cbn; auto].
    - split; [repeat split; cbn; auto; apply own_part_del|cbn; auto].
  Qed.

  Theorem unchanged_step c0 ls s l s' :
    no_foreign ls -> run step (init c0) ls = Some s ->
    kpc s = KUnchanged -> step s l = Some s' ->
    servers_untouched s s' /\ (kpc s' = KUnchanged \/ (holder s' = None /\ fsm_st s' = FRunning)).
  Proof. intros Hn Hr. apply unchanged_step_inv. eapply inv_reachable; eauto. Qed.
  (* ---------------------------------------------------------------- Running => serving (C12, C13) *)

  Lemma running_serves_inv s :
    Inv s -> fsm_st s = FRunning -> rpc s <> RInStop ->
    exists sid sv, server s = Some sid /\ nth_error (servers s) sid = Some sv /\
                   s_cfg sv = cur s /\ s_shut sv = false /\ s_pc sv = SvListening /\
                   mux_ok (map rpath (routes (cur s))) = true /\
                   net_get (net s) (addr (cur s)) = Some (Own sid) /\
                   (forall a sid', net_get (net s) a = Some (Own sid') -> sid' = sid).
  Proof.
    intros I Hf Hr.
    assert (Hrp : rpc s = RSelect \/ rpc s = RWantStop)
      by (destruct (i_running _ _ _ I Hf) as [?|[?|?]]; auto; contradiction).
    assert (Hh : holder s = None).
    { destruct (holder s) as [[|i]|] eqn:Eh; [| |reflexivity].
      - destruct (i_run _ _ _ I Eh) as [[E _]|[E _]]; destruct Hrp; congruence.
      - pose proof (i_rel _ _ _ I i Eh). congruence. }
    pose proof (proj1 (i_free _ _ _ I) Hh) as Ek.
    destruct (i_has _ _ _ I) as (sid & Hs & sv & Hn & Hsh); [left; split; [exact Hf|tauto]|].
    assert (Hc : s_cfg sv = cur s).
    { eapply (i_cfg _ _ _ I); eauto. intros [E _]. congruence. }
    assert (Hl : s_pc sv = SvListening) by (eapply (i_listen _ _ _ I); eauto; congruence).
    exists sid, sv. repeat split; auto.
    - rewrite <- Hc. eapply (i_mux _ _ _ I); eauto.
    - rewrite <- Hc. eapply (i_bound _ _ _ I); eauto.
    - intros a sid' Hg. apply get_in in Hg. destruct (i_net _ _ _ I _ _ Hg) as (sv' & Hn' & Hsh' & _).
      destruct (i_live _ _ _ I sid') as [E _]; [exists sv'; auto|]. congruence.
  Qed.

  Theorem running_serves c0 ls s :
    no_foreign ls -> run step (init c0) ls = Some s ->
    fsm_st s = FRunning -> rpc s <> RInStop ->
    exists sid sv, server s = Some sid /\ nth_error (servers s) sid = Some sv /\
                   s_cfg sv = cur s /\ s_shut sv = false /\ s_pc sv = SvListening /\
                   mux_ok (map rpath (routes (cur s))) = true /\
                   net_get (net s) (addr (cur s)) = Some (Own sid) /\
                   (forall a sid', net_get (net s) a = Some (Own sid') -> sid' = sid).
  Proof. intros Hn Hr. apply running_serves_inv. eapply inv_reachable; eauto. Qed.

  (* with the repaired shutdown (Transition(Stopping) under the mutex) the exclusion disappears *)
  Theorem running_serves_repaired c0 ls s :
    stop_locked = true -> no_foreign ls -> run step (init c0) ls = Some s ->
    fsm_st s = FRunning ->
    exists sid sv, server s = Some sid /\ nth_error (servers s) sid = Some sv /\
                   s_cfg sv = cur s /\ s_shut sv = false /\ s_pc sv = SvListening /\
                   mux_ok (map rpath (routes (cur s))) = true /\
                   net_get (net s) (addr (cur s)) = Some (Own sid) /\
                   (forall a sid', net_get (net s) a = Some (Own sid') -> sid' = sid).
  Proof.
    intros Hl Hn Hr Hf. pose proof (inv_reachable stop_locked validated mux_ok c0 ls s Hn Hr) as I.
    apply running_serves_inv; auto. intros E. exact (i_locked _ _ _ I Hl E Hf).
  Qed.

  Lemma ostr_eqb_refl x : ostr_eqb x x = true.
  Proof. destruct x; cbn; [apply str_eqb_refl|reflexivity]. Qed.

  Theorem running_observable c0 ls s :
    no_foreign ls -> run step (init c0) ls = Some s ->
    crashed s = false -> fsm_st s = FRunning -> rpc s <> RInStop ->
    step s (LObsDial (addr (cur s)) true) = Some s /\
    step s (LObsServe (addr (cur s))
              (map (fun r => (rpath r, route_of_path (routes (cur s)) (rpath r))) (routes (cur s)))) = Some s.
  Proof.
    intros Hn Hr Hc Hf Hp.
    destruct (running_serves c0 ls s Hn Hr Hf Hp) as (sid & sv & Hs & Hsv & Hcfg & _ & _ & _ & Hg & _).
    unfold HttpServer.step, step_core. rewrite Hc. split.
    - unfold bound_any. rewrite Hg. reflexivity.
    - rewrite Hg. unfold srv_at. rewrite Hsv, Hcfg.
      replace (forallb _ _) with true; [reflexivity|]. symmetry. apply forallb_forall.
      intros [p m] Hin. apply in_map_iff in Hin as (r & Hr' & _). injection Hr' as <- <-. apply ostr_eqb_refl.
  Qed.

  Theorem running_observable_repaired c0 ls s :
    stop_locked = true -> no_foreign ls -> run step (init c0) ls = Some s ->
    crashed s = false -> fsm_st s = FRunning ->
    step s (LObsDial (addr (cur s)) true) = Some s /\
    step s (LObsServe (addr (cur s))
              (map (fun r => (rpath r, route_of_path (routes (cur s)) (rpath r))) (routes (cur s)))) = Some s.
  Proof.
    intros Hl Hn Hr Hc Hf. apply (running_observable c0 ls s Hn Hr Hc Hf).
    pose proof (inv_reachable stop_locked validated mux_ok c0 ls s Hn Hr) as I.
    intros E. exact (i_locked _ _ _ I Hl E Hf).
  Qed.

  (* stopServer reaches the live server, however many reloads came before: with an un-shut server the once is
     armed and r.server points at it, so the skip path is closed and Shutdown is called on exactly that server *)
  Theorem stop_reaches_live_server c0 ls s sid sv :
    no_foreign ls -> run step (init c0) ls = Some s ->
    crashed s = false -> kpc s = KStopPending ->
    nth_error (servers s) sid = Some sv -> s_shut sv = false ->
    step s LStopSkip = None /\ step s (LStopCallS sid) <> None.
  Proof.
    intros Hn Hr Hc Hk Hsv Hsh. pose proof (inv_reachable stop_locked validated mux_ok c0 ls s Hn Hr) as I.
    destruct (i_live _ _ _ I sid) as [Es Eo]; [exists sv; auto|].
    unfold HttpServer.step, step_core. rewrite Hc, Hk, Es, Eo, Nat.eqb_refl. split; [reflexivity|discriminate].
  Qed.

  (* ---------------------------------------------------------------- the served configuration is duplicate-free:
     the pure half of C13 (Equal is right whenever the ACTIVE configuration has no duplicate path) composes with the
     protocol.  [mux_sound]: the ServeMux refuses a pattern list with a repeated pattern (it does: registering the
     same pattern twice panics) - an assumption on the oracle, stated where it is used. *)
  Definition mux_sound : Prop := forall ps, mux_ok ps = true -> NoDup ps.

  (* while a Reload is about to call / has just called the callback, the configuration it compares against is the one
     the live server was created from, which the mux accepted *)
  Lemma fetch_active_mux s i :
    Inv s -> holder s = Some (ByReload i) -> kpc s = KFetch \/ kpc s = KUnchanged ->
    mux_ok (map rpath (routes (cur s))) = true.
  Proof.
    intros I Eh Ek. pose proof (i_rel _ _ _ I i Eh) as Ef.
    destruct (i_has _ _ _ I) as (j & Hs & sv & Hn & Hsh); [right; left; split; [exact Ef|tauto]|].
    assert (Hc : s_cfg sv = cur s).
    { eapply (i_cfg _ _ _ I); eauto. intros [E _]. destruct Ek; congruence. }
    rewrite <- Hc. eapply (i_mux _ _ _ I); eauto.
  Qed.

  Lemma mux_nodup rs : mux_sound -> mux_ok (map rpath rs) = true -> paths_nodup rs = true.
  Proof. intros Hm H. apply paths_nodup_iff. now apply Hm. Qed.

  (* the lemma the audit (M9) asked for: a served configuration is path-duplicate-free *)
  Theorem running_paths_nodup c0 ls s :
    mux_sound -> no_foreign ls -> run step (init c0) ls = Some s ->
    fsm_st s = FRunning -> (stop_locked = true \/ rpc s <> RInStop) ->
    paths_nodup (routes (cur s)) = true.
  Proof.
    intros Hm Hn Hr Hf Hx. apply (mux_nodup _ Hm).
    destruct Hx as [Hl|Hp].
    - destruct (running_serves_repaired c0 ls s Hl Hn Hr Hf) as (_ & _ & _ & _ & _ & _ & _ & E & _). exact E.
    - destruct (running_serves c0 ls s Hn Hr Hf Hp) as (_ & _ & _ & _ & _ & _ & _ & E & _). exact E.
  Qed.

  (* NO STALE SERVER: whenever a Reload takes the "unchanged" path on a delivered configuration c - in any reachable
     state, after any history - c really has the active configuration's address, timeouts and route SET, so the
     server left running serves exactly what c asks for *)
  Theorem unchanged_means_equivalent c0 ls s i c s' :
    mux_sound -> no_foreign ls -> run step (init c0) ls = Some s ->
    kpc s = KFetch -> holder s = Some (ByReload i) ->
    step s (LFetch (CbCfg c)) = Some s' -> kpc s' = KUnchanged ->
    (addr c = addr (cur s) /\ drain c = drain (cur s) /\ read_to c = read_to (cur s) /\
     write_to c = write_to (cur s) /\ idle_to c = idle_to (cur s)) /\
    (forall x, In x (routes c) <-> In x (routes (cur s))) /\ paths_nodup (routes c) = true.
  Proof.
    intros Hm Hn Hr Ek Eh H Ek'.
    pose proof (inv_reachable stop_locked validated mux_ok c0 ls s Hn Hr) as I.
    pose proof (mux_nodup _ Hm (fetch_active_mux s i I Eh (or_introl Ek))) as Hnd.
    assert (He : go_config_equal c (cur s) = true).
    { open_step H. rewrite Ek, Eh in H. destruct (crashed s); [discriminate|].
      destruct (go_config_equal c (cur s)); [reflexivity|]. injection H as <-. cbn in Ek'. discriminate. }
    exact (config_equal_never_stale go_names_key c (cur s) Hnd He).
  Qed.

  (* with a duplicate-free configuration every path is answered by its own route *)
  Lemma route_of_path_own rs : paths_nodup rs = true -> forall r, In r rs -> route_of_path rs (rpath r) = Some (rname r).
  Proof.
    induction rs as [|x rs IH]; intros Hnd r Hin; [contradiction|].
    cbn [paths_nodup] in Hnd. apply andb_true_iff in Hnd as [Hx Hnd]. apply negb_true_iff in Hx.
    cbn [route_of_path]. destruct Hin as [->|Hin].
    - now rewrite str_eqb_refl.
    - destruct (str_eqb (rpath x) (rpath r)) eqn:E.
      + exfalso. apply str_eqb_eq in E. rewrite E in Hx.
        assert (path_in (rpath r) rs = true) by (apply path_in_iff; apply in_map; exact Hin). congruence.
      + now apply IH.
  Qed.

  (* ... and, the mux refusing duplicate patterns, "its own route" is literal: the table the harness must observe maps
     every configured path to the name of the route that carries it *)
  Theorem running_observable_own c0 ls s :
    mux_sound -> stop_locked = true -> no_foreign ls -> run step (init c0) ls = Some s ->
    crashed s = false -> fsm_st s = FRunning ->
    step s (LObsServe (addr (cur s)) (map (fun r => (rpath r, Some (rname r))) (routes (cur s)))) = Some s.
  Proof.
    intros Hm Hl Hn Hr Hc Hf.
    pose proof (inv_reachable stop_locked validated mux_ok c0 ls s Hn Hr) as I.
    assert (Hp : rpc s <> RInStop) by (intros E; exact (i_locked _ _ _ I Hl E Hf)).
    destruct (running_observable c0 ls s Hn Hr Hc Hf Hp) as [_ H].
    assert (Hnd : paths_nodup (routes (cur s)) = true) by (apply (running_paths_nodup c0 ls s); auto).
    rewrite <- H. f_equal. f_equal. apply map_ext_in. intros r Hin. f_equal.
    symmetry. now apply route_of_path_own.
  Qed.

  (* once Run has returned no server created by this runner is bound *)
  Theorem released c0 ls s :
    no_foreign ls -> run step (init c0) ls = Some s ->
    (exists r, rpc s = RRet r) \/ rpc s = RDone ->
    forall a sid, net_get (net s) a <> Some (Own sid).
  Proof.
    intros Hn Hr Hret a sid Hg. pose proof (inv_reachable stop_locked validated mux_ok c0 ls s Hn Hr) as I.
    destruct (i_ret _ _ _ I Hret) as (_ & _ & Hall).
    apply get_in in Hg. destruct (i_net _ _ _ I _ _ Hg) as (sv & Hsv & Hsh & _).
    rewrite (Hall _ _ Hsv) in Hsh. discriminate.
  Qed.

  (* ---------------------------------------------------------------- progress (C13_terminates) *)

  Definition progress_label (l : label) : bool :=
    match l with
    | LRunCall | LStopCall _ | LCancel | LReloadCall _ | LForeignBind _ | LForeignFree _
    | LObsState _ | LObsDial _ _ | LObsServe _ _ | LObsCensus _ | LQuiesce | LRunRet _ | LStopRet _ | LReloadRet _
    | LLasClosed _ => false
    | _ => true
    end.

  Definition run_returned (s : state) : bool :=
    match rpc s with RRet _ | RDone => true | _ => false end.

  Lemma config_eqb_refl c : config_eqb c c = true.
  Proof. now apply config_eqb_eq. Qed.

  (* whoever holds r.mutex can always take a step (or the call it is blocked in can return) *)
  Lemma crit_progress s :
    Inv s -> crashed s = false -> holder s <> None ->
    exists l, progress_label l = true /\ step s l <> None.
  Proof.
    intros I Hc Hh.
    assert (Hk : kpc s <> KFree) by (intros E; apply (i_free _ _ _ I) in E; contradiction).
    assert (Hrel : forall k, kpc s = k -> ~ boot_kpc k -> ~ stop_kpc k -> exists i, holder s = Some (ByReload i)).
    { intros k Ek Hb Hs. destruct (holder s) as [[|i]|] eqn:Eh; [|eauto|contradiction].
      destruct (i_run _ _ _ I Eh) as [[_ H]|[_ H]]; rewrite Ek in H; contradiction. }
    unfold HttpServer.step, step_core. rewrite ?Hc.
    destruct (kpc s) eqn:Ek; try contradiction.
    - destruct (Hrel KFetch eq_refl) as [i Eh]; auto. exists (LFetch CbErr). rewrite ?Ek, ?Eh. split; [reflexivity|discriminate].
    - destruct (Hrel KUnchanged eq_refl) as [i Eh]; auto. exists LUnchanged. rewrite ?Ek. unfold reload_finish. rewrite ?Eh.
      split; [reflexivity|discriminate].
    - destruct (once_done s) eqn:Eo.
      + exists LStopSkip. rewrite ?Ek, ?Eo. split; [reflexivity|]. now apply stop_done_some.
      + destruct (server s) as [sid|] eqn:Es.
        * exists (LStopCallS sid). rewrite ?Ek, ?Es, ?Eo, ?Nat.eqb_refl. split; [reflexivity|discriminate].
        * exists LStopSkip. rewrite ?Ek, ?Eo, ?Es. split; [reflexivity|]. now apply stop_done_some.
    - exists (LShutdownRet sid STimeout). cbn [sres_allowed]. rewrite ?Ek, ?Nat.eqb_refl. split; [reflexivity|]. now apply stop_done_some.
    - destruct (new_config_ok validated mux_ok (routes (cur s))) eqn:En.
      + destruct (mux_ok (map rpath (routes (cur s)))) eqn:Em.
        * exists (LBootCreate (length (servers s)) (cur s)). rewrite ?Ek, ?En, ?Em, ?Nat.eqb_refl, ?config_eqb_refl.
          split; [reflexivity|discriminate].
        * exists LBootCrash. rewrite ?Ek, ?En, ?Em. split; [reflexivity|discriminate].
      + exists LBootReject. rewrite ?Ek, ?En. unfold fail_boot.
        destruct (holder s) as [[|i]|]; [| |contradiction]; split; try reflexivity; discriminate.
    - destruct (i_probe _ _ _ I sid) as (sv & Hn & Hsh); [auto|].
      pose proof (i_errs _ _ _ I) as He.
      destruct (s_pc sv) eqn:Ep.
      + destruct (bound_any (net s) (addr (s_cfg sv))) eqn:Eb.
        * exists (LBindFail sid). unfold srv_at. rewrite ?Hn, ?Ep, ?Hsh, ?Eb. cbn. rewrite ?Eb. split; [reflexivity|discriminate].
        * exists (LBindOk sid). unfold srv_at. rewrite ?Hn, ?Ep, ?Hsh, ?Eb. split; [reflexivity|discriminate].
      + destruct (bound_any (net s) (addr (s_cfg sv))) eqn:Eb.
        * exists LProbeOk. rewrite ?Ek. unfold srv_at. rewrite ?Hn, ?He, ?Ep, ?Eb. cbn. unfold boot_ok.
          destruct (holder s) as [[|i]|]; [| |contradiction]; split; try reflexivity; discriminate.
        * exists LProbeTimeout. rewrite ?Ek. unfold srv_at. rewrite ?Hn, ?Eb. split; [reflexivity|discriminate].
      + exists (LPushErr sid). unfold srv_at. rewrite ?Hn, ?He, ?Ep. split; [reflexivity|discriminate].
      + destruct (bound_any (net s) (addr (s_cfg sv))) eqn:Eb.
        * exists LProbeOk. rewrite ?Ek. unfold srv_at. rewrite ?Hn, ?He, ?Ep, ?Eb. cbn. unfold boot_ok.
          destruct (holder s) as [[|i]|]; [| |contradiction]; split; try reflexivity; discriminate.
        * exists LProbeTimeout. rewrite ?Ek. unfold srv_at. rewrite ?Hn, ?Eb. split; [reflexivity|discriminate].
    - destruct (i_probe _ _ _ I sid) as (sv & Hn & Hsh); [auto|].
      destruct (i_live _ _ _ I sid) as [Es Eo]; [exists sv; auto|].
      exists (LCleanupCall sid). rewrite ?Ek, ?Es, ?Eo, !Nat.eqb_refl. split; [reflexivity|discriminate].
    - exists (LShutdownRet sid STimeout). cbn [sres_allowed]. rewrite ?Ek, ?Nat.eqb_refl. unfold fail_boot. cbn [holder with_server].
      destruct (holder s) as [[|i]|]; [| |contradiction]; split; try reflexivity; discriminate.
    - destruct (Hrel KFinish eq_refl) as [i Eh]; auto. exists LFinish. rewrite ?Ek. unfold reload_finish. rewrite ?Eh.
      split; [reflexivity|discriminate].
  Qed.

  Theorem no_stuck c0 ls s :
    no_foreign ls -> run step (init c0) ls = Some s ->
    crashed s = false -> rpc s <> RNew -> (cancelled s || stop_req s = true) ->
    run_returned s = true \/ exists l, progress_label l = true /\ step s l <> None.
  Proof.
    intros Hn Hr Hc Hnew Hstop. pose proof (inv_reachable stop_locked validated mux_ok c0 ls s Hn Hr) as I.
    unfold run_returned. destruct (rpc s) eqn:Er; auto; try contradiction; right.
    - exists LRunStart. unfold HttpServer.step, step_core. rewrite Hc, Er.
      split; [reflexivity|destruct (fsm_allowed _ _); discriminate].
    - destruct (i_early _ _ _ I) as (_ & _ & Eh); [auto|].
      exists LRunLock. unfold HttpServer.step, step_core. rewrite Hc, Er, Eh. split; [reflexivity|discriminate].
    - apply crit_progress; auto. rewrite (i_rpc _ _ _ I); [discriminate|auto].
    - exists LRunFinishBoot. unfold HttpServer.step, step_core. rewrite Hc, Er.
      split; [reflexivity|destruct (fsm_allowed _ _); discriminate].
    - exists LRunWake. unfold HttpServer.step, step_core. rewrite Hc, Er, Hstop. split; [reflexivity|discriminate].
    - destruct (holder s) eqn:Eh.
      + apply crit_progress; auto. congruence.
      + exists LRunLockStop. unfold HttpServer.step, step_core. rewrite Hc, Er, Eh. split; [reflexivity|discriminate].
    - apply crit_progress; auto. rewrite (i_rpc _ _ _ I); [discriminate|auto].
    - exists LRunFinishStop. unfold HttpServer.step, step_core. rewrite Hc, Er. split; [reflexivity|discriminate].
  Qed.
End Protocol.

(* an oracle that refuses exactly the lists with a repeated pattern satisfies [mux_sound] (non-vacuity of the hypothesis) *)
Definition nodup_oracle (ps : list str) : bool := paths_nodup (map (fun p => {| rname := []; rpath := p |}) ps).
Lemma nodup_oracle_sound : mux_sound nodup_oracle.
Proof.
  intros ps H. unfold nodup_oracle in H. apply paths_nodup_iff in H. rewrite map_map in H. cbn in H. now rewrite map_id in H.
Qed.

(* lc.Stop returns only after Run's deferred done() *)
Lemma stop_ret_after_run sl validated mux_ok s j s' :
  step sl validated mux_ok s (LStopRet j) = Some s' -> (exists r, rpc s = RRet r) \/ rpc s = RDone.
Proof.
  intros H. open_step H. destruct (crashed s); [discriminate|]. destruct (mem j (stoppers s)); [|discriminate].
  destruct (rpc s); try discriminate; eauto.
Qed.

(* ---------------------------------------------------------------- failures are visible (C13_visible) *)

Definition reload_failing (s : state) (l : label) : bool :=
  match l with
  | LFetch CbErr | LFetch CbNil => true          (* callback error / nil *)
  | LStopSkip => negb (once_done s)              (* r.server == nil inside the once *)
  | LShutdownRet _ r =>
    match kpc s with
    | KStopWait _ => match r with SOk => false | _ => true end   (* stopping the old server failed *)
    | KCleanup _ => true                         (* the new server did not become ready *)
    | _ => false
    end
  | LBootReject => true                          (* NewConfig rejected the configuration *)
  | _ => false
  end.

Lemma errold_enters sl validated mux_ok s i s' :
  kpc s = KFetch -> holder s = Some (ByReload i) ->
  step sl validated mux_ok s (LFetch CbErrOld) = Some s' ->
  kpc s' = KUnchanged /\ servers_untouched s s' /\ reload_failing s (LFetch CbErrOld) = false.
Proof.
  intros Ek Eh H. destruct (errold_enters_pre sl validated mux_ok s i s' Ek Eh H) as [A B]. auto.
Qed.

(* every way a Reload gives up the mutex: a failure (state Error), or the final Transition(Running) *)
Theorem visible_step sl validated mux_ok s l s' i :
  holder s = Some (ByReload i) -> holder s' = None ->
  step sl validated mux_ok s l = Some s' ->
  (reload_failing s l = true /\ fsm_st s' = FError) \/
  ((l = LUnchanged \/ l = LFinish) /\ (fsm_st s' = FRunning \/ fsm_st s' = FError)).
Proof.
  intros Eh Eh' H.
  destruct l; open_step H;
    cbn [holder with_server with_crit with_fsm with_errs with_srvnet with_rpc with_rl with_env with_cur] in H;
    rewrite ?Eh in H; crush_step H; cbn in Eh'; try congruence;
    cbn [reload_failing fsm_st with_rl with_crit with_fsm with_server kpc holder];
    try (left; split; reflexivity); try (right; split; auto; fail).
  all: repeat match goal with
              | E : kpc _ = _ |- _ => rewrite E; clear E
              | E : once_done _ = _ |- _ => rewrite E; clear E
              end; left; split; reflexivity.
Qed.

(* ---------------------------------------------------------------- the window C12 does not cover *)

Definition wit_cfg : config :=
  {| addr := [65%N]; drain := 5%Z; read_to := 1%Z; write_to := 2%Z; idle_to := 3%Z;
     routes := [{| rname := [97%N]; rpath := [47%N; 120%N] |}] |}.

Definition wit_sched : list label :=
  [LRunCall; LRunStart; LRunLock; LBootCreate 0 wit_cfg; LBindOk 0; LProbeOk; LRunFinishBoot;
   LReloadCall 0; LReloadBegin 0; LFetch (CbCfg wit_cfg); LStopCall 0; LRunWake; LUnchanged;
   LRunLockStop; LStopCallS 0].

(* Stop() arrives while a Reload holds the mutex: the state machine says Running while Run() has already
   closed the listener (confirmed on the real code: connection refused for the whole drain) *)
Theorem running_while_stopping :
  exists s, run (step false false (fun _ => true)) (init wit_cfg) wit_sched = Some s /\
            fsm_st s = FRunning /\ bound_any (net s) (addr wit_cfg) = false /\ rpc s = RInStop.
Proof. eexists. split; [vm_compute; reflexivity|]. repeat split. Qed.

(* the same schedule against the repaired shutdown: the state is Stopping while the listener is closed *)
Theorem stopping_while_stopping_repaired :
  exists s, run (step true false (fun _ => true)) (init wit_cfg) wit_sched = Some s /\
            fsm_st s = FStopping /\ bound_any (net s) (addr wit_cfg) = false /\ rpc s = RInStop.
Proof. eexists. split; [vm_compute; reflexivity|]. repeat split. Qed.
