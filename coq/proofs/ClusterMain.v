(* C16: the statements proved from the invariant, and the refutation schedules for colliding ids. *)
From Coq Require Import List Arith NArith Bool Lia Permutation.
From GS Require Import LTS Cluster ClusterLTS ClusterPlan ClusterFix ClusterFixPlan ClusterRun ClusterInv ClusterStep.
Import ListNotations.
Open Scope N_scope.

Definition no_rt (m : emap) : emap := filter (fun p => match e_rt (snd p) with None => true | Some _ => false end) m.

Lemma length_rts m : length m = (length (rts m) + length (no_rt m))%nat.
Proof.
  induction m as [|p m IH]; [reflexivity|]. rewrite rts_cons, app_length. unfold no_rt, rt1 in *. cbn [filter length].
  destruct (e_rt (snd p)); cbn [length]; lia.
Qed.

Definition idle_pc (p : pc) : bool := match p with PIdle | PFin | PRet => true | _ => false end.
Definition returned_pc (p : pc) : bool := match p with PFin | PRet => true | _ => false end.

(* GetServerCount (the value the model allows LCount to report) = servers started and not stopped
   (+ entries that never got a server: only left behind by a cancelled restart delay) *)
Lemma count_ok d ls s :
  run (step true) (init d) ls = Some s -> idle_pc (s_pc s) = true ->
  s_stopping s = [] /\
  count (s_entries s) = (length (s_live s) + length (no_rt (s_entries s)))%nat.
Proof.
  intros Hr Hp. destruct (acct_reachable d ls s Hr) as (_ & _ & Hpc). unfold acct_pc, lv, sp in Hpc.
  destruct (s_pc s); try discriminate.
  - destruct Hpc as (_ & Hperm & Hsp & _). split; [now apply map_eq_nil in Hsp|].
    unfold count. rewrite length_rts. f_equal. rewrite <- (Permutation_length Hperm). apply map_length.
  - destruct Hpc as (Hl & Hsp & ->). apply map_eq_nil in Hl, Hsp. now rewrite Hl, Hsp.
  - destruct Hpc as (Hl & Hsp & ->). apply map_eq_nil in Hl, Hsp. now rewrite Hl, Hsp.
Qed.

(* when Run returns nothing that was started is still unstopped, and the collection is empty *)
Lemma none_leaked d ls s :
  run (step true) (init d) ls = Some s -> returned_pc (s_pc s) = true ->
  s_live s = [] /\ s_stopping s = [] /\ s_entries s = [].
Proof.
  intros Hr Hp. destruct (acct_reachable d ls s Hr) as (_ & _ & Hpc). unfold acct_pc, lv, sp in Hpc.
  destruct (s_pc s); try discriminate; destruct Hpc as (Hl & Hsp & He); apply map_eq_nil in Hl, Hsp; auto.
Qed.

(* at every point of every schedule the running instances carry distinct numbers below the counter,
   and while the loop is idle they are exactly the runtimes recorded in the collection *)
Lemma running_are_recorded d ls s :
  run (step true) (init d) ls = Some s ->
  NoDup (map fst (s_live s)) /\
  (s_pc s = PIdle -> NoDup (keys (s_entries s)) /\ Permutation (map fst (s_live s)) (rts (s_entries s))).
Proof.
  intros Hr. destruct (acct_reachable d ls s Hr) as (Hnd & _ & Hpc). split; [exact Hnd|].
  intros E. unfold acct_pc in Hpc. rewrite E in Hpc. destruct Hpc as (Hk & Hp & _). now split.
Qed.

(* ---------------------------------------------------------------- the LEGACY plan's contents under hygiene *)
Lemma converge_plan_legacy_hygienic ord cur des :
  NoDup (keys cur) -> NoDup (keys des) -> hygienic (ids_of cur des) -> Permutation ord (keys cur) ->
  let pend := build_pending false ord cur des in
  NoDup (keys pend) /\ Permutation (rts pend) (rts cur) /\
  (forall k old, lookup k cur = Some old -> dcfg des k = Some (e_cfg old) ->
                 lookup k pend = Some (set_act ANone old)) /\
  (forall k old c i, lookup k cur = Some old -> dcfg des k = Some c -> e_cfg old <> c -> e_rt old = Some i ->
                     lookup (k ++ sfx) pend = Some (set_act AStop old) /\ lookup k pend = Some (start_entry k c)) /\
  (forall k old c, lookup k cur = Some old -> dcfg des k = Some c -> e_cfg old <> c -> e_rt old = None ->
                   lookup k pend = Some (start_entry k c)) /\
  (forall k old i, lookup k cur = Some old -> dcfg des k = None -> e_rt old = Some i ->
                   lookup k pend = Some (set_act AStop old)) /\
  (forall k d, lookup k des = Some d -> lookup k cur = None -> lookup k pend = Some (start_entry k (e_cfg d))) /\
  (forall q e, In (q, e) pend ->
     (exists k old, lookup k cur = Some old /\ In (q, e) (process_existing k old (dcfg des k))) \/
     (exists d, In (q, d) des /\ mem q cur = false /\ e = start_entry q (e_cfg d))).
Proof.
  intros Hc Hd Hh Hp pend.
  assert (Nord : NoDup ord) by (eapply Permutation_NoDup; [apply Permutation_sym; exact Hp|exact Hc]).
  assert (Sord : forall k, In k ord -> In k (keys cur)) by (intros k; apply Permutation_in; exact Hp).
  assert (Tord : forall k old, lookup k cur = Some old -> In k ord).
  { intros k old Hl. eapply Permutation_in; [apply Permutation_sym; exact Hp|]. apply mem_true. unfold mem. now rewrite Hl. }
  destruct (build_pending_hygienic ord cur des Nord Sord Hd (hygienic_hyg2 _ _ Hh)) as (E & Hnd).
  unfold pend. rewrite E. split; [exact Hnd|]. split; [now apply plan_conserves_runtimes|].
  repeat split.
  - intros k old Hl. apply plan_unchanged; [exact Hnd|now apply (Tord k old)|exact Hl].
  - eapply plan_changed_running; eauto.
  - eapply plan_changed_running; eauto.
  - intros k old c Hl. apply plan_changed_idle; eauto.
  - intros k old i Hl. apply plan_removed; eauto.
  - intros k d. now apply plan_new.
  - intros q e Hin. apply plan_only in Hin as [(k & old & _ & H1 & H2)|H]; [left; now exists k, old|now right].
Qed.

(* ---------------------------------------------------------------- the repaired plan's contents, any ids *)
Lemma converge_plan ord cur des :
  NoDup (keys cur) -> NoDup (keys des) -> Permutation ord (keys cur) ->
  let pend := build_pending true ord cur des in
  NoDup (keys pend) /\ Permutation (rts pend) (rts cur) /\
  (forall k old, lookup k cur = Some old -> dcfg des k = Some (e_cfg old) ->
                 lookup k pend = Some (set_act ANone old)) /\
  (forall k old c i, lookup k cur = Some old -> dcfg des k = Some c -> e_cfg old <> c -> e_rt old = Some i ->
     (exists q, lookup q pend = Some (set_act AStop old) /\ ~ In q (keys cur) /\ ~ In q (keys des)) /\
     lookup k pend = Some (start_entry k c)) /\
  (forall k old c, lookup k cur = Some old -> dcfg des k = Some c -> e_cfg old <> c -> e_rt old = None ->
                   lookup k pend = Some (start_entry k c)) /\
  (forall k old i, lookup k cur = Some old -> dcfg des k = None -> e_rt old = Some i ->
                   lookup k pend = Some (set_act AStop old)) /\
  (forall k d, lookup k des = Some d -> lookup k cur = None -> lookup k pend = Some (start_entry k (e_cfg d))) /\
  (forall q e, In (q, e) pend ->
     (exists k old q0, lookup k cur = Some old /\ In (q0, e) (process_existing k old (dcfg des k)) /\
                       (q = q0 \/ (e_act e = AStop /\ ~ In q (keys cur) /\ ~ In q (keys des)))) \/
     (exists d, In (q, d) des /\ mem q cur = false /\ e = start_entry q (e_cfg d))).
Proof.
  intros Hc Hd Hp pend. unfold pend.
  split; [now apply true_nodup|]. split; [now apply true_conserves|].
  split; [intros k old H1 H2; now apply true_unchanged|].
  split; [intros k old c i H1 H2 H3 H4; now apply (true_changed_running ord cur des Hc Hd Hp k old c i)|].
  split; [intros k old c H1 H2 H3 H4; now apply (true_changed_idle ord cur des Hc Hd Hp k old c)|].
  split; [intros k old i H1 H2 H3; now apply (true_removed ord cur des Hc Hd Hp k old i)|].
  split; [intros k d H1 H2; now apply true_new|]. intros q e. now apply true_only.
Qed.

(* ---------------------------------------------------------------- refutation on the protocol (F9) *)
Definition m1 : cmap := [(id_a, Some 0); (id_a_stop, Some 0)].
Definition m2 : cmap := [(id_a, Some 1); (id_a_stop, Some 0)].

(* both servers started; a's configuration changes; the map is walked in the order a, a:stop; Stop() *)
Definition leak_schedule : list label :=
  [LOffer m1; LRecv []; LFactory id_a 0 0 BReady; LReady; LFactory id_a_stop 0 1 BReady; LReady;
   LOffer m2; LRecv [id_a; id_a_stop]; LFactory id_a 1 2 BReady; LReady; LCount 2;
   LStopApi; LShut; LStopCall 1; LStopCall 2; LStopRet 1; LStopRet 2; LRunReturn].

Lemma leak_schedule_runs :
  exists s, run (step false) (init false) leak_schedule = Some s /\
            s_pc s = PRet /\ map fst (s_live s) = [0] /\ s_hyg s = false.
Proof. eexists. split; [vm_compute; reflexivity|]. repeat split. Qed.

(* the other iteration order: a:stop's entry is replaced by a's stop entry, then dropped by commit *)
Definition drop_schedule : list label :=
  [LOffer m1; LRecv []; LFactory id_a 0 0 BReady; LReady; LFactory id_a_stop 0 1 BReady; LReady;
   LOffer m2; LRecv [id_a_stop; id_a]; LStopCall 0; LStopRet 0; LFactory id_a 1 2 BReady; LReady; LCount 1].

Lemma drop_schedule_runs :
  exists s, run (step false) (init false) drop_schedule = Some s /\
            s_pc s = PIdle /\ count (s_entries s) = 1%nat /\ map fst (s_live s) = [2; 1] /\
            lookup id_a_stop (s_entries s) = None.
Proof. eexists. split; [vm_compute; reflexivity|]. repeat split. Qed.

(* the same schedules on the repaired planner: the leak schedule is not even possible (the old
   instance must be stopped first), and the proper one ends with everything stopped *)
Definition repaired_schedule : list label :=
  [LOffer m1; LRecv []; LFactory id_a 0 0 BReady; LReady; LFactory id_a_stop 0 1 BReady; LReady;
   LOffer m2; LRecv [id_a; id_a_stop]; LStopCall 0; LStopRet 0; LFactory id_a 1 2 BReady; LReady; LCount 2;
   LStopApi; LShut; LStopCall 1; LStopCall 2; LStopRet 1; LStopRet 2; LRunReturn].

Lemma repaired_schedule_runs :
  run (step true) (init false) leak_schedule = None /\
  exists s, run (step true) (init false) repaired_schedule = Some s /\ s_pc s = PRet /\ s_live s = [].
Proof. split; [vm_compute; reflexivity|]. eexists. split; [vm_compute; reflexivity|]. split; reflexivity. Qed.

(* bounded evidence for the repaired planner (NOT a general theorem): every current/desired pair over
   the ids a, a:stop, a:stop:stop (each absent / running cfg0 / running cfg1 / idle cfg0; desired
   nil / cfg0 / cfg1), every iteration order: the plan is correct *)
Definition pool3 : list id := [id_a; id_a_stop; id_a_stop ++ sfx].
Fixpoint all_maps {A} (ks : list id) (opts : list (option A)) : list (list (id * A)) :=
  match ks with
  | [] => [[]]
  | k :: t => flat_map (fun m => map (fun o => match o with Some v => (k, v) :: m | None => m end) opts)
                       (all_maps t opts)
  end.
Definition cur_opts (k : id) (i : N) : list (option entry) :=
  [None; Some (mkE k 0 (Some i) ANone); Some (mkE k 1 (Some i) ANone); Some (mkE k 0 None ANone)].
Fixpoint all_curs (ks : list id) (i : N) : list emap :=
  match ks with
  | [] => [[]]
  | k :: t => flat_map (fun m => map (fun o => match o with Some v => (k, v) :: m | None => m end) (cur_opts k i))
                       (all_curs t (i + 1))
  end.
Definition all_des (ks : list id) : list emap :=
  map new_entries (all_maps ks [None; Some (Some 0); Some (Some 1)]).

Lemma repaired_pool_exhaustive :
  forallb (fun cur => forallb (fun des => forallb (plan_okb cur des) (build_pending_all true cur des))
                              (all_des pool3)) (all_curs pool3 0) = true.
Proof. vm_compute. reflexivity. Qed.

(* the same enumeration on the planner as written fails *)
Lemma written_pool_fails :
  forallb (fun cur => forallb (fun des => forallb (plan_okb cur des) (build_pending_all false cur des))
                              (all_des pool3)) (all_curs pool3 0) = false.
Proof. vm_compute. reflexivity. Qed.
