(* C03 ("pending error" clause): a failure that is already queued when the system is observed
   quiescent ends the start-up - no runnable is started afterwards.  Since the repair of
   blockUntilRunnableReady (a cancelled readiness wait still returns a queued failure) this holds
   without exception; before it, the schedule [pend_sched_old] refuted it. *)
From Coq Require Import List NArith Bool Arith Lia.
From GS Require Import LTS Supervisor SupAccept SupProps SupInv SupTrig SupGate SupResult SupReports
                       SupStop SupOnce SupProgress SupReload.
Import ListNotations.

(* ---------------------------------------------------------------- the schedule that used to refute it *)

Definition pend_cfg : config :=
  {| specs := [ {| stateable := true; reloadable := false; rsender := false; ssender := false;
                   stop_style := StopNonBlocking; run_exit := ExitFree; held_sub := false |};
                dflt_spec ];
     startup_may_fire := false; shutdown_may_fire := false |}.

(* runnable 0 fails while Main is inside a slow IsRunning() call; the system is quiescent with the
   error queued; the parent context is cancelled; IsRunning() answers false; the select in
   blockUntilRunnableReady takes ctx.Done although errorChan is ready too.  Before the repair the
   gate returned nil and runnable 1 was started ([LLaunch 1; LRunCall 1]); now the gate returns the
   queued failure, nothing is started and Run() returns that error. *)
Definition pend_prefix : list label :=
  [LRunEnter; LRunEntered; LLaunch 0; LRunStore 0; LRunCall 0; LMonSub 0; LMonRecv 0; LPollBegin 0; LRunRet 0 (Some (7, false)); LErrSend 0;
   LQuiet; LParentCancel; LPoll 0 false; LGateCtx 0].
Definition pend_sched : list label :=
  pend_prefix ++ [LMainShutdown; LStopCall 0; LStopRet 0; LSdCancel; LStmExit; LSdWgDone; LMainReturn (ResErr 7)].

Lemma pend_sched_returns_error :
  exists s1 s, run (step pend_cfg) (init pend_cfg) pend_prefix = Some s1 /\ main s1 = MExit (ResErr 7) /\
               step pend_cfg s1 (LLaunch 1) = None /\
               run (step pend_cfg) (init pend_cfg) pend_sched = Some s /\ main s = MReturned (ResErr 7) /\
               launched s = 1.
Proof.
  eexists. eexists. split; [vm_compute; reflexivity|]. split; [reflexivity|]. split; [reflexivity|].
  split; [vm_compute; reflexivity|]. split; reflexivity.
Qed.

(* ---------------------------------------------------------------- how a step moves the start-up loop,
   the runnable goroutines and the error queue *)

Definition is_real_ev (e : event) : bool :=
  match e with ERunRet _ (Some (_, false)) => true | _ => false end.
Definition is_quiet_ev (e : event) : bool :=
  match e with EQuiet | ESnap _ => true | _ => false end.

(* a launched goroutine that has not entered the runnable's Run yet *)
Definition waiting (p : rn_pc) : Prop := p = RnLaunched \/ p = RnStored.

Definition decided (s : state) : Prop := main_res (main s) <> None.
Definition at_gate (s : state) : Prop := exists j, main s = MGate j \/ main s = MGateCheck j.

Inductive pe_effect (c : config) (s s' : state) : Prop :=
| pe_launch i :
    main s = MLaunch i -> sd s = SdNot -> i < nrun c -> rn s' = upd (rn s) i RnLaunched ->
    errq s' = errq s -> hist s' = hist s -> main_res (main s') = None -> pe_effect c s s'
| pe_closed i :
    main s = MLaunch i -> main s' = MReap -> rn s' = rn s -> errq s' = errq s -> hist s' = hist s ->
    pe_effect c s s'
| pe_open i :
    (main s = MGate i \/ main s = MGateCheck i) -> errq s = [] ->
    main s' = after_launch c i -> rn s' = rn s -> errq s' = errq s -> hist s' = hist s -> pe_effect c s s'
| pe_decide :
    decided s' -> rn s' = rn s ->
    (hist s' = hist s \/ exists r, hist s' = ERunReturn r :: hist s) -> pe_effect c s s'
| pe_runret i e :
    rn_at s i = RnRunning ->
    rn s' = upd (rn s) i (match e with Some (id, false) => RnSending id | _ => RnDone end) ->
    main s' = main s -> errq s' = errq s -> hist s' = ERunRet i e :: hist s -> pe_effect c s s'
| pe_send i e :
    rn_at s i = RnSending e -> rn s' = upd (rn s) i RnDone -> errq s' = errq s ++ [e] ->
    main s' = main s -> hist s' = hist s -> pe_effect c s s'
| pe_runstore i :
    rn_at s i = RnLaunched -> rn s' = upd (rn s) i RnStored -> main s' = main s -> errq s' = errq s ->
    hist s' = hist s -> pe_effect c s s'
| pe_runcall i :
    waiting (rn_at s i) -> rn s' = upd (rn s) i RnRunning -> main s' = main s -> errq s' = errq s ->
    hist s' = ERunCall i :: hist s -> pe_effect c s s'
| pe_other :
    (main s' = main s \/ (exists i, main s = MGate i /\ main s' = MGateCheck i) \/
     (main s = MNew /\ main s' = MEntering) \/ (main s = MEntering /\ main s' = MLaunch 0)) ->
    rn s' = rn s -> errq s' = errq s ->
    (hist s' = hist s \/ exists x, hist s' = x :: hist s /\ is_real_ev x = false /\ is_quiet_ev x = false) ->
    pe_effect c s s'
| pe_quiet x :
    is_quiet_ev x = true -> quiescent c s = true -> hist s' = x :: hist s -> main s' = main s ->
    rn s' = rn s -> errq s' = errq s -> pe_effect c s s'.

Lemma step_pe_effect c s l s' : step c s l = Some s' -> pe_effect c s s'.
Proof.
  intros H. unfold step in H.
  destruct l; cbn [step0] in H; unfold start_shutdown, store_state in H;
    step_cases H; inversion H; subst; clear H.
  all: repeat match goal with E : _ && _ = true |- _ => apply andb_true_iff in E as [? ?] end.
  all: repeat match goal with E : (_ =? _) = true |- _ => apply Nat.eqb_eq in E; subst end.
  all: repeat match goal with E : (_ <? _) = true |- _ => apply Nat.ltb_lt in E end.
  all: try (apply pe_other; [left; reflexivity|reflexivity|reflexivity|
            first [left; reflexivity|right; eexists; split; [reflexivity|split; reflexivity]]]; fail).
  all: try (apply pe_decide; [unfold decided; simp_st; cbn [main_res]; discriminate|reflexivity|
            first [left; reflexivity|right; eexists; reflexivity]]; fail).
  all: try (eapply pe_launch; [eassumption|eassumption|eassumption|reflexivity|reflexivity|reflexivity|];
            simp_st; unfold after_launch; try match goal with |- context [if ?b then _ else _] => destruct b end;
            reflexivity).
  all: try (eapply pe_closed; [eassumption|reflexivity|reflexivity|reflexivity|reflexivity]; fail).
  all: try (apply pe_other; [right; left; eexists; split; [eassumption|reflexivity]|reflexivity|reflexivity|
            right; eexists; split; [reflexivity|split; reflexivity]]; fail).
  all: try (apply pe_other; [right; right; first [left; split; [assumption|reflexivity]|right; split; [assumption|reflexivity]]
                            |reflexivity|reflexivity|
            first [left; reflexivity|right; eexists; split; [reflexivity|split; reflexivity]]]; fail).
  all: try (eapply pe_open; [first [left; eassumption|right; eassumption]|assumption|
                             reflexivity|reflexivity|reflexivity|reflexivity]; fail).
  all: try (eapply pe_runcall; [first [left; eassumption|right; eassumption]|reflexivity|reflexivity|reflexivity|reflexivity]; fail).
  all: try (eapply pe_runstore; [eassumption|reflexivity|reflexivity|reflexivity|reflexivity]; fail).
  all: try (eapply (pe_runret c _ _ _ (Some (_, true))); [eassumption|reflexivity|reflexivity|reflexivity|reflexivity]; fail).
  all: try (eapply (pe_runret c _ _ _ (Some (_, false))); [eassumption|reflexivity|reflexivity|reflexivity|reflexivity]; fail).
  all: try (eapply (pe_runret c _ _ _ None); [eassumption|reflexivity|reflexivity|reflexivity|reflexivity]; fail).
  all: try (eapply pe_send; [eassumption|reflexivity|reflexivity|reflexivity|reflexivity]; fail).
  all: try (eapply pe_quiet; [|eassumption|reflexivity|reflexivity|reflexivity|reflexivity]; reflexivity).
Qed.

(* ---------------------------------------------------------------- the monitor, one event at a time *)

Definition real_in (h : list event) : bool := existsb is_real_ev h.

Lemma etq_snoc t : forall b x,
  err_then_quiet b (t ++ [x]) = err_then_quiet b t || (is_quiet_ev x && (b || existsb is_real_ev t)).
Proof.
  induction t as [|y t IH]; intros b x.
  - destruct x; repeat match goal with e : option (errid * bool) |- _ => destruct e as [[? []]|] end;
      cbn; destruct b; reflexivity.
  - cbn [app].
    destruct y; repeat match goal with e : option (errid * bool) |- _ => destruct e as [[? []]|] end;
      cbn [err_then_quiet existsb is_real_ev orb]; rewrite IH; cbn [orb];
      rewrite ?orb_true_r, ?orb_assoc; reflexivity.
Qed.

Lemma existsb_rev {A} (f : A -> bool) l : existsb f (rev l) = existsb f l.
Proof.
  induction l as [|a l IH]; [reflexivity|]. cbn [rev existsb].
  rewrite existsb_app, IH. cbn [existsb]. rewrite orb_false_r. apply orb_comm.
Qed.

Lemma etq_cons x h :
  err_then_quiet false (rev (x :: h)) = err_then_quiet false (rev h) || (is_quiet_ev x && real_in h).
Proof. cbn [rev]. rewrite etq_snoc. cbn [orb]. unfold real_in. now rewrite existsb_rev. Qed.

Lemma etq_cons_nq x h :
  is_quiet_ev x = false -> err_then_quiet false (rev (x :: h)) = err_then_quiet false (rev h).
Proof. intros Hx. rewrite etq_cons, Hx. cbn [andb]. apply orb_false_r. Qed.

(* ---------------------------------------------------------------- the invariant *)

Definition sending (s : state) : Prop := exists i e, rn_at s i = RnSending e.

(* a real error that was returned is on its way to the queue, queued, or was taken by Main *)
Definition InvA (s : state) : Prop :=
  real_in (hist s) = true -> sending s \/ errq s <> [] \/ decided s.

(* after "real error, then a quiescent point": no goroutine is waiting to call Run and Main either
   has fixed its result or sits at a gate with the error queued *)
Definition InvB (s : state) : Prop :=
  err_then_quiet false (rev (hist s)) = true ->
  (forall i, ~ waiting (rn_at s i)) /\ (decided s \/ (errq s <> [] /\ at_gate s)).

Lemma rn_at_lt s i : rn_at s i <> RnDone -> i < length (rn s).
Proof.
  unfold rn_at, get. intros H. destruct (Nat.lt_ge_cases i (length (rn s))) as [L|L]; [exact L|].
  rewrite nth_overflow in H by exact L. congruence.
Qed.

Lemma decided_not_launch s i : main s = MLaunch i -> ~ decided s.
Proof. unfold decided. intros -> H. now apply H. Qed.

Lemma at_gate_not_launch s i : main s = MLaunch i -> ~ at_gate s.
Proof. intros E [j [H|H]]; rewrite E in H; discriminate H. Qed.

Lemma at_gate_not_decided s : at_gate s -> ~ decided s.
Proof. unfold decided. intros [j [H|H]] D; rewrite H in D; now apply D. Qed.

Lemma quiescent_autos c s l :
  quiescent c s = true -> In l (autos c s) -> step0 c s l = None.
Proof.
  unfold quiescent. intros H Hin. rewrite forallb_forall in H.
  specialize (H l (in_or_app _ _ _ (or_intror Hin))). destruct (step0 c s l); [discriminate|reflexivity].
Qed.

Lemma in_idxs c i : i < nrun c -> In i (idxs c).
Proof. intros L. unfold idxs. apply in_seq. lia. Qed.

(* what quiescence rules out *)
Lemma quiet_no_sending c s : length (rn s) = nrun c -> quiescent c s = true -> ~ sending s.
Proof.
  intros Hl Q (i & e & Hi).
  assert (Li : i < nrun c) by (rewrite <- Hl; apply rn_at_lt; rewrite Hi; discriminate).
  assert (Hin : In (LErrSend i) (taus_nt c s))
    by (in_chain ltac:(apply in_map_iff; exists i; split; [reflexivity|now apply in_idxs])).
  pose proof (quiescent_taus _ _ _ Q Hin) as H. cbn [step0] in H. rewrite Hi in H.
  apply Nat.ltb_lt in Li. rewrite Li in H. discriminate H.
Qed.

Lemma quiet_no_launched c s i : length (rn s) = nrun c -> quiescent c s = true -> ~ waiting (rn_at s i).
Proof.
  intros Hl Q Hw.
  assert (Li : i < nrun c) by (rewrite <- Hl; apply rn_at_lt; destruct Hw as [E|E]; rewrite E; discriminate).
  assert (Hin : In (LRunCall i) (autos c s)).
  { unfold autos. rewrite !in_app_iff. left. apply in_map_iff. exists i. split; [reflexivity|now apply in_idxs]. }
  assert (Hin2 : In (LRunStore i) (taus_nt c s))
    by (in_chain ltac:(apply in_map_iff; exists i; split; [reflexivity|now apply in_idxs])).
  pose proof (quiescent_autos _ _ _ Q Hin) as H. pose proof (quiescent_taus _ _ _ Q Hin2) as H2.
  cbn [step0] in H, H2. apply Nat.ltb_lt in Li. destruct Hw as [E|E]; rewrite E, Li in *.
  - destruct (stateable (spec c i)); cbn [andb negb] in *; discriminate.
  - discriminate H.
Qed.

Lemma not_waiting_upd (l : list rn_pc) i p :
  (forall j, ~ waiting (get RnDone l j)) -> ~ waiting p -> forall j, ~ waiting (get RnDone (upd l i p) j).
Proof. intros H Hp j. destruct (get_upd_cases RnDone l i j p) as [-> | ->]; auto. Qed.

Lemma quiet_errq_main c s :
  0 < nrun c -> reachable_sup c s -> quiescent c s = true -> errq s <> [] -> decided s \/ at_gate s.
Proof.
  intros Hn Hre Q Hq. pose proof (InvGate_reachable _ _ Hre) as IG.
  destruct (errq s) as [|e q] eqn:Eq; [congruence|].
  destruct (main s) eqn:Em.
  - exfalso. pose proof (InvNewQ_reachable _ _ Hre (or_introl Em)). congruence.
  - exfalso. pose proof (InvNewQ_reachable _ _ Hre (or_intror Em)). congruence.
  - exfalso. pose proof (launch_idx_lt c s Hn Hre _ Em) as Li.
    assert (Hin : In (LLaunch i) (taus_nt c s))
      by (in_chain ltac:(apply in_map_iff; exists i; split; [reflexivity|now apply in_idxs])).
    pose proof (quiescent_taus _ _ _ Q Hin) as H. cbn [step0] in H. rewrite Em, Nat.eqb_refl in H.
    apply Nat.ltb_lt in Li. rewrite Li in H. cbn [andb] in H. destruct (sd s); discriminate H.
  - right. exists i. now left.
  - exfalso. destruct (ig_gate _ _ IG i (or_intror Em)) as (_ & Li & _).
    assert (Hin : In (LGateDecide i) (taus_nt c s))
      by (in_chain ltac:(apply in_map_iff; exists i; split; [reflexivity|now apply in_idxs])).
    pose proof (quiescent_taus _ _ _ Q Hin) as H. cbn [step0] in H. rewrite Em, Nat.eqb_refl, Eq in H.
    discriminate H.
  - exfalso.
    assert (Hin : In LReapErr (taus_nt c s)) by (in_chain ltac:(cbn; auto)).
    pose proof (quiescent_taus _ _ _ Q Hin) as H. cbn [step0] in H. rewrite Em, Eq in H. discriminate H.
  - left. unfold decided. rewrite Em. discriminate.
  - left. unfold decided. rewrite Em. discriminate.
  - left. unfold decided. rewrite Em. discriminate.
Qed.

Lemma not_quiet_not_real x : is_quiet_ev x = true -> is_real_ev x = false.
Proof. destruct x; try discriminate; reflexivity. Qed.

Lemma InvAB_step c s l s' :
  0 < nrun c -> reachable_sup c s -> InvA s -> InvB s -> step c s l = Some s' -> InvA s' /\ InvB s'.
Proof.
  intros Hn Hre A B H. pose proof (InvGate_reachable _ _ Hre) as IG.
  unfold InvA, InvB, sending in *.
  destruct (step_pe_effect _ _ _ _ H)
    as [i Em Es Li Er Eq Eh Emr | i Em Em' Er Eq Eh | i Hg Hc Em' Er Eq Eh | Hd Er Eh
       | i e Ern Er Em Eq Eh | i e Ern Er Eq Em Eh | i Ern Er Em Eq Eh | i Ern Er Em Eq Eh | Hm Er Eq Eh
       | x Hq Q Eh Em Er Eq].
  - (* launch *)
    assert (Hi : rn_at s i = RnNot) by (apply (ig_launch _ _ IG i Em i); [lia|exact Li]).
    rewrite Eh, Eq. split.
    + intros R. destruct (A R) as [(i0 & e0 & H0)|[H0|H0]].
      * left. exists i0, e0. unfold rn_at in *. rewrite Er, get_upd_other; [exact H0|]. intros <-. congruence.
      * right; left; exact H0.
      * exfalso. exact (decided_not_launch _ _ Em H0).
    + intros R. destruct (B R) as [_ [H0|[_ H0]]].
      * exfalso. exact (decided_not_launch _ _ Em H0).
      * exfalso. exact (at_gate_not_launch _ _ Em H0).
  - (* launch gate closed *)
    rewrite Eh, Eq. unfold rn_at. rewrite Er. split.
    + intros R. destruct (A R) as [H0|[H0|H0]]; [now left|right; now left|].
      exfalso. exact (decided_not_launch _ _ Em H0).
    + intros R. destruct (B R) as [_ [H0|[_ H0]]].
      * exfalso. exact (decided_not_launch _ _ Em H0).
      * exfalso. exact (at_gate_not_launch _ _ Em H0).
  - (* a gate opens: only with an empty error queue *)
    assert (G : at_gate s) by (exists i; exact Hg).
    rewrite Eh, Eq. unfold rn_at. rewrite Er. split.
    + intros R. destruct (A R) as [H0|[H0|H0]]; [now left|right; now left|].
      exfalso. exact (at_gate_not_decided _ G H0).
    + intros R. destruct (B R) as [_ [H0|[H0 _]]].
      * exfalso. exact (at_gate_not_decided _ G H0).
      * congruence.
  - (* Main fixes (or keeps) its result *)
    split; [intros _; right; right; exact Hd|].
    intros R. assert (R0 : err_then_quiet false (rev (hist s)) = true).
    { destruct Eh as [Eh|[r Eh]]; rewrite Eh in R; [exact R|]. now rewrite etq_cons_nq in R. }
    destruct (B R0) as [NL _]. split; [|now left]. unfold rn_at. rewrite Er. exact NL.
  - (* a runnable's Run returns *)
    assert (Li : i < length (rn s)) by (apply rn_at_lt; rewrite Ern; discriminate).
    assert (Hoth : forall j p, j <> i -> get RnDone (upd (rn s) i p) j = rn_at s j)
      by (intros j p N; unfold rn_at; apply get_upd_other; congruence).
    rewrite Eh, Eq. unfold decided, at_gate. rewrite Em. fold (decided s). fold (at_gate s). split.
    + intros R. cbn [real_in existsb] in R. apply orb_true_iff in R as [R|R].
      * left. exists i. destruct e as [[id []]|]; try discriminate R. exists id.
        unfold rn_at. rewrite Er. now apply get_upd_same.
      * destruct (A R) as [(i0 & e0 & H0)|[H0|H0]]; [|right; now left|right; now right].
        left. exists i0, e0. unfold rn_at. rewrite Er, Hoth; [exact H0|]. intros ->. congruence.
    + intros R. rewrite etq_cons_nq in R by reflexivity.
      destruct (B R) as [NL H0]. split; [|exact H0].
      unfold rn_at. rewrite Er. apply not_waiting_upd; [exact NL|].
      intros [X|X]; destruct e as [[? []]|]; discriminate X.
  - (* the error is queued *)
    assert (Hne : errq s ++ [e] <> []) by (destruct (errq s); discriminate).
    rewrite Eh, Eq. unfold decided, at_gate. rewrite Em. fold (decided s). fold (at_gate s). split.
    + intros _. right; now left.
    + intros R. destruct (B R) as [NL H0]. split.
      * unfold rn_at. rewrite Er. apply not_waiting_upd; [exact NL|]. intros [X|X]; discriminate X.
      * destruct H0 as [H0|[_ H0]]; [now left|right; now split].
  - (* startRunnable stores and broadcasts *)
    rewrite Eh, Eq. unfold decided, at_gate. rewrite Em. fold (decided s). fold (at_gate s). split.
    + intros R. destruct (A R) as [(i0 & e0 & H0)|[H0|H0]]; [|right; now left|right; now right].
      left. exists i0, e0. unfold rn_at. rewrite Er, get_upd_other; [exact H0|]. intros <-.
      unfold rn_at in *. congruence.
    + intros R. destruct (B R) as [NL _]. exfalso. apply (NL i). now left.
  - (* a runnable's Run is invoked *)
    rewrite Eh, Eq. unfold decided, at_gate. rewrite Em. fold (decided s). fold (at_gate s). split.
    + intros R. cbn [real_in existsb is_real_ev orb] in R.
      destruct (A R) as [(i0 & e0 & H0)|[H0|H0]]; [|right; now left|right; now right].
      left. exists i0, e0. unfold rn_at. rewrite Er, get_upd_other; [exact H0|]. intros <-.
      unfold rn_at in *. destruct Ern as [X|X]; congruence.
    + intros R. rewrite etq_cons_nq in R by reflexivity.
      destruct (B R) as [NL _]. exfalso. exact (NL i Ern).
  - (* everything else *)
    assert (Hd : decided s -> decided s').
    { unfold decided. destruct Hm as [->|[(i & E & _)|[(E & _)|(E & _)]]]; [auto|..]; rewrite E; intros X; now contradiction X. }
    assert (Hg : at_gate s -> at_gate s').
    { unfold at_gate. destruct Hm as [->|[(i & E & ->)|[(E & _)|(E & _)]]]; [auto|intros _; exists i; now right|..];
        intros (j & [X|X]); rewrite E in X; discriminate X. }
    rewrite Eq. unfold rn_at. rewrite Er. split.
    + intros R. assert (R0 : real_in (hist s) = true).
      { destruct Eh as [Eh|(x & Eh & Hx & _)]; rewrite Eh in R; [exact R|].
        cbn [real_in existsb] in R. now rewrite Hx in R. }
      destruct (A R0) as [H0|[H0|H0]]; [now left|right; now left|right; right; auto].
    + intros R. assert (R0 : err_then_quiet false (rev (hist s)) = true).
      { destruct Eh as [Eh|(x & Eh & _ & Hx)]; rewrite Eh in R; [exact R|]. now rewrite etq_cons_nq in R. }
      destruct (B R0) as [NL H0]. split; [exact NL|].
      destruct H0 as [H0|[H0 H1]]; [left; auto|right; split; auto].
  - (* a quiescent observation *)
    rewrite Eh, Eq. unfold decided, at_gate, rn_at. rewrite Em, Er.
    fold (decided s). fold (at_gate s). split.
    + intros R. cbn [real_in existsb] in R. rewrite (not_quiet_not_real _ Hq) in R. exact (A R).
    + intros R. rewrite etq_cons, Hq in R. cbn [andb] in R. apply orb_true_iff in R as [R|R].
      * exact (B R).
      * pose proof (ig_len _ _ IG) as Hl. split; [intros j; eapply quiet_no_launched; eassumption|].
        destruct (A R) as [H0|[H0|H0]].
        -- exfalso. exact (quiet_no_sending _ _ Hl Q H0).
        -- destruct (quiet_errq_main _ _ Hn Hre Q H0) as [X|X]; [now left|right; now split].
        -- now left.
Qed.

Lemma InvAB_reachable c s : 0 < nrun c -> reachable_sup c s -> InvA s /\ InvB s.
Proof.
  intros Hn Hre.
  assert (G : forall s, reachable_sup c s -> reachable_sup c s /\ InvA s /\ InvB s).
  { apply sup_inv.
    - split; [exists []; reflexivity|]. split; intros R; discriminate R.
    - intros s0 l s1 (Hr & A & B) Hs. split.
      + destruct Hr as [ls0 H0]. exists (ls0 ++ [l]). rewrite run_app, H0. cbn [run]. now rewrite Hs.
      + eapply InvAB_step; eassumption. }
  apply G. exact Hre.
Qed.

(* C03 (pending error): after "a real error was returned, then the system was observed quiescent" no
   runnable's Run is invoked - on every schedule, cancelled context or not *)
Theorem sup_c03_pending c ls s :
  run (step c) (init c) ls = Some s -> c03_pending c (obs_trace obs ls) = true.
Proof.
  intros H. eapply all_check_reachable; [|exact H].
  intros s0 l s1 e Hre Hs Ho. destruct e; try reflexivity. cbn [chk_pending].
  destruct l; try discriminate Ho. injection Ho as ->.
  unfold step in Hs. cbn [step0] in Hs.
  assert (LW : i < nrun c /\ waiting (rn_at s0 i)).
  { destruct (rn_at s0 i) eqn:Er; try discriminate Hs; (split; [|first [now left|now right]]);
      destruct (Nat.ltb i (nrun c)) eqn:L; try (apply Nat.ltb_lt in L; exact L);
      cbn [andb] in Hs; discriminate Hs. }
  destruct LW as [L Hw].
  destruct (InvAB_reachable c s0 ltac:(lia) Hre) as [_ B]. unfold InvB in B.
  destruct (err_then_quiet false (rev (hist s0))) eqn:R; [|reflexivity].
  destruct (B eq_refl) as [NL _]. exfalso. exact (NL i Hw).
Qed.

(* the gate itself (fixes 8eb6141 and the pending-on-cancel repair): while a failure is queued, no
   step - not even one taken because the context was cancelled - opens a readiness gate: Main stays
   at the gate with the failure queued, or fixes its result; and no runnable is started *)
Theorem sup_c03_pending_gate c s l s' :
  at_gate s -> errq s <> [] -> step c s l = Some s' ->
  ((at_gate s' /\ errq s' <> []) \/ decided s') /\ launched s' = launched s.
Proof.
  intros G Hq H. split.
  - destruct (step_pe_effect _ _ _ _ H)
      as [i Em Es Li Er Eq Eh Emr | i Em Em' Er Eq Eh | i Hg Hc' Em' Er Eq Eh | Hd Er Eh
         | i e Ern Er Em Eq Eh | i e Ern Er Eq Em Eh | i Ern Er Em Eq Eh | i Ern Er Em Eq Eh | Hm Er Eq Eh
         | x Hx Q Eh Em Er Eq].
    + exfalso. exact (at_gate_not_launch _ _ Em G).
    + exfalso. exact (at_gate_not_launch _ _ Em G).
    + exfalso. congruence.
    + now right.
    + left. unfold at_gate. rewrite Em, Eq. now split.
    + left. unfold at_gate. rewrite Em, Eq. split; [exact G|]. destruct (errq s); discriminate.
    + left. unfold at_gate. rewrite Em, Eq. now split.
    + left. unfold at_gate. rewrite Em, Eq. now split.
    + left. rewrite Eq. split; [|exact Hq]. unfold at_gate in *.
      destruct Hm as [->|[(i & E & ->)|[(E & _)|(E & _)]]]; [exact G|exists i; now right|..];
        exfalso; destruct G as (j & [X|X]); rewrite E in X; discriminate X.
    + left. unfold at_gate. rewrite Em, Eq. now split.
  - destruct (step_su_effect _ _ _ _ H) as [i Em Es Li Er Em' Es' | i Em Em' Er _ | i Em Em' Er _ | Em Er | Hm _ _ Er | Em Er].
    + exfalso. exact (at_gate_not_launch _ _ Em G).
    + unfold launched. now rewrite Er.
    + unfold launched. now rewrite Er.
    + unfold launched. now rewrite Er.
    + unfold launched. now rewrite Er.
    + destruct Er as [Er|(i & p & Er & Hi & Hp)]; unfold launched; rewrite Er; [reflexivity|].
      now apply launched_upd_started.
Qed.

(* the state form: what a quiescent point with a failure in the history looks like - nothing is
   waiting to call Run, and Main has fixed its result or sits in a (slow) IsRunning() call at a
   gate with the error still queued *)
Theorem sup_c03_pending_quiescent c s :
  0 < nrun c -> reachable_sup c s -> quiescent c s = true -> real_in (hist s) = true ->
  (forall i, ~ waiting (rn_at s i)) /\ (decided s \/ (errq s <> [] /\ at_gate s)).
Proof.
  intros Hn Hre Q R. destruct (InvAB_reachable c s Hn Hre) as [A _].
  pose proof (ig_len _ _ (InvGate_reachable _ _ Hre)) as Hl.
  split; [intros j; eapply quiet_no_launched; eassumption|].
  destruct (A R) as [H0|[H0|H0]].
  - exfalso. exact (quiet_no_sending _ _ Hl Q H0).
  - destruct (quiet_errq_main _ _ Hn Hre Q H0) as [X|X]; [now left|right; now split].
  - now left.
Qed.


(* C03 (start-up timeout): the start-up deadline is ONE timer per readiness wait, armed when the wait begins
   (the model is untimed: the step LGateTimeout j is enabled from then on, while Run() is not inside a slow
   IsRunning() call).  Once it has fired for gate j, Run() has fixed the start-up timeout error as its result, no
   further runnable is ever started, and that error is what Run() returns. *)
Theorem sup_c03_startup_timeout_aborts c s j s1 ls s2 :
  step c s (LGateTimeout j) = Some s1 -> run (step c) s1 ls = Some s2 ->
  main s = MGate j /\ startup_may_fire c = true /\ su_fired (aux s1) = true /\
  launched s2 = launched s /\ main_res (main s2) = Some ResTimeout /\
  (forall r, main s2 = MReturned r -> r = ResTimeout).
Proof.
  intros H1 H2. unfold step in H1. cbn [step0] in H1.
  destruct (main s) eqn:Em; try discriminate H1.
  destruct (_ && _) eqn:G; [|discriminate H1]. injection H1 as <-.
  repeat (apply andb_true_iff in G as [G ?]). apply Nat.eqb_eq in G. subst i.
  assert (P : past_startup (set_main (set_su_fired s) (MExit ResTimeout))) by exact Logic.I.
  assert (M : main_res (main (set_main (set_su_fired s) (MExit ResTimeout))) = Some ResTimeout) by reflexivity.
  pose proof (sup_c03_abort c _ ls s2 P H2) as L. pose proof (main_res_run c ls _ _ _ M H2) as R.
  repeat split; auto.
  intros r Hr. rewrite Hr in R. cbn in R. congruence.
Qed.

(* C03 (clean abort, "Run() returns THAT error"): when a readiness wait ends with an error taken from the error
   queue - the select took errorChan (LGateErr), or the runnable reported ready / the context was cancelled and a
   failure was already queued (LGateDecide, LGateCtx) - the error taken is the HEAD of the queue, it was really
   returned by some runnable's Run (not a cancellation), Run() has fixed exactly it as its result, no further
   runnable is ever started, and it is what Run() returns on every continuation. *)
Definition gate_fail_label (j : nat) (l : label) : Prop := l = LGateErr j \/ l = LGateDecide j \/ l = LGateCtx j.

Theorem sup_c03_abort_returns_that_error c s j l e q s1 ls s2 :
  reachable_sup c s -> gate_fail_label j l -> errq s = e :: q -> step c s l = Some s1 ->
  run (step c) s1 ls = Some s2 ->
  main s1 = MExit (ResErr e) /\ errq s1 = q /\ In e (real_error_ids (rev (hist s))) /\
  launched s2 = launched s /\ main_res (main s2) = Some (ResErr e) /\
  (forall r, main s2 = MReturned r -> r = ResErr e).
Proof.
  intros Hre Hl Hq H1 H2.
  assert (Hs1 : s1 = set_main (set_errq s q) (MExit (ResErr e))).
  { unfold step in H1. destruct Hl as [->|[->| ->]]; cbn [step0] in H1; rewrite ?Hq in H1;
      step_cases H1; rewrite ?Hq in H1; injection H1 as <-; reflexivity. }
  subst s1.
  assert (P : past_startup (set_main (set_errq s q) (MExit (ResErr e)))) by exact Logic.I.
  assert (M : main_res (main (set_main (set_errq s q) (MExit (ResErr e)))) = Some (ResErr e)) by reflexivity.
  pose proof (sup_c03_abort c _ ls s2 P H2) as L. pose proof (main_res_run c ls _ _ _ M H2) as R.
  split; [reflexivity|]. split; [reflexivity|]. split.
  - apply real_ids_rev. apply (ie_errq _ _ (InvErr_reachable _ _ Hre)). rewrite Hq. now left.
  - split; [exact L|]. split; [exact R|]. intros r Hr. rewrite Hr in R. cbn in R. congruence.
Qed.
