(* Base facts about the composite model: decidable equalities used by the acceptor, the
   soundness of the acceptor instance, reachability, and step-inversion helpers. *)
From Coq Require Import List NArith Bool Arith Lia.
From GS Require Import Errs LTS Composite CompositeMon.
Import ListNotations.

(* ------------------------------------------------------------------ boolean equalities *)

Lemma err_eqb_eq : forall a b, err_eqb a b = true -> a = b.
Proof.
  fix IH 1. intros a b; destruct a as [x| | |x|xs], b as [y| | |y|ys]; cbn; try discriminate; intros H.
  - apply N.eqb_eq in H. now subst.
  - reflexivity.
  - reflexivity.
  - f_equal. now apply IH.
  - f_equal. revert ys H. induction xs as [|x xs IHl]; intros [|y ys] H; try discriminate; [reflexivity|].
    apply andb_true_iff in H as [H1 H2]. f_equal; [now apply IH|now apply IHl].
Qed.

Lemma oerr_eqb_eq a b : oerr_eqb a b = true -> a = b.
Proof.
  destruct a, b; cbn; try discriminate; intros H; [|reflexivity].
  f_equal. now apply err_eqb_eq.
Qed.

Lemma err_eqb_refl : forall a, err_eqb a a = true.
Proof.
  fix IH 1. intros [x| | |x|xs]; cbn.
  - apply N.eqb_refl.
  - reflexivity.
  - reflexivity.
  - apply IH.
  - induction xs as [|x xs IHl]; [reflexivity|]. now rewrite IH, IHl.
Qed.

Lemma oerr_eqb_refl a : oerr_eqb a a = true.
Proof. destruct a; cbn; [apply err_eqb_refl|reflexivity]. Qed.

Lemma list_eqb_eq {A} (eqb : A -> A -> bool) :
  (forall a b, eqb a b = true -> a = b) -> forall l m, list_eqb eqb l m = true -> l = m.
Proof.
  intros He l; induction l as [|x l IH]; intros [|y m] H; cbn in H; try discriminate; [reflexivity|].
  apply andb_true_iff in H as [H1 H2]. f_equal; [now apply He|now apply IH].
Qed.

Lemma fstate_eqb_eq a b : fstate_eqb a b = true -> a = b.
Proof. destruct a, b; cbn; intros; try discriminate; reflexivity. Qed.

Lemma apiop_eqb_eq a b : apiop_eqb a b = true -> a = b.
Proof. destruct a, b; cbn; intros; try discriminate; reflexivity. Qed.

Lemma entry_eqb_eq a b : entry_eqb a b = true -> a = b.
Proof.
  destruct a as [a1 a2], b as [b1 b2]; unfold entry_eqb; cbn. intros H.
  apply andb_true_iff in H as [H1 H2]. apply N.eqb_eq in H1, H2. now subst.
Qed.

Lemma cbret_eqb_eq a b : cbret_eqb a b = true -> a = b.
Proof.
  destruct a, b; cbn; intros H; try discriminate; try reflexivity.
  f_equal. eapply list_eqb_eq; [apply entry_eqb_eq|exact H].
Qed.

Lemma cls_eqb_eq a b : cls_eqb a b = true -> a = b.
Proof.
  destruct a as [a1 a2 a3 a4], b as [b1 b2 b3 b4]; unfold cls_eqb; cbn. intros H.
  apply andb_true_iff in H as [H H4]. apply andb_true_iff in H as [H H3].
  apply andb_true_iff in H as [H1 H2].
  apply Bool.eqb_prop in H1, H2, H4.
  apply (list_eqb_eq N.eqb) in H3; [|intros x y Hx; now apply N.eqb_eq].
  now subst.
Qed.

Lemma event_eqb_eq a b : event_eqb a b = true -> a = b.
Proof.
  destruct a, b; cbn; intros H; try discriminate; try reflexivity;
    repeat match goal with
           | H : _ && _ = true |- _ => apply andb_true_iff in H as [? ?]
           end;
    repeat match goal with
           | H : N.eqb _ _ = true |- _ => apply N.eqb_eq in H
           | H : Nat.eqb _ _ = true |- _ => apply Nat.eqb_eq in H
           | H : apiop_eqb _ _ = true |- _ => apply apiop_eqb_eq in H
           | H : cls_eqb _ _ = true |- _ => apply cls_eqb_eq in H
           | H : oerr_eqb _ _ = true |- _ => apply oerr_eqb_eq in H
           | H : cbret_eqb _ _ = true |- _ => apply cbret_eqb_eq in H
           | H : fstate_eqb _ _ = true |- _ => apply fstate_eqb_eq in H
           end; subst; reflexivity.
Qed.

(* ------------------------------------------------------------------ the acceptor instance *)

Definition reach (P : params) (s : state) : Prop := reachable (step P) init s.

(* every state the acceptor returns for an observed trace is reached by a schedule of the
   model whose observable trace is exactly that trace *)
Theorem accept_sound P fuel tr s :
  In s (fst (accept P fuel tr)) ->
  exists ls, run (step P) init ls = Some s /\ obs_trace obs ls = tr.
Proof.
  unfold accept. apply accepts_sound. exact event_eqb_eq.
Qed.

Corollary accepted_reach P fuel tr s : In s (fst (accept P fuel tr)) -> reach P s.
Proof. intros H. destruct (accept_sound _ _ _ _ H) as (ls & Hr & _). now exists ls. Qed.

(* the incremental form used by the driver: closing the initial state, then one event at a time *)
Definition sound_set (P : params) (tr : list event) (S : list state) : Prop :=
  forall s, In s S -> exists ls, run (step P) init ls = Some s /\ obs_trace obs ls = tr.

Lemma accept0_sound P fuel : sound_set P [] (fst (accept0 P fuel)).
Proof.
  unfold accept0, sound_set.
  apply (close_sound state label event (step P) obs taus key init [] fuel [init]).
  intros x [<-|[]]. exists []. now split.
Qed.

Lemma accept1_sound P fuel tr S e :
  sound_set P tr S -> sound_set P (tr ++ [e]) (fst (accept1 P fuel S e)).
Proof.
  intros H. unfold accept1, sound_set.
  apply (close_sound state label event (step P) obs taus key init (tr ++ [e]) fuel).
  apply (succs_vis_sound state label event (step P) obs vis event_eqb event_eqb_eq init tr e S).
  exact H.
Qed.

(* a property of all schedules' observable traces holds of every accepted trace *)
Corollary accepted_property P fuel tr (Q : list event -> Prop) :
  (forall ls s, run (step P) init ls = Some s -> Q (obs_trace obs ls)) ->
  fst (accept P fuel tr) <> [] -> Q tr.
Proof.
  intros HQ Hne. unfold accept in Hne.
  eapply (accepted_trace_property state label event (step P) obs taus vis event_eqb event_eqb_eq key init fuel tr Q);
    eassumption.
Qed.

Lemma reach_inv P (Inv : state -> Prop) :
  Inv init -> (forall s l s', Inv s -> step P s l = Some s' -> Inv s') ->
  forall s, reach P s -> Inv s.
Proof. intros H0 Hs s Hr. eapply reachable_inv; eassumption. Qed.

(* invariant lifting with the reachability of the pre-state available *)
Lemma reach_inv_strong P (Inv : state -> Prop) :
  Inv init -> (forall s l s', reach P s -> Inv s -> step P s l = Some s' -> Inv s') ->
  forall s, reach P s -> Inv s.
Proof.
  intros H0 Hs s Hr.
  assert (H : reach P s /\ Inv s); [|apply H].
  revert s Hr. apply reach_inv.
  - split; [now exists []|exact H0].
  - intros s l s' [Hr Hi] Hst. split.
    + destruct Hr as [ls Hl]. exists (ls ++ [l]). rewrite run_app, Hl. cbn. now rewrite Hst.
    + eapply Hs; eassumption.
Qed.

(* ------------------------------------------------------------------ list update helpers *)

Lemma upd_length {A} i (f : A -> A) l : length (upd i f l) = length l.
Proof. revert i; induction l as [|x l IH]; intros [|i]; cbn; auto. Qed.

Lemma nth_error_upd_same {A} i (f : A -> A) l x :
  nth_error l i = Some x -> nth_error (upd i f l) i = Some (f x).
Proof.
  revert i; induction l as [|y l IH]; intros [|i] H; cbn in *; try discriminate.
  - now injection H as ->.
  - now apply IH.
Qed.

Lemma nth_error_upd_other {A} i j (f : A -> A) l : i <> j -> nth_error (upd i f l) j = nth_error l j.
Proof.
  revert i j; induction l as [|y l IH]; intros [|i] [|j] H; cbn; auto; try congruence.
Qed.

Lemma in_upd {A} i (f : A -> A) l y :
  In y (upd i f l) -> In y l \/ exists x, nth_error l i = Some x /\ y = f x.
Proof.
  revert i; induction l as [|x l IH]; intros [|i] H; cbn in *; auto.
  - destruct H as [<-|H]; [right; now exists x|left; now right].
  - destruct H as [<-|H]; [left; now left|].
    destruct (IH i H) as [H1|H1]; [left; now right|now right].
Qed.

Lemma upd_map_inv {A B} (g : A -> B) i (f : A -> A) l :
  (forall x, g (f x) = g x) -> map g (upd i f l) = map g l.
Proof.
  intros Hg. revert i; induction l as [|x l IH]; intros [|i]; cbn; auto; now rewrite ?Hg, ?IH.
Qed.
