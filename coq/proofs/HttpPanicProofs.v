(* C19 - the panic-site checker is sound (a table it accepts has every site covered by a rule whose required
   conditions the site carries), and the reasons that are not "by reading" are backed: WValidated and WSerialised
   by theorems of the protocol model, WNeverClosed by the absence of close() in the table. *)
From Coq Require Import String List Bool NArith ZArith.
From GS Require Import LTS HttpCfg HttpServer HttpCfgProofs HttpCtor HttpInv HttpInvStep HttpInvStep2 HttpProps HttpProgress HttpPanic.
Import ListNotations.

Lemma sites_ok_covered policy table :
  sites_ok policy table = true ->
  forall s, In s table -> exists r, In r policy /\ rule_matches r s = true /\ rule_wf r = true.
Proof.
  unfold sites_ok. intros H s Hs.
  apply andb_true_iff in H as [H _]. apply andb_true_iff in H as [Hwf Hall].
  rewrite forallb_forall in Hall. specialize (Hall s Hs). unfold site_ok in Hall.
  apply existsb_exists in Hall as (r & Hr & Hm). exists r. split; [exact Hr|]. split; [exact Hm|].
  rewrite forallb_forall in Hwf. now apply Hwf.
Qed.

(* a matching rule's conditions are really among the site's *)
Lemma rule_matches_needs r s c :
  rule_matches r s = true -> In c (r_need r) -> In c (ps_conds s).
Proof.
  unfold rule_matches. intros H Hc. apply andb_true_iff in H as [_ H].
  rewrite forallb_forall in H. specialize (H c Hc). unfold str_in in H.
  apply existsb_exists in H as (x & Hx & He). apply String.eqb_eq in He. now subst.
Qed.

Lemma sites_ok_no_close policy table :
  sites_ok policy table = true -> uses_never_closed policy = true ->
  forall s, In s table -> ps_kind s <> PClose.
Proof.
  unfold sites_ok. intros H Hu s Hs Hk. apply andb_true_iff in H as [_ H]. rewrite Hu in H. cbn in H.
  unfold no_close in H. rewrite forallb_forall in H. specialize (H s Hs). rewrite Hk in H. discriminate.
Qed.

(* what stands behind each reason *)
Definition why_backed (w : why) : Prop :=
  match w with
  | WValidated =>
    (* with the validating constructor no schedule of the runner reaches the ServeMux panic, and what the
       constructor accepts has patterns the mux accepts *)
    (forall sl mux_ok c0 ls s, run (step sl true mux_ok) (init c0) ls = Some s -> crashed s = false) /\
    (forall mux_ok a rs opts c, new_config true mux_ok a rs opts = Some c -> mux_ok (map rpath (routes c)) = true)
  | WSerialised =>
    (* the once is re-armed (LBootCreate) only by the holder of r.mutex, whose program counter is then in boot -
       not inside a stopServer's once.Do - in every reachable state, foreign binders included *)
    forall sl validated mux_ok c0 ls s sid c s',
      run (step sl validated mux_ok) (init c0) ls = Some s ->
      step sl validated mux_ok s (LBootCreate sid c) = Some s' ->
      holder s <> None /\ kpc s = KWantBoot
  | _ => True     (* checked on the table (WGuard, WRecovered, WNeverClosed) or established by reading and assumed *)
  end.

Theorem whys_backed : forall w, why_backed w.
Proof.
  destruct w; cbn; auto.
  - split.
    + intros. eapply crash_free_validated; eauto.
    + intros m a rs opts c H. destruct (new_config_validated m a rs opts c H) as (_ & -> & _ & E). exact E.
  - intros sl v m c0 ls s sid c s' Hr H.
    pose proof (inv0_reachable sl v m c0 ls s Hr) as I.
    unfold step, step_core in H. destruct (crashed s); [discriminate|].
    destruct (kpc s) eqn:Ek; try discriminate. split; [|reflexivity].
    intros Hh. apply (z_free _ I) in Hh. congruence.
Qed.
