(* C04: the result of Run() is an error some runnable's Run really returned, or the start-up
   timeout (only when the deadline can fire); nil when no runnable returned a real error. *)
From Coq Require Import List NArith Bool Arith Lia.
From GS Require Import LTS Supervisor SupAccept SupProps SupInv SupTrig.
Import ListNotations.

Definition real (s : state) (id : errid) : Prop := In id (real_error_ids (hist s)).

Definition res_ok (c : config) (s : state) (r : result) : Prop :=
  match r with
  | ResNil => True
  | ResErr id => real s id
  | ResTimeout => startup_may_fire c = true
  end.

Record InvErr (c : config) (s : state) : Prop := {
  ie_errq : forall id, In id (errq s) -> real s id;
  ie_rn : forall i id, rn_at s i = RnSending id -> real s id;
  ie_main : forall r, main_res (main s) = Some r -> res_ok c s r;
}.

Lemma real_mono c s l s' id : step c s l = Some s' -> real s id -> real s' id.
Proof.
  unfold real. intros H Hr. rewrite (step_hist _ _ _ _ H).
  destruct (obs l) as [e|]; [|exact Hr]. cbn [real_error_ids flat_map]. apply in_or_app. now right.
Qed.

Lemma res_ok_mono c s l s' r : step c s l = Some s' -> res_ok c s r -> res_ok c s' r.
Proof. destruct r; cbn; auto. intros. eapply real_mono; eassumption. Qed.

Lemma InvErr_init c : InvErr c (init c).
Proof.
  constructor; cbn.
  - intros id [].
  - intros i id. unfold rn_at, get. cbn.
    destruct (nth_repeat' RnDone RnNot (nrun c) i) as [-> | ->]; discriminate.
  - discriminate.
Qed.

Lemma rn_sending_upd l i p j id :
  nth j (upd l i p) RnDone = RnSending id ->
  p = RnSending id \/ get RnDone l j = RnSending id.
Proof.
  change (nth j (upd l i p) RnDone) with (get RnDone (upd l i p) j).
  destruct (get_upd_cases RnDone l i j p) as [-> | ->]; auto.
Qed.

Lemma real_ids_cons e h id : In id (real_error_ids h) -> In id (real_error_ids (e :: h)).
Proof. intros H. cbn [real_error_ids flat_map]. apply in_or_app. now right. Qed.

Lemma real_ids_here i id h : In id (real_error_ids (ERunRet i (Some (id, false)) :: h)).
Proof. cbn. now left. Qed.

Lemma InvErr_step c s l s' : InvErr c s -> step c s l = Some s' -> InvErr c s'.
Proof.
  intros [Iq Ir Im] H. unfold step in H.
  destruct l; cbn [step0] in H; unfold start_shutdown, store_state in H;
    step_cases H; inversion H; subst; clear H.
  all: try match goal with E : main _ = _ |- _ => rewrite <- E in Im end.
  all: try match goal with E : errq _ = _ |- _ => rewrite <- E in Iq end.
  all: constructor; unfold res_ok, real, rn_at in *; simp_st.
  (* errq *)
  all: try exact Iq.
  all: try (intros id Hin; apply real_ids_cons; revert id Hin; exact Iq).
  all: try (match goal with E : errq _ = _ :: _ |- forall id, In id _ -> _ =>
              intros id Hin; apply Iq; rewrite E; now right end).
  all: try (match goal with |- forall id, In id (_ ++ [_]) -> _ =>
              intros id Hin; apply in_app_or in Hin as [Hin|[<-|[]]];
              [apply Iq, Hin|eapply Ir; eassumption] end).
  (* rn *)
  all: try exact Ir.
  all: try (intros j id Hj; apply real_ids_cons; revert j id Hj; exact Ir).
  all: try (intros j id Hj; apply rn_sending_upd in Hj as [Hj|Hj];
            [try discriminate Hj|eapply Ir; exact Hj]).
  all: try (intros j id Hj; apply rn_sending_upd in Hj as [Hj|Hj];
            [try discriminate Hj; injection Hj as <-; apply real_ids_here
            |apply real_ids_cons; eapply Ir; exact Hj]).
  (* main *)
  all: try exact Im.
  all: try (intros r Hr; discriminate Hr).
  all: try (unfold after_launch; match goal with |- context [if ?b then _ else _] => destruct b end;
            intros r Hr; discriminate Hr).
  all: try (intros r Hr; specialize (Im r Hr); destruct r; auto; apply real_ids_cons; exact Im).
  all: try (intros r Hr; injection Hr as <-; try exact I;
            match goal with E : errq _ = ?e :: _ |- _ => apply Iq; rewrite E; now left end).
  all: try (intros r Hr; injection Hr as <-;
            match goal with E : _ && _ = true |- _ => apply andb_true_iff in E as [E _];
              apply andb_true_iff in E as [_ E]; exact E end).
  all: try (intros rr Hrr; injection Hrr as <-;
            match goal with E : main _ = _ |- _ => rewrite E in Im; specialize (Im _ eq_refl) end;
            first [exact Im | match goal with |- match ?x with _ => _ end => destruct x end; auto;
                              apply real_ids_cons; exact Im]).
  all: try (intros rr Hrr; injection Hrr as <-;
            match goal with E : (_ =? _) = true |- _ => apply Nat.eqb_eq in E; subst end;
            match goal with E : main _ = _ |- _ => rewrite E in Im; specialize (Im _ eq_refl) end;
            apply real_ids_cons; exact Im).
  all: try (intros rr Hrr; injection Hrr as <-;
            repeat match goal with E : _ && _ = true |- _ => apply andb_true_iff in E as [E ?] end; assumption).
Qed.

Lemma InvErr_reachable c s : reachable_sup c s -> InvErr c s.
Proof. apply sup_inv; [apply InvErr_init|apply InvErr_step]. Qed.

Lemma real_ids_rev id h : In id (real_error_ids h) -> In id (real_error_ids (rev h)).
Proof.
  unfold real_error_ids. rewrite !in_flat_map. intros (e & Hin & He). exists e. split; [|exact He].
  now apply in_rev in Hin.
Qed.

(* C04: a non-nil result is a real error returned by a runnable, or the start-up timeout *)
Theorem sup_c04_result c ls s :
  run (step c) (init c) ls = Some s -> c04_holdsb c (obs_trace obs ls) = true.
Proof.
  intros H. eapply all_check_reachable; [|exact H].
  intros s0 l s1 e Hre Hs Ho. destruct e; try reflexivity.
  destruct l; try discriminate Ho. injection Ho as ->.
  pose proof (InvErr_reachable _ _ Hre) as [_ _ Im].
  unfold step in Hs. cbn [step0] in Hs.
  destruct (main s0) eqn:Em; try discriminate Hs. destruct (sd s0); try discriminate Hs.
  specialize (Im r0 eq_refl).
  destruct r as [|a|], r0 as [|b|]; try discriminate Hs; cbn [chk_result]; auto.
  destruct (Nat.eqb a b) eqn:E; [|discriminate Hs]. apply Nat.eqb_eq in E; subst.
  apply existsb_exists. exists b. split; [apply real_ids_rev; exact Im|apply Nat.eqb_refl].
Qed.

(* hence: if no runnable returned a real error, Run() returns nil (or the start-up timeout when
   that deadline can fire) *)
Lemma chk_result_nil c pre e : chk_result c pre e = true -> chk_nil c pre e = true.
Proof.
  destruct e; try reflexivity. destruct r; cbn; destruct (real_error_ids pre); auto; discriminate.
Qed.

Lemma all_check_from_imp chk1 chk2 :
  (forall pre e, chk1 pre e = true -> chk2 pre e = true) ->
  forall t pre, all_check_from chk1 pre t = true -> all_check_from chk2 pre t = true.
Proof.
  intros Himp t; induction t as [|e t IH]; intros pre H; [reflexivity|].
  cbn [all_check_from] in *. apply andb_true_iff in H as [H1 H2].
  now rewrite (Himp _ _ H1), (IH _ H2).
Qed.

Theorem sup_c04_nil c ls s :
  run (step c) (init c) ls = Some s -> c04_nil c (obs_trace obs ls) = true.
Proof.
  intros H. unfold c04_nil, all_check.
  eapply all_check_from_imp; [apply chk_result_nil|]. exact (sup_c04_result _ _ _ H).
Qed.
