(* Preservation of the invariant of HttpInv.v by every step (no foreign binder). Part 1: the Run
   thread, the callers, and the reload bookkeeping. *)
From Coq Require Import List NArith ZArith Bool Lia.
From GS Require Import LTS HttpCfg HttpServer HttpCfgProofs HttpInv.
Import ListNotations.

Ltac brk :=
  repeat match goal with
         | H : _ /\ _ |- _ => destruct H
         | H : exists _, _ |- _ => destruct H
         | H : _ \/ _ |- _ => destruct H
         | H : unshut _ _ |- _ => destruct H as (? & ? & ?)
         | H : is_reload _ |- _ => destruct H
         | H : Some _ = Some _ |- _ => injection H as H
         | H : KStopWait _ = KStopWait _ |- _ => injection H as H
         | H : KCleanup _ = KCleanup _ |- _ => injection H as H
         | H : KProbe _ = KProbe _ |- _ => injection H as H
         | H : KBootFail _ = KBootFail _ |- _ => injection H as H
         end.

(* open a state into its fields *)
Ltac open_state s :=
  destruct s as [f c sv od er svs nt rp ho kp rw rr st sr ca rc cr]; cbn in *.

Ltac easy_goal :=
  cbn in *; intros; subst; brk; subst; cbn in *;
  try discriminate; try contradiction; try congruence; try tauto; eauto.

Ltac nthnil := match goal with H : nth_error [] ?j = Some _ |- _ => destruct j; discriminate end.
Ltac start I s := destruct I; unfold unshut, is_reload in *; open_state s.
Ltac use_hyps :=
  match goal with
  | H : forall j sv, nth_error _ j = Some sv -> _ |- _ =>
    solve [eapply H; eauto; try discriminate; try congruence; try (intros [? ?]; brk; discriminate)]
  | H : forall j, _ -> _ |- _ =>
    solve [eapply H; eauto; try discriminate; try congruence]
  | H : forall a j, In _ _ -> _ |- _ => solve [eapply H; eauto]
  | H : forall a o, In _ _ -> _ |- _ => solve [eapply H; eauto]
  end.
Ltac fwd := repeat match goal with
                    | H : ?P -> _, H' : ?P |- _ => specialize (H H')
                    | H : ?x = ?x -> _ |- _ => specialize (H eq_refl)
                    end.
Ltac use_has :=
  match goal with
  | H : _ -> ex _ |- ex _ => solve [apply H; intuition (auto; congruence)]
  end.
Ltac fin := constructor; unfold unshut, is_reload; cbn; intros; brk; subst; cbn in *;
            try discriminate; try contradiction; try nthnil; try tauto; try congruence;
            try (split; intros; discriminate); eauto; try use_hyps; try use_has;
            try (fwd; brk; subst; try discriminate; try congruence; eauto).

Section Step.
  Variable stop_locked : bool.
  Variable validated : bool.
  Variable mux_ok : list str -> bool.
  Notation Inv := (Inv stop_locked mux_ok).

  (* labels that touch none of the fields the invariant reads *)
  Definition same_core (s s' : state) : Prop :=
    fsm_st s' = fsm_st s /\ cur s' = cur s /\ server s' = server s /\ once_done s' = once_done s /\
    errs s' = errs s /\ servers s' = servers s /\ net s' = net s /\ rpc s' = rpc s /\
    holder s' = holder s /\ kpc s' = kpc s.

  Lemma inv_same_core s s' : same_core s s' -> Inv s -> Inv s'.
  Proof.
    intros (E1 & E2 & E3 & E4 & E5 & E6 & E7 & E8 & E9 & E10) I.
    destruct I. constructor; unfold unshut in *; rewrite ?E1, ?E2, ?E3, ?E4, ?E5, ?E6, ?E7, ?E8, ?E9, ?E10; assumption.
  Qed.

  Lemma same_core_env s a b c d : same_core s (with_env s a b c d).
  Proof. repeat split. Qed.
  Lemma same_core_rl s a b : same_core s (with_rl s a b).
  Proof. repeat split. Qed.
  Lemma same_core_crashed s : same_core s (with_crashed s).
  Proof. repeat split. Qed.
  Lemma same_core_refl s : same_core s s.
  Proof. repeat split. Qed.

  Lemma step_RunCall s s' : Inv s -> step_core stop_locked validated mux_ok s LRunCall = Some s' -> Inv s'.
  Proof.
    intros I H. unfold step_core in H. destruct (crashed s); [discriminate|].
    destruct (rpc s) eqn:Er; try discriminate. injection H as <-.
    start I s. subst rp.
    destruct i_early as (-> & -> & ->); [now left|]. rewrite i_new in * by now left.
    fin.
  Qed.

  Lemma step_RunStart s s' : Inv s -> step_core stop_locked validated mux_ok s LRunStart = Some s' -> Inv s'.
  Proof.
    intros I H. unfold step_core in H. destruct (crashed s); [discriminate|].
    destruct (rpc s) eqn:Er; try discriminate.
    start I s. subst rp.
    destruct i_early as (-> & -> & ->); [auto|]. rewrite i_new in * by now right. cbn in H. injection H as <-.
    fin.
  Qed.

  Lemma step_RunLock s s' : Inv s -> step_core stop_locked validated mux_ok s LRunLock = Some s' -> Inv s'.
  Proof.
    intros I H. unfold step_core in H. destruct (crashed s); [discriminate|].
    destruct (rpc s) eqn:Er; try discriminate. destruct (holder s) eqn:Eh; try discriminate.
    injection H as <-. start I s. subst rp ho.
    assert (f = FBooting) by (apply i_boot; auto). subst f.
    assert (kp = KFree) by (now apply i_free). subst kp.
    destruct i_early as (-> & -> & _); [auto|].
    fin.
  Qed.

  Lemma step_RunFinishBoot s s' : Inv s -> step_core stop_locked validated mux_ok s LRunFinishBoot = Some s' -> Inv s'.
  Proof.
    intros I H. unfold step_core in H. destruct (crashed s); [discriminate|].
    destruct (rpc s) eqn:Er; try discriminate.
    start I s. subst rp.
    assert (f = FBooting) by (apply i_boot; auto). subst f. cbn in H. injection H as <-.
    assert (ho = None).
    { destruct ho as [[|i]|]; [| |reflexivity].
      - destruct i_run as [[? _]|[? _]]; [reflexivity| |]; discriminate.
      - specialize (i_rel i eq_refl). discriminate. }
    subst ho. assert (kp = KFree) by (now apply i_free). subst kp.
    fin.
  Qed.

  Lemma step_RunWake s s' : Inv s -> step_core stop_locked validated mux_ok s LRunWake = Some s' -> Inv s'.
  Proof.
    intros I H. unfold step_core in H. destruct (crashed s); [discriminate|].
    destruct (rpc s) eqn:Er; try discriminate.
    destruct (cancelled s || stop_req s); [|discriminate]. injection H as <-.
    unfold transition. start I s. subst rp.
    destruct ho as [[|i]|].
    - destruct i_run as [[? _]|[? _]]; [reflexivity| |]; discriminate.
    - rewrite (i_rel i eq_refl) in *. destruct stop_locked; cbn; fin.
    - destruct stop_locked; [fin|]. destruct (fsm_allowed f FStopping) eqn:Ea; fin.
  Qed.

  Lemma step_RunServeErr s s' : Inv s -> step_core stop_locked validated mux_ok s LRunServeErr = Some s' -> Inv s'.
  Proof.
    intros I H. unfold step_core in H. destruct (crashed s); [discriminate|].
    destruct (rpc s); try discriminate. rewrite (i_errs _ _ _ I) in H. discriminate.
  Qed.

  Lemma step_RunLockStop s s' : Inv s -> step_core stop_locked validated mux_ok s LRunLockStop = Some s' -> Inv s'.
  Proof.
    intros I H. unfold step_core in H. destruct (crashed s); [discriminate|].
    destruct (rpc s) eqn:Er; try discriminate. destruct (holder s) eqn:Eh; try discriminate.
    injection H as <-. unfold transition. start I s. subst rp ho.
    assert (kp = KFree) by (now apply i_free). subst kp.
    assert (Hnr : f <> FReloading) by (intros ->; destruct (i_reloading eq_refl); discriminate).
    destruct stop_locked; [|fin].
    destruct (fsm_allowed f FStopping) eqn:Ea; [fin|].
    assert (Hnrun : f <> FRunning) by (intros ->; discriminate).
    fin.
    all: match goal with |- ?G => idtac "GOAL:" G end.
  Qed.

  Lemma step_RunRet s s' r : Inv s -> step_core stop_locked validated mux_ok s (LRunRet r) = Some s' -> Inv s'.
  Proof.
    intros I H. unfold step_core in H. destruct (crashed s); [discriminate|].
    destruct (rpc s) eqn:Er; try discriminate.
    destruct (N.eqb (rres_code r) (rres_code r0)); [|discriminate]. injection H as <-.
    start I s. subst rp.
    destruct i_ret as (Hf & -> & Hs); [left; eauto|].
    assert (kp = KFree) by (now apply i_free). subst kp.
    assert (forall j sv, nth_error svs j = Some sv -> s_shut sv = false -> False)
      by (intros j sv0 H1 H2; rewrite (Hs j sv0 H1) in H2; discriminate).
    fin; try (exfalso; eauto).
  Qed.

  Lemma step_frame s s' l :
    match l with
    | LStopCall _ | LStopRet _ | LCancel | LReloadCall _ | LReloadRet _ | LBootCrash
    | LObsState _ | LObsDial _ _ | LObsServe _ _ | LObsCensus _ => True
    | _ => False
    end ->
    Inv s -> step_core stop_locked validated mux_ok s l = Some s' -> Inv s'.
  Proof.
    intros Hl I H. unfold step_core in H. destruct (crashed s); [discriminate|].
    eapply inv_same_core; [|exact I].
    destruct l; try contradiction.
    - destruct (mem j (stoppers s)); [discriminate|]. injection H as <-. apply same_core_env.
    - destruct (mem j (stoppers s)); [|discriminate]. destruct (rpc s); try discriminate; injection H as <-; apply same_core_env.
    - injection H as <-. apply same_core_env.
    - destruct (mem i (rl_wait s) || mem i (rl_ret s)); [discriminate|].
      destruct (holder s) as [[|k]|]; try (injection H as <-; apply same_core_rl).
      destruct (Nat.eqb i k); [discriminate|]. injection H as <-. apply same_core_rl.
    - destruct (mem i (rl_ret s)); [|discriminate]. injection H as <-. apply same_core_rl.
    - destruct (kpc s); try discriminate. destruct (_ && _); [|discriminate]. injection H as <-. apply same_core_crashed.
    - destruct (fsm_eqb f (fsm_st s)); [|discriminate]. injection H as <-. apply same_core_refl.
    - destruct (_ || _); [|discriminate]. injection H as <-. apply same_core_refl.
    - destruct (net_get (net s) a) as [[|sid]|]; try discriminate.
      destruct (srv_at s sid); [|discriminate]. destruct (forallb _ _); [|discriminate]. injection H as <-. apply same_core_refl.
    - destruct (Nat.eqb _ _); [|discriminate]. injection H as <-. apply same_core_refl.
  Qed.

  Lemma step_ReloadBegin s s' i : Inv s -> step_core stop_locked validated mux_ok s (LReloadBegin i) = Some s' -> Inv s'.
  Proof.
    intros I H. unfold step_core in H. destruct (crashed s); [discriminate|].
    destruct (mem i (rl_wait s)); [|discriminate]. destruct (holder s) eqn:Eh; [discriminate|].
    destruct (fsm_allowed (fsm_st s) FReloading) eqn:Ea.
    2:{ injection H as <-. eapply inv_same_core; [apply same_core_rl|exact I]. }
    injection H as <-. start I s. subst ho.
    assert (f = FRunning) by (destruct f; cbn in Ea; congruence). subst f.
    assert (kp = KFree) by (now apply i_free). subst kp.
    assert (Hr : rp = RSelect \/ rp = RWantStop).
    { destruct i_running as [?|[?|?]]; auto. exfalso. assert (@None who = Some ByRun) by (apply i_rpc; auto). discriminate. }
    assert (Hl : exists j, sv = Some j /\ (exists sv0, nth_error svs j = Some sv0 /\ s_shut sv0 = false))
      by (apply i_has; left; split; [reflexivity|tauto]).
    destruct Hr; subst rp; fin.
    all: match goal with |- ?G => idtac "GOAL:" G end.
  Qed.
End Step.
