(* Basic facts about the machine model used by the other Fsm* proof files. *)
From Coq Require Import List NArith Bool Lia.
From GS Require Import LTS Fsm.
Import ListNotations.

Lemma st_eqb_eq a b : st_eqb a b = true <-> a = b.
Proof. destruct a, b; cbn; split; intros; congruence. Qed.

Lemma st_eqb_refl a : st_eqb a a = true.
Proof. destruct a; reflexivity. Qed.

Lemma with_sub_inv s i g s' :
  with_sub s i g = Some s' ->
  exists x y, nth_error (subs s) i = Some x /\ g x = Some y /\
              s' = set_subs s (upd i (fun _ => y) (subs s)).
Proof.
  unfold with_sub. destruct (nth_error (subs s) i) as [x|]; [|discriminate].
  destruct (g x) as [y|] eqn:E; [|discriminate]. intros H; inversion H; subst. eauto.
Qed.

Lemma with_sub_frame s i g s' :
  with_sub s i g = Some s' -> cur s' = cur s /\ hist s' = hist s /\ pend s' = pend s.
Proof. intros H. apply with_sub_inv in H as (x & y & _ & _ & ->). cbn. auto. Qed.

(* every label except a machine call leaves the current state and the history alone *)
Lemma step_nonop_cur cfg (m m' : state) (l : label) :
  (forall o ok, l <> LOp o ok) -> step cfg m l = Some m' -> cur m' = cur m /\ hist m' = hist m.
Proof.
  intros Hl H. destruct l; try (exfalso; eapply Hl; reflexivity); unfold step in H; cbn [stepx fix_fwd] in H;
    try (apply with_sub_frame in H; tauto).
  - destruct (is_nil (pend m)); inversion H; subst; cbn; auto.
  - destruct (memn i (pend m)); [|discriminate].
    match type of H with context [with_sub m i ?g] => destruct (with_sub m i g) eqn:E end; [|discriminate].
    apply with_sub_frame in E. inversion H; subst; cbn; tauto.
  - destruct (memn i (pend m)); [|discriminate].
    match type of H with context [with_sub m i ?g] => destruct (with_sub m i g) eqn:E end; [|discriminate].
    apply with_sub_frame in E. inversion H; subst; cbn; tauto.
  - destruct (is_nil (pend m)); [|discriminate]. apply with_sub_frame in H; tauto.
  - destruct (st_eqb (cur m) v); inversion H; subst; auto.
  - destruct (Bool.eqb (st_eqb (cur m) Running) b); inversion H; subst; auto.
Qed.

Lemma nth_error_upd l i j f :
  nth_error (upd i f l) j = if Nat.eqb j i then option_map f (nth_error l i) else nth_error l j.
Proof.
  revert i j; induction l as [|x t IH]; intros i j.
  - destruct i, j; cbn; try reflexivity. destruct (Nat.eqb j i); reflexivity.
  - destruct i, j; cbn; try reflexivity. apply IH.
Qed.

Lemma length_upd l i f : length (upd i f l) = length l.
Proof. revert i; induction l as [|x t IH]; intros [|i]; cbn; auto. Qed.
